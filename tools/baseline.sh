#!/bin/bash
# tools/baseline.sh <out.json> : run the repo's pinned suite with the verif guard off and compare with BASELINE.json's stable_pass
export GOFLAGS=-mod=mod GOPROXY=off GOSUMDB=off GOTOOLCHAIN=local
out=${1:-/var/tmp/baseline.json}
(cd /repo && go test -mod=mod -json -vet=off -count=1 -timeout 25m ./... > $out 2>/var/tmp/baseline.err)
python3 - "$out" <<'PY'
import json,sys
stable=json.load(open('/root/.vp/BASELINE.json'))['stable_pass']
res={}
for l in open(sys.argv[1],errors='replace'):
    try: e=json.loads(l)
    except Exception: continue
    if e.get('Test') and e.get('Action') in ('pass','fail','skip'):
        # top-level tests only
        if '/' in e['Test']: continue
        res[e['Package']+'::'+e['Test']]=e['Action']
bad=[t for t in stable if res.get(t)!='pass']
print("stable_pass total",len(stable),"passing now",len(stable)-len(bad))
for t in bad: print("NOT PASSING:",t,res.get(t))
print("other failures:",[t for t,a in res.items() if a=='fail' and t not in stable])
PY
