#!/bin/bash
# tools/seedregress.sh [ids...] : run every recorded seeded patch against its check (quick, seed 1); one line each
export GOFLAGS=-mod=mod GOPROXY=off GOSUMDB=off GOTOOLCHAIN=local
cd /verif
ids="$@"; [ -z "$ids" ] && ids=$(ls seeded | sort)
for id in $ids; do
  c=$(echo $id | cut -c1-3 | tr a-z A-Z)
  [ -f seeded/$id/patch.diff ] || continue
  r=$(tools/muttest.py $c --patch seeded/$id/patch.diff 2>&1 | grep "MUTANT\|Error\|MUTATION-ERROR" | tail -1)
  echo "$id $r"
done
