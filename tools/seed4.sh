#!/bin/bash
# tools/seed4.sh cNN : verify + test a round-4 seed living in /tmp/seed4-cNN (or /tmp/seed4-cNN-out), store as seeded/cNN-4
c=$1; C=$(echo $c | tr a-z A-Z)
cd /verif
tools/seedverify.sh /tmp/seed4-$c 2>&1 | tail -1
mkdir -p seeded/$c-4; cp /tmp/seed4-$c/SEED/* seeded/$c-4/ 2>/dev/null || cp /tmp/seed4-$c-out/* seeded/$c-4/
tools/muttest.py $C --patch seeded/$c-4/patch.diff | grep -v "^VIOLATION\|^KNOWN" | tail -6 | cut -c1-400
