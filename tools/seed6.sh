#!/bin/bash
# tools/seed6.sh cNN : verify + test a round-6 seed living in /tmp/seed6-cNN (or /tmp/seed6-cNN-out), store as seeded/cNN-6
c=$1; C=$(echo $c | tr a-z A-Z)
cd /verif
tools/seedverify.sh /tmp/seed6-$c 2>&1 | tail -1
mkdir -p seeded/$c-6; cp /tmp/seed6-$c/SEED/* seeded/$c-6/ 2>/dev/null || cp /tmp/seed6-$c-out/* seeded/$c-6/
tools/muttest.py $C --patch seeded/$c-6/patch.diff | grep -v "^VIOLATION\|^KNOWN" | tail -6 | cut -c1-600
