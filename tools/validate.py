#!/opt/veriftools/pyvenv/bin/python
import json, sys, glob, jsonschema
ms = json.load(open('/root/.vp/MANIFEST.schema.json')); es = json.load(open('/root/.vp/EVIDENCE.schema.json'))
m = json.load(open('/verif/MANIFEST.json')); jsonschema.validate(m, ms)
bad = 0
for c in m['checks']:
    try:
        e = json.load(open(c['evidence_file'])); jsonschema.validate(e, es)
        assert e['level'] == c['level_claimed']['category'], "level mismatch"
    except Exception as ex:
        bad += 1; print("BAD", c['property_id'], str(ex)[:300])
print("manifest ok; evidence bad:", bad)
sys.exit(1 if bad else 0)
