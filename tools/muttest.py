#!/usr/bin/env python3
"""tools/muttest.py CNN [--tier quick] [--patch file.diff | <relfile> <old> <new> [<relfile> <old> <new> ...]]
Runs a check against a mutated scratch copy of /repo and reports whether it was caught. Cleans up."""
import os, shutil, subprocess, sys, tempfile
args = sys.argv[1:]
cid = args.pop(0)
tier = "quick"
patch = None
if args and args[0] == "--tier":
    args.pop(0); tier = args.pop(0)
if args and args[0] == "--patch":
    args.pop(0); patch = os.path.abspath(args.pop(0))
d = tempfile.mkdtemp(prefix="mut-%s-" % cid, dir="/tmp")
dst = os.path.join(d, "pd")
try:
    subprocess.check_call(["rsync", "-a", "--exclude", ".git", "/repo/", dst + "/"])
    if patch:
        subprocess.check_call(["patch", "-p1", "-s", "-i", patch], cwd=dst)
    while args:
        f, old, new = args[0], args[1], args[2]; args = args[3:]
        p = os.path.join(dst, f); s = open(p).read()
        if s.count(old) != 1:
            print("MUTATION-ERROR: %d occurrences of %r in %s" % (s.count(old), old, f)); sys.exit(3)
        open(p, "w").write(s.replace(old, new))
    env = dict(os.environ, VERIF_REPO=dst)
    r = subprocess.run(["/verif/check", cid, tier], env=env, stdout=subprocess.PIPE, stderr=subprocess.STDOUT, cwd="/verif")
    out = r.stdout.decode(errors="replace")
    lines = [l for l in out.splitlines() if l.startswith(("VIOLATION", "  key=", "  what=", "KNOWN", "INCONCLUSIVE", "CHECK", "SUMMARY"))]
    print("\n".join(lines[-14:]))
    print("KEYS: " + ", ".join(sorted({l.strip()[4:] for l in lines if l.startswith("  key=")})[:12]))
    print("MUTANT %s: %s" % (cid, {0: "MISSED (exit 0)", 1: "CAUGHT", 2: "INCONCLUSIVE"}.get(r.returncode, "exit %d" % r.returncode)))
    if not os.environ.get("MUTTEST_KEEP"):
        # the run's work dir (witnesses of the mutant) is only kept on request
        for l in out.splitlines():
            if l.startswith("work dir kept: "):
                shutil.rmtree(l[len("work dir kept: "):].strip(), ignore_errors=True)
finally:
    shutil.rmtree(d, ignore_errors=True)
