#!/bin/bash
# tools/sweep.sh <tier> <seed...> : run every registered check sequentially, print one line each
cd /verif
tier=$1; shift
for s in "$@"; do
  for c in $(python3 -c "import json;print(' '.join(json.load(open('registered.json'))))"); do
    VERIF_SEED=$s ./check $c $tier 2>&1 | grep "^CHECK\|^VIOLATION\|^INCONCLUSIVE" | tr '\n' ' '; echo
  done
done
