#!/bin/bash
# tools/seed3.sh cNN : verify + test a round-3 seed living in /tmp/seed3-cNN (or /tmp/seed3-cNN-out), store as seeded/cNN-3
c=$1; C=$(echo $c | tr a-z A-Z)
cd /verif
tools/seedverify.sh /tmp/seed3-$c 2>&1 | tail -1
mkdir -p seeded/$c-3; cp /tmp/seed3-$c/SEED/* seeded/$c-3/ 2>/dev/null || cp /tmp/seed3-$c-out/* seeded/$c-3/
tools/muttest.py $C --patch seeded/$c-3/patch.diff | grep -v "^VIOLATION\|^KNOWN" | tail -6 | cut -c1-400
