#!/bin/bash
# tools/seed5.sh cNN : verify + test a round-5 seed living in /tmp/seed5-cNN (or /tmp/seed5-cNN-out), store as seeded/cNN-5
c=$1; C=$(echo $c | tr a-z A-Z)
cd /verif
tools/seedverify.sh /tmp/seed5-$c 2>&1 | tail -1
mkdir -p seeded/$c-5; cp /tmp/seed5-$c/SEED/* seeded/$c-5/ 2>/dev/null || cp /tmp/seed5-$c-out/* seeded/$c-5/
tools/muttest.py $C --patch seeded/$c-5/patch.diff | grep -v "^VIOLATION\|^KNOWN" | tail -6 | cut -c1-500
