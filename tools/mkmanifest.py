#!/usr/bin/env python3
"""Regenerates /verif/MANIFEST.json from checks.json (single source of per-check metadata)."""
import json, os
ROOT = os.path.dirname(os.path.dirname(os.path.abspath(__file__)))
import glob
cfg = {os.path.basename(os.path.dirname(f)).upper(): json.load(open(f)) for f in glob.glob(os.path.join(ROOT, "harness", "c[0-9][0-9]", "check.json"))}
props = [json.loads(l) for l in open(os.path.join(ROOT, "properties.jsonl"))]
checks, na = [], []
allow = set(json.load(open(os.path.join(ROOT, "registered.json"))))
for p in props:
    cid = p["id"]
    c = cfg.get(cid)
    if not c or not c.get("registered") or cid not in allow:
        na.append({"property_id": cid, "reason": (c or {}).get("na_reason", "check not built yet; not claimed until its monitor has been validated on the unchanged tree and against seeded breaks")})
        continue
    checks.append({
        "property_id": cid,
        "quick_cmd": "./check %s quick" % cid,
        "thorough_cmd": "./check %s thorough" % cid,
        "evidence_file": "/verif/evidence/%s.json" % cid,
        "replay_cmd_template": "./check %s --replay {path}" % cid,
        "engine": "harness/" + cid.lower(),
        "level_claimed": {"category": c["level"], "text": c["text"], "design_ref": "DESIGN.md §3 " + cid},
        "level_note": c["note"],
        "technique": c["technique"],
    })
m = {
    "version": 1,
    "setup_cmd": "./setup.sh",
    "hooks": {
        "guard": "verif",
        "enable": "go build -race -tags verif (harness module verif/harness with replace github.com/tikv/pd => /repo); hook files are new //go:build verif files only",
        "baseline_off_cmd": "cd /repo && go test -mod=mod -json -vet=off -count=1 -timeout 25m ./...",
        "source_commits": json.load(open(os.path.join(ROOT, "hooks.json")))["source_commits"],
        "add_only": True,
    },
    "engines": [{"name": "harness/" + c["property_id"].lower(), "path": "/verif/harness/" + c["property_id"].lower(),
                 "serves_properties": [c["property_id"]], "kind_free_text": c["technique"]} for c in checks],
    "checks": checks,
    "not_applicable": na,
    "notes": "Runtime monitoring only: every check runs the real pd code built from /repo's working tree with -race -tags verif under generated/hostile/fault-injected workloads; oracles are monitors over recorded histories and hooked state. Exit 0 held / 1 VIOLATION / 2 inconclusive. known_findings.json lists fixed and known defects.",
}
json.dump(m, open(os.path.join(ROOT, "MANIFEST.json"), "w"), indent=1)
print("checks:", [c["property_id"] for c in checks], "not claimed:", [n["property_id"] for n in na])
