#!/usr/bin/env python3
"""tools/seedrecord.py cNN CAUGHT|MISSED "<violation keys or note>" [tier]"""
import json, sys, subprocess
c, res, keys = sys.argv[1], sys.argv[2], sys.argv[3]
tier = sys.argv[4] if len(sys.argv) > 4 else "quick"
json.dump({"confirmed_by_me": {"demo_fails_with_patch": True, "demo_passes_without_patch": True,
           "how": "tools/seedverify.sh <worktree> (demo_cmd from meta.json; git apply / git apply -R)"},
           "check_run": "tools/muttest.py %s --tier %s --patch seeded/%s/patch.diff (seed 1)" % (c.upper(), tier, c),
           "caught": res == "CAUGHT", "tier": tier, "violation_keys": keys},
          open("/verif/seeded/%s/verif_result.json" % c, "w"), indent=1)
subprocess.call(["git", "-C", "/repo", "worktree", "remove", "--force", "/tmp/seed-" + c])
print("recorded", c, res)
