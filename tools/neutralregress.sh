#!/bin/bash
# tools/neutralregress.sh [cNN...] : re-run every recorded behaviour-preserving patch; every line must say MISSED (exit 0)
export GOFLAGS=-mod=mod GOPROXY=off GOSUMDB=off GOTOOLCHAIN=local
cd /verif
ids="$@"; [ -z "$ids" ] && ids=$(ls neutral | sort)
for c in $ids; do
  C=$(echo $c | tr a-z A-Z)
  for n in n1 n2 n3; do
    [ -f neutral/$c/$n.diff ] || continue
    r=$(tools/muttest.py $C --patch neutral/$c/$n.diff 2>&1 | grep "MUTANT\|Error\|MUTATION-ERROR\|  key=" | tac | tr '\n' ' ' | cut -c1-300)
    echo "$c $n $r"
  done
done
