#!/bin/bash
# tools/seedverify.sh <worktree> : confirm that the demo fails with the patch and passes without it
export GOFLAGS=-mod=mod GOPROXY=off GOSUMDB=off GOTOOLCHAIN=local
WT=$1
cd $WT || exit 2
CMD=$(python3 -c "import json;print(json.load(open('SEED/meta.json'))['demo_cmd'])")
git apply -R --check SEED/patch.diff 2>/dev/null || { echo "patch not applied in worktree; applying"; git apply SEED/patch.diff || exit 2; }
echo "--- WITH patch:"; bash -c "$CMD" > /tmp/sv-with.log 2>&1; W=$?; tail -3 /tmp/sv-with.log
git apply -R SEED/patch.diff || exit 2
echo "--- WITHOUT patch:"; bash -c "$CMD" > /tmp/sv-without.log 2>&1; WO=$?; tail -3 /tmp/sv-without.log
git apply SEED/patch.diff
echo "RESULT with=$W without=$WO  (expected with!=0 without=0)"
