#!/bin/bash
# tools/neutral.sh cNN : run check CNN against each behaviour-preserving patch in /tmp/neu-cNN/NEUTRAL; expect exit 0
c=$1; C=$(echo $c | tr a-z A-Z)
cd /verif
mkdir -p neutral/$c; cp /tmp/neu-$c/NEUTRAL/* neutral/$c/ 2>/dev/null
for n in n1 n2 n3; do
  [ -f neutral/$c/$n.diff ] || continue
  echo "--- $c $n"
  tools/muttest.py $C --patch neutral/$c/$n.diff | grep "key=\|MUTANT\|INCONCLUSIVE" | head -6 | cut -c1-250
done
