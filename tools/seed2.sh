#!/bin/bash
# tools/seed2.sh cNN : verify + test a round-2 seed living in /tmp/seed2-cNN, store as seeded/cNN-2
c=$1; C=$(echo $c | tr a-z A-Z)
cd /verif
tools/seedverify.sh /tmp/seed2-$c 2>&1 | tail -1
mkdir -p seeded/$c-2; cp /tmp/seed2-$c/SEED/* seeded/$c-2/
tools/muttest.py $C --patch seeded/$c-2/patch.diff | grep -v "^VIOLATION\|^KNOWN" | tail -6 | cut -c1-400
