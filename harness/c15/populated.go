package main

import (
	"fmt"
	"math"
	"math/rand"
	"sort"
)

// svcNames returns n distinct service ids that are rich in prefix relations ("job-1", "job-10",
// "job-100", "a", "ab", "ab-") the way real ids are (br, br-2, ticdc, ticdc-changefeed-...).
func svcNames(rng *rand.Rand, n int) []string {
	seen := map[string]bool{"gc_worker": true}
	var out []string
	add := func(s string) {
		if !seen[s] && len(out) < n {
			seen[s] = true
			out = append(out, s)
		}
	}
	stems := []string{"job-", "tikv-br", "ticdc", "g", "gc", "gc_", "gc_worker-", "z"}
	for len(out) < n {
		switch rng.Intn(3) {
		case 0:
			add(fmt.Sprintf("%s%d", stems[rng.Intn(len(stems))], rng.Intn(1200)))
		case 1:
			add(stems[rng.Intn(len(stems))])
		default:
			l := 1 + rng.Intn(5)
			b := make([]byte, l)
			for i := range b {
				b[i] = "ab-1"[rng.Intn(4)]
			}
			add(string(b))
		}
	}
	return out
}

// servicePopulatedPhase: many registered services (around and beyond every plausible page size of
// the storage scan) with prefix-related ids; then the services are removed one by one in the
// order of their safe points, so that every service is the minimum once and the scan boundaries
// move over every key. After every acknowledged request the reported minimum must not be above any
// live service and the collector's own entry must be listed with unlimited lifetime.
func (e *env) servicePopulatedPhase(rng *rand.Rand) {
	r := e.r
	worlds := r.Pick(4, 24)
	const far = uint64(1) << 40
	for wi := 0; wi < worlds; wi++ {
		e.clearServices()
		if _, err := e.svcUpdate("gc_worker", 50, math.MaxInt64); err != nil {
			r.Inconclusive("populated services setup: %v", err)
			return
		}
		n := []int{60, 99, 100, 101, 130, 199, 200, 201, 260, 330}[rng.Intn(10)] + rng.Intn(3) - 1
		names := svcNames(rng, n)
		model := map[string]uint64{}
		sps := rng.Perm(n)
		for i, id := range names {
			sp := uint64(1000 + 3*sps[i])
			if _, err := e.svcUpdate(id, sp, 3600); err != nil {
				r.Inconclusive("populated services: registration failed: %v", err)
				return
			}
			model[id] = sp
		}
		steps := 0
		check := func(after string, min uint64) bool {
			steps++
			wit := func() map[string]interface{} {
				ids := make([]string, 0, len(model))
				for id := range model {
					ids = append(ids, id)
				}
				sort.Strings(ids)
				return map[string]interface{}{"world": wi, "registered_initially": n, "after": after, "live_ids_sorted": ids, "live": model, "reported_min": min}
			}
			for id, sp := range model {
				if min > sp {
					r.Violation("service-safepoint:min-above-live-service:populated", fmt.Sprintf("with %d live services, reported minimum %d is above live service %s@%d", len(model)+1, min, id, sp), wit())
					return false
				}
			}
			all, err := e.s.GetStorage().GetAllServiceGCSafePoints()
			if err == nil {
				ok := false
				for _, s := range all {
					if s.ServiceID == "gc_worker" && s.ExpiredAt == math.MaxInt64 {
						ok = true
					}
				}
				if !ok {
					r.Violation("service-safepoint:gc_worker-missing-or-finite:populated", fmt.Sprintf("with %d live services the gc_worker entry is not listed with unlimited lifetime", len(model)+1), wit())
					return false
				}
			}
			return true
		}
		resp, err := e.svcUpdate("gc_worker", far, math.MaxInt64)
		if err != nil {
			r.Inconclusive("populated services: %v", err)
			return
		}
		good := check("gc_worker raised above every service", resp.MinSafePoint)
		for good && len(model) > 0 {
			// the live service holding the minimum
			var mid string
			for id, sp := range model {
				if mid == "" || sp < model[mid] {
					mid = id
				}
			}
			resp, err := e.svcUpdate(mid, model[mid], 0) // non-positive TTL: removal
			if err != nil {
				r.Inconclusive("populated services: removal failed: %v", err)
				return
			}
			delete(model, mid)
			good = check("removal of "+mid, resp.MinSafePoint)
		}
		r.Eval(1)
		r.Count("populated_service_worlds", 1)
		r.Count("populated_service_requests", int64(steps+n))
		r.Distinct(fmt.Sprintf("svc-populated|n=%d", n))
		if r.Violations() > 0 {
			return
		}
	}
	e.clearServices()
}
