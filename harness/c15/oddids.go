package main

import (
	"fmt"
	"math"
)

// serviceOddIDsPhase: service ids that are spelled unusually (path-like, empty, differing in case,
// surrounded by blanks). Each registration is an ordinary acknowledged request; afterwards the
// clauses of the statement are evaluated against the map model keyed by the id as the client
// spelled it: the reported minimum is not above any live service, the collector's own entry exists
// with unlimited lifetime, and the cluster safe point is still served and has not moved.
func (e *env) serviceOddIDsPhase() {
	r := e.r
	odd := []string{"a/b", "a/", "/a", ".", "..", "a/../b", "x/../gc_worker", "gc_worker/", " gc_worker", "GC_WORKER", "", "a//b", "ticdc-creating-default/cf1", "\x00", "é"}
	for i, id := range odd {
		e.clearServices()
		e.resetTo(77)
		if _, err := e.svcUpdate("gc_worker", 1000, math.MaxInt64); err != nil {
			r.Inconclusive("odd ids setup: %v", err)
			return
		}
		if _, err := e.svcUpdate("plain", 3000, 3600); err != nil {
			r.Inconclusive("odd ids setup: %v", err)
			return
		}
		model := map[string]uint64{"gc_worker": 1000, "plain": 3000}
		resp, err := e.svcUpdate(id, 2000, 3600)
		wit := map[string]interface{}{"odd_id": id, "index": i}
		r.Eval(1)
		r.Distinct(fmt.Sprintf("svc-odd-id|%q", id))
		if err != nil {
			r.Count("odd_id_refused", 1)
			wit["refused"] = err.Error()
		} else {
			r.Count("odd_id_accepted", 1)
			model[id] = 2000
			wit["reported_min_after_registration"] = resp.MinSafePoint
		}
		// one more ordinary request: what does the server report now?
		resp2, err2 := e.svcUpdate("plain", 3000, 3600)
		all, _ := e.s.GetStorage().GetAllServiceGCSafePoints()
		wit["stored_after"] = all
		if err2 != nil {
			r.Violation("service-safepoint:requests-fail-after-odd-id", fmt.Sprintf("after the acknowledged registration of service id %q an ordinary request fails: %v", id, err2), wit)
			continue
		}
		for mid, sp := range model {
			if resp2.MinSafePoint > sp {
				r.Violation("service-safepoint:min-above-live-service:odd-id", fmt.Sprintf("after registering service id %q the reported minimum %d is above live service %q@%d", id, resp2.MinSafePoint, mid, sp), wit)
				break
			}
		}
		ok := false
		for _, s := range all {
			if s.ServiceID == "gc_worker" && s.ExpiredAt == math.MaxInt64 {
				ok = true
			}
		}
		if !ok {
			r.Violation("service-safepoint:gc_worker-missing-or-finite:odd-id", fmt.Sprintf("after registering service id %q the gc_worker entry is not listed with unlimited lifetime", id), wit)
		}
		if v, gerr := e.get(); gerr != nil || v != 77 {
			r.Violation("gc-safepoint-changed-by-service-registration", fmt.Sprintf("after registering service id %q the cluster gc safe point is served as %d (err %v), it was 77", id, v, gerr), wit)
		}
		// removal of the same id (non-positive TTL), acknowledged or refused: nothing else may go with it
		_, rerr := e.svcUpdate(id, 2000, 0)
		if rerr == nil {
			delete(model, id)
			r.Count("odd_id_removal_accepted", 1)
		} else {
			r.Count("odd_id_removal_refused", 1)
		}
		if v, gerr := e.get(); gerr != nil || v != 77 {
			r.Violation("gc-safepoint-changed-by-service-removal", fmt.Sprintf("after the removal request for service id %q (error: %v) the cluster gc safe point is served as %d (err %v), it was 77", id, rerr, v, gerr), wit)
		}
		resp3, err3 := e.svcUpdate("plain", 3000, 3600)
		all, _ = e.s.GetStorage().GetAllServiceGCSafePoints()
		if err3 == nil {
			if resp3.MinSafePoint > model["gc_worker"] {
				r.Violation("service-safepoint:min-above-live-service:odd-id", fmt.Sprintf("after the removal request for service id %q the reported minimum %d is above live service gc_worker@%d", id, resp3.MinSafePoint, model["gc_worker"]), map[string]interface{}{"odd_id": id, "stored_after": all})
			}
		}
	}
	e.clearServices()
}
