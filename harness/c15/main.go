// C15 — GC safe points never move backwards.
//
// Real bootstrapped pd server; its storage is replaced by core.NewStorage(kvx(...)) so that every
// storage read/write of UpdateGCSafePoint / GetGCSafePoint / UpdateServiceGCSafePoint is seen,
// gated and ordered by the harness. Oracles: durable value sequence non-decreasing; every response
// >= every value acknowledged before the request began; linearizability w.r.t. a max-register
// (porcupine); service safe point clauses against a map model.
package main

import (
	"context"
	"fmt"
	"math"
	"math/rand"
	"sort"
	"strconv"
	"sync"
	"time"

	"github.com/anishathalye/porcupine"
	"github.com/pingcap/kvproto/pkg/pdpb"
	"github.com/tikv/pd/server"
	"github.com/tikv/pd/server/core"
	"github.com/tikv/pd/server/kv"
	"github.com/tikv/pd/server/tso"
	"verif/harness/lib/ev"
	"verif/harness/lib/hist"
	"verif/harness/lib/kvx"
	"verif/harness/lib/sched"
	"verif/harness/lib/srv"
)

const gcKey = "gc/safe_point"

type gcIn struct {
	Update bool   `json:"update"`
	V      uint64 `json:"v"`
	// Unknown: the request failed at the client although its write was applied (lost acknowledgement):
	// it takes effect somewhere inside its call interval, its response is not known.
	Unknown bool `json:"unknown,omitempty"`
}

type gcOp struct {
	W    int    `json:"w"`
	In   gcIn   `json:"in"`
	Out  uint64 `json:"out"`
	Err  string `json:"err,omitempty"`
	Call int64  `json:"call"`
	Ret  int64  `json:"ret"`
}

func maxRegisterModel(init uint64) porcupine.Model {
	return porcupine.Model{
		Init: func() interface{} { return init },
		Step: func(st, in, out interface{}) (bool, interface{}) {
			s := st.(uint64)
			i := in.(gcIn)
			o := out.(uint64)
			if i.Update {
				n := s
				if i.V > n {
					n = i.V
				}
				return i.Unknown || o == n, n
			}
			return o == s, s
		},
		Equal: func(a, b interface{}) bool { return a.(uint64) == b.(uint64) },
	}
}

type env struct {
	r   *ev.Run
	s   *server.Server
	m   *srv.Member
	kv  *kvx.KV
	ctx context.Context
	// the server's own region storage (kept when the kv behind the storage is swapped)
	regionStorage *core.RegionStorage
}

func (e *env) update(v uint64) (uint64, error) {
	resp, err := e.s.UpdateGCSafePoint(e.ctx, &pdpb.UpdateGCSafePointRequest{Header: e.m.Header(), SafePoint: v})
	if err != nil {
		return 0, err
	}
	if resp.GetHeader().GetError() != nil {
		return 0, fmt.Errorf("%v", resp.GetHeader().GetError())
	}
	return resp.NewSafePoint, nil
}

func (e *env) get() (uint64, error) {
	resp, err := e.s.GetGCSafePoint(e.ctx, &pdpb.GetGCSafePointRequest{Header: e.m.Header()})
	if err != nil {
		return 0, err
	}
	if resp.GetHeader().GetError() != nil {
		return 0, fmt.Errorf("%v", resp.GetHeader().GetError())
	}
	return resp.SafePoint, nil
}

// durableSeq extracts the successive stored values of the safe point from the kv log.
func durableSeq(log []kvx.Event) []uint64 {
	var out []uint64
	for _, e := range log {
		if e.Kind == "Save" && e.Key == gcKey && (e.Err == "" || e.Fault == "lost-ack") {
			v, _ := strconv.ParseUint(e.Value, 16, 64)
			out = append(out, v)
		}
	}
	return out
}

// judge evaluates one recorded history (init = stored value before it started).
func (e *env) judge(mode string, init uint64, ops []gcOp, log []kvx.Event, trace interface{}) {
	r := e.r
	witness := map[string]interface{}{"mode": mode, "init": init, "ops": ops, "kv_log": log, "schedule": trace}
	// (a) durable sequence never decreases
	prev := init
	seq := durableSeq(log)
	for _, v := range seq {
		if v < prev {
			r.Violation("gc-safepoint-stored-decreases:"+mode, fmt.Sprintf("stored gc safe point went from %d to %d", prev, v), witness)
			break
		}
		prev = v
	}
	// (b) every response >= every value acknowledged before the request began
	type evt struct {
		t    int64
		call bool
		i    int
	}
	var evs []evt
	for i, o := range ops {
		if o.Err != "" {
			continue
		}
		evs = append(evs, evt{o.Call, true, i}, evt{o.Ret, false, i})
	}
	sort.Slice(evs, func(a, b int) bool { return evs[a].t < evs[b].t })
	floor := init
	floorAt := make([]uint64, len(ops))
	for _, x := range evs {
		if x.call {
			floorAt[x.i] = floor
		} else {
			o := ops[x.i]
			if o.Out < floorAt[x.i] {
				r.Violation("gc-safepoint-response-below-acknowledged:"+mode,
					fmt.Sprintf("response %d is below %d which was acknowledged before the request began", o.Out, floorAt[x.i]), witness)
				return
			}
			if o.Out > floor {
				floor = o.Out
			}
		}
	}
	// (c) linearizable w.r.t. the max-register
	appliedFaulted := map[uint64]bool{}
	for _, le := range log {
		if le.Kind == "Save" && le.Key == gcKey && le.Fault == "lost-ack" {
			v, _ := strconv.ParseUint(le.Value, 16, 64)
			appliedFaulted[v] = true
		}
	}
	var pops []porcupine.Operation
	for _, o := range ops {
		if o.Err != "" {
			// a failed request imposes no constraint unless its write is in the storage log (values are
			// unique per request in the histories that inject faults)
			if o.In.Update && appliedFaulted[o.In.V] {
				pops = append(pops, porcupine.Operation{ClientId: o.W, Input: gcIn{true, o.In.V, true}, Call: o.Call, Output: uint64(0), Return: o.Ret})
			}
			continue
		}
		pops = append(pops, porcupine.Operation{ClientId: o.W, Input: o.In, Call: o.Call, Output: o.Out, Return: o.Ret})
	}
	res, _ := porcupine.CheckOperationsVerbose(maxRegisterModel(init), pops, 20*time.Second)
	switch res {
	case porcupine.Illegal:
		r.Violation("gc-safepoint-not-linearizable:"+mode, "history of Update/Get responses is not linearizable w.r.t. a max-register", witness)
	case porcupine.Unknown:
		r.Count("porcupine_timeouts", 1)
	default:
		r.Count("porcupine_ok", 1)
	}
}

// gated runs workers under the gate scheduler; returns ops and the scheduler.
func (e *env) gated(vals []uint64, withGet bool, choose func(int, []sched.Info) int) ([]gcOp, *sched.Sched) {
	s := sched.New()
	e.kv.Gate, e.kv.Done = s.Gate, s.Done
	defer func() { e.kv.Gate, e.kv.Done = nil, nil }()
	n := len(vals)
	if withGet {
		n++
	}
	ops := make([]gcOp, n)
	var ws []func()
	for i := range vals {
		i := i
		ws = append(ws, func() {
			c := hist.Tick()
			out, err := e.update(vals[i])
			ops[i] = gcOp{W: i, In: gcIn{Update: true, V: vals[i]}, Out: out, Call: c, Ret: hist.Tick()}
			if err != nil {
				ops[i].Err = err.Error()
			}
		})
	}
	if withGet {
		i := len(vals)
		ws = append(ws, func() {
			c := hist.Tick()
			out, err := e.get()
			ops[i] = gcOp{W: i, In: gcIn{}, Out: out, Call: c, Ret: hist.Tick()}
			if err != nil {
				ops[i].Err = err.Error()
			}
		})
	}
	s.Run(ws, choose)
	return ops, s
}

func (e *env) resetTo(v uint64) {
	e.kv.Inner.Save(gcKey, strconv.FormatUint(v, 16))
	e.kv.ResetLog()
}

func permutations(vals []uint64) [][]uint64 {
	if len(vals) <= 1 {
		return [][]uint64{append([]uint64(nil), vals...)}
	}
	var out [][]uint64
	for i := range vals {
		rest := append(append([]uint64(nil), vals[:i]...), vals[i+1:]...)
		for _, p := range permutations(rest) {
			out = append(out, append([]uint64{vals[i]}, p...))
		}
	}
	return out
}

func (e *env) dfsPhase() {
	r := e.r
	var tuples [][]uint64
	// 2 writers: all ordered pairs over {10,20,30} incl. equal values, init 10 or 0
	for _, a := range []uint64{10, 20, 30} {
		for _, b := range []uint64{10, 20, 30} {
			tuples = append(tuples, []uint64{a, b})
		}
	}
	// 3 writers: permutations of {20,30,40} + some with equal values
	tuples = append(tuples, permutations([]uint64{20, 30, 40})...)
	tuples = append(tuples, []uint64{30, 30, 20}, []uint64{20, 30, 30}, []uint64{5, 30, 20})
	if !r.Thorough() {
		// quick: the 2-writer space completely, 3-writer space for three tuples
		tuples = append(tuples[:9], []uint64{40, 30, 20}, []uint64{20, 30, 40}, []uint64{30, 30, 20})
	}
	complete := true
	for _, vals := range tuples {
		for _, withGet := range []bool{false, true} {
			if len(vals) == 3 && withGet && !r.Thorough() {
				continue
			}
			ex := &sched.Explorer{}
			for {
				ch := ex.Next()
				if ch == nil {
					break
				}
				e.resetTo(10)
				ops, s := e.gated(vals, withGet, ch)
				ex.Advance(s)
				if s.Err != nil {
					r.Inconclusive("scheduler: %v", s.Err)
					return
				}
				r.Eval(1)
				r.Count("dfs_schedules", 1)
				r.Count("gated_storage_ops", int64(len(s.Trace)))
				r.Count("blocked_quiescence", int64(s.Blocked))
				r.Distinct(fmt.Sprintf("dfs|%v|%v|%s", vals, withGet, s.TraceKey()))
				e.judge("gated", 10, ops, e.kv.Log(), s.Trace)
				if r.Counter("dfs_schedules") == 7 {
					r.Sample(map[string]interface{}{"values": vals, "with_get": withGet, "schedule": s.Trace, "ops": ops})
				}
				if ex.Runs > 5000 {
					complete = false
					break
				}
			}
			if ex.Diverged > 0 {
				r.Count("dfs_diverged_prefixes", int64(ex.Diverged))
			}
		}
	}
	r.Set("dfs_complete_for_enumerated_tuples", complete)
}

func (e *env) stressPhase(rng *rand.Rand) {
	r := e.r
	rounds := r.Pick(150, 1500)
	for round := 0; round < rounds; round++ {
		init := uint64(rng.Intn(50))
		e.resetTo(init)
		nw := 2 + rng.Intn(15)
		per := 1 + rng.Intn(3)
		var mu sync.Mutex
		var ops []gcOp
		var wg sync.WaitGroup
		seeds := make([]int64, nw)
		for i := range seeds {
			seeds[i] = rng.Int63()
		}
		start := make(chan struct{})
		for w := 0; w < nw; w++ {
			wg.Add(1)
			go func(w int) {
				defer wg.Done()
				lr := rand.New(rand.NewSource(seeds[w]))
				<-start
				for k := 0; k < per; k++ {
					var o gcOp
					if lr.Intn(4) == 0 {
						c := hist.Tick()
						out, err := e.get()
						o = gcOp{W: w, In: gcIn{}, Out: out, Call: c, Ret: hist.Tick()}
						if err != nil {
							o.Err = err.Error()
						}
					} else {
						v := uint64(lr.Intn(100))
						c := hist.Tick()
						out, err := e.update(v)
						o = gcOp{W: w, In: gcIn{Update: true, V: v}, Out: out, Call: c, Ret: hist.Tick()}
						if err != nil {
							o.Err = err.Error()
						}
					}
					mu.Lock()
					ops = append(ops, o)
					mu.Unlock()
				}
			}(w)
		}
		close(start)
		wg.Wait()
		r.Eval(1)
		r.Count("stress_histories", 1)
		r.Count("stress_ops", int64(len(ops)))
		// distinct by the order in which the stored value changed
		r.Distinct(fmt.Sprintf("stress|%d|%v", init, durableSeq(e.kv.Log())))
		e.judge("free-running", init, ops, e.kv.Log(), nil)
		if round == 3 {
			r.Sample(map[string]interface{}{"mode": "free-running", "init": init, "ops": ops})
		}
	}
}

// ---- service safe points ----

type svcEntry struct {
	SP  uint64
	TTL int64 // as requested; MaxInt64 = unlimited
}

func (e *env) svcUpdate(id string, sp uint64, ttl int64) (*pdpb.UpdateServiceGCSafePointResponse, error) {
	resp, err := e.s.UpdateServiceGCSafePoint(e.ctx, &pdpb.UpdateServiceGCSafePointRequest{Header: e.m.Header(), ServiceId: []byte(id), SafePoint: sp, TTL: ttl})
	if err != nil {
		return nil, err
	}
	if resp.GetHeader().GetError() != nil {
		return nil, fmt.Errorf("%v", resp.GetHeader().GetError())
	}
	return resp, nil
}

func (e *env) clearServices() {
	for k := range e.kv.Dump() {
		if len(k) > len(gcKey) && k[:len(gcKey)+1] == gcKey+"/" {
			e.kv.Inner.Remove(k)
		}
	}
}

func (e *env) servicePhase(rng *rand.Rand) {
	r := e.r
	hists := r.Pick(120, 1500)
	ids := []string{"gc_worker", "svc-a", "svc-b", "svc-c", "ticdc"}
	for h := 0; h < hists; h++ {
		e.clearServices()
		model := map[string]svcEntry{} // live registrations as the statement describes them
		var steps []interface{}
		n := 5 + rng.Intn(25)
		shape := ""
		for k := 0; k < n; k++ {
			id := ids[rng.Intn(len(ids))]
			sp := uint64(rng.Intn(60))
			var ttl int64
			switch rng.Intn(8) {
			case 0:
				ttl = 0
			case 1:
				ttl = -int64(rng.Intn(5)) - 1
			case 2:
				ttl = math.MaxInt64
			case 3:
				ttl = math.MaxInt64 - int64(rng.Intn(1000))
			default:
				ttl = 3600 + int64(rng.Intn(100000))
			}
			if id == "gc_worker" && rng.Intn(3) != 0 {
				ttl = math.MaxInt64
			}
			// model min before
			minBefore, have := uint64(math.MaxUint64), false
			for _, en := range model {
				if en.SP < minBefore {
					minBefore = en.SP
				}
				have = true
			}
			before, _ := e.s.GetStorage().GetAllServiceGCSafePoints()
			resp, err := e.svcUpdate(id, sp, ttl)
			after, aerr := e.s.GetStorage().GetAllServiceGCSafePoints()
			step := map[string]interface{}{"id": id, "sp": sp, "ttl": ttl}
			if err != nil {
				step["err"] = err.Error()
			} else {
				step["min"] = resp.MinSafePoint
				step["min_id"] = string(resp.ServiceId)
			}
			steps = append(steps, step)
			r.Count("service_ops", 1)
			wit := map[string]interface{}{"steps": steps, "stored_before": before, "stored_after": after}
			if aerr != nil {
				r.Inconclusive("GetAllServiceGCSafePoints: %v", aerr)
				return
			}
			find := func(l []*core.ServiceSafePoint, id string) *core.ServiceSafePoint {
				for _, s := range l {
					if s.ServiceID == id {
						return s
					}
				}
				return nil
			}
			// gc_worker always exists with unlimited lifetime (after any request was handled)
			if g := find(after, "gc_worker"); (err == nil || have) && (g == nil || g.ExpiredAt != math.MaxInt64) {
				r.Violation("service-safepoint:gc_worker-missing-or-finite", "gc_worker entry missing or with finite lifetime after a request", wit)
			}
			// update the model by the statement
			if id != "gc_worker" && ttl <= 0 {
				delete(model, id)
				shape += "r"
				if find(after, id) != nil {
					r.Violation("service-safepoint:nonpositive-ttl-still-listed", fmt.Sprintf("registration of %s with TTL %d is still listed", id, ttl), wit)
				}
			} else if err == nil && ttl > 0 {
				if !have {
					// first contact: gc_worker is created at 0 by the server
					model["gc_worker"] = svcEntry{0, math.MaxInt64}
					minBefore = 0
				}
				if sp < minBefore {
					shape += "b"
					// must not be recorded: stored entry for id unchanged
					b, a := find(before, id), find(after, id)
					changed := (b == nil) != (a == nil) || (a != nil && b != nil && (a.SafePoint != b.SafePoint))
					if changed && a != nil && a.SafePoint == sp {
						r.Violation("service-safepoint:below-min-recorded", fmt.Sprintf("registration %s@%d below the minimum %d was recorded", id, sp, minBefore), wit)
					}
				} else {
					shape += "a"
					model[id] = svcEntry{sp, ttl}
					if a := find(after, id); a == nil || a.SafePoint != sp {
						// one-directional statement: acceptance is not demanded; count only
						r.Count("service_accept_expected_but_not_recorded", 1)
						if a == nil {
							delete(model, id)
						} else {
							model[id] = svcEntry{a.SafePoint, ttl}
						}
					}
				}
			} else if err == nil && !have {
				model["gc_worker"] = svcEntry{0, math.MaxInt64}
			} else {
				shape += "e"
			}
			if err == nil {
				// reported minimum never above any live registered service
				for mid, en := range model {
					if resp.MinSafePoint > en.SP {
						r.Violation("service-safepoint:min-above-live-service", fmt.Sprintf("reported minimum %d is above live service %s@%d", resp.MinSafePoint, mid, en.SP), wit)
					}
				}
				mm := uint64(math.MaxUint64)
				for _, en := range model {
					if en.SP < mm {
						mm = en.SP
					}
				}
				if resp.MinSafePoint == mm {
					r.Count("service_min_exact", 1)
				} else {
					r.Count("service_min_lower_than_model", 1)
				}
			}
		}
		r.Eval(1)
		r.Distinct("svc|" + shape)
		if h == 2 {
			r.Sample(map[string]interface{}{"mode": "service-safepoints", "steps": steps})
		}
	}
	// expiry (the only wall-clock dependent clause): TTL 1 s, wait 2.5 s, then it must be gone and
	// no longer hold the minimum down; a long-TTL registration must still be there.
	e.clearServices()
	if _, err := e.svcUpdate("gc_worker", 50, math.MaxInt64); err != nil {
		r.Inconclusive("expiry setup: %v", err)
		return
	}
	e.svcUpdate("short", 60, 1)
	e.svcUpdate("long", 70, 3600)
	// a service id is a byte string: one that is not valid UTF-8 expires, while a live service is
	// registered under the id the stored JSON record shows for it (U+FFFD in place of the bad byte)
	const rawID, twinID = "svc-\xff", "svc-\ufffd"
	e.svcUpdate(rawID, 65, 1)
	e.svcUpdate(twinID, 55, 3600)
	// pd measures lifetimes on its own timestamp clock (which may run ahead of the wall clock and
	// then stands still until the wall clock has caught up): wait until that clock is past the
	// recorded expiry of "short"; the bounded wait running out is not a verdict.
	var shortExp int64 = -1
	if all, gerr := e.s.GetStorage().GetAllServiceGCSafePoints(); gerr == nil {
		for _, s := range all {
			if s.ServiceID == "short" {
				shortExp = s.ExpiredAt
			}
		}
	}
	if shortExp < 0 {
		r.Count("expiry_case_not_registered", 1)
		return
	}
	past := false
	for k := 0; k < 600 && !past; k++ {
		time.Sleep(100 * time.Millisecond)
		ts, terr := e.s.GetTSOAllocatorManager().HandleTSORequest(tso.GlobalDCLocation, 1)
		if terr == nil && ts.Physical/1000 > shortExp+1 {
			past = true
		}
	}
	if !past {
		r.Count("expiry_wait_ran_out", 1)
		return
	}
	resp, err := e.svcUpdate("gc_worker", 80, math.MaxInt64)
	after, _ := e.s.GetStorage().GetAllServiceGCSafePoints()
	wit := map[string]interface{}{"stored_after": after}
	if err == nil {
		wit["min"] = resp.MinSafePoint
		for _, s := range after {
			if s.ServiceID == "short" {
				r.Violation("service-safepoint:expired-still-listed", "registration with TTL 1 s still listed after pd's timestamp clock passed its recorded expiry by more than a second", wit)
			}
		}
		hasLong := false
		for _, s := range after {
			if s.ServiceID == "long" {
				hasLong = true
			}
		}
		if !hasLong {
			r.Violation("service-safepoint:live-registration-lost", "registration with TTL 3600 s disappeared within seconds", wit)
		}
		if resp.MinSafePoint > 55 {
			r.Violation("service-safepoint:min-above-live-service", fmt.Sprintf("minimum %d above live service %q@55 (registered with TTL 3600 s) after other registrations expired", resp.MinSafePoint, twinID), wit)
		}
		// a second request: the sweep of the first one must not have taken a live registration with it
		if resp2, err2 := e.svcUpdate("gc_worker", 80, math.MaxInt64); err2 == nil && resp2.MinSafePoint > 55 {
			r.Violation("service-safepoint:min-above-live-service", fmt.Sprintf("minimum %d above live service %q@55 on the request after the expiry sweep", resp2.MinSafePoint, twinID), wit)
		}
		keys := e.kv.Dump()
		prefix := gcKey + "/service/"
		if _, ok := keys[prefix+rawID]; ok {
			r.Violation("service-safepoint:expired-still-listed", "registration under a service id that is not valid UTF-8 with TTL 1 s is still stored after pd's timestamp clock passed its expiry", wit)
		}
		if _, ok := keys[prefix+twinID]; !ok {
			r.Violation("service-safepoint:live-registration-lost", fmt.Sprintf("registration %q with TTL 3600 s disappeared when another registration expired", twinID), wit)
		}
		r.Count("expiry_cases", 1)
		r.Eval(1)
	}
}

// gated concurrent service registrations checked against the sequential specification.
type svcIn struct {
	ID  string
	SP  uint64
	TTL int64
}

func svcModel(init map[string]uint64) porcupine.Model {
	enc := func(m map[string]uint64) string {
		ks := make([]string, 0, len(m))
		for k := range m {
			ks = append(ks, k)
		}
		sort.Strings(ks)
		s := ""
		for _, k := range ks {
			s += fmt.Sprintf("%s=%d;", k, m[k])
		}
		return s
	}
	return porcupine.Model{
		Init: func() interface{} { return enc(init) },
		Step: func(st, in, out interface{}) (bool, interface{}) {
			m := map[string]uint64{}
			for _, kvs := range splitNonEmpty(st.(string)) {
				var k string
				var v uint64
				for i := 0; i < len(kvs); i++ {
					if kvs[i] == '=' {
						k = kvs[:i]
						v, _ = strconv.ParseUint(kvs[i+1:], 10, 64)
					}
				}
				m[k] = v
			}
			i := in.(svcIn)
			min := uint64(math.MaxUint64)
			for _, v := range m {
				if v < min {
					min = v
				}
			}
			if i.TTL <= 0 {
				if i.ID != "gc_worker" {
					delete(m, i.ID)
				}
			} else if i.SP >= min {
				m[i.ID] = i.SP
			}
			min = math.MaxUint64
			for _, v := range m {
				if v < min {
					min = v
				}
			}
			return out.(uint64) == min, enc(m)
		},
	}
}

func splitNonEmpty(s string) []string {
	var out []string
	cur := ""
	for i := 0; i < len(s); i++ {
		if s[i] == ';' {
			if cur != "" {
				out = append(out, cur)
			}
			cur = ""
		} else {
			cur += string(s[i])
		}
	}
	return out
}

func (e *env) serviceGatedPhase() {
	r := e.r
	cases := [][]svcIn{
		{{"gc_worker", 30, math.MaxInt64}, {"svc-a", 20, 3600}},
		{{"gc_worker", 30, math.MaxInt64}, {"svc-a", 40, 3600}},
		{{"svc-a", 25, 3600}, {"svc-b", 15, 3600}},
		{{"svc-a", 0, -1}, {"gc_worker", 40, math.MaxInt64}},
	}
	if r.Thorough() {
		cases = append(cases, []svcIn{{"gc_worker", 30, math.MaxInt64}, {"svc-a", 20, 3600}, {"svc-b", 25, 3600}})
	}
	for ci, c := range cases {
		ex := &sched.Explorer{}
		for {
			ch := ex.Next()
			if ch == nil {
				break
			}
			e.clearServices()
			e.svcUpdate("gc_worker", 10, math.MaxInt64)
			e.svcUpdate("svc-a", 12, 3600)
			e.kv.ResetLog()
			s := sched.New()
			e.kv.Gate, e.kv.Done = s.Gate, s.Done
			outs := make([]porcupine.Operation, len(c))
			errs := make([]error, len(c))
			var ws []func()
			for i := range c {
				i := i
				ws = append(ws, func() {
					call := hist.Tick()
					resp, err := e.svcUpdate(c[i].ID, c[i].SP, c[i].TTL)
					ret := hist.Tick()
					errs[i] = err
					if err == nil {
						outs[i] = porcupine.Operation{ClientId: i, Input: c[i], Output: resp.MinSafePoint, Call: call, Return: ret}
					}
				})
			}
			s.Run(ws, ch)
			e.kv.Gate, e.kv.Done = nil, nil
			ex.Advance(s)
			if s.Err != nil {
				r.Inconclusive("scheduler(service): %v", s.Err)
				return
			}
			var pops []porcupine.Operation
			for i := range outs {
				if errs[i] == nil {
					pops = append(pops, outs[i])
				}
			}
			r.Eval(1)
			r.Count("service_gated_schedules", 1)
			r.Distinct(fmt.Sprintf("svcg|%d|%s", ci, s.TraceKey()))
			res, _ := porcupine.CheckOperationsVerbose(svcModel(map[string]uint64{"gc_worker": 10, "svc-a": 12}), pops, 10*time.Second)
			if res == porcupine.Illegal {
				var descr []interface{}
				for _, o := range pops {
					descr = append(descr, map[string]interface{}{"in": o.Input, "min": o.Output, "call": o.Call, "ret": o.Return})
				}
				after, _ := e.s.GetStorage().GetAllServiceGCSafePoints()
				r.Violation("service-safepoint:concurrent-registrations-not-serializable",
					"concurrent service safe point registrations: responses admit no order in which 'a registration below the current minimum is not recorded' and the reported minimum is the minimum of live services",
					map[string]interface{}{"case": c, "schedule": s.Trace, "ops": descr, "stored_after": after})
			}
			if ex.Runs > 3000 {
				break
			}
		}
	}
}

func main() {
	r := ev.New("C15", "exploration")
	r.Rule("gated: one execution per release order of the storage operations (Load/Save of gc/safe_point) of 2-3 concurrent UpdateGCSafePoint (+1 Get) over value tuples from {10,20,30,40}, enumerated depth-first (distinct = value tuple x released (worker,op) sequence); free-running: 2-16 goroutines, <=3 ops each, random values (distinct = init x sequence of stored values); faulted histories: 8-14 steps from {update, update with fail-before / lost-ack on its save, get, burst of 2 updates + 1 get with a fault on the first save, leader re-election of the serving member} with unique values (distinct = step shape); service safe points: random sequential histories (distinct = accept/reject/remove shape), populated worlds of 60-330 prefix-related service ids drained in safe-point order (distinct = size) and gated concurrent registrations (distinct = schedule)")
	r.Assume("UpdateGCSafePoint/GetGCSafePoint/UpdateServiceGCSafePoint are called on the *server.Server object (the gRPC handler methods) of a real bootstrapped single-member server; storage = core.NewStorage over an instrumented in-memory kv.Base (thorough: also the etcd-backed kv)")
	r.Assume("expiry clause: lifetimes are measured on pd's own timestamp clock (as pd does); the check waits until that clock has passed the recorded expiry by more than a second")
	rng := rand.New(rand.NewSource(r.ShardSeed()))
	cfgs := srv.NewConfigs(1, nil)
	m, err := srv.Start(cfgs[0])
	if err != nil {
		r.Inconclusive("server start: %v", err)
		r.Finish()
	}
	defer m.Close()
	if srv.WaitLeader([]*srv.Member{m}, 30*time.Second) == nil {
		r.Inconclusive("no leader")
		r.Finish()
	}
	if err := m.Bootstrap(); err != nil {
		r.Inconclusive("bootstrap: %v", err)
		r.Finish()
	}
	e := &env{r: r, s: m.Srv, m: m, ctx: context.Background(), regionStorage: m.Srv.GetStorage().GetRegionStorage()}
	backends := []string{"mem"}
	if r.Thorough() {
		backends = append(backends, "etcd")
	}
	for _, b := range backends {
		if b == "mem" {
			e.kv = kvx.New(kv.NewMemoryKV())
		} else {
			e.kv = kvx.New(kv.NewEtcdKVBase(m.Srv.GetClient(), "/verif-c15"))
		}
		m.Srv.SetStorage(core.NewStorage(e.kv))
		e.dfsPhase()
		e.stressPhase(rng)
		e.servicePhase(rng)
		e.servicePopulatedPhase(rng)
		e.serviceOddIDsPhase()
		e.serviceLegacyCollectorPhase()
		e.serviceGatedPhase()
		r.Count("backends", 1)
	}
	e.faultPhase(rng)
	r.Floor(100)
	m.Close()
	r.Finish()
}
