package main

import (
	"encoding/json"
	"fmt"
	"math"

	"github.com/tikv/pd/server/core"
)

// serviceLegacyCollectorPhase: the collector's own entry is found in storage with a finite lifetime
// (as an older version or an operator wrote it): already elapsed, zero, negative, or still in the
// future, next to zero, one or two live services with higher safe points. After one ordinary
// acknowledged request the clauses of the statement are evaluated: the collector's entry is listed
// with unlimited lifetime, and the reported minimum is not above the collector's safe point (the
// collector is a registered service that never expires) nor above any live service.
func (e *env) serviceLegacyCollectorPhase() {
	r := e.r
	st := e.s.GetStorage()
	expiries := []int64{1, 0, -1, 1000, math.MaxInt64 - 1, math.MinInt64}
	for _, exp := range expiries {
		for others := 0; others <= 2; others++ {
			e.clearServices()
			e.resetTo(77)
			model := map[string]uint64{"gc_worker": 1000}
			// written as a raw record: the storage API itself refuses a finite lifetime for gc_worker
			raw, _ := json.Marshal(&core.ServiceSafePoint{ServiceID: "gc_worker", ExpiredAt: exp, SafePoint: 1000})
			if err := e.kv.Inner.Save(gcKey+"/service/gc_worker", string(raw)); err != nil {
				r.Inconclusive("legacy collector setup: %v", err)
				return
			}
			for k := 0; k < others; k++ {
				id := fmt.Sprintf("live-%d", k)
				model[id] = uint64(3000 + 500*k)
				if err := st.SaveServiceGCSafePoint(&core.ServiceSafePoint{ServiceID: id, ExpiredAt: math.MaxInt64 - 7, SafePoint: model[id]}); err != nil {
					r.Inconclusive("legacy collector setup: %v", err)
					return
				}
			}
			wit := map[string]interface{}{"stored_gc_worker_expired_at": exp, "stored_gc_worker_safe_point": 1000, "live_services": others}
			r.Eval(1)
			r.Distinct(fmt.Sprintf("svc-legacy-collector|%d|%d", exp, others))
			// an ordinary request: a new service registers above everything that is stored
			resp, err := e.svcUpdate("newcomer", 5000, 3600)
			all, _ := st.GetAllServiceGCSafePoints()
			wit["stored_after"] = all
			if err != nil {
				r.Count("legacy_collector_request_refused", 1)
				wit["refused"] = err.Error()
			} else {
				r.Count("legacy_collector_request_acknowledged", 1)
				wit["reported_min"] = resp.MinSafePoint
				for mid, sp := range model {
					if resp.MinSafePoint > sp {
						r.Violation("service-safepoint:min-above-live-service:legacy-collector-entry", fmt.Sprintf("gc_worker stored at 1000 with finite lifetime %d and %d live services: the reported minimum %d is above service %q@%d", exp, others, resp.MinSafePoint, mid, sp), wit)
						break
					}
				}
			}
			ok := false
			for _, s := range all {
				if s.ServiceID == "gc_worker" && s.ExpiredAt == math.MaxInt64 {
					ok = true
				}
			}
			if err == nil && !ok {
				r.Violation("service-safepoint:gc_worker-missing-or-finite:legacy-collector-entry", fmt.Sprintf("gc_worker stored with finite lifetime %d: after an acknowledged request it is not listed with unlimited lifetime", exp), wit)
			}
			if v, gerr := e.get(); gerr != nil || v != 77 {
				r.Violation("gc-safepoint-changed-by-service-registration", fmt.Sprintf("legacy collector entry (lifetime %d): the cluster gc safe point is served as %d (err %v), it was 77", exp, v, gerr), wit)
			}
		}
	}
	e.clearServices()
}
