package main

import (
	"fmt"
	"math/rand"
	"path"
	"strconv"
	"strings"
	"sync"
	"sync/atomic"
	"time"

	"github.com/tikv/pd/server/core"
	"github.com/tikv/pd/server/kv"
	"verif/harness/lib/hist"
	"verif/harness/lib/kvx"
)

// armOne makes the next Save of the gc safe point fail (not sent, or applied with a lost ack).
func (e *env) armOne(mode kvx.FaultMode) {
	var used int32
	e.kv.FailAllWrites(mode, func(kind, key string) bool {
		return kind == "Save" && key == gcKey && atomic.CompareAndSwapInt32(&used, 0, 1)
	})
}

// reelect makes the serving member give its leadership up and waits until it serves again.
func (e *env) reelect() bool {
	e.s.GetMember().ResetLeader()
	for k := 0; k < 3000; k++ {
		if e.s.GetMember().IsLeader() && e.s.GetRaftCluster() != nil {
			if _, err := e.get(); err == nil {
				return true
			}
		}
		time.Sleep(10 * time.Millisecond)
	}
	return false
}

// faultPhase: histories in which saves of the safe point fail (without being applied, or applied
// with the acknowledgement lost), inside and outside concurrent bursts, and in which the serving
// member loses and regains its leadership (everything it keeps in memory about the safe point
// starts afresh, the storage stays). Values are unique per request, so a failed request is known
// to have taken effect exactly when its value is in the storage log.
// Storage: the server's own etcd root behind the kvx wrapper (the cluster must be loadable again
// after the re-election).
func (e *env) faultPhase(rng *rand.Rand) {
	r := e.r
	old := e.kv
	root := path.Join("/pd", strconv.FormatUint(e.s.ClusterID(), 10))
	e.kv = kvx.New(kv.NewEtcdKVBase(e.s.GetClient(), root))
	e.s.SetStorage(core.NewStorage(e.kv, core.WithRegionStorage(e.regionStorage)))
	defer func() {
		e.kv.ResetFaults()
		e.kv = old
		e.s.SetStorage(core.NewStorage(e.kv))
	}()
	rounds := r.Pick(14, 120)
	next := uint64(1000) // values grow over the rounds: the store is never reset downwards under a live server
	for round := 0; round < rounds; round++ {
		init := next
		e.resetTo(init)
		next += 10
		var ops []gcOp
		var mu sync.Mutex
		var shape []string
		do := func(w int, upd bool, v uint64) {
			c := hist.Tick()
			var out uint64
			var err error
			if upd {
				out, err = e.update(v)
			} else {
				out, err = e.get()
			}
			o := gcOp{W: w, In: gcIn{Update: upd, V: v}, Out: out, Call: c, Ret: hist.Tick()}
			if err != nil {
				o.Err = err.Error()
			}
			mu.Lock()
			ops = append(ops, o)
			mu.Unlock()
		}
		// unique values: mostly above the current one, sometimes below
		val := func() uint64 {
			next += uint64(1 + rng.Intn(5))
			if rng.Intn(5) == 0 {
				return next - 300 - uint64(rng.Intn(200)) // below everything in this round (still unique)
			}
			return next
		}
		steps := 8 + rng.Intn(7)
		reelected := false
		for st := 0; st < steps; st++ {
			switch k := rng.Intn(10); {
			case k < 2:
				shape = append(shape, "u")
				do(0, true, val())
			case k < 4:
				mode := []kvx.FaultMode{kvx.FailBefore, kvx.LostAck}[rng.Intn(2)]
				shape = append(shape, fmt.Sprintf("u!%d", mode))
				e.armOne(mode)
				do(0, true, val())
				r.Count("fault_saves_injected", e.kv.Injected())
				e.kv.ResetFaults()
			case k < 6:
				shape = append(shape, "g")
				do(0, false, 0)
			case k < 9:
				mode := []kvx.FaultMode{kvx.NoFault, kvx.FailBefore, kvx.LostAck}[rng.Intn(3)]
				shape = append(shape, fmt.Sprintf("b%d", mode))
				if mode != kvx.NoFault {
					e.armOne(mode)
				}
				var wg sync.WaitGroup
				vs := []uint64{val(), val()}
				for w := 0; w < 3; w++ {
					wg.Add(1)
					go func(w int) {
						defer wg.Done()
						if w < 2 {
							do(1+w, true, vs[w])
						} else {
							do(1+w, false, 0)
						}
					}(w)
				}
				wg.Wait()
				r.Count("fault_saves_injected", e.kv.Injected())
				e.kv.ResetFaults()
			default:
				if reelected {
					shape = append(shape, "g")
					do(0, false, 0)
					continue
				}
				reelected = true
				shape = append(shape, "L")
				if !e.reelect() {
					r.Inconclusive("fault phase: the member did not serve again after giving its leadership up")
					return
				}
				r.Count("fault_reelections", 1)
				do(0, false, 0)
			}
		}
		do(0, false, 0)
		r.Eval(1)
		r.Count("fault_histories", 1)
		r.Count("fault_ops", int64(len(ops)))
		r.Distinct("fault|" + strings.Join(shape, ","))
		var log []kvx.Event
		for _, le := range e.kv.Log() {
			if le.Key == gcKey {
				log = append(log, le)
			}
		}
		e.judge("faulted", init, ops, log, shape)
		if round == 2 {
			r.Sample(map[string]interface{}{"mode": "faulted", "init": init, "steps": shape, "ops": ops})
		}
		if r.Violations() > 0 {
			return
		}
	}
}
