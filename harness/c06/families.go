package main

import (
	"context"
	"fmt"
	"io"
	"io/ioutil"
	"math/rand"
	"os"
	"strings"
	"sync"
	"sync/atomic"
	"time"

	"github.com/pingcap/kvproto/pkg/metapb"
	"github.com/pingcap/kvproto/pkg/pdpb"
	"github.com/tikv/pd/server/config"
	"google.golang.org/grpc/metadata"
	"verif/harness/lib/hist"
	"verif/harness/lib/kvx"
	"verif/harness/lib/srv"
	"verif/harness/lib/world"
)

// ---------------------------------------------------------------------------------------------
// cache reset: what a member does when it becomes leader (fresh cache filled from storage)

func (h *harness) reloadCheck(t *lightTarget, faulted bool, base map[string]interface{}) {
	before := t.Observe()
	nt, err := t.Reload()
	if err != nil {
		h.r.Inconclusive("reload: %v", err)
		return
	}
	after := nt.Observe()
	nt.Close()
	h.judgeReload(before, after, faulted, "reload-from-storage:light", base)
}

func (h *harness) judgeReload(before, after *obs, faulted bool, mode string, base map[string]interface{}) {
	r := h.r
	r.Count("cache_reloads_from_storage", 1)
	wit := map[string]interface{}{"mode": mode, "storage_faults_before": faulted, "before": before.describe(), "after": after.describe()}
	for k, v := range base {
		wit[k] = v
	}
	for _, x := range structural(after) {
		r.Violation(x.key, "after the cache was rebuilt from storage: "+x.what, wit)
	}
	same := 0
	for id, a := range after.ByID {
		b, ok := before.ByID[id]
		if !ok {
			r.Count("reload_region_only_after", 1)
			continue
		}
		b.Term, a.Term = 0, 0 // the term is not persisted
		if f := regressFields(b, a); len(f) > 0 {
			if faulted {
				r.Count("reload_epoch_older_after_storage_faults", 1) // "longer warm-up", documented
			} else {
				r.Violation("epoch-regress:after-reload:"+f[0], fmt.Sprintf("heartbeats were handled one at a time without storage errors; region %d was served with v%d c%d, after the cache was rebuilt from storage it is served with v%d c%d", id, b.Ver, b.Conf, a.Ver, a.Conf), wit)
			}
		} else if a.Ver == b.Ver && a.Conf == b.Conf && a.Start == b.Start && a.End == b.End {
			same++
		}
	}
	r.Count("reload_regions_identical", int64(same))
	// the version served for a key does not go back across the rebuild when the region that served
	// it had been stored successfully (then every stale left-over in storage overlaps something newer)
	for _, b := range before.sorted() {
		var m metapb.Region
		raw, ok := before.Stored[b.ID]
		if !ok || m.Unmarshal([]byte(raw)) != nil || m.GetRegionEpoch().GetVersion() != b.Ver || string(m.GetStartKey()) != b.Start || string(m.GetEndKey()) != b.End {
			r.Count("reload_served_region_not_in_storage", 1)
			continue
		}
		if va, ida := versionAt(after, b.Start); va != 0 && va < b.Ver {
			r.Violation("served-version-of-key-goes-back:after-reload", fmt.Sprintf("key %q was served by region %d v%d (stored successfully); after the cache was rebuilt from storage it is served by region %d with version %d", b.Start, b.ID, b.Ver, ida, va), wit)
			break
		}
	}
}

// ---------------------------------------------------------------------------------------------
// racing grid: every heartbeat of two (three) consecutive ground-truth events released together

var gridShapes = [][]string{
	{"split", "split"}, {"merge", "merge"}, {"merge", "split"}, {"split", "merge"},
	{"split", "leader-change"}, {"merge", "leader-change"}, {"split", "remove-peer"}, {"merge", "size-flow"},
	{"split", "split", "merge"}, {"merge", "split", "split"}, {"leader-change", "remove-peer"}, {"split", "merge", "merge"},
}

// racingGrid: a tiny world is brought up to date one heartbeat at a time; then 2-3 events happen and
// ALL their heartbeats are delivered concurrently, one goroutine each (split ‖ split of the same
// parent, merge ‖ merge, merge ‖ split, split ‖ conf change ...), some goroutines yielding at pd's
// log calls until another one has returned, a quarter of the cases with failing storage writes.
// Judged after all calls returned, independent of the order they were serialised in:
//   - oracle (c) on the quiescent state;
//   - an accepted heartbeat that is newer than everything else it overlaps (and the last one of its
//     id) cannot be displaced or overridden by anything in the set: it must be served as delivered;
//   - the version served for a key is not below the version served before the race (the cache
//     equalled the ground truth then and every raced heartbeat is later);
//   - a refused heartbeat is not what is served.
func (h *harness) racingGrid(rng *rand.Rand, n int) {
	r := h.r
	hook := &yieldHook{}
	restore := installHook(hook)
	defer restore()
	for i := 0; i < n; i++ {
		shape := gridShapes[i%len(gridShapes)]
		seed := rng.Int63()
		wr := rand.New(rand.NewSource(seed))
		cfg := world.Config{Alphabet: world.MakeAlphabet(wr, 7), InitialRegions: 2 + wr.Intn(3), MaxRegions: 8, Stores: 3, Replicas: 3, EmitP: 1.0}
		if wr.Intn(4) == 0 {
			cfg.TermMode = world.TermNone
		}
		w := world.New(wr, cfg)
		w.Run(wr.Intn(5))
		t := newLight(3)
		ok := true
		for _, s := range w.Emitted {
			if err := t.Deliver(s); err != nil {
				ok = false
			}
		}
		if !ok {
			r.Count("racing_grid_setup_refused", 1)
			t.Close()
			continue
		}
		mark := len(w.Emitted)
		done := ""
		for _, k := range shape {
			if w.Do(k) {
				done += k + ","
			} else {
				w.Step()
				done += "any,"
			}
		}
		if err := w.Check(); err != nil {
			r.Inconclusive("world simulator invariant broken: %v", err)
			t.Close()
			return
		}
		set := w.Emitted[mark:]
		if len(set) < 2 {
			r.Count("racing_grid_too_few_heartbeats", 1)
			t.Close()
			continue
		}
		if len(set) > 8 {
			set = set[:8]
		}
		faultMode := ""
		if i%4 == 3 {
			faultMode = "fail-before"
			m := kvx.FailBefore
			if i%8 == 7 {
				faultMode, m = "lost-ack", kvx.LostAck
			}
			t.kv.FailAllWrites(m, nil)
		}
		before := t.Observe()
		errs := make([]error, len(set))
		panics := make([]interface{}, len(set))
		dones := make([]chan struct{}, len(set))
		for j := range dones {
			dones[j] = make(chan struct{})
		}
		// yielders: up to two goroutines wait (at pd's log calls) for a non-yielding one
		yield := map[int]int{}
		if i%5 != 4 {
			perm := wr.Perm(len(set))
			ny := 1 + wr.Intn(2)
			if ny >= len(set) {
				ny = len(set) - 1
			}
			for _, j := range perm[:ny] {
				yield[j] = perm[ny+wr.Intn(len(perm)-ny)]
			}
		}
		waiters := make([]*waiter, len(set))
		start := make(chan struct{})
		var wg sync.WaitGroup
		for j := range set {
			wg.Add(1)
			go func(j int) {
				defer wg.Done()
				defer close(dones[j])
				defer func() {
					if p := recover(); p != nil {
						panics[j] = p
					}
				}()
				if tgt, ok := yield[j]; ok {
					gid := hist.Goid()
					waiters[j] = &waiter{done: dones[tgt], gosched: i%3 == 2}
					hook.waiters.Store(gid, waiters[j])
					defer hook.waiters.Delete(gid)
				}
				<-start
				errs[j] = t.Deliver(set[j])
			}(j)
		}
		close(start)
		wg.Wait()
		if faultMode != "" {
			r.Count("racing_grid_storage_faults", t.kv.Injected())
			t.kv.ResetFaults()
		}
		after := t.Observe()
		t.Close()
		r.Eval(1)
		r.Count("racing_grid_cases", 1)
		r.Count("racing_grid_heartbeats", int64(len(set)))
		var hbs []interface{}
		outcome := ""
		for j, s := range set {
			e := ""
			if errs[j] != nil {
				e = "refused"
				outcome += "r"
			} else {
				outcome += "a"
			}
			y := ""
			if waiters[j] != nil && atomic.LoadInt32(&waiters[j].fired) == 1 {
				y = fmt.Sprintf(" (yielded at a log call until heartbeat %d returned)", yield[j])
				r.Count("racing_grid_yielded_at_log", 1)
			}
			hbs = append(hbs, fmt.Sprintf("%d: %s %s%s", j, s.Short(), e, y))
		}
		wit := map[string]interface{}{"mode": "racing-grid:light", "events": done, "world_seed": seed, "storage_faults": faultMode,
			"raced_heartbeats": hbs, "before": before.describe(), "after": after.describe()}
		for j := range panics {
			if panics[j] != nil {
				r.Violation("panic-in-heartbeat", fmt.Sprintf("heartbeat processing panicked: %v", panics[j]), wit)
			}
		}
		for _, x := range structural(after) {
			r.Violation(x.key, "after racing heartbeats: "+x.what, wit)
		}
		for j, s := range set {
			want := viewOfSnap(s)
			got, served := after.ByID[s.R.ID]
			if errs[j] != nil {
				// refused: it is not what is served (unless an identical heartbeat exists in the set / before)
				if served && got.Full == want.Full {
					dup := false
					for k, o := range set {
						if k != j && viewOfSnap(o).Full == want.Full {
							dup = true
						}
					}
					if b, ok := before.ByID[s.R.ID]; ok && b.Full == want.Full {
						dup = true
					}
					if !dup {
						r.Violation("refused-heartbeat-is-served:racing-grid", fmt.Sprintf("heartbeat %d (%s) was answered with an error, yet exactly it is served at quiescence", j, s.Short()), wit)
					}
				}
				continue
			}
			top := true
			for k, o := range set {
				if k == j {
					continue
				}
				if o.R.ID == s.R.ID && o.Seq > s.Seq {
					top = false
				}
				if o.R.ID != s.R.ID && overlap(o.R.Start, o.R.End, s.R.Start, s.R.End) && o.R.Version >= s.R.Version {
					top = false
				}
			}
			if !top {
				continue
			}
			r.Count("racing_grid_top_heartbeats_accepted", 1)
			if !served || got.Start != want.Start || got.End != want.End || got.Ver != want.Ver || got.Conf < want.Conf {
				g := "nothing"
				if served {
					g = got.Full
				}
				r.Violation("accepted-heartbeat-lost:racing-grid", fmt.Sprintf("heartbeat %d (%s) was accepted; it is the latest of its id and newer than every other raced or cached region it overlaps, so nothing may displace or override it, yet at quiescence region %d is served as %s", j, s.Short(), s.R.ID, g), wit)
			}
		}
		// the cache equalled the ground truth before the race and every raced heartbeat is later than
		// that: whatever covers a key now carries at least the version that covered it before
		for _, k := range append([]string{""}, cfg.Alphabet...) {
			floor, idb := versionAt(before, k)
			if va, ida := versionAt(after, k); va != 0 && va < floor {
				r.Violation("served-version-of-key-goes-back:racing-grid", fmt.Sprintf("key %q was served by region %d with version %d before the race and is served by region %d with version %d after it", k, idb, floor, ida, va), wit)
				break
			}
		}
		r.Distinct(fmt.Sprintf("grid|%s|%s|%s|%d", done, faultMode, outcome, len(yield)))
		if i == 1 {
			r.Sample(wit)
		}
	}
	r.Count("racing_grid_yield_wait_ran_out", atomic.LoadInt64(&hook.timeout))
}

// ---------------------------------------------------------------------------------------------
// scale: a populated cluster (thousands of regions: the range index has several levels, splits and
// merges hit node boundaries), keys that are prefixes of each other

func (h *harness) scaleWorlds(rng *rand.Rand, n, events int, streams int) {
	r := h.r
	for variant := 0; variant < 2; variant++ {
		p := &worldParams{Seed: rng.Int63(), PlanSeed: rng.Int63(), Events: events}
		arng := rand.New(rand.NewSource(p.Seed ^ 0x5ca1e))
		p.Cfg = world.Config{Alphabet: world.MakeNumericAlphabet(arng, 2*n), InitialRegions: n, MaxRegions: n + n/2, Stores: 5, Replicas: 3}
		p.Plan = world.PlanConfig{Streams: 1, DropP: 0.05, DupP: 0.15, StaleP: 0.15}
		if variant == 1 {
			p.Plan.Streams = streams
		}
		w, plan, err := p.build()
		if err != nil {
			r.Inconclusive("world simulator invariant broken at scale: %v", err)
			return
		}
		t := newLight(5)
		// populate: the initial layout, one heartbeat at a time (not part of the judged plan)
		var rest []world.Delivery
		refused, kept := 0, 0
		for _, d := range plan {
			if d.Snap.Step == 0 && d.Kind == "first" {
				if t.Deliver(d.Snap) != nil {
					refused++
				}
			} else if d.Snap.Step == 0 && kept%16 != 0 {
				// duplicates / stale copies of the initial layout: one in 16 is kept (every judged
				// delivery costs a full observation of the populated cluster)
				kept++
			} else {
				if d.Snap.Step == 0 {
					kept++
				}
				rest = append(rest, d)
			}
		}
		o := t.Observe()
		wit := map[string]interface{}{"mode": "scale:light", "world": map[string]interface{}{"world_seed": p.Seed, "plan_seed": p.PlanSeed, "regions": n, "events": events}}
		for _, x := range structural(o) {
			r.Violation(x.key, fmt.Sprintf("after populating %d regions: %s", n, x.what), wit)
		}
		if refused > 0 || len(o.ByID) != n {
			r.Count("scale_population_incomplete", 1)
		}
		r.Count("scale_regions_populated", int64(len(o.ByID)))
		r.Eval(1)
		if variant == 0 {
			snaps := snapsOf(rest)
			fs, st := judgeSeq(t, snaps, false)
			r.Count("worlds_scale_sequential", 1)
			h.fold(st, w)
			if key, ok := outcomeKey("scale", st); ok {
				r.Distinct(key)
			}
			h.report(fs, snaps, 5, map[string]interface{}{"world": wit["world"], "note": fmt.Sprintf("cluster populated with %d regions first (world seed reproduces them); the list holds the deliveries after that", n)}, "sequential:scale")
		} else {
			res := runConcurrent(r, t, w, rest, streams, 2, rand.New(rand.NewSource(p.PlanSeed^0x77)), "scale", wit)
			if res != nil {
				h.concFold(res, w, rest, "scale", 1, p)
			}
		}
		t.Close()
	}
}

// ---------------------------------------------------------------------------------------------
// heartbeats ‖ leader change (thorough): a real server with its real storage; while streams deliver
// heartbeats the way the gRPC handler does (GetRaftCluster() != nil, then HandleRegionHeartbeat) and
// readers scan, the member gives up its leadership and campaigns again (the raft cluster is stopped
// and started: cluster state re-initialised under the cluster lock, coordinator replaced).

func (h *harness) leaderChange(rng *rand.Rand, cycles int) {
	r := h.r
	cfgs := srv.NewConfigs(1, func(i int, cfg *config.Config) { cfg.LeaderLease = 120 })
	m, err := srv.Start(cfgs[0])
	if err != nil {
		r.Inconclusive("leader change: start: %v", err)
		return
	}
	defer m.Close()
	if srv.WaitLeader([]*srv.Member{m}, 30*time.Second) == nil || m.Bootstrap() != nil {
		r.Inconclusive("leader change: no leader / bootstrap failed")
		return
	}
	t, err := newFullS(m, 6, false)
	if err != nil {
		r.Inconclusive("leader change: setup: %v", err)
		return
	}
	p := genParams(rng, 16, 12, 400, 4, false)
	noMixedTerm(p)
	p.Cfg.Stores, p.Cfg.IDBase, p.Cfg.VersionBase = 6, 1000, 10
	w, plan, err := p.build()
	if err != nil {
		r.Inconclusive("world simulator invariant broken: %v", err)
		return
	}
	streams := 4
	per := make([][]world.Delivery, streams)
	for _, d := range plan {
		per[d.Stream%streams] = append(per[d.Stream%streams], d)
	}
	var delivered, skipped, stop int64
	var panics sync.Map
	var wgD, wgR sync.WaitGroup
	for s := 0; s < streams; s++ {
		wgD.Add(1)
		go func(s int) {
			defer wgD.Done()
			for _, d := range per[s] {
				func() {
					defer func() {
						if p := recover(); p != nil {
							panics.Store(fmt.Sprint(p), d.Snap.Short())
						}
					}()
					// what the RegionHeartbeat stream handler does
					if rc := m.Srv.GetRaftCluster(); rc != nil {
						t.addID(d.Snap.R.ID)
						rc.HandleRegionHeartbeat(d.Snap.Info())
						atomic.AddInt64(&delivered, 1)
					} else {
						atomic.AddInt64(&skipped, 1)
						time.Sleep(2 * time.Millisecond)
					}
				}()
			}
		}(s)
	}
	scanBad := make([][]string, 2)
	var scans int64
	for k := 0; k < 2; k++ {
		wgR.Add(1)
		go func(k int) {
			defer wgR.Done()
			for atomic.LoadInt64(&stop) == 0 {
				if rc := m.Srv.GetRaftCluster(); rc != nil {
					vs := rc.ScanRegions([]byte(""), []byte(""), 0)
					atomic.AddInt64(&scans, 1)
					for i := 1; i < len(vs); i++ {
						if vs[i] == nil || vs[i-1] == nil {
							if len(scanBad[k]) < 3 {
								scanBad[k] = append(scanBad[k], "a scan returned an entry without a region")
							}
							break
						}
						if a, b := liteOfInfo(vs[i-1]), liteOfInfo(vs[i]); (a.End == "" || a.End > b.Start) && len(scanBad[k]) < 3 {
							scanBad[k] = append(scanBad[k], fmt.Sprintf("a scan returned region %d %s followed by region %d %s", a.ID, vr(a), b.ID, vr(b)))
						}
					}
				}
				time.Sleep(time.Millisecond)
			}
		}(k)
	}
	resigns := 0
	for c := 0; c < cycles; c++ {
		target := int64(len(plan)) * int64(c+1) / int64(cycles+1)
		for w := 0; atomic.LoadInt64(&delivered)+atomic.LoadInt64(&skipped) < target && w < 20000; w++ {
			time.Sleep(time.Millisecond)
		}
		m.Srv.GetMember().ResetLeader()
		resigns++
		ok := false
		for w := 0; w < 3000; w++ { // bounded wait for the member to be leader with a running cluster again
			time.Sleep(10 * time.Millisecond)
			if m.Srv.GetMember().IsLeader() && m.Srv.GetRaftCluster() != nil {
				ok = true
				break
			}
		}
		if !ok {
			atomic.StoreInt64(&stop, 1)
			wgD.Wait()
			wgR.Wait()
			r.Inconclusive("leader change: the member did not become leader again")
			return
		}
	}
	wgD.Wait()
	atomic.StoreInt64(&stop, 1)
	wgR.Wait()
	r.Eval(1)
	r.Count("leader_change_resigns", int64(resigns))
	r.Count("leader_change_heartbeats_delivered", atomic.LoadInt64(&delivered))
	r.Count("leader_change_heartbeats_while_not_leader", atomic.LoadInt64(&skipped))
	r.Count("leader_change_scans_checked", atomic.LoadInt64(&scans))
	t.rc = m.Srv.GetRaftCluster()
	if t.rc == nil {
		r.Inconclusive("leader change: no running cluster at the end")
		return
	}
	wit := map[string]interface{}{"mode": "heartbeats-during-leader-change:full-server", "world": p.describe(), "resigns": resigns}
	panics.Range(func(k, v interface{}) bool {
		r.Violation("panic-in-heartbeat", fmt.Sprintf("heartbeat processing panicked during a leader change: %v (%v)", k, v), wit)
		return true
	})
	for k := range scanBad {
		for _, b := range scanBad[k] {
			r.Violation("single-scan-overlaps-or-unsorted:concurrent", "during leader changes: "+b, wit)
		}
	}
	if err := t.Healthy(); err != nil {
		r.Inconclusive("leader change: %v", err)
		return
	}
	o := t.Observe()
	wit["final"] = o.describe()
	for _, x := range structural(o) {
		r.Violation(x.key, "at quiescence after heartbeats racing leader changes: "+x.what, wit)
	}
	// afterwards the up-to-date heartbeat of every live region, one at a time, judged exactly
	// (served side; the server's own storage is not observed)
	finals := w.Final()
	fs, st, herr := judgeSeqH(t, finals, true, t.Healthy)
	if herr != nil {
		r.Inconclusive("leader change: %v", herr)
		return
	}
	h.fold(st, nil)
	h.report(fs, finals, 6, map[string]interface{}{"world": p.describe(), "note": "final heartbeats one at a time after heartbeats raced leader changes on a real server"}, "sequential-after-leader-change:full-server")
}

// ---------------------------------------------------------------------------------------------
// region storage (lifecycle): the storage a real server uses — leveldb behind a write batch with a
// background flush — under heartbeats handled one at a time; then an explicit flush, and a shutdown
// the way pd-server does it (server context cancelled BEFORE the storage is closed) followed by a
// start from disk.

// canonicalRegionStorageResurrection: the minimal history of the finding "a region saved and then
// displaced before the write batch is flushed comes back to storage with the flush".
func (h *harness) canonicalRegionStorageResurrection() {
	r := h.r
	dir, err := ioutil.TempDir("", "verif_c06_rs")
	if err != nil {
		return
	}
	defer os.RemoveAll(dir)
	t, err := newLightRS(3, dir)
	if err != nil {
		r.Inconclusive("region storage: %v", err)
		return
	}
	defer t.CloseRS()
	plan := []*world.Snapshot{snapR(0, 1, "a", "c", 1), snapR(1, 2, "a", "c", 2)}
	var errs []string
	for _, s := range plan {
		errs = append(errs, fmt.Sprint(t.Deliver(s)))
	}
	loadableBefore := t.Loadable(1)
	ferr := t.rs.FlushRegion()
	o := t.Observe()
	r.Eval(1)
	if _, served := o.ByID[1]; !served && t.Loadable(1) {
		r.Count("canonical_region_storage_resurrection_reproduced", 1)
		r.Violation("displaced-region-still-stored:region-storage-after-flush",
			"heartbeats handled one at a time on a storage with region storage enabled (the server default): region 1 [a,c) v1 is accepted (its record goes to the write batch), region 2 [a,c) v2 is accepted and displaces it (DeleteRegion removes the key from leveldb only, the copy in the batch stays), the batch is flushed: region 1 is loadable from storage again although it was displaced",
			map[string]interface{}{"mode": "region-storage-after-flush:light:canonical", "deliveries": describePlan(plan), "answers": errs,
				"region_1_loadable_before_flush": loadableBefore, "flush_error": fmt.Sprint(ferr), "state_after_flush": o.describe()})
	} else {
		r.Count("canonical_region_storage_resurrection_not_reproduced", 1)
	}
}

func (h *harness) regionStorageWorlds(rng *rand.Rand, n int) {
	r := h.r
	h.canonicalRegionStorageResurrection()
	for i := 0; i < n; i++ {
		p := genParams(rng, 12, 8, 140, 1, false)
		p.Plan.StaleP, p.Plan.DropP = 0.05, 0.05
		w, plan, err := p.build()
		if err != nil {
			r.Inconclusive("world simulator invariant broken: %v", err)
			return
		}
		dir, err := ioutil.TempDir("", "verif_c06_rs")
		if err != nil {
			r.Inconclusive("temp dir: %v", err)
			return
		}
		t, err := newLightRS(p.Cfg.Stores, dir)
		if err != nil {
			os.RemoveAll(dir)
			r.Inconclusive("region storage: %v", err)
			return
		}
		snaps := snapsOf(plan)
		t.flushAt = len(snaps) / 2
		fs, st := judgeSeq(t, snaps, false)
		r.Eval(1)
		r.Count("worlds_region_storage", 1)
		h.fold(st, w)
		if key, ok := outcomeKey("rs", st); ok {
			r.Distinct(key)
		}
		base := map[string]interface{}{"world": p.describe(), "storage": "core.NewStorage(kv, WithRegionStorage(leveldb)) switched to region storage"}
		h.report(fs, snaps, p.Cfg.Stores, base, "sequential:light:region-storage")
		clean := len(fs) == 0
		// displaced regions are gone from storage once the write batch has been flushed
		cancelFirst := i%2 == 0
		if !cancelFirst {
			if err := t.rs.FlushRegion(); err != nil {
				r.Inconclusive("FlushRegion: %v", err)
			}
		}
		before := t.Observe()
		for id := range st.displaced {
			if cancelFirst {
				break // nothing flushed explicitly: the shutdown below has to write the batch
			}
			if _, served := before.ByID[id]; served {
				continue
			}
			if t.Loadable(id) {
				wit := map[string]interface{}{"mode": "region-storage-after-flush:light", "region": id, "state": before.describe()}
				for k, v := range base {
					wit[k] = v
				}
				r.Violation("displaced-region-still-stored:region-storage-after-flush", fmt.Sprintf("heartbeats were handled one at a time; region %d was displaced from the cache by an accepted newer overlapping region (its record was deleted from the region storage while a copy still sat in the write batch); after the batch was flushed the displaced region is loadable from storage again", id), wit)
				break
			}
		}
		// shutdown + start from disk
		nt, err := t.RestartRS(cancelFirst)
		if err != nil {
			r.Inconclusive("region storage restart: %v", err)
			os.RemoveAll(dir)
			return
		}
		if clean {
			after := nt.Observe()
			mode := "region-storage-close-reopen:light"
			if cancelFirst {
				mode = "region-storage-context-cancelled-before-close-reopen:light"
			}
			missing := 0
			for id := range before.ByID {
				if _, ok := after.ByID[id]; !ok {
					missing++
				}
			}
			r.Count("region_storage_served_region_missing_after_restart", int64(missing))
			h.judgeReload(before, after, false, mode, base)
		}
		nt.CloseRS()
		os.RemoveAll(dir)
	}
}

// ---------------------------------------------------------------------------------------------
// the real gRPC entry point: Server.RegionHeartbeat on a stream. The handler refuses some requests
// before they reach the heartbeat handler ("invalid request leader", "invalid request region",
// "zero region peer count", unknown store): whatever it answers, such a request changes nothing.

type fakeHBStream struct {
	ctx  context.Context
	in   chan *pdpb.RegionHeartbeatRequest
	idle chan struct{}
	mu   sync.Mutex
	sent []*pdpb.RegionHeartbeatResponse
}

func (f *fakeHBStream) Recv() (*pdpb.RegionHeartbeatRequest, error) {
	select {
	case f.idle <- struct{}{}:
	default:
	}
	req, ok := <-f.in
	if !ok {
		return nil, io.EOF
	}
	return req, nil
}
func (f *fakeHBStream) Send(r *pdpb.RegionHeartbeatResponse) error {
	f.mu.Lock()
	f.sent = append(f.sent, r)
	f.mu.Unlock()
	return nil
}
func (f *fakeHBStream) SetHeader(metadata.MD) error  { return nil }
func (f *fakeHBStream) SendHeader(metadata.MD) error { return nil }
func (f *fakeHBStream) SetTrailer(metadata.MD)       {}
func (f *fakeHBStream) Context() context.Context     { return f.ctx }
func (f *fakeHBStream) SendMsg(interface{}) error    { return nil }
func (f *fakeHBStream) RecvMsg(interface{}) error    { return nil }

// streamSend pushes one request through a fresh stream of the real handler and waits (bounded) until
// the handler has finished with it (it asked for the next request, or returned).
func streamSend(t *fullTarget, req *pdpb.RegionHeartbeatRequest) (handlerErr error, processed bool) {
	f := &fakeHBStream{ctx: context.Background(), in: make(chan *pdpb.RegionHeartbeatRequest), idle: make(chan struct{}, 1)}
	done := make(chan error, 1)
	go func() {
		defer func() {
			if p := recover(); p != nil {
				done <- fmt.Errorf("PANIC in the stream handler: %v", p)
			}
		}()
		done <- t.m.Srv.RegionHeartbeat(f)
	}()
	select {
	case <-f.idle: // first Recv
	case <-time.After(5 * time.Second):
		return nil, false
	}
	f.in <- req
	select {
	case <-f.idle: // the handler came back for the next request
		close(f.in)
		select {
		case handlerErr = <-done:
		case <-time.After(5 * time.Second):
			return nil, false
		}
		return handlerErr, true
	case handlerErr = <-done: // the handler gave up on the stream
		return handlerErr, true
	case <-time.After(5 * time.Second):
		return nil, false
	}
}

func (h *harness) streamMalformed(t *fullTarget, idBase, verBase uint64) {
	r := h.r
	good := mkSnap(0, idBase+1, "sm-a", "sm-c", verBase+1, 1, 6, "stream-valid")
	good.R.Peers = []world.Peer{{ID: idBase + 11, Store: 1}, {ID: idBase + 12, Store: 2}, {ID: idBase + 13, Store: 3}}
	good.R.Leader = idBase + 11
	req := good.Request()
	req.Header = t.m.Header()
	t.addID(good.R.ID)
	if _, ok := streamSend(t, req); !ok {
		r.Inconclusive("gRPC stream: the handler did not take a valid heartbeat")
		return
	}
	o := t.Observe()
	if v, ok := o.ByID[good.R.ID]; !ok || v.Ver != good.R.Version {
		r.Inconclusive("gRPC stream: a valid heartbeat through the real stream handler is not served (harness problem)")
		return
	}
	r.Count("grpc_stream_valid_heartbeats", 1)
	type mal struct {
		name      string
		mut       func(q *pdpb.RegionHeartbeatRequest)
		ambiguous bool
	}
	cases := []mal{
		{"no-leader", func(q *pdpb.RegionHeartbeatRequest) { q.Leader = nil }, false},
		{"leader-without-ids", func(q *pdpb.RegionHeartbeatRequest) { q.Leader = &metapb.Peer{} }, false},
		{"leader-on-unknown-store", func(q *pdpb.RegionHeartbeatRequest) { q.Leader = &metapb.Peer{Id: q.Leader.Id, StoreId: 4242} }, false},
		{"region-id-0", func(q *pdpb.RegionHeartbeatRequest) { q.Region.Id = 0 }, false},
		{"no-region", func(q *pdpb.RegionHeartbeatRequest) { q.Region = nil }, false},
		{"zero-peers", func(q *pdpb.RegionHeartbeatRequest) { q.Region.Peers = nil }, false},
		{"zero-peers-empty-slice", func(q *pdpb.RegionHeartbeatRequest) { q.Region.Peers = []*metapb.Peer{} }, false},
		{"wrong-cluster-id", func(q *pdpb.RegionHeartbeatRequest) {
			q.Header = &pdpb.RequestHeader{ClusterId: q.Header.ClusterId + 1}
		}, false},
		{"leader-not-in-peers", func(q *pdpb.RegionHeartbeatRequest) { q.Leader = &metapb.Peer{Id: 987654, StoreId: 1} }, true},
	}
	for _, c := range cases {
		// a NEWER version of the served region over a wider range, so that handling it would show
		s := mkSnap(1, good.R.ID, "sm-a", "sm-e", verBase+5, 2, 7, "stream-malformed:"+c.name)
		s.R.Peers, s.R.Leader = good.R.Peers, good.R.Leader
		q := s.Request()
		q.Header = t.m.Header()
		c.mut(q)
		before := t.Observe()
		herr, ok := streamSend(t, q)
		if !ok {
			r.Inconclusive("gRPC stream: handler stuck on %s", c.name)
			return
		}
		after := t.Observe()
		r.Eval(1)
		r.Count("grpc_stream_malformed_heartbeats", 1)
		if herr != nil && strings.HasPrefix(herr.Error(), "PANIC") {
			// a request no store sends (outside the histories the property quantifies over): counted and
			// reported as a by-product; what it did to the served / stored regions is still judged
			r.Count("grpc_stream_handler_panic|"+c.name, 1)
		}
		r.Distinct("stream|" + c.name)
		if c.ambiguous {
			r.Count("skipped_ambiguous", 1) // pd documents no convention for it
			// bring the region back to a known state for the next case is not needed: ids are fresh per run
			continue
		}
		if !sameServed(before.ByID, after.ByID) || !sameStored(before.Stored, after.Stored) {
			r.Violation("malformed-heartbeat-changed-state:"+c.name, fmt.Sprintf("a region heartbeat the gRPC handler documents as invalid (%s; handler returned %v) changed the served or stored regions", c.name, herr),
				map[string]interface{}{"mode": "grpc-stream:full-server", "case": c.name, "before": before.describe(), "after": after.describe()})
		}
	}
}
