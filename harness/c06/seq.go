package main

import (
	"fmt"
	"sort"

	"verif/harness/lib/world"
)

// Violation keys. The D12 key is the only one the unchanged tree is expected to produce.
const (
	keyReadmitted = "epoch-regress:readmitted-after-eviction" // D12
	keyWhileCache = "epoch-regress:while-cached:"             // + field
)

// causeDrop marks a pseudo snapshot in a plan: not a heartbeat but the admin request "drop region
// R.ID from the cache" (RaftCluster.DropCacheRegion).
const causeDrop = "admin-drop-cache-region"

func dropOp(seq int, id uint64) *world.Snapshot {
	return &world.Snapshot{Seq: seq, Step: seq, Cause: causeDrop, R: world.Region{ID: id}}
}

type finding struct {
	Key    string
	What   string
	Index  int // index of the offending delivery in the plan
	Before *obs
	After  *obs
}

// expect is the verdict of the independent predicate, written from the statement:
// a heartbeat is stale iff it is staler than the cached region of the same id (smaller version,
// smaller conf_ver, or — when both report one — smaller term), or older in version than a cached
// region it overlaps.
type expect struct {
	staleSame []string // fields in which it is behind the cached region of the same id
	staleOver []uint64 // cached regions it overlaps whose version is larger
	absent    bool     // id not cached
	newer     bool     // id cached and the heartbeat has a larger version or conf_ver (and is not stale)
}

func (e *expect) stale() bool { return len(e.staleSame) > 0 || len(e.staleOver) > 0 }

func classify(h *world.Snapshot, cached map[uint64]view, sorted []view) expect {
	var e expect
	o, ok := cached[h.R.ID]
	if !ok {
		e.absent = true
	} else {
		if h.R.Version < o.Ver {
			e.staleSame = append(e.staleSame, "version")
		}
		if h.R.ConfVer < o.Conf {
			e.staleSame = append(e.staleSame, "conf_ver")
		}
		if t := h.WireTerm(); t > 0 && o.Term > 0 && t < o.Term {
			e.staleSame = append(e.staleSame, "term")
		}
	}
	for _, v := range sorted {
		if overlap(h.R.Start, h.R.End, v.Start, v.End) && h.R.Version < v.Ver {
			e.staleOver = append(e.staleOver, v.ID)
		}
	}
	if ok && !e.stale() && (h.R.Version > o.Ver || h.R.ConfVer > o.Conf) {
		e.newer = true
	}
	return e
}

type kw struct{ key, what string }

// structural evaluates oracle (c) on one quiescent observation.
func structural(o *obs) []kw {
	var out []kw
	if o.ScanNil > 0 {
		out = append(out, kw{"scan-returns-nil-entry", fmt.Sprintf("a full scan returned %d entries without a region (range index and id index disagree)", o.ScanNil)})
	}
	for i := 1; i < len(o.Scan); i++ {
		p, c := o.Scan[i-1], o.Scan[i]
		if p.End == "" || p.End > c.Start {
			out = append(out, kw{"served-regions-overlap:scan", fmt.Sprintf("full scan returns region %d %s followed by region %d %s: not sorted / intersecting", p.ID, p.Range, c.ID, c.Range)})
			break
		}
	}
	vs := o.sorted()
	// sorted by start key: if any two regions intersect, two neighbours do
	for i := 1; i < len(vs); i++ {
		if overlap(vs[i-1].Start, vs[i-1].End, vs[i].Start, vs[i].End) {
			out = append(out, kw{"served-regions-overlap:id-index", fmt.Sprintf("regions %d %s and %d %s are served at the same time", vs[i-1].ID, vs[i-1].Range, vs[i].ID, vs[i].Range)})
			break
		}
	}
	if o.Count != len(o.Scan)+o.ScanNil {
		out = append(out, kw{"region-count-differs-from-scan", fmt.Sprintf("GetRegionCount=%d but a full scan reaches %d regions", o.Count, len(o.Scan)+o.ScanNil)})
	}
	inScan := map[uint64]string{}
	for _, v := range o.Scan {
		inScan[v.ID] = v.Full
	}
	for _, v := range vs {
		f, ok := inScan[v.ID]
		if !ok {
			out = append(out, kw{"scan-and-id-index-disagree", fmt.Sprintf("region %d %s is served by id but not reached by a full scan", v.ID, v.Range)})
			break
		}
		if f != v.Full {
			out = append(out, kw{"scan-and-id-index-disagree", fmt.Sprintf("region %d differs between scan (%s) and lookup by id (%s)", v.ID, f, v.Full)})
			break
		}
	}
	if len(inScan) > len(vs) {
		for _, v := range o.Scan {
			if _, ok := o.ByID[v.ID]; !ok {
				out = append(out, kw{"scan-and-id-index-disagree", fmt.Sprintf("region %d %s is reached by a full scan but not served by id", v.ID, v.Range)})
				break
			}
		}
	}
	return out
}

func sameStored(a, b map[uint64]string) bool {
	if len(a) != len(b) {
		return false
	}
	for k, v := range a {
		if w, ok := b[k]; !ok || w != v {
			return false
		}
	}
	return true
}

func sameServed(a, b map[uint64]view) bool {
	if len(a) != len(b) {
		return false
	}
	for k, v := range a {
		if w, ok := b[k]; !ok || w.Full != v.Full {
			return false
		}
	}
	return true
}

type seqStats struct {
	counters map[string]int64
	outcome  []byte
	// ids displaced by an accepted newer heartbeat of another id and not served again since
	displaced map[uint64]bool
}

func (s *seqStats) add(name string, n int64) { s.counters[name] += n }

// regressFields lists the fields in which cur is behind prev (term only when both report one).
func regressFields(prev, cur view) []string {
	var f []string
	if cur.Ver < prev.Ver {
		f = append(f, "version")
	}
	if cur.Conf < prev.Conf {
		f = append(f, "conf_ver")
	}
	if cur.Term > 0 && prev.Term > 0 && cur.Term < prev.Term {
		f = append(f, "term")
	}
	return f
}

// judgeSeq delivers the snapshots one at a time and evaluates oracles (a)-(e) exactly around every
// delivery. wire selects the expected rendering (gRPC responses vs RegionInfo).
func judgeSeq(t target, plan []*world.Snapshot, wire bool) ([]finding, *seqStats) {
	fs, st, _ := judgeSeqH(t, plan, wire, nil)
	return fs, st
}

// judgeSeqH is judgeSeq with a health probe of the harness itself: it is consulted after every
// delivery + observation and before anything about that delivery is judged; a non-nil error stops the
// run (nothing observed from that delivery on is judged) and is returned.
func judgeSeqH(t target, plan []*world.Snapshot, wire bool, health func() error) ([]finding, *seqStats, error) {
	st := &seqStats{counters: map[string]int64{}, displaced: map[uint64]bool{}}
	var out []finding
	last := map[uint64]view{} // last observation of every id ever served
	// a storage that writes behind (region storage: batch + background flush) changes on its own
	// schedule: the per-delivery storage clauses are skipped, the caller checks after an explicit flush
	asyncStored := false
	if a, ok := t.(interface{ StoredAsync() bool }); ok {
		asyncStored = a.StoredAsync()
	}
	before := t.Observe()
	if health != nil {
		if err := health(); err != nil {
			return nil, st, err
		}
	}
	for _, x := range structural(before) {
		out = append(out, finding{Key: x.key, What: "before the first delivery: " + x.what, Index: -1, After: before})
	}
	for id, v := range before.ByID {
		last[id] = v
	}
	// (a) two successive observations of an id never go back
	regress := func(i int, h *world.Snapshot, before, after *obs, add func(key, what string)) {
		ids := make([]uint64, 0, len(after.ByID))
		for id := range after.ByID {
			ids = append(ids, id)
		}
		sort.Slice(ids, func(a, b int) bool { return ids[a] < ids[b] })
		for _, id := range ids {
			cur := after.ByID[id]
			if prev, ok := last[id]; ok {
				if f := regressFields(prev, cur); len(f) > 0 {
					if _, cached := before.ByID[id]; cached {
						add(keyWhileCache+f[0], fmt.Sprintf("region %d was served with v%d c%d t%d immediately before this delivery and is served with v%d c%d t%d after it (regressed: %v)", id, prev.Ver, prev.Conf, prev.Term, cur.Ver, cur.Conf, cur.Term, f))
					} else {
						st.add("readmitted_regressions", 1)
						add(keyReadmitted, fmt.Sprintf("region %d was last served with v%d c%d t%d %s, was then displaced (or dropped) from the cache, and is now served again with v%d c%d t%d %s (regressed: %v): PD forgot the epoch of the displaced id and re-admitted a stale heartbeat", id, prev.Ver, prev.Conf, prev.Term, prev.Range, cur.Ver, cur.Conf, cur.Term, cur.Range, f))
					}
				}
			}
			last[id] = cur
		}
	}
	for i, h := range plan {
		if len(out) >= 6 {
			break
		}
		isDrop := h.Cause == causeDrop
		var exp expect
		if !isDrop {
			exp = classify(h, before.ByID, before.sorted())
		}
		var inj0 int64
		fi, hasFaults := t.(interface{ FaultsInjected() int64 })
		if hasFaults {
			inj0 = fi.FaultsInjected()
		}
		var err error
		var panicked interface{}
		func() {
			defer func() {
				if p := recover(); p != nil {
					panicked = p
				}
			}()
			if isDrop {
				t.Drop(h.R.ID)
			} else {
				err = t.Deliver(h)
			}
		}()
		// a storage write of this delivery failed (injected): the storage clauses of the statement
		// speak of heartbeats handled one at a time, not of failing stores; they are skipped for it
		faulted := hasFaults && fi.FaultsInjected() > inj0
		if faulted {
			st.add("deliveries_with_storage_fault", 1)
		}
		if asyncStored {
			faulted = true
		}
		after := t.Observe()
		if health != nil {
			if err := health(); err != nil {
				return out, st, err
			}
		}
		add := func(key, what string) {
			out = append(out, finding{Key: key, What: fmt.Sprintf("delivery %d (%s): %s", i, h.Short(), what), Index: i, Before: before, After: after})
		}
		if panicked != nil {
			add("panic-in-heartbeat", fmt.Sprintf("heartbeat processing panicked: %v", panicked))
			before = after
			continue
		}
		if rv, ok := t.(interface{ VerifyRetained() []string }); ok && (i%64 == 63 || i == len(plan)-1) {
			for _, m := range rv.VerifyRetained() {
				add("served-object-mutated-in-place", "a region object handed out by the cache earlier was modified in place (long-lived consumers hold such objects): "+m)
			}
		}
		// (c)
		for _, x := range structural(after) {
			add(x.key, x.what)
		}
		if isDrop {
			st.add("admin_drops", 1)
			if _, was := before.ByID[h.R.ID]; was {
				st.add("admin_drops_of_cached_region", 1)
			}
			// outside the statement (counted): the dropped id is gone, nothing else changed
			for _, v := range before.sorted() {
				a, ok := after.ByID[v.ID]
				if v.ID == h.R.ID {
					if ok {
						st.add("dropped_region_still_served", 1)
					}
				} else if !ok || a.Full != v.Full {
					st.add("unrelated_region_changed", 1)
				}
			}
			st.outcome = append(st.outcome, 'd')
			regress(i, h, before, after, add)
			before = after
			continue
		}
		st.add("deliveries", 1)
		servedSame := sameServed(before.ByID, after.ByID)
		storedSame := sameStored(before.Stored, after.Stored)
		var oc byte
		switch {
		case exp.stale():
			// (b)
			kind := "overlap-older-version"
			detail := fmt.Sprintf("older in version (v%d) than cached overlapping region(s) %v", h.R.Version, exp.staleOver)
			if len(exp.staleSame) > 0 {
				kind = "same-id:" + exp.staleSame[0]
				c := before.ByID[h.R.ID]
				detail = fmt.Sprintf("staler in %v than the cached region of the same id (cached v%d c%d t%d, heartbeat v%d c%d t%d)", exp.staleSame, c.Ver, c.Conf, c.Term, h.R.Version, h.R.ConfVer, h.WireTerm())
				st.add("expected_stale_same_id", 1)
				oc = 's'
			} else {
				st.add("expected_stale_overlap", 1)
				oc = 'v'
			}
			if err == nil {
				add("stale-heartbeat-accepted:"+kind, "the heartbeat is "+detail+" but was answered without error")
			} else {
				st.add("rejected", 1)
			}
			if !servedSame {
				if err != nil {
					add("stale-heartbeat-changed-state:served", "the heartbeat is "+detail+", was rejected, yet the served region set changed")
				} else {
					st.add("stale_accepted_changed_served", 1)
				}
			}
			if !storedSame && !faulted {
				if err != nil {
					add("stale-heartbeat-changed-state:stored", "the heartbeat is "+detail+", was rejected, yet the stored region set changed")
				} else {
					st.add("stale_accepted_changed_stored", 1)
				}
			}
		case err != nil:
			// not stale by the statement, yet rejected: the statement is one-directional; counted only
			st.add("fresh_heartbeat_rejected", 1)
			st.add("rejected", 1)
			oc = 'x'
			if !servedSame || !storedSame {
				st.add("fresh_rejected_changed_state", 1)
			}
		default:
			st.add("accepted", 1)
			// (d) every cached region of another id that the accepted heartbeat overlaps is gone
			evicted := 0
			for _, v := range before.sorted() {
				if v.ID == h.R.ID || !overlap(h.R.Start, h.R.End, v.Start, v.End) {
					continue
				}
				if h.R.Version <= v.Ver {
					// "displaced by an accepted NEWER overlapping region": an overlapping heartbeat of the
					// same version cannot come from a real history (range changes bump the version)
					st.add("skipped_ambiguous_overlap_same_version", 1)
					continue
				}
				evicted++
				st.displaced[v.ID] = true
				if _, still := after.ByID[v.ID]; still {
					add("displaced-region-still-served", fmt.Sprintf("accepted; cached region %d %s v%d of another id overlaps it and is still served", v.ID, v.Range, v.Ver))
				} else if g := t.Get(v.ID); g != nil {
					add("displaced-region-still-served", fmt.Sprintf("accepted; cached region %d %s v%d of another id overlaps it and is still returned by a lookup by id", v.ID, v.Range, v.Ver))
				}
				if faulted {
					st.add("skipped_stored_clause_under_fault", 1)
				} else if _, still := after.Stored[v.ID]; still || t.Loadable(v.ID) {
					add("displaced-region-still-stored", fmt.Sprintf("accepted (heartbeats handled one at a time); displaced region %d %s is still loadable from storage", v.ID, v.Range))
				}
			}
			st.add("evictions", int64(evicted))
			delete(st.displaced, h.R.ID)
			// (e)
			switch {
			case exp.absent || exp.newer:
				want := viewOfSnap(h)
				if wire {
					want = viewOfSnapWire(h)
				}
				g := t.Get(h.R.ID)
				if g == nil || g.Full != want.Full {
					got := "nothing"
					if g != nil {
						got = g.Full
					}
					sub := "newer-than-cached"
					if exp.absent {
						sub = "id-not-cached"
					}
					add("accepted-newer-not-reflected:by-id:"+sub, fmt.Sprintf("accepted but a lookup by id returns %s, expected %s", got, want.Full))
				}
				k := t.GetByKey(h.R.Start)
				if k == nil || k.Full != want.Full {
					got := "nothing"
					if k != nil {
						got = k.Full
					}
					add("accepted-newer-not-reflected:by-key", fmt.Sprintf("accepted but a lookup of its start key returns %s, expected %s", got, want.Full))
				}
				if _, ok := after.Stored[h.R.ID]; !ok && !faulted {
					st.add("accepted_new_epoch_not_stored", 1)
				}
				switch {
				case evicted > 0:
					oc = 'e'
				case exp.absent:
					oc = 'n'
				default:
					oc = 'u'
				}
			default:
				oc = 'o'
				st.add("accepted_same_epoch", 1)
			}
			// changes outside {the id, the displaced ones}: not in the statement, counted only
			for _, v := range before.sorted() {
				if v.ID == h.R.ID || overlap(h.R.Start, h.R.End, v.Start, v.End) {
					continue
				}
				if a, ok := after.ByID[v.ID]; !ok || a.Full != v.Full {
					st.add("unrelated_region_changed", 1)
				}
			}
		}
		st.outcome = append(st.outcome, oc)
		regress(i, h, before, after, add)
		before = after
	}
	return out, st, nil
}

// ddmin reduces plan to a 1-minimal sub-sequence on which test still holds.
func ddmin(plan []*world.Snapshot, test func([]*world.Snapshot) bool) []*world.Snapshot {
	n := 2
	for len(plan) >= 2 {
		chunk := (len(plan) + n - 1) / n
		reduced := false
		// try complements (removing one chunk)
		for s := 0; s < len(plan); s += chunk {
			e := s + chunk
			if e > len(plan) {
				e = len(plan)
			}
			cand := append(append([]*world.Snapshot(nil), plan[:s]...), plan[e:]...)
			if len(cand) > 0 && test(cand) {
				plan = cand
				if n > 2 {
					n--
				}
				reduced = true
				break
			}
		}
		if !reduced {
			if n >= len(plan) {
				break
			}
			n *= 2
			if n > len(plan) {
				n = len(plan)
			}
		}
	}
	return plan
}

// minimizeLight reduces a failing delivery list to a minimal one that still produces key on a fresh
// light harness. Returns the reduced list and the finding on it (nil when it cannot be reproduced).
func minimizeLight(plan []*world.Snapshot, key string, stores int) ([]*world.Snapshot, *finding) {
	var lastF *finding
	runs := 0
	test := func(p []*world.Snapshot) bool {
		runs++
		if runs > 4000 {
			return false
		}
		t := newLight(stores)
		defer t.Close()
		fs, _ := judgeSeq(t, p, false)
		for i := range fs {
			if fs[i].Key == key {
				return true
			}
		}
		return false
	}
	if !test(plan) {
		return plan, nil
	}
	min := ddmin(plan, test)
	t := newLight(stores)
	defer t.Close()
	fs, _ := judgeSeq(t, min, false)
	for i := range fs {
		if fs[i].Key == key {
			lastF = &fs[i]
			break
		}
	}
	return min, lastF
}

func describePlan(plan []*world.Snapshot) []interface{} {
	var out []interface{}
	for _, s := range plan {
		out = append(out, s.Describe())
	}
	return out
}
