package main

import (
	"fmt"
	"math/rand"
	"runtime"
	"strings"
	"sync"
	"sync/atomic"
	"time"

	"github.com/pingcap/log"
	"go.uber.org/zap"
	"go.uber.org/zap/zapcore"
	"verif/harness/lib/hist"
	"verif/harness/lib/world"
)

// Directed racing pairs.
//
// Each case is a tiny world on a light cluster: two cached neighbours X and Y at version N; the
// ground truth then merges Y into X (X covers both ranges, version N+1) and splits the merged region
// again so that one or two NEW region ids (version N+2 / N+3) lie inside the range X claimed. The
// delayed merge heartbeat of the still-cached X and the first heartbeat(s) of the new region(s) are
// released together from two goroutines. Whatever the interleaving, the merge heartbeat is older in
// version than the new regions it overlaps: if a new region was cached first the merge heartbeat
// must be refused; if the merge heartbeat was cached first the new region displaces it.
//
// The window between the unlocked validation and the cluster lock in processRegionHeartbeat is a few
// instructions wide, but pd logs ("region Version changed", ...) exactly there. The harness owns the
// global logger: a zap core yields at those log calls — only for the goroutine delivering the merge
// heartbeat — until the other goroutine's calls have returned (bounded wait) or just Gosched()s. That
// is a delay at a point where the real code can be pre-empted, not a change of semantics; whether the
// wait ran out only changes which interleaving was explored, never a verdict.

type yieldHook struct {
	waiters sync.Map // goid -> *waiter
	fired   int64
	timeout int64
}

type waiter struct {
	done    <-chan struct{} // closed when the other goroutine's calls returned
	gosched bool            // only yield the processor instead of waiting
	used    int32
	fired   int32
}

func (h *yieldHook) onLog(msg string) {
	v, ok := h.waiters.Load(hist.Goid())
	if !ok {
		return
	}
	w := v.(*waiter)
	if !atomic.CompareAndSwapInt32(&w.used, 0, 1) {
		return
	}
	atomic.StoreInt32(&w.fired, 1)
	atomic.AddInt64(&h.fired, 1)
	if w.gosched {
		for i := 0; i < 8; i++ {
			runtime.Gosched()
		}
		return
	}
	select {
	case <-w.done:
	case <-time.After(200 * time.Millisecond):
		atomic.AddInt64(&h.timeout, 1)
	}
}

type yieldCore struct{ h *yieldHook }

func (c yieldCore) Enabled(l zapcore.Level) bool {
	return l >= zapcore.DebugLevel && l < zapcore.ErrorLevel
}
func (c yieldCore) With([]zapcore.Field) zapcore.Core              { return c }
func (c yieldCore) Sync() error                                    { return nil }
func (c yieldCore) Write(e zapcore.Entry, _ []zapcore.Field) error { c.h.onLog(e.Message); return nil }
func (c yieldCore) Check(e zapcore.Entry, ce *zapcore.CheckedEntry) *zapcore.CheckedEntry {
	if c.Enabled(e.Level) {
		return ce.AddCore(e, c)
	}
	return ce
}

// installHook replaces pd's global logger by the yielding core; the returned func restores the
// previous logger.
func installHook(h *yieldHook) func() {
	prevL := log.L()
	lvl := zap.NewAtomicLevelAt(zapcore.DebugLevel)
	core := yieldCore{h}
	log.ReplaceGlobals(zap.New(core), &log.ZapProperties{Core: core, Level: lvl})
	return func() {
		log.ReplaceGlobals(prevL, &log.ZapProperties{Level: zap.NewAtomicLevelAt(zapcore.FatalLevel)})
	}
}

type raceCase struct {
	Variant string
	Pre     []*world.Snapshot // delivered one at a time: the cached neighbours
	Merge   *world.Snapshot   // delayed merge heartbeat of the still cached region
	New     []*world.Snapshot // first heartbeats of the new region ids inside the merged range
}

func mkSnap(seq int, id uint64, s, e string, ver, conf, term uint64, cause string) *world.Snapshot {
	return &world.Snapshot{Seq: seq, Step: seq, Cause: cause, ReportTerm: true,
		R: world.Region{ID: id, Start: s, End: e, Version: ver, ConfVer: conf, Term: term, Leader: id*10 + 1, SizeMB: 10, Keys: 1000,
			Peers: []world.Peer{{ID: id*10 + 1, Store: 1}, {ID: id*10 + 2, Store: 2}, {ID: id*10 + 3, Store: 3}}}}
}

// genRace builds one case in the key range [pfx+"a", pfx+"e").
func genRace(rng *rand.Rand, pfx string, idBase uint64, variant int) *raceCase {
	a, b, c, d, e := pfx+"a", pfx+"b", pfx+"c", pfx+"d", pfx+"e"
	_ = b
	n := uint64(2 + rng.Intn(5))
	x, y, z1, z2 := idBase+1, idBase+2, idBase+3, idBase+4
	conf := uint64(1 + rng.Intn(3))
	rc := &raceCase{}
	switch variant % 4 {
	case 0: // new region at the right end: X=[a,c) absorbs Y=[c,e), then left-derive split at c
		rc.Variant = "new-region-right"
		rc.Pre = []*world.Snapshot{mkSnap(0, x, a, c, n, conf, 6, "initial"), mkSnap(1, y, c, e, n-uint64(rng.Intn(2)), conf, 6, "initial")}
		rc.Merge = mkSnap(2, x, a, e, n+1, conf, 6, "merge")
		rc.New = []*world.Snapshot{mkSnap(3, z1, c, e, n+2, conf, 5, "split")}
	case 1: // mirrored: X=[c,e) absorbs Y=[a,c), then right-derive split at c
		rc.Variant = "new-region-left"
		rc.Pre = []*world.Snapshot{mkSnap(0, y, a, c, n-uint64(rng.Intn(2)), conf, 6, "initial"), mkSnap(1, x, c, e, n, conf, 6, "initial")}
		rc.Merge = mkSnap(2, x, a, e, n+1, conf, 6, "merge")
		rc.New = []*world.Snapshot{mkSnap(3, z1, a, c, n+2, conf, 5, "split")}
	case 2: // the merged region is split into three: two new ids at the right
		rc.Variant = "two-new-regions-right"
		rc.Pre = []*world.Snapshot{mkSnap(0, x, a, c, n, conf, 6, "initial"), mkSnap(1, y, c, e, n, conf, 6, "initial")}
		rc.Merge = mkSnap(2, x, a, e, n+1, conf, 6, "merge")
		rc.New = []*world.Snapshot{mkSnap(3, z1, c, d, n+3, conf, 5, "split"), mkSnap(4, z2, d, e, n+3, conf, 5, "split")}
	default: // two new ids at the left, in reverse key order
		rc.Variant = "two-new-regions-left"
		rc.Pre = []*world.Snapshot{mkSnap(0, y, a, c, n, conf, 6, "initial"), mkSnap(1, x, c, e, n, conf, 6, "initial")}
		rc.Merge = mkSnap(2, x, a, e, n+1, conf, 6, "merge")
		rc.New = []*world.Snapshot{mkSnap(3, z2, b, c, n+3, conf, 5, "split"), mkSnap(4, z1, a, b, n+3, conf, 5, "split")}
	}
	return rc
}

// versionAt returns the version served for key k in o (0 when no served region covers it).
func versionAt(o *obs, k string) (uint64, uint64) {
	for _, v := range o.ByID {
		if k >= v.Start && (v.End == "" || k < v.End) {
			return v.Ver, v.ID
		}
	}
	return 0, 0
}

// racingPairs runs n directed cases (inconclusive when the suspension point was never reached).
func (h *harness) racingPairs(rng *rand.Rand, n int) {
	r := h.r
	hook := &yieldHook{}
	restore := installHook(hook)
	defer restore()
	const perCluster = 16
	var t *lightTarget
	var recheckRefusals, windowHit int64
	for i := 0; i < n; i++ {
		if i%perCluster == 0 {
			if t != nil {
				t.Close()
			}
			t = newLight(3)
		}
		pfx := fmt.Sprintf("p%02d", i%perCluster)
		rc := genRace(rng, pfx, uint64(100*(i%perCluster)), i)
		mode := "wait-for-other"
		if i%5 == 4 {
			mode = "gosched"
		} else if i%5 == 3 {
			mode = "free"
		} else if i%5 == 2 {
			// a third party holds the cluster lock, parked inside its own storage write (a store weight
			// update: SaveStoreWeight under c.Lock): both heartbeats run through their unlocked
			// validation against the same cache, queue on the lock and are released together
			mode = "lock-holder"
		}
		wit := func(extra map[string]interface{}) map[string]interface{} {
			m := map[string]interface{}{"mode": "racing-pairs:light", "variant": rc.Variant, "yield": mode, "case": i,
				"cached_first": describePlan(rc.Pre), "merge_heartbeat": rc.Merge.Describe(), "new_region_heartbeats": describePlan(rc.New)}
			for k, v := range extra {
				m[k] = v
			}
			return m
		}
		okPre := true
		for _, s := range rc.Pre {
			if err := t.Deliver(s); err != nil {
				okPre = false
			}
		}
		if !okPre {
			r.Inconclusive("racing pairs: set-up heartbeat refused (case %d)", i)
			return
		}
		before := t.Observe()
		var mergeErr error
		newErrs := make([]error, len(rc.New))
		var mergePanic, newPanic interface{}
		done := make(chan struct{})
		start := make(chan struct{})
		w := &waiter{done: done, gosched: mode == "gosched"}
		var wg sync.WaitGroup
		wg.Add(2)
		var mCall, mRet, nCall, nRet int64
		var issued int32
		go func() {
			defer wg.Done()
			gid := hist.Goid()
			if mode != "free" && mode != "lock-holder" {
				hook.waiters.Store(gid, w)
				defer hook.waiters.Delete(gid)
			}
			defer func() {
				if p := recover(); p != nil {
					mergePanic = p
				}
			}()
			<-start
			atomic.AddInt32(&issued, 1)
			mCall = hist.Tick()
			mergeErr = t.Deliver(rc.Merge)
			mRet = hist.Tick()
		}()
		go func() {
			defer wg.Done()
			defer close(done)
			defer func() {
				if p := recover(); p != nil {
					newPanic = p
				}
			}()
			<-start
			atomic.AddInt32(&issued, 1)
			nCall = hist.Tick()
			for k, s := range rc.New {
				newErrs[k] = t.Deliver(s)
			}
			nRet = hist.Tick()
		}()
		if mode == "lock-holder" {
			parked := make(chan struct{})
			var once int32
			t.kv.Gate = func(kind, key string) {
				if kind == "Save" && strings.HasPrefix(key, "schedule/store_weight") && atomic.CompareAndSwapInt32(&once, 0, 1) {
					close(parked)
					// bounded: let both heartbeat calls be issued, validate unlocked and queue on the lock
					for k := 0; k < 2000 && atomic.LoadInt32(&issued) < 2; k++ {
						runtime.Gosched()
					}
					time.Sleep(2 * time.Millisecond)
				}
			}
			wg.Add(1)
			go func() {
				defer wg.Done()
				t.rc.SetStoreWeight(1, 1, 1)
			}()
			select {
			case <-parked:
				r.Count("racing_lock_holder_parked_in_storage_write", 1)
			case <-time.After(2 * time.Second):
				r.Count("racing_lock_holder_not_parked", 1)
			}
		}
		close(start)
		wg.Wait()
		t.kv.Gate = nil
		after := t.Observe()
		r.Eval(1)
		r.Count("racing_pairs|"+rc.Variant, 1)
		r.Count("racing_pairs_mode|"+mode, 1)
		if mergePanic != nil || newPanic != nil {
			r.Violation("panic-in-heartbeat", fmt.Sprintf("heartbeat processing panicked: %v %v", mergePanic, newPanic), wit(nil))
			continue
		}
		hst := map[string]interface{}{"merge_call_ret": []int64{mCall, mRet}, "merge_err": fmt.Sprint(mergeErr), "new_call_ret": []int64{nCall, nRet}, "new_errs": fmt.Sprint(newErrs),
			"merge_goroutine_yielded_at_log": atomic.LoadInt32(&w.fired) == 1, "before": before.describe(), "after": after.describe()}
		// (c) structure
		for _, x := range structural(after) {
			r.Violation(x.key, "after a racing pair: "+x.what, wit(hst))
		}
		xAfter, xServed := after.ByID[rc.Merge.R.ID]
		xGrown := xServed && xAfter.Ver == rc.Merge.R.Version && xAfter.Start == rc.Merge.R.Start && xAfter.End == rc.Merge.R.End
		xGrownOK := true // false: the older merge heartbeat is served although a newer region inside it was accepted
		allNewAccepted := true
		outcome := ""
		if mergeErr == nil {
			outcome = "M"
		} else {
			outcome = "m"
		}
		for k, s := range rc.New {
			if newErrs[k] != nil {
				// never stale (largest version everywhere): acceptance is not demanded, counted only
				allNewAccepted = false
				r.Count("fresh_heartbeat_rejected", 1)
				outcome += "z"
				continue
			}
			outcome += "Z"
			// an accepted new region can only be displaced by something at least as new: the merge
			// heartbeat is older, so whichever call was serialised first, the new region is served now.
			// If it is not and the older merge heartbeat is, the merge heartbeat was cached AFTER the new
			// region, i.e. it was older in version than a cached region it overlapped and not refused.
			if _, ok := after.ByID[s.R.ID]; !ok {
				if xGrown {
					xGrownOK = false
					key := "stale-heartbeat-accepted:overlap-older-version:racing-merge"
					if mergeErr != nil {
						key = "stale-heartbeat-changed-state:served:racing-merge"
					}
					r.Violation(key, fmt.Sprintf("merge heartbeat %s raced the first heartbeat %s of a newer region inside its range; both calls returned (merge err=%v, new err=<nil>) and at quiescence the older merge heartbeat is served over the whole range while the accepted newer region %d is gone: the merge heartbeat was older in version (v%d) than a cached region it overlaps (v%d) and was not refused",
						rc.Merge.Short(), s.Short(), mergeErr, s.R.ID, rc.Merge.R.Version, s.R.Version), wit(hst))
				} else {
					r.Violation("accepted-heartbeat-lost:racing-merge", fmt.Sprintf("heartbeat %s was accepted, nothing newer overlaps it, yet region %d is not served at quiescence", s.Short(), s.R.ID), wit(hst))
				}
			}
		}
		// the version served for a key never goes back: not below the state before the pair, and not
		// below an accepted new region covering the key
		for _, k := range []string{pfx + "a", pfx + "b", pfx + "c", pfx + "d"} {
			vb, _ := versionAt(before, k)
			va, ida := versionAt(after, k)
			floor, why := vb, "the version served before the pair"
			for j, s := range rc.New {
				if newErrs[j] == nil && k >= s.R.Start && k < s.R.End && s.R.Version > floor {
					floor, why = s.R.Version, fmt.Sprintf("the accepted heartbeat of region %d", s.R.ID)
				}
			}
			if va != 0 && va < floor {
				r.Violation("served-version-of-key-goes-back:racing-merge", fmt.Sprintf("key %q is served by region %d with version %d after the pair, below %s (v%d)", k, ida, va, why, floor), wit(hst))
				break
			}
		}
		// a refused heartbeat changes nothing about its own region (served or stored)
		if mergeErr != nil {
			xb := before.ByID[rc.Merge.R.ID]
			if xServed && xAfter.Full != xb.Full {
				r.Violation("stale-heartbeat-changed-state:served:racing-merge", fmt.Sprintf("merge heartbeat %s was refused, yet region %d is served as %s (before: %s)", rc.Merge.Short(), rc.Merge.R.ID, xAfter.Full, xb.Full), wit(hst))
			}
			if after.Stored[rc.Merge.R.ID] != before.Stored[rc.Merge.R.ID] {
				r.Violation("stale-heartbeat-changed-state:stored:racing-merge", fmt.Sprintf("merge heartbeat %s was refused, yet the stored record of region %d changed", rc.Merge.Short(), rc.Merge.R.ID), wit(hst))
			}
			if atomic.LoadInt32(&w.fired) == 1 {
				// refused although it had passed the unlocked validation (the log call lies behind it):
				// the re-validation under the cluster lock did it
				recheckRefusals++
			}
		}
		if atomic.LoadInt32(&w.fired) == 1 && allNewAccepted && nRet < mRet {
			windowHit++
		}
		if !xGrownOK {
			r.Count("racing_pairs_merge_served_over_newer|"+mode, 1)
		}
		r.Distinct("race|" + rc.Variant + "|" + mode + "|" + outcome + fmt.Sprint(atomic.LoadInt32(&w.fired)))
		if i == 0 {
			r.Sample(wit(map[string]interface{}{"outcome": outcome, "merge_err": fmt.Sprint(mergeErr)}))
		}
	}
	if t != nil {
		t.Close()
	}
	r.Count("racing_merge_yielded_at_log", atomic.LoadInt64(&hook.fired))
	r.Count("racing_yield_wait_ran_out", atomic.LoadInt64(&hook.timeout))
	r.Count("racing_window_hit_new_region_cached_inside", windowHit)
	r.Count("racing_refused_by_recheck_under_lock", recheckRefusals)
	if windowHit == 0 {
		r.Inconclusive("racing pairs: the window between the unlocked validation and the cluster lock was never hit (suspension point at pd's log calls not reached)")
	}
}
