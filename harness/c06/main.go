// C06 — Region cache never regresses and never holds overlapping regions.
//
// A ground-truth world simulator (lib/world) evolves a partition of the key space by split (both
// derive directions), merge (prepare / commit / rollback), add / promote / remove peer, leader change
// (term+), size / flow / pending / down changes and emits per-region heartbeat snapshots; a network
// model delays, drops, duplicates and re-delivers arbitrarily old snapshots. The snapshots are fed to
// the real heartbeat handler (cluster.(*RaftCluster).processRegionHeartbeat through the verif hook;
// thorough tier also a real bootstrapped server through HandleRegionHeartbeat + gRPC handlers).
//
// Sequential mode: complete served snapshot (GetRegions, ScanRegions("", "", 0), GetRegionCount) and
// stored set (kv dump) before and after every delivery; oracles (a)-(e) of DESIGN §3 C06 are evaluated
// exactly, the expected accept / reject decision comes from a predicate written from the statement.
// Concurrent mode: N delivery goroutines + reader goroutines under the race detector.
package main

import (
	"fmt"
	"math/rand"
	"os"
	"runtime/pprof"
	"sort"
	"time"

	"github.com/tikv/pd/server/config"
	"verif/harness/lib/ev"
	"verif/harness/lib/kvx"
	"verif/harness/lib/srv"
	"verif/harness/lib/world"
)

type harness struct {
	r          *ev.Run
	minimized  map[string]bool
	accepted   int64
	minSeconds float64
}

type worldParams struct {
	Seed     int64        `json:"world_seed"`
	PlanSeed int64        `json:"plan_seed"`
	Events   int          `json:"events"`
	Cfg      world.Config `json:"-"`
	Plan     world.PlanConfig
}

func (p *worldParams) describe() map[string]interface{} {
	return map[string]interface{}{"world_seed": p.Seed, "plan_seed": p.PlanSeed, "events": p.Events,
		"alphabet": fmt.Sprintf("%q", p.Cfg.Alphabet), "initial_regions": p.Cfg.InitialRegions, "max_regions": p.Cfg.MaxRegions,
		"stores": p.Cfg.Stores, "replicas": p.Cfg.Replicas, "term_mode": p.Cfg.TermMode, "no_range_change": p.Cfg.NoRangeChange,
		"id_base": p.Cfg.IDBase, "version_base": p.Cfg.VersionBase,
		"streams": p.Plan.Streams, "drop_p": p.Plan.DropP, "dup_p": p.Plan.DupP, "stale_p": p.Plan.StaleP}
}

func genParams(rng *rand.Rand, alphaN, maxRegions, events, streams int, fixed bool) *worldParams {
	p := &worldParams{Seed: rng.Int63(), PlanSeed: rng.Int63(), Events: events}
	arng := rand.New(rand.NewSource(p.Seed ^ 0x5eed))
	p.Cfg = world.Config{Alphabet: world.MakeAlphabet(arng, alphaN), MaxRegions: maxRegions, Stores: 4 + rng.Intn(3), Replicas: 3, NoRangeChange: fixed}
	p.Cfg.InitialRegions = 1 + rng.Intn(maxRegions/2+1)
	if fixed {
		p.Cfg.InitialRegions = 1 + rng.Intn(4)
	}
	switch x := rng.Intn(100); {
	case x < 60:
		p.Cfg.TermMode = world.TermAll
	case x < 85:
		p.Cfg.TermMode = world.TermMixed
	default:
		p.Cfg.TermMode = world.TermNone
	}
	p.Plan = world.PlanConfig{Streams: streams, DropP: 0.08, DupP: 0.15, StaleP: 0.12}
	return p
}

func (p *worldParams) build() (*world.World, []world.Delivery, error) {
	w := world.New(rand.New(rand.NewSource(p.Seed)), p.Cfg)
	for i := 0; i < p.Events; i++ {
		w.Step()
		if i%16 == 0 {
			if err := w.Check(); err != nil {
				return nil, nil, err
			}
		}
	}
	if err := w.Check(); err != nil {
		return nil, nil, err
	}
	return w, w.Plan(rand.New(rand.NewSource(p.PlanSeed)), p.Plan), nil
}

// noMixedTerm keeps concurrent worlds out of the zone where stores that do not report the raft term
// alternate with stores that do: served terms t13 -> 0 -> t12 are allowed ("when reported"), but a
// reader that samples may miss the 0 in between and could not tell it from a regression.
func noMixedTerm(p *worldParams) {
	if p.Cfg.TermMode == world.TermMixed {
		p.Cfg.TermMode = world.TermAll
	}
}

// insertDrops inserts admin drop requests for ids seen so far at random positions.
func insertDrops(rng *rand.Rand, snaps []*world.Snapshot, p float64) []*world.Snapshot {
	var out []*world.Snapshot
	var ids []uint64
	for i, s := range snaps {
		out = append(out, s)
		ids = append(ids, s.R.ID)
		if rng.Float64() < p {
			// mostly a recently seen id (likely cached), sometimes any
			id := ids[len(ids)-1-rng.Intn(minInt(len(ids), 8))]
			if rng.Intn(4) == 0 {
				id = ids[rng.Intn(len(ids))]
			}
			out = append(out, dropOp(i, id))
		}
	}
	return out
}

func minInt(a, b int) int {
	if a < b {
		return a
	}
	return b
}

func snapsOf(plan []world.Delivery) []*world.Snapshot {
	out := make([]*world.Snapshot, len(plan))
	for i := range plan {
		out[i] = plan[i].Snap
	}
	return out
}

// report turns the findings of one sequential run into violations. The first finding of every key is
// reduced (delta debugging on a fresh light harness) to a minimal delivery list.
func (h *harness) report(fs []finding, snaps []*world.Snapshot, stores int, base map[string]interface{}, mode string) {
	r := h.r
	for i := range fs {
		f := &fs[i]
		r.Count("finding|"+f.Key, 1)
		wit := map[string]interface{}{"mode": mode}
		for k, v := range base {
			wit[k] = v
		}
		what := f.What
		if h.minimized[f.Key] || f.Index < 0 {
			wit["offending_delivery"] = f.Index
			r.Violation(f.Key, what, wit)
			continue
		}
		h.minimized[f.Key] = true
		prefix := snaps[:f.Index+1]
		tm := time.Now()
		min, mf := minimizeLight(prefix, f.Key, stores)
		h.minSeconds += time.Since(tm).Seconds()
		if mf != nil {
			wit["minimized_from_deliveries"] = len(prefix)
			wit["deliveries"] = describePlan(min)
			wit["offending_delivery"] = mf.Index
			wit["state_before_offending_delivery"] = mf.Before.describe()
			wit["state_after_offending_delivery"] = mf.After.describe()
			wit["original_report"] = f.What
			what = mf.What
		} else {
			tail := prefix
			if len(tail) > 60 {
				tail = tail[len(tail)-60:]
			}
			wit["not_reproduced_on_fresh_light_harness"] = true
			wit["deliveries_tail"] = describePlan(tail)
			wit["offending_delivery"] = f.Index
			if f.Before != nil {
				wit["state_before_offending_delivery"] = f.Before.describe()
			}
			if f.After != nil {
				wit["state_after_offending_delivery"] = f.After.describe()
			}
		}
		r.Violation(f.Key, what, wit)
	}
}

func outcomeKey(prefix string, st *seqStats) (string, bool) {
	hasRej, hasEv := false, false
	for _, c := range st.outcome {
		if c == 's' || c == 'v' {
			hasRej = true
		}
		if c == 'e' {
			hasEv = true
		}
	}
	return prefix + "|" + string(st.outcome), hasRej && hasEv
}

func (h *harness) fold(st *seqStats, w *world.World) {
	for k, v := range st.counters {
		h.r.Count(k, v)
	}
	h.accepted += st.counters["accepted"]
	if w != nil {
		for k, v := range w.Kinds {
			h.r.Count("world_event|"+k, int64(v))
		}
		h.r.Count("snapshots_emitted", int64(len(w.Emitted)))
	}
}

func countKinds(r *ev.Run, plan []world.Delivery) {
	for _, d := range plan {
		r.Count("delivery_kind|"+d.Kind, 1)
	}
}

// seqWorld: one world delivered one heartbeat at a time to a fresh light harness.
func (h *harness) seqWorld(p *worldParams, idx int) {
	r := h.r
	w, plan, err := p.build()
	if err != nil {
		r.Inconclusive("world simulator invariant broken: %v (world seed %d)", err, p.Seed)
		return
	}
	snaps := snapsOf(plan)
	t := newLight(p.Cfg.Stores)
	// every 5th world: the admin request "drop region from cache" between heartbeats;
	// every 5th world: storage writes of the heartbeat handler fail (before the write / after it was
	// applied); every 10th: both
	xr := rand.New(rand.NewSource(p.PlanSeed ^ 0xd0d0))
	withDrops, withFaults := idx%5 == 1 || idx%10 == 3, idx%5 == 2 || idx%10 == 3
	if withDrops {
		snaps = insertDrops(xr, snaps, 0.05)
		r.Count("worlds_with_admin_drops", 1)
	}
	if withFaults {
		mode := kvx.FailBefore
		if idx%2 == 1 {
			mode = kvx.LostAck
		}
		t.kv.FailAllWrites(mode, func(kind, key string) bool { return xr.Intn(100) < 10 })
		r.Count("worlds_with_storage_faults", 1)
	}
	fs, st := judgeSeq(t, snaps, false)
	if withFaults {
		r.Count("storage_faults_injected", t.kv.Injected())
		t.kv.ResetFaults()
	}
	if idx%3 == 0 && len(fs) == 0 {
		h.reloadCheck(t, withFaults, map[string]interface{}{"world": p.describe()})
	}
	t.Close()
	r.Eval(1)
	r.Count("worlds_sequential", 1)
	countKinds(r, plan)
	h.fold(st, w)
	if key, ok := outcomeKey("seq", st); ok {
		r.Distinct(key)
	} else {
		r.Count("worlds_trivial", 1)
	}
	for i := range fs {
		if fs[i].Key == keyReadmitted {
			r.Count("worlds_with_readmission_found_by_fuzz", 1)
			break
		}
	}
	if idx < 2 {
		var first []string
		for i, s := range snaps {
			if i >= 10 {
				break
			}
			if i < len(st.outcome) {
				first = append(first, fmt.Sprintf("%c %s", st.outcome[i], s.Short()))
			}
		}
		r.Sample(map[string]interface{}{"mode": "sequential", "params": p.describe(), "deliveries": len(snaps), "outcomes": string(st.outcome),
			"first_deliveries": first, "legend": "n=new id accepted u=newer accepted e=accepted displacing other ids o=accepted same epoch s=stale vs same id v=stale vs overlap x=rejected though not stale"})
	}
	h.report(fs, snaps, p.Cfg.Stores, map[string]interface{}{"world": p.describe()}, "sequential:light")
}

// concWorld: one world delivered from several streams concurrently to a fresh light harness.
func (h *harness) concWorld(p *worldParams, readers int, label string, idx int) {
	h.concWorldD(p, readers, label, idx, 0)
}

// concWorldD: nDrops > 0 adds a goroutine issuing admin "drop region from cache" requests.
func (h *harness) concWorldD(p *worldParams, readers int, label string, idx int, nDrops int) {
	r := h.r
	noMixedTerm(p)
	w, plan, err := p.build()
	if err != nil {
		r.Inconclusive("world simulator invariant broken: %v (world seed %d)", err, p.Seed)
		return
	}
	t := newLight(p.Cfg.Stores)
	defer t.Close()
	res := runConcurrentD(r, t, w, plan, p.Plan.Streams, readers, rand.New(rand.NewSource(p.PlanSeed^0x77)), label, map[string]interface{}{"world": p.describe()}, nDrops)
	r.Count("concurrent_admin_drops", int64(len(res.drops)))
	h.concFold(res, w, plan, label, idx, p)
	// afterwards the up-to-date heartbeat of every live region, one at a time, judged exactly
	finals := w.Final()
	fs, st := judgeSeq(t, finals, false)
	h.fold(st, nil)
	h.report(fs, finals, p.Cfg.Stores, map[string]interface{}{"world": p.describe(), "note": "final up-to-date heartbeats delivered one at a time after a concurrent run (state not reproducible from this list alone)"}, "sequential-after-concurrent:light")
	o := t.Observe()
	live := w.Live()
	conv := len(o.Scan) == len(live)
	for i := 0; conv && i < len(live); i++ {
		if o.Scan[i].ID != live[i].ID || o.Scan[i].Start != live[i].Start || o.Scan[i].End != live[i].End || o.Scan[i].Ver != live[i].Version || o.Scan[i].Conf != live[i].ConfVer {
			conv = false
		}
	}
	if conv {
		r.Count("converged_to_ground_truth", 1)
	} else {
		r.Count("not_converged_to_ground_truth", 1) // not demanded by the statement (acceptance is not), counted only
	}
}

func (h *harness) concFold(res *concResult, w *world.World, plan []world.Delivery, label string, idx int, p *worldParams) {
	r := h.r
	r.Eval(1)
	r.Count("worlds_concurrent|"+label, 1)
	r.Count("concurrent_deliveries", int64(len(res.recs)))
	r.Count("concurrent_accepted", int64(res.accepted))
	r.Count("concurrent_rejected", int64(res.rejected))
	r.Count("skipped_ambiguous_concurrent_regress", int64(res.ambiguous))
	h.accepted += int64(res.accepted)
	var reads, scans, observed int64
	for _, rs := range res.readers {
		reads += rs.reads
		scans += rs.scans
		observed += rs.observed
	}
	r.Count("reader_calls", reads)
	r.Count("reader_scans_checked", scans)
	r.Count("reader_region_observations", observed)
	// same-id overlap in time: pairs of deliveries of one id whose execution intervals intersect
	byID := map[uint64][]*delivRec{}
	for i := range res.recs {
		byID[res.recs[i].Snap.R.ID] = append(byID[res.recs[i].Snap.R.ID], &res.recs[i])
	}
	var racing int64
	for _, l := range byID {
		for i := 1; i < len(l); i++ {
			if l[i].Call < l[i-1].Ret {
				racing++
			}
		}
	}
	r.Count("same_id_deliveries_overlapping_in_time", racing)
	pat := make([]byte, 0, len(res.recs))
	for i := range res.recs {
		if res.recs[i].accepted() {
			pat = append(pat, 'a'+byte(res.recs[i].Stream%20))
		} else {
			pat = append(pat, 'A'+byte(res.recs[i].Stream%20))
		}
	}
	if res.rejected > 0 && racing > 0 {
		r.Distinct("conc|" + label + "|" + string(pat))
	} else {
		r.Count("worlds_trivial", 1)
	}
	countKinds(r, plan)
	if w != nil {
		for k, v := range w.Kinds {
			r.Count("world_event|"+k, int64(v))
		}
	}
	if idx == 0 {
		r.Sample(map[string]interface{}{"mode": "concurrent:" + label, "params": p.describe(), "deliveries": len(res.recs), "accepted": res.accepted,
			"rejected": res.rejected, "same_id_overlapping": racing, "reader_calls": reads, "accept_pattern_by_stream": string(pat)})
	}
}

// canonicalD12 replays the hand-written witness of DESIGN §4-D12 so that the finding line is printed
// in every run (known) or its absence is visible (fixed).
func (h *harness) canonicalD12() {
	mk := func(seq int, id uint64, s, e string, v uint64) *world.Snapshot {
		return &world.Snapshot{Seq: seq, Step: seq, Cause: "canonical-D12", ReportTerm: true,
			R: world.Region{ID: id, Start: s, End: e, Version: v, ConfVer: 1, Term: 6, Leader: id*10 + 1, SizeMB: 10,
				Peers: []world.Peer{{ID: id*10 + 1, Store: 1}, {ID: id*10 + 2, Store: 2}, {ID: id*10 + 3, Store: 3}}}}
	}
	plan := []*world.Snapshot{mk(0, 1, "b", "d", 5), mk(1, 2, "c", "d", 6), mk(2, 1, "b", "c", 4)}
	t := newLight(3)
	fs, st := judgeSeq(t, plan, false)
	t.Close()
	h.fold(st, nil)
	h.r.Eval(1)
	hit := false
	for i := range fs {
		if fs[i].Key == keyReadmitted {
			hit = true
		}
	}
	if hit {
		h.r.Count("canonical_d12_reproduced", 1)
	} else {
		h.r.Count("canonical_d12_not_reproduced", 1)
	}
	h.report(fs, plan, 3, map[string]interface{}{"canonical": "A[b,d)v5; C[c,d)v6 displaces A; stale A[b,c)v4"}, "sequential:light:canonical")
}

// fullServer: the thorough tier's variant against a real bootstrapped server. Successive worlds reuse
// the server: each starts above every id and version used so far, so its initial heartbeats displace
// whatever the previous world left behind.
func (h *harness) fullServer(rng *rand.Rand, seqWorlds, concWorlds int) {
	r := h.r
	// a long leader lease: under the load of 8 race-instrumented shards a 1 s lease can lapse
	cfgs := srv.NewConfigs(1, func(i int, cfg *config.Config) { cfg.LeaderLease = 120 })
	m, err := srv.Start(cfgs[0])
	if err != nil {
		r.Inconclusive("full server: start: %v", err)
		return
	}
	defer m.Close()
	if srv.WaitLeader([]*srv.Member{m}, 30*time.Second) == nil {
		r.Inconclusive("full server: no leader")
		return
	}
	if err := m.Bootstrap(); err != nil {
		r.Inconclusive("full server: bootstrap: %v", err)
		return
	}
	t, err := newFull(m, 6)
	if err != nil {
		r.Inconclusive("full server: setup: %v", err)
		return
	}
	idBase, verBase := uint64(1000), uint64(10)
	for k := 0; k < seqWorlds+concWorlds; k++ {
		conc := k >= seqWorlds
		streams := 1
		if conc {
			streams = 8
		}
		p := genParams(rng, 24, 16, 200, streams, conc && k%2 == 0)
		p.Cfg.Stores = 6
		if conc {
			noMixedTerm(p)
		}
		p.Cfg.IDBase, p.Cfg.VersionBase = idBase, verBase
		w, plan, err := p.build()
		if err != nil {
			r.Inconclusive("world simulator invariant broken: %v (world seed %d)", err, p.Seed)
			return
		}
		if conc {
			if err := t.Healthy(); err != nil {
				r.Inconclusive("full server: %v", err)
				return
			}
			res := runConcurrent(r, t, w, plan, streams, 3, rand.New(rand.NewSource(p.PlanSeed^0x77)), "full-server", map[string]interface{}{"world": p.describe()})
			if res == nil {
				return
			}
			h.concFold(res, w, plan, "full-server", k-seqWorlds, p)
		} else {
			snaps := snapsOf(plan)
			fs, st, herr := judgeSeqH(t, snaps, true, t.Healthy)
			if herr != nil {
				h.report(fs, snaps, p.Cfg.Stores, map[string]interface{}{"world": p.describe()}, "sequential:full-server")
				r.Inconclusive("full server: %v", herr)
				return
			}
			r.Eval(1)
			r.Count("worlds_sequential_full_server", 1)
			countKinds(r, plan)
			h.fold(st, w)
			if key, ok := outcomeKey("full", st); ok {
				r.Distinct(key)
			}
			h.report(fs, snaps, p.Cfg.Stores, map[string]interface{}{"world": p.describe(), "note": "found on the real server (state carried over from earlier worlds); the minimized list, if any, is the light-harness reproduction"}, "sequential:full-server")
		}
		idBase = w.MaxID() + 100
		verBase = w.MaxVersion() + 400 // beyond anything a stale snapshot of this world can carry
		o := t.Observe()
		t.Forget(func(id uint64) bool { _, ok := o.ByID[id]; return ok })
		if err := t.Healthy(); err != nil {
			r.Inconclusive("full server: %v", err)
			return
		}
	}
	h.streamMalformed(t, idBase, verBase)
	r.Count("full_server_variant_runs", 1)
}

func main() {
	r := ev.New("C06", "exploration")
	r.Rule("one case = one simulated cluster history (world seed -> split/merge/conf-change/leader-change/size events; plan seed -> per-snapshot delay, loss, duplication, stale re-delivery, stream assignment) delivered to a fresh RaftCluster; sequential cases are distinct by the sequence of per-delivery outcomes (new/newer/displacing/same-epoch accepted, stale-same-id, stale-overlap, rejected) and count only when they contain a stale rejection and a displacement; concurrent cases are distinct by the accept/reject pattern per stream in call order and count only when same-id deliveries overlapped in time and something was rejected; directed racing pairs (delayed merge heartbeat of a cached region vs first heartbeat(s) of newer region ids inside the merged range, 4 layouts x 3 yield modes) are distinct by layout, yield mode and accept/refuse outcome; racing-grid cases (all heartbeats of 2-3 consecutive directed events released together) by event shape, fault mode, accept/refuse pattern and number of yielding goroutines; populated-cluster worlds like sequential / concurrent ones")
	r.Assume("racing pairs: pd's global logger is replaced by a zap core that, only for the goroutine delivering the merge heartbeat, yields at pd's own log calls between the unlocked validation and the cluster lock (bounded wait for the other goroutine's calls to return, or Gosched); a delay at a pre-emption point, no semantic change; no wall-clock value enters a verdict")
	r.Assume("the world simulator follows the store-side epoch rules (split: version += pieces-1 for all pieces; merge: prepare source version+1 conf_ver+1, commit target version = max+1; conf change conf_ver+1; leader change term+); hence of two snapshots with intersecting ranges and different id or range the earlier one has the smaller version")
	r.Assume("light harness: cluster.NewRaftCluster + InitCluster(mockid, default options, core.NewStorage(kvx(memory kv)), BasicCluster with 4-6 up stores), heartbeats through the verif hook VerifProcessRegionHeartbeat (no coordinator); thorough tier additionally a real single-member server (HandleRegionHeartbeat, gRPC handler methods called on the server object, cluster storage replaced by kvx(memory kv))")
	r.Assume("acceptance of a heartbeat that is not stale is not demanded by the statement: such rejections are counted (fresh_heartbeat_rejected), not judged; in concurrent mode a per-reader regression that may be a re-admission after displacement is counted (skipped_ambiguous_concurrent_regress), the exact classification is done in sequential mode")
	if f := os.Getenv("VERIF_C06_CPUPROFILE"); f != "" {
		if fh, err := os.Create(f); err == nil {
			pprof.StartCPUProfile(fh)
			defer pprof.StopCPUProfile()
		}
	}
	rng := rand.New(rand.NewSource(r.ShardSeed()))
	h := &harness{r: r, minimized: map[string]bool{}}

	alphaN := r.Pick(16, 96)
	maxRegions := r.Pick(12, 64)
	seqWorlds := r.Pick(260, 300)
	seqEvents := r.Pick(200, 400)
	streams := r.Pick(4, 16)
	concExact := r.Pick(70, 100)
	concFree := r.Pick(70, 100)
	concEvents := r.Pick(250, 500)

	phases := map[string]float64{}
	t0 := time.Now()
	lap := func(name string) { phases[name] = time.Since(t0).Seconds(); t0 = time.Now() }
	if r.Thorough() {
		// first, while every shard is still in a single-threaded phase (the server needs timely CPU)
		h.fullServer(rand.New(rand.NewSource(r.ShardSeed()^0x0f5e)), 14, 6)
		lap("full_server")
		h.leaderChange(rand.New(rand.NewSource(r.ShardSeed()^0x1ead)), 3)
		lap("leader_change")
	}
	for i := 0; i < seqWorlds; i++ {
		h.seqWorld(genParams(rng, alphaN, maxRegions, seqEvents, 1+rng.Intn(streams), false), i)
	}
	lap("sequential")
	for i := 0; i < concExact; i++ {
		// fixed partition, 1-4 regions, conf / leader / size changes only: nothing can be displaced, so
		// every regression is "while cached" and the final-epoch check is exact
		p := genParams(rng, alphaN, 4, concEvents, streams, true)
		p.Plan.DropP, p.Plan.StaleP = 0.02, 0.05
		h.concWorld(p, 2, "fixed-partition", i)
	}
	lap("concurrent_fixed_partition")
	for i := 0; i < concFree; i++ {
		mr := maxRegions
		if i%2 == 0 {
			mr = 6
		}
		nd := 0
		if i%3 == 1 {
			nd = 16 // heartbeats ‖ admin drop of cached regions
		}
		h.concWorldD(genParams(rng, alphaN, mr, concEvents, streams, false), 3, "full-events", i, nd)
	}
	lap("concurrent_full_events")
	h.oneFieldGrid()
	lap("one_field_grid")
	h.regionStorageWorlds(rand.New(rand.NewSource(r.ShardSeed()^0x1e7e1)), r.Pick(12, 60))
	lap("region_storage")
	h.racingPairs(rand.New(rand.NewSource(r.ShardSeed()^0x7ace)), r.Pick(640, 3200))
	lap("racing_pairs")
	h.racingGrid(rand.New(rand.NewSource(r.ShardSeed()^0x961d)), r.Pick(480, 2400))
	lap("racing_grid")
	h.scaleWorlds(rand.New(rand.NewSource(r.ShardSeed()^0x5ca1e)), r.Pick(2000, 14000), r.Pick(150, 300), streams)
	lap("scale")
	h.canonicalD12()
	r.Set("phase_seconds", phases)
	r.Set("minimize_seconds", h.minSeconds)

	if h.accepted == 0 {
		r.Inconclusive("no heartbeat was ever accepted: the harness did not exercise the cache")
	}
	// sorted list of finding keys for the evidence
	var keys []string
	for k := range h.minimized {
		keys = append(keys, k)
	}
	sort.Strings(keys)
	r.Set("finding_keys", keys)
	r.Floor(int64(r.Pick(300, 300)))
	pprof.StopCPUProfile()
	r.Finish()
}
