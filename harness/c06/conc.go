package main

import (
	"fmt"
	"math/rand"
	"runtime"
	"sort"
	"sync"
	"sync/atomic"

	"github.com/tikv/pd/server/core"
	"verif/harness/lib/ev"
	"verif/harness/lib/hist"
	"verif/harness/lib/world"
)

// delivRec is one delivery of the concurrent history.
type delivRec struct {
	Stream int
	Snap   *world.Snapshot
	Call   int64
	Ret    int64
	Err    string
	Panic  string
}

func (d *delivRec) accepted() bool { return d.Err == "" && d.Panic == "" }

func (d *delivRec) describe() map[string]interface{} {
	return map[string]interface{}{"stream": d.Stream, "call": d.Call, "ret": d.Ret, "err": d.Err, "heartbeat": d.Snap.Short()}
}

type seen struct {
	v    view
	call int64
	ret  int64
	op   string
}

type regress struct {
	reader int
	id     uint64
	prev   seen
	cur    seen
	fields []string
}

// heldObj is a region object a reader obtained from the cache and keeps using (a long-lived consumer).
type heldObj struct {
	obj *core.RegionInfo
	v   view
}

type readerState struct {
	held     []heldObj
	mutated  []string
	holds    int64
	id       int
	rng      *rand.Rand
	last     map[uint64]seen
	regs     []regress
	scanBad  []string // descriptions of scans that were not sorted / non-overlapping / had nil entries
	reads    int64
	scans    int64
	observed int64
}

func (rs *readerState) note(v view, call, ret int64, op string) {
	rs.observed++
	cur := seen{v, call, ret, op}
	if prev, ok := rs.last[v.ID]; ok {
		if f := regressFields(prev.v, v); len(f) > 0 && len(rs.regs) < 50 {
			rs.regs = append(rs.regs, regress{rs.id, v.ID, prev, cur, f})
		}
	}
	rs.last[v.ID] = cur
}

func (rs *readerState) loop(t target, alphabet []string, idLo, idHi uint64, stop *int32) {
	keys := append([]string{""}, alphabet...)
	getter, canHold := t.(interface {
		GetInfo(id uint64) *core.RegionInfo
	})
	for atomic.LoadInt32(stop) == 0 {
		rs.reads++
		if canHold && rs.reads%4 == 0 {
			// keep a cached object across updates; re-read one kept earlier: it must not have changed
			if len(rs.held) > 0 {
				h := rs.held[rs.rng.Intn(len(rs.held))]
				if now := liteOfInfo(h.obj); (now.ID != h.v.ID || now.Start != h.v.Start || now.End != h.v.End || now.Ver != h.v.Ver || now.Conf != h.v.Conf || now.Term != h.v.Term) && len(rs.mutated) < 3 {
					rs.mutated = append(rs.mutated, fmt.Sprintf("object obtained as id=%d %s v%d c%d t%d now reads id=%d %s v%d c%d t%d", h.v.ID, vr(h.v), h.v.Ver, h.v.Conf, h.v.Term, now.ID, vr(now), now.Ver, now.Conf, now.Term))
				}
			}
			id := idLo + uint64(rs.rng.Int63n(int64(idHi-idLo+1)))
			if obj := getter.GetInfo(id); obj != nil {
				rs.holds++
				ho := heldObj{obj, liteOfInfo(obj)}
				if len(rs.held) < 256 {
					rs.held = append(rs.held, ho)
				} else {
					rs.held[rs.rng.Intn(len(rs.held))] = ho
				}
			}
		}
		switch rs.rng.Intn(6) {
		case 0, 1: // full scan
			call := hist.Tick()
			vs, nils := t.ScanLite("", "", 0)
			ret := hist.Tick()
			rs.checkScan(vs, nils, call, ret, "ScanRegions(\"\",\"\",0)")
		case 2: // partial scan
			s, e := keys[rs.rng.Intn(len(keys))], keys[rs.rng.Intn(len(keys))]
			if e != "" && e < s {
				s, e = e, s
			}
			lim := rs.rng.Intn(6)
			call := hist.Tick()
			vs, nils := t.ScanLite(s, e, lim)
			ret := hist.Tick()
			rs.checkScan(vs, nils, call, ret, fmt.Sprintf("ScanRegions(%q,%q,%d)", s, e, lim))
		case 3, 4:
			k := keys[rs.rng.Intn(len(keys))]
			call := hist.Tick()
			v := t.GetByKeyLite(k)
			ret := hist.Tick()
			if v != nil {
				rs.note(*v, call, ret, fmt.Sprintf("GetRegionByKey(%q)", k))
			}
		default:
			id := idLo + uint64(rs.rng.Int63n(int64(idHi-idLo+1)))
			call := hist.Tick()
			v := t.GetLite(id)
			ret := hist.Tick()
			if v != nil {
				rs.note(*v, call, ret, fmt.Sprintf("GetRegion(%d)", id))
			}
		}
		runtime.Gosched()
	}
}

func (rs *readerState) checkScan(vs []view, nils int, call, ret int64, op string) {
	rs.scans++
	if nils > 0 && len(rs.scanBad) < 5 {
		rs.scanBad = append(rs.scanBad, fmt.Sprintf("nil|%s returned %d entries without a region", op, nils))
	}
	for i, v := range vs {
		if i > 0 {
			p := vs[i-1]
			if (p.End == "" || p.End > v.Start) && len(rs.scanBad) < 5 {
				rs.scanBad = append(rs.scanBad, fmt.Sprintf("overlap|%s returned region %d %s followed by region %d %s", op, p.ID, vr(p), v.ID, vr(v)))
			}
		}
		rs.note(v, call, ret, op)
	}
}

// extent is the hull of every range a region id ever had in the delivered snapshots.
type extent struct{ start, end string }

func extents(recs []delivRec) map[uint64]extent {
	out := map[uint64]extent{}
	for i := range recs {
		r := &recs[i].Snap.R
		e, ok := out[r.ID]
		if !ok {
			out[r.ID] = extent{r.Start, r.End}
			continue
		}
		if r.Start < e.start {
			e.start = r.Start
		}
		if e.end != "" && (r.End == "" || r.End > e.end) {
			e.end = r.End
		}
		out[r.ID] = e
	}
	return out
}

// dropRec is one admin "drop region from cache" request of the concurrent history.
type dropRec struct {
	ID   uint64
	Call int64
	Ret  int64
}

type concResult struct {
	drops      []dropRec
	recs       []delivRec
	readers    []*readerState
	accepted   int
	rejected   int
	ambiguous  int
	violations int
}

// runConcurrent delivers the plan from its streams concurrently while readers query the cache, then
// judges: every single scan sorted and non-overlapping; per reader, successive reads of one id are
// epoch-monotone; at quiescence oracle (c) holds and the final epoch of an id is not below any
// accepted heartbeat of that id that cannot have been displaced afterwards.
func runConcurrent(r *ev.Run, t target, w *world.World, plan []world.Delivery, streams, readers int, rng *rand.Rand, label string, witnessBase map[string]interface{}) *concResult {
	return runConcurrentD(r, t, w, plan, streams, readers, rng, label, witnessBase, 0)
}

// runConcurrentD additionally issues nDrops admin "drop region from cache" requests from one more
// goroutine while the heartbeats are delivered. A dropped id is treated like a displaced one.
func runConcurrentD(r *ev.Run, t target, w *world.World, plan []world.Delivery, streams, readers int, rng *rand.Rand, label string, witnessBase map[string]interface{}, nDrops int) *concResult {
	res := &concResult{}
	per := make([][]world.Delivery, streams)
	for _, d := range plan {
		per[d.Stream%streams] = append(per[d.Stream%streams], d)
	}
	out := make([][]delivRec, streams)
	var stop int32
	var delivered int64
	var wgR, wgD sync.WaitGroup
	start := make(chan struct{})
	idLo, idHi := w.Cfg.IDBase+1, w.MaxID()
	for i := 0; i < readers; i++ {
		rs := &readerState{id: i, rng: rand.New(rand.NewSource(rng.Int63())), last: map[uint64]seen{}}
		res.readers = append(res.readers, rs)
		wgR.Add(1)
		go func() {
			defer wgR.Done()
			<-start
			rs.loop(t, w.Cfg.Alphabet, idLo, idHi, &stop)
		}()
	}
	for s := 0; s < streams; s++ {
		wgD.Add(1)
		go func(s int) {
			defer wgD.Done()
			<-start
			for _, d := range per[s] {
				rec := delivRec{Stream: s, Snap: d.Snap}
				func() {
					defer func() {
						if p := recover(); p != nil {
							rec.Panic = fmt.Sprint(p)
						}
					}()
					rec.Call = hist.Tick()
					err := t.Deliver(d.Snap)
					rec.Ret = hist.Tick()
					if err != nil {
						rec.Err = err.Error()
						if len(rec.Err) > 80 {
							rec.Err = rec.Err[:80]
						}
					}
				}()
				if rec.Ret == 0 {
					rec.Ret = hist.Tick()
				}
				out[s] = append(out[s], rec)
				atomic.AddInt64(&delivered, 1)
			}
		}(s)
	}
	if nDrops > 0 && len(plan) > 0 {
		drng := rand.New(rand.NewSource(rng.Int63()))
		wgR.Add(1)
		go func() {
			defer wgR.Done()
			<-start
			every := int64(len(plan)/nDrops + 1)
			next := every
			for atomic.LoadInt32(&stop) == 0 && len(res.drops) < nDrops {
				if atomic.LoadInt64(&delivered) < next {
					runtime.Gosched()
					continue
				}
				next += every
				id := plan[drng.Intn(len(plan))].Snap.R.ID
				d := dropRec{ID: id, Call: hist.Tick()}
				t.Drop(id)
				d.Ret = hist.Tick()
				res.drops = append(res.drops, d)
			}
		}()
	}
	close(start)
	wgD.Wait()
	atomic.StoreInt32(&stop, 1)
	wgR.Wait()
	if hc, ok := t.(interface{ Healthy() error }); ok {
		if err := hc.Healthy(); err != nil {
			r.Inconclusive("full server (concurrent run): %v", err)
			return nil
		}
	}
	for s := range out {
		res.recs = append(res.recs, out[s]...)
	}
	sort.Slice(res.recs, func(a, b int) bool { return res.recs[a].Call < res.recs[b].Call })
	ext := extents(res.recs)

	tail := func(id uint64) []interface{} { // deliveries concerning id or overlapping its extent
		var l []interface{}
		e := ext[id]
		for i := range res.recs {
			d := &res.recs[i]
			if d.Snap.R.ID == id || overlap(d.Snap.R.Start, d.Snap.R.End, e.start, e.end) {
				l = append(l, d.describe())
			}
		}
		if len(l) > 80 {
			l = l[len(l)-80:]
		}
		return l
	}
	wit := func(extra map[string]interface{}) map[string]interface{} {
		m := map[string]interface{}{"mode": "concurrent:" + label, "streams": streams, "readers": readers}
		for k, v := range witnessBase {
			m[k] = v
		}
		for k, v := range extra {
			m[k] = v
		}
		return m
	}
	violate := func(key, what string, extra map[string]interface{}) {
		res.violations++
		r.Violation(key, what, wit(extra))
	}
	// possible displacement of id inside the tick window (lo, hi): an accepted heartbeat of another id
	// overlapping anything id ever covered, whose execution interval intersects the window
	displacer := func(id uint64, lo, hi int64) *delivRec {
		for i := range res.drops {
			if d := &res.drops[i]; d.ID == id && d.Ret > lo && d.Call < hi {
				return &delivRec{Call: d.Call, Ret: d.Ret} // dropped by the admin request
			}
		}
		e := ext[id]
		for i := range res.recs {
			d := &res.recs[i]
			if d.accepted() && d.Snap.R.ID != id && overlap(d.Snap.R.Start, d.Snap.R.End, e.start, e.end) && d.Ret > lo && d.Call < hi {
				return d
			}
		}
		return nil
	}
	for i := range res.recs {
		d := &res.recs[i]
		switch {
		case d.Panic != "":
			violate("panic-in-heartbeat", "heartbeat processing panicked: "+d.Panic, map[string]interface{}{"delivery": d.describe()})
		case d.accepted():
			res.accepted++
		default:
			res.rejected++
		}
	}
	for _, rs := range res.readers {
		for _, m := range rs.mutated {
			violate("served-object-mutated-in-place:concurrent", "a region object a reader obtained from the cache and kept was modified in place: "+m, map[string]interface{}{"reader": rs.id})
		}
		for _, b := range rs.scanBad {
			key := "single-scan-overlaps-or-unsorted:concurrent"
			if b[:3] == "nil" {
				key = "scan-returns-nil-entry:concurrent"
			}
			violate(key, "one scan call (one snapshot under the cache lock) returned an inconsistent result: "+b, map[string]interface{}{"reader": rs.id})
		}
		for _, g := range rs.regs {
			if d := displacer(g.id, g.prev.call, g.cur.ret); d != nil {
				// may be a re-admission after eviction (D12, judged exactly in sequential mode): ambiguous here
				res.ambiguous++
				continue
			}
			violate(keyWhileCache+g.fields[0]+":concurrent",
				fmt.Sprintf("reader %d saw region %d with v%d c%d t%d (%s) and later with v%d c%d t%d (%s); no accepted heartbeat of another id overlapping it ran in between, so the region was never displaced: it regressed while cached",
					g.reader, g.id, g.prev.v.Ver, g.prev.v.Conf, g.prev.v.Term, g.prev.op, g.cur.v.Ver, g.cur.v.Conf, g.cur.v.Term, g.cur.op),
				map[string]interface{}{"region": g.id, "first_read": []int64{g.prev.call, g.prev.ret}, "second_read": []int64{g.cur.call, g.cur.ret}, "deliveries": tail(g.id)})
		}
	}
	// quiescent state
	final := t.Observe()
	for _, x := range structural(final) {
		violate(x.key, "at quiescence after a concurrent run: "+x.what, map[string]interface{}{"final": final.describe()})
	}
	reported := map[uint64]bool{}
	for i := range res.recs {
		d := &res.recs[i]
		id := d.Snap.R.ID
		if !d.accepted() || reported[id] {
			continue
		}
		if displacer(id, d.Call, 1<<62) != nil {
			continue
		}
		f, ok := final.ByID[id]
		switch {
		case !ok:
			reported[id] = true
			violate("accepted-heartbeat-lost:concurrent", fmt.Sprintf("heartbeat %s was accepted, no heartbeat that could displace region %d was accepted at or after it, yet the region is not served at quiescence", d.Snap.Short(), id),
				map[string]interface{}{"region": id, "deliveries": tail(id), "final": final.describe()})
		case f.Ver < d.Snap.R.Version || f.Conf < d.Snap.R.ConfVer:
			reported[id] = true
			violate("final-epoch-below-accepted:concurrent", fmt.Sprintf("heartbeat %s was accepted, region %d could not be displaced afterwards, yet it is served with v%d c%d at quiescence", d.Snap.Short(), id, f.Ver, f.Conf),
				map[string]interface{}{"region": id, "deliveries": tail(id), "final": final.describe()})
		}
	}
	return res
}
