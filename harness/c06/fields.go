package main

import (
	"fmt"

	"verif/harness/lib/world"
)

// One-field grid: three cached neighbours L=[a,c) X=[c,e) R=[e,g); then one heartbeat of X that
// differs from the cached X in EXACTLY ONE field — every field the heartbeat carries, in every
// direction that field has — followed by the original heartbeat of X again. Judged by the sequential
// oracles (staleness predicate from the statement, (a)-(e)); what pd does with a same-epoch
// difference is outside the statement and only counted per field.
// Also: the two spellings of an empty key / empty list (nil vs empty slice), heartbeats that the gRPC
// layer refuses before the handler (no leader, no peers; counted as ambiguous at this entry point),
// and directed range jumps (consecutive accepted ranges of one id that do not intersect).

type fieldCase struct {
	name      string
	mut       func(s *world.Snapshot)
	ambiguous bool // pd has no documented convention for it at this entry point: structure / panic only
}

func baseX() *world.Snapshot {
	s := &world.Snapshot{Seq: 1, Step: 1, Cause: "base", ReportTerm: true,
		R: world.Region{ID: 20, Start: "c", End: "e", Version: 5, ConfVer: 5, Term: 7, Leader: 201, SizeMB: 10, Keys: 1000, Written: 4096, Read: 8192,
			Peers:   []world.Peer{{ID: 201, Store: 1}, {ID: 202, Store: 2}, {ID: 203, Store: 3}, {ID: 204, Store: 4, Learner: true}},
			Pending: []uint64{204}}}
	return s
}

func neighbour(seq int, id uint64, s, e string) *world.Snapshot {
	return &world.Snapshot{Seq: seq, Step: seq, Cause: "neighbour", ReportTerm: true,
		R: world.Region{ID: id, Start: s, End: e, Version: 5, ConfVer: 5, Term: 7, Leader: id*10 + 1, SizeMB: 10, Keys: 1000,
			Peers: []world.Peer{{ID: id*10 + 1, Store: 1}, {ID: id*10 + 2, Store: 2}, {ID: id*10 + 3, Store: 3}}}}
}

func fieldCases() []fieldCase {
	return []fieldCase{
		{"start-key:grow-into-left-neighbour", func(s *world.Snapshot) { s.R.Start = "b" }, false},
		{"start-key:shrink", func(s *world.Snapshot) { s.R.Start = "d" }, false},
		{"start-key:to-minus-infinity", func(s *world.Snapshot) { s.R.Start = "" }, false},
		{"end-key:grow-into-right-neighbour", func(s *world.Snapshot) { s.R.End = "f" }, false},
		{"end-key:shrink", func(s *world.Snapshot) { s.R.End = "d" }, false},
		{"end-key:to-plus-infinity", func(s *world.Snapshot) { s.R.End = "" }, false},
		{"version:+1", func(s *world.Snapshot) { s.R.Version++ }, false},
		{"version:-1", func(s *world.Snapshot) { s.R.Version-- }, false},
		{"version:huge", func(s *world.Snapshot) { s.R.Version = 1<<63 + 5 }, false},
		{"version:0", func(s *world.Snapshot) { s.R.Version = 0 }, false},
		{"conf_ver:+1", func(s *world.Snapshot) { s.R.ConfVer++ }, false},
		{"conf_ver:-1", func(s *world.Snapshot) { s.R.ConfVer-- }, false},
		{"conf_ver:0", func(s *world.Snapshot) { s.R.ConfVer = 0 }, false},
		{"term:+1", func(s *world.Snapshot) { s.R.Term++ }, false},
		{"term:-1", func(s *world.Snapshot) { s.R.Term-- }, false},
		{"term:not-reported", func(s *world.Snapshot) { s.ReportTerm = false }, false},
		{"leader:other-voter", func(s *world.Snapshot) { s.R.Leader = 202 }, false},
		{"leader:learner", func(s *world.Snapshot) { s.R.Leader = 204 }, true},
		{"leader:not-a-peer", func(s *world.Snapshot) { s.R.Leader = 999 }, true},
		{"role:voter-2-to-learner", func(s *world.Snapshot) { s.R.Peers[1].Learner = true }, false},
		{"role:voter-3-to-learner", func(s *world.Snapshot) { s.R.Peers[2].Learner = true }, false},
		{"role:learner-to-voter", func(s *world.Snapshot) { s.R.Peers[3].Learner = false }, false},
		{"peers:one-more", func(s *world.Snapshot) { s.R.Peers = append(s.R.Peers, world.Peer{ID: 205, Store: 5}) }, false},
		{"peers:one-less", func(s *world.Snapshot) { s.R.Peers = s.R.Peers[:3]; s.R.Pending = nil }, false},
		{"peers:other-store", func(s *world.Snapshot) { s.R.Peers[2].Store = 5 }, false},
		{"peers:none", func(s *world.Snapshot) { s.R.Peers = nil; s.R.Pending = nil }, true},
		{"pending:none", func(s *world.Snapshot) { s.R.Pending = nil }, false},
		{"pending:one-more", func(s *world.Snapshot) { s.R.Pending = []uint64{203, 204} }, false},
		{"down:one", func(s *world.Snapshot) { s.R.Down = []uint64{203} }, false},
		{"size", func(s *world.Snapshot) { s.R.SizeMB = 77 }, false},
		{"keys", func(s *world.Snapshot) { s.R.Keys = 424242 }, false},
		{"written", func(s *world.Snapshot) { s.R.Written = 1 << 22 }, false},
		{"read", func(s *world.Snapshot) { s.R.Read = 1 << 22 }, false},
		{"written:impossible-flow", func(s *world.Snapshot) { s.R.Written = 1 << 51 }, false},
		{"replication-status:set", func(s *world.Snapshot) { s.R.ReplState, s.R.ReplStateID = 2, 7 }, false},
		{"spelling:nil-slices", func(s *world.Snapshot) { s.NilSpelling = !s.NilSpelling }, false},
		{"identical", func(s *world.Snapshot) {}, false},
	}
}

func cloneSnap(s *world.Snapshot, seq int, cause string) *world.Snapshot {
	c := *s
	c.Seq, c.Step, c.Cause = seq, seq, cause
	c.R.Peers = append([]world.Peer(nil), s.R.Peers...)
	c.R.Pending = append([]uint64(nil), s.R.Pending...)
	c.R.Down = append([]uint64(nil), s.R.Down...)
	return &c
}

func (h *harness) oneFieldGrid() {
	r := h.r
	for _, withRepl := range []bool{false, true} {
		for _, fc := range fieldCases() {
			base := baseX()
			if withRepl {
				base.R.ReplState, base.R.ReplStateID = 1, 3
				if fc.name == "replication-status:set" {
					// exactly one field: the state id
					fc = fieldCase{"replication-status:state-id", func(s *world.Snapshot) { s.R.ReplStateID = 9 }, false}
				}
			}
			v := cloneSnap(base, 4, "one-field:"+fc.name)
			fc.mut(v)
			plan := []*world.Snapshot{neighbour(0, 10, "a", "c"), base, neighbour(2, 30, "e", "g"), v, cloneSnap(base, 5, "base-again")}
			t := newLight(5)
			fs, st := judgeSeq(t, plan, false)
			t.Close()
			r.Eval(1)
			r.Count("one_field_cases", 1)
			oc := "?"
			if len(st.outcome) >= 5 {
				oc = string(st.outcome[3:5])
			}
			r.Distinct(fmt.Sprintf("onefield|%v|%s|%s", withRepl, fc.name, oc))
			r.Count("one_field_outcome|"+fc.name+"|"+oc, 1)
			if fc.ambiguous {
				// no documented convention at this entry point (the gRPC layer refuses some of these
				// before the handler): only panics and the structure of the served set are judged
				r.Count("skipped_ambiguous", 1)
				var keep []finding
				for _, f := range fs {
					switch f.Key {
					case "panic-in-heartbeat", "scan-returns-nil-entry", "served-regions-overlap:scan", "served-regions-overlap:id-index", "region-count-differs-from-scan", "scan-and-id-index-disagree":
						keep = append(keep, f)
					}
				}
				fs = keep
			}
			h.fold(st, nil)
			h.report(fs, plan, 5, map[string]interface{}{"one_field": fc.name, "with_replication_status": withRepl}, "sequential:light:one-field-grid")
		}
	}
	// empty key spellings: the first / last region with nil vs empty keys, each order
	for i, order := range [][2]bool{{false, true}, {true, false}} {
		mk := func(seq int, id uint64, s, e string, nilSp bool) *world.Snapshot {
			x := neighbour(seq, id, s, e)
			x.NilSpelling = nilSp
			return x
		}
		plan := []*world.Snapshot{mk(0, 10, "", "c", order[0]), mk(1, 30, "c", "", order[0]), mk(2, 10, "", "c", order[1]), mk(3, 30, "c", "", order[1]),
			mk(4, 40, "", "", order[1])}
		plan[4].R.Version = 9 // a newer region over the whole key space, spelled the other way
		t := newLight(5)
		fs, st := judgeSeq(t, plan, false)
		t.Close()
		r.Eval(1)
		r.Count("empty_key_spelling_cases", 1)
		r.Distinct(fmt.Sprintf("spelling|%d|%s", i, st.outcome))
		h.fold(st, nil)
		h.report(fs, plan, 5, map[string]interface{}{"case": "nil vs empty keys"}, "sequential:light:key-spelling")
	}
	// range jumps: consecutive accepted ranges of one id do not intersect
	jumps := [][]*world.Snapshot{
		{snapR(0, 1, "a", "b", 1), snapR(1, 2, "b", "c", 1), snapR(2, 1, "b", "c", 3)},                           // X jumps right onto its neighbour
		{snapR(0, 2, "a", "b", 1), snapR(1, 1, "b", "c", 1), snapR(2, 1, "a", "b", 3)},                           // X jumps left
		{snapR(0, 1, "a", "b", 1), snapR(1, 2, "b", "c", 1), snapR(2, 3, "c", "d", 1), snapR(3, 1, "c", "d", 4)}, // over a neighbour
		{snapR(0, 1, "a", "b", 1), snapR(1, 1, "c", "d", 2), snapR(2, 3, "a", "b", 3), snapR(3, 1, "e", "", 5)},  // into free space, then the old place is reused
		{snapR(0, 1, "", "b", 1), snapR(1, 2, "b", "", 1), snapR(2, 1, "b", "", 3), snapR(3, 2, "", "b", 4)},     // two ids swap places
		{snapR(0, 1, "a", "b", 1), snapR(1, 1, "b", "c", 2), snapR(2, 1, "a", "b", 3), snapR(3, 1, "b", "c", 4)}, // back and forth
		{snapR(0, 1, "a", "c", 1), snapR(1, 2, "c", "e", 1), snapR(2, 1, "d", "e", 3), snapR(3, 4, "a", "d", 3)}, // jump inside the neighbour
	}
	for i, plan := range jumps {
		t := newLight(3)
		fs, st := judgeSeq(t, plan, false)
		t.Close()
		r.Eval(1)
		r.Count("range_jump_cases", 1)
		r.Distinct(fmt.Sprintf("jump|%d|%s", i, st.outcome))
		h.fold(st, nil)
		h.report(fs, plan, 3, map[string]interface{}{"case": "range jump", "index": i}, "sequential:light:range-jump")
	}
}

func snapR(seq int, id uint64, s, e string, ver uint64) *world.Snapshot {
	x := neighbour(seq, id, s, e)
	x.R.Version = ver
	return x
}
