package main

import (
	"context"
	"fmt"
	"sort"
	"strconv"
	"strings"
	"sync"

	"github.com/pingcap/kvproto/pkg/metapb"
	"github.com/pingcap/kvproto/pkg/pdpb"
	"github.com/tikv/pd/pkg/mock/mockid"
	"github.com/tikv/pd/server/cluster"
	"github.com/tikv/pd/server/config"
	"github.com/tikv/pd/server/core"
	"github.com/tikv/pd/server/kv"
	"github.com/tikv/pd/server/versioninfo"
	"verif/harness/lib/kvx"
	"verif/harness/lib/srv"
	"verif/harness/lib/world"
)

// view is what the harness remembers of one served region (plain values, no pd objects).
type view struct {
	ID    uint64 `json:"id"`
	Start string `json:"-"`
	End   string `json:"-"`
	Range string `json:"range"`
	Ver   uint64 `json:"version"`
	Conf  uint64 `json:"conf_ver"`
	Term  uint64 `json:"term"`
	Full  string `json:"full"` // canonical rendering of everything observable

	npeers int
	leader uint64
	size   int64
}

func mkView(meta *metapb.Region, leader *metapb.Peer, term uint64, rest string) view {
	v := view{ID: meta.GetId(), Start: string(meta.GetStartKey()), End: string(meta.GetEndKey()),
		Ver: meta.GetRegionEpoch().GetVersion(), Conf: meta.GetRegionEpoch().GetConfVer(), Term: term}
	v.Range = fmt.Sprintf("[%q,%q)", v.Start, v.End)
	var ps []string
	for _, p := range meta.GetPeers() {
		ps = append(ps, fmt.Sprintf("%d@%d/%d", p.GetId(), p.GetStoreId(), int(p.GetRole())))
	}
	sort.Strings(ps)
	v.Full = fmt.Sprintf("id=%d %s v%d c%d t%d peers=%v leader=%d@%d %s", v.ID, v.Range, v.Ver, v.Conf, v.Term, ps, leader.GetId(), leader.GetStoreId(), rest)
	return v
}

func peerIDs(ps []*metapb.Peer) []uint64 {
	var out []uint64
	for _, p := range ps {
		out = append(out, p.GetId())
	}
	sort.Slice(out, func(i, j int) bool { return out[i] < out[j] })
	return out
}

func downIDs(ps []*pdpb.PeerStats) []uint64 {
	var out []uint64
	for _, p := range ps {
		out = append(out, p.GetPeer().GetId())
	}
	sort.Slice(out, func(i, j int) bool { return out[i] < out[j] })
	return out
}

func viewOfInfo(r *core.RegionInfo) view {
	rest := fmt.Sprintf("size=%d keys=%d w=%d/%d r=%d/%d pending=%v down=%v repl=%d/%d", r.GetApproximateSize(), r.GetApproximateKeys(),
		r.GetBytesWritten(), r.GetKeysWritten(), r.GetBytesRead(), r.GetKeysRead(), peerIDs(r.GetPendingPeers()), downIDs(r.GetDownPeers()),
		int(r.GetReplicationStatus().GetState()), r.GetReplicationStatus().GetStateId())
	return mkView(r.GetMeta(), r.GetLeader(), r.GetTerm(), rest)
}

// viewOfSnap renders what a snapshot must look like once served (light harness: everything).
func viewOfSnap(s *world.Snapshot) view { return viewOfInfo(s.Info()) }

func overlap(aStart, aEnd, bStart, bEnd string) bool {
	// [aStart,aEnd) ∩ [bStart,bEnd) ≠ ∅ with "" as +inf for the end keys
	return (aEnd == "" || bStart < aEnd) && (bEnd == "" || aStart < bEnd)
}

// obs is one complete observation of the served and stored region sets in a quiescent state.
type obs struct {
	ByID    map[uint64]view   // id map side (GetRegions / GetRegionByID)
	Scan    []view            // full scan in the order returned
	ScanNil int               // nil entries in the scan result
	Count   int               // GetRegionCount
	Stored  map[uint64]string // raw stored values by region id

	sv []view // ByID sorted by start key (lazily built)
}

// sorted returns the served regions of the id index ordered by start key (cached).
func (o *obs) sorted() []view {
	if o.sv == nil {
		o.sv = sortedViews(o.ByID)
	}
	return o.sv
}

func sortedViews(m map[uint64]view) []view {
	out := make([]view, 0, len(m))
	for _, v := range m {
		out = append(out, v)
	}
	sort.Slice(out, func(i, j int) bool {
		if out[i].Start != out[j].Start {
			return out[i].Start < out[j].Start
		}
		return out[i].ID < out[j].ID
	})
	return out
}

func (o *obs) describe() map[string]interface{} {
	var served []string
	for _, v := range o.sorted() {
		served = append(served, v.Full)
	}
	var scan []string
	for _, v := range o.Scan {
		scan = append(scan, fmt.Sprintf("id=%d %s v%d c%d", v.ID, v.Range, v.Ver, v.Conf))
	}
	var stored []string
	ids := make([]uint64, 0, len(o.Stored))
	for id := range o.Stored {
		ids = append(ids, id)
	}
	sort.Slice(ids, func(i, j int) bool { return ids[i] < ids[j] })
	for _, id := range ids {
		var m metapb.Region
		if err := m.Unmarshal([]byte(o.Stored[id])); err == nil {
			stored = append(stored, fmt.Sprintf("id=%d [%q,%q) v%d c%d", id, m.GetStartKey(), m.GetEndKey(), m.GetRegionEpoch().GetVersion(), m.GetRegionEpoch().GetConfVer()))
		} else {
			stored = append(stored, fmt.Sprintf("id=%d <undecodable>", id))
		}
	}
	return map[string]interface{}{"served_by_id": served, "scan": scan, "count": o.Count, "stored": stored}
}

// target is the system under observation.
type target interface {
	Deliver(s *world.Snapshot) error
	Observe() *obs
	Get(id uint64) *view
	GetByKey(key string) *view
	Loadable(id uint64) bool
	Drop(id uint64) // admin "drop region from cache" (RaftCluster.DropCacheRegion)
	Close()
	// cheap reads for the concurrent readers (views without the Full / Range renderings)
	ScanLite(start, end string, limit int) ([]view, int)
	GetLite(id uint64) *view
	GetByKeyLite(key string) *view
}

func vr(v view) string { return fmt.Sprintf("[%q,%q)", v.Start, v.End) }

func liteOfInfo(r *core.RegionInfo) view {
	m := r.GetMeta()
	return view{ID: m.GetId(), Start: string(m.GetStartKey()), End: string(m.GetEndKey()),
		Ver: m.GetRegionEpoch().GetVersion(), Conf: m.GetRegionEpoch().GetConfVer(), Term: r.GetTerm()}
}

func liteOfMeta(m *metapb.Region) view {
	return view{ID: m.GetId(), Start: string(m.GetStartKey()), End: string(m.GetEndKey()),
		Ver: m.GetRegionEpoch().GetVersion(), Conf: m.GetRegionEpoch().GetConfVer()}
}

func (t *lightTarget) ScanLite(start, end string, limit int) ([]view, int) {
	var out []view
	nils := 0
	for _, r := range t.rc.ScanRegions([]byte(start), []byte(end), limit) {
		if r == nil {
			nils++
			continue
		}
		out = append(out, liteOfInfo(r))
	}
	return out, nils
}

func (t *lightTarget) GetLite(id uint64) *view {
	if r := t.rc.GetRegion(id); r != nil {
		v := liteOfInfo(r)
		return &v
	}
	return nil
}

func (t *lightTarget) GetByKeyLite(key string) *view {
	if r := t.rc.GetRegionByKey([]byte(key)); r != nil {
		v := liteOfInfo(r)
		return &v
	}
	return nil
}

func (t *fullTarget) ScanLite(start, end string, limit int) ([]view, int) {
	resp, err := t.m.Srv.ScanRegions(t.ctx, &pdpb.ScanRegionsRequest{Header: t.m.Header(), StartKey: []byte(start), EndKey: []byte(end), Limit: int32(limit)})
	if err != nil || resp.GetHeader().GetError() != nil {
		return nil, 0
	}
	var out []view
	nils := 0
	for _, r := range resp.GetRegions() {
		if r.GetRegion() == nil {
			nils++
			continue
		}
		out = append(out, liteOfMeta(r.GetRegion()))
	}
	return out, nils
}

func (t *fullTarget) GetLite(id uint64) *view {
	resp, err := t.m.Srv.GetRegionByID(t.ctx, &pdpb.GetRegionByIDRequest{Header: t.m.Header(), RegionId: id})
	if err != nil || resp.GetRegion() == nil {
		return nil
	}
	v := liteOfMeta(resp.GetRegion())
	return &v
}

func (t *fullTarget) GetByKeyLite(key string) *view {
	resp, err := t.m.Srv.GetRegion(t.ctx, &pdpb.GetRegionRequest{Header: t.m.Header(), RegionKey: []byte(key)})
	if err != nil || resp.GetRegion() == nil {
		return nil
	}
	v := liteOfMeta(resp.GetRegion())
	return &v
}

const regionKeyPrefix = "raft/r/"

// storedRegions reads the stored region set straight from the wrapped store (un-gated, un-logged;
// kvx.Dump pages with a 10000-entry buffer per call, far too costly once per delivery).
func storedRegions(k *kvx.KV) map[uint64]string {
	out := map[uint64]string{}
	keys, vals, err := k.Inner.LoadRange(regionKeyPrefix, "raft/r0", 0)
	if err != nil {
		return out
	}
	for i, key := range keys {
		if strings.HasPrefix(key, regionKeyPrefix) {
			if id, err := strconv.ParseUint(key[len(regionKeyPrefix):], 10, 64); err == nil {
				out[id] = vals[i]
			}
		}
	}
	return out
}

// ---------------------------------------------------------------------------------------------
// light harness: RaftCluster without a server, heartbeats through the verif hook

var (
	optOnce sync.Once
	optVal  *config.PersistOptions
)

func persistOptions() *config.PersistOptions {
	optOnce.Do(func() {
		cfg := config.NewConfig()
		if err := cfg.Adjust(nil, false); err != nil {
			panic(err)
		}
		optVal = config.NewPersistOptions(cfg)
		optVal.SetClusterVersion(versioninfo.MinSupportedVersion(versioninfo.Version4_0))
	})
	return optVal
}

type lightTarget struct {
	rc     *cluster.RaftCluster
	kv     *kvx.KV
	st     *core.Storage
	cancel context.CancelFunc
	vc     map[*core.RegionInfo]view // rendering cache (only used from the sequential judge)

	// region storage (leveldb with a write batch), as a real server uses it; nil = plain kv storage
	rs                 *core.RegionStorage
	rsDir              string
	rsCancel           context.CancelFunc
	stores             int
	flushAt, delivered int
}

// newLightRS is newLight with the storage a real server has: core.NewStorage(kv, WithRegionStorage)
// switched to the region storage (config use-region-storage, the default).
func newLightRS(stores int, dir string) (*lightTarget, error) {
	t := newLight(stores)
	rctx, rcancel := context.WithCancel(context.Background())
	rs, err := core.NewRegionStorage(rctx, dir, nil)
	if err != nil {
		rcancel()
		t.Close()
		return nil, err
	}
	st := core.NewStorage(t.kv, core.WithRegionStorage(rs))
	st.SwitchToRegionStorage()
	t.rc.SetStorage(st)
	t.st, t.rs, t.rsDir, t.rsCancel, t.stores = st, rs, dir, rcancel, stores
	return t, nil
}

// RestartRS does what pd-server does on shutdown and the next leader on start-up: the server context
// is cancelled BEFORE the region storage is closed (cancelFirst), the storage is closed, opened again
// from disk, and a fresh cache is filled from it.
func (t *lightTarget) RestartRS(cancelFirst bool) (*lightTarget, error) {
	if cancelFirst {
		t.rsCancel()
	}
	if err := t.rs.Close(); err != nil {
		return nil, err
	}
	t.rsCancel()
	t.cancel()
	rctx, rcancel := context.WithCancel(context.Background())
	rs, err := core.NewRegionStorage(rctx, t.rsDir, nil)
	if err != nil {
		rcancel()
		return nil, err
	}
	st := core.NewStorage(t.kv, core.WithRegionStorage(rs))
	st.SwitchToRegionStorage()
	ctx, cancel := context.WithCancel(context.Background())
	rc := cluster.NewRaftCluster(ctx, "", 1, nil, nil, nil)
	rc.InitCluster(mockid.NewIDAllocator(), persistOptions(), st, core.NewBasicCluster())
	c, err := rc.LoadClusterInfo()
	if err != nil || c == nil {
		cancel()
		rcancel()
		return nil, fmt.Errorf("LoadClusterInfo: %v", err)
	}
	return &lightTarget{rc: rc, kv: t.kv, st: st, cancel: cancel, rs: rs, rsDir: t.rsDir, rsCancel: rcancel, stores: t.stores}, nil
}

// StoredAsync: with a region storage the disk content changes on the flush schedule.
func (t *lightTarget) StoredAsync() bool { return t.rs != nil }

// CloseRS releases the region storage.
func (t *lightTarget) CloseRS() {
	if t.rs != nil {
		t.rs.Close()
		t.rsCancel()
	}
	t.cancel()
}

func (t *lightTarget) stored() map[uint64]string {
	if t.rs == nil {
		return storedRegions(t.kv)
	}
	// what is on disk (the write batch is not part of the durable state)
	out := map[uint64]string{}
	keys, vals, err := t.rs.LoadRange(regionKeyPrefix, "raft/r0", 0)
	if err != nil {
		return out
	}
	for i, key := range keys {
		if id, err := strconv.ParseUint(strings.TrimPrefix(key, regionKeyPrefix), 10, 64); err == nil {
			out[id] = vals[i]
		}
	}
	return out
}

// viewCached renders r once per RegionInfo object (they are read-only once created; the plain fields
// are re-compared on every hit so that an in-place modification would not go unnoticed).
func (t *lightTarget) viewCached(r *core.RegionInfo) view {
	if v, ok := t.vc[r]; ok {
		m := r.GetMeta()
		if v.ID == m.GetId() && v.Ver == m.GetRegionEpoch().GetVersion() && v.Conf == m.GetRegionEpoch().GetConfVer() && v.Term == r.GetTerm() &&
			v.Start == string(m.GetStartKey()) && v.End == string(m.GetEndKey()) && v.npeers == len(m.GetPeers()) && v.leader == r.GetLeader().GetId() && v.size == r.GetApproximateSize() {
			return v
		}
		// modified in place: serve the current rendering, keep the original one for VerifyRetained
		return viewOfInfo(r)
	}
	if t.vc == nil || len(t.vc) > 60000 {
		t.vc = map[*core.RegionInfo]view{}
	}
	v := viewOfInfo(r)
	v.npeers, v.leader, v.size = len(r.GetMeta().GetPeers()), r.GetLeader().GetId(), r.GetApproximateSize()
	t.vc[r] = v
	return v
}

func newLight(stores int) *lightTarget {
	srv.Quiet()
	ctx, cancel := context.WithCancel(context.Background())
	k := kvx.New(kv.NewMemoryKV())
	k.SetLogging(false)
	st := core.NewStorage(k)
	bc := core.NewBasicCluster()
	for i := 1; i <= stores; i++ {
		bc.PutStore(core.NewStoreInfo(&metapb.Store{Id: uint64(i), Address: fmt.Sprintf("mock://tikv-%d", i), State: metapb.StoreState_Up, Version: "5.0.0"}))
	}
	st.SaveMeta(&metapb.Cluster{Id: 1, MaxPeerCount: 3})
	for _, s := range bc.GetStores() {
		st.SaveStore(s.GetMeta())
	}
	rc := cluster.NewRaftCluster(ctx, "", 1, nil, nil, nil)
	rc.InitCluster(mockid.NewIDAllocator(), persistOptions(), st, bc)
	return &lightTarget{rc: rc, kv: k, st: st, cancel: cancel}
}

// Reload emulates what a PD member does when it becomes leader: a fresh cache filled from storage
// (InitCluster with a new BasicCluster + LoadClusterInfo, the two steps of RaftCluster.Start that
// concern regions). The storage is shared with the receiver, which must not be used afterwards.
func (t *lightTarget) Reload() (*lightTarget, error) {
	ctx, cancel := context.WithCancel(context.Background())
	rc := cluster.NewRaftCluster(ctx, "", 1, nil, nil, nil)
	rc.InitCluster(mockid.NewIDAllocator(), persistOptions(), t.st, core.NewBasicCluster())
	c, err := rc.LoadClusterInfo()
	if err != nil || c == nil {
		cancel()
		return nil, fmt.Errorf("LoadClusterInfo: %v (loaded=%v)", err, c != nil)
	}
	return &lightTarget{rc: rc, kv: t.kv, st: t.st, cancel: cancel}, nil
}

func (t *lightTarget) Drop(id uint64) { t.rc.DropCacheRegion(id) }

// GetInfo hands out the cached object itself (for long-lived consumers).
func (t *lightTarget) GetInfo(id uint64) *core.RegionInfo { return t.rc.GetRegion(id) }

// FaultsInjected is the number of storage faults injected so far.
func (t *lightTarget) FaultsInjected() int64 { return t.kv.Injected() }

// VerifyRetained re-renders every region object the harness ever obtained from the cache (served or
// long gone) and reports those that no longer look as they did when they were obtained: region
// objects are handed out to long-lived consumers and must never be modified in place.
func (t *lightTarget) VerifyRetained() []string {
	var out []string
	for r, v := range t.vc {
		if now := viewOfInfo(r); now.Full != v.Full {
			out = append(out, fmt.Sprintf("object obtained as %s now reads %s", v.Full, now.Full))
			delete(t.vc, r)
			if len(out) >= 3 {
				break
			}
		}
	}
	return out
}

func (t *lightTarget) Deliver(s *world.Snapshot) error {
	if t.rs != nil && t.flushAt > 0 {
		// the background flush of the region storage fires once in the middle of the history
		if t.delivered++; t.delivered == t.flushAt {
			t.rs.FlushRegion()
		}
	}
	return t.rc.VerifProcessRegionHeartbeat(s.Info())
}

func (t *lightTarget) Observe() *obs {
	o := &obs{ByID: map[uint64]view{}}
	for _, r := range t.rc.GetRegions() {
		o.ByID[r.GetID()] = t.viewCached(r)
	}
	for _, r := range t.rc.ScanRegions([]byte(""), []byte(""), 0) {
		if r == nil {
			o.ScanNil++
			continue
		}
		o.Scan = append(o.Scan, t.viewCached(r))
	}
	o.Count = t.rc.GetRegionCount()
	o.Stored = t.stored()
	return o
}

func (t *lightTarget) Get(id uint64) *view {
	r := t.rc.GetRegion(id)
	if r == nil {
		return nil
	}
	v := viewOfInfo(r)
	return &v
}

func (t *lightTarget) GetByKey(key string) *view {
	r := t.rc.GetRegionByKey([]byte(key))
	if r == nil {
		return nil
	}
	v := viewOfInfo(r)
	return &v
}

func (t *lightTarget) Loadable(id uint64) bool {
	var m metapb.Region
	ok, err := t.st.LoadRegion(id, &m)
	return ok && err == nil
}

func (t *lightTarget) Close() { t.cancel() }

// ---------------------------------------------------------------------------------------------
// full harness: a real bootstrapped server; heartbeats through GetRaftCluster().HandleRegionHeartbeat,
// observations through the gRPC handler methods called on the server object.

type fullTarget struct {
	m           *srv.Member
	rc          *cluster.RaftCluster
	kv          *kvx.KV
	st          *core.Storage
	realStorage bool // the server's own storage is in use: no stored-side observation

	mu   sync.Mutex
	ids  map[uint64]bool // every region id the server may know of
	ctx  context.Context
	errs []string
}

func (t *fullTarget) addID(id uint64) { t.mu.Lock(); t.ids[id] = true; t.mu.Unlock() }
func (t *fullTarget) addErr(s string) { t.mu.Lock(); t.errs = append(t.errs, s); t.mu.Unlock() }
func (t *fullTarget) idList() []uint64 {
	t.mu.Lock()
	defer t.mu.Unlock()
	out := make([]uint64, 0, len(t.ids))
	for id := range t.ids {
		out = append(out, id)
	}
	return out
}

// Errs returns the API errors seen so far (any makes the run inconclusive).
func (t *fullTarget) Errs() []string {
	t.mu.Lock()
	defer t.mu.Unlock()
	return append([]string(nil), t.errs...)
}

// Forget drops ids that are no longer served from the lookup universe.
func (t *fullTarget) Forget(keep func(id uint64) bool) {
	t.mu.Lock()
	for id := range t.ids {
		if !keep(id) {
			delete(t.ids, id)
		}
	}
	t.mu.Unlock()
}

func newFull(m *srv.Member, stores int) (*fullTarget, error) { return newFullS(m, stores, true) }

// newFullS: with ownStorage=false the server keeps its real storage (etcd + region storage); the
// stored-side observations are then empty and the storage clauses are not evaluated.
func newFullS(m *srv.Member, stores int, ownStorage bool) (*fullTarget, error) {
	ctx := context.Background()
	for i := 1; i <= stores; i++ {
		resp, err := m.Srv.PutStore(ctx, &pdpb.PutStoreRequest{Header: m.Header(),
			Store: &metapb.Store{Id: uint64(i), Address: fmt.Sprintf("mock://tikv-%d", i), Version: "5.0.0"}})
		if err != nil {
			return nil, err
		}
		if resp.GetHeader().GetError() != nil {
			return nil, fmt.Errorf("put store %d: %v", i, resp.GetHeader().GetError())
		}
	}
	rc := m.Srv.GetRaftCluster()
	if rc == nil {
		return nil, fmt.Errorf("no raft cluster")
	}
	k := kvx.New(kv.NewMemoryKV())
	k.SetLogging(false)
	st := core.NewStorage(k)
	if ownStorage {
		rc.SetStorage(st)
	}
	return &fullTarget{m: m, rc: rc, kv: k, st: st, ids: map[uint64]bool{2: true}, ctx: ctx, realStorage: !ownStorage}, nil
}

func viewOfResp(meta *metapb.Region, leader *metapb.Peer, pending []*metapb.Peer, down []*pdpb.PeerStats, term uint64) view {
	return mkView(meta, leader, term, fmt.Sprintf("pending=%v down=%v", peerIDs(pending), downIDs(down)))
}

// termOf reads the raft term PD holds for a region: the gRPC responses do not carry it, so the full
// harness looks it up on the cluster object (only used in quiescent states of the sequential judge).
func (t *fullTarget) termOf(id uint64) uint64 {
	if r := t.rc.GetRegion(id); r != nil {
		return r.GetTerm()
	}
	return 0
}

// viewOfSnapWire renders what a snapshot must look like through the gRPC responses.
func viewOfSnapWire(s *world.Snapshot) view {
	req := s.Request()
	i := core.RegionFromHeartbeat(req)
	return viewOfResp(i.GetMeta(), i.GetLeader(), i.GetPendingPeers(), i.GetDownPeers(), i.GetTerm())
}

func (t *fullTarget) Deliver(s *world.Snapshot) error {
	t.addID(s.R.ID)
	return t.rc.HandleRegionHeartbeat(s.Info())
}

func (t *fullTarget) Observe() *obs {
	o := &obs{ByID: map[uint64]view{}}
	resp, err := t.m.Srv.ScanRegions(t.ctx, &pdpb.ScanRegionsRequest{Header: t.m.Header(), StartKey: []byte(""), EndKey: []byte(""), Limit: 0})
	if err != nil || resp.GetHeader().GetError() != nil {
		t.addErr(fmt.Sprintf("ScanRegions: %v %v", err, resp.GetHeader().GetError()))
		return o
	}
	for _, r := range resp.GetRegions() {
		if r.GetRegion() == nil {
			o.ScanNil++
			continue
		}
		o.Scan = append(o.Scan, viewOfResp(r.GetRegion(), r.GetLeader(), r.GetPendingPeers(), r.GetDownPeers(), t.termOf(r.GetRegion().GetId())))
		t.addID(r.GetRegion().GetId())
	}
	for _, id := range t.idList() {
		if v := t.Get(id); v != nil {
			o.ByID[id] = *v
		}
	}
	o.Count = t.rc.GetRegionCount()
	o.Stored = storedRegions(t.kv)
	return o
}

func (t *fullTarget) Get(id uint64) *view {
	resp, err := t.m.Srv.GetRegionByID(t.ctx, &pdpb.GetRegionByIDRequest{Header: t.m.Header(), RegionId: id})
	if err != nil || resp.GetHeader().GetError() != nil {
		t.addErr(fmt.Sprintf("GetRegionByID: %v %v", err, resp.GetHeader().GetError()))
		return nil
	}
	if resp.GetRegion() == nil {
		return nil
	}
	v := viewOfResp(resp.GetRegion(), resp.GetLeader(), resp.GetPendingPeers(), resp.GetDownPeers(), t.termOf(resp.GetRegion().GetId()))
	return &v
}

func (t *fullTarget) GetByKey(key string) *view {
	resp, err := t.m.Srv.GetRegion(t.ctx, &pdpb.GetRegionRequest{Header: t.m.Header(), RegionKey: []byte(key)})
	if err != nil || resp.GetHeader().GetError() != nil {
		t.addErr(fmt.Sprintf("GetRegion: %v %v", err, resp.GetHeader().GetError()))
		return nil
	}
	if resp.GetRegion() == nil {
		return nil
	}
	v := viewOfResp(resp.GetRegion(), resp.GetLeader(), resp.GetPendingPeers(), resp.GetDownPeers(), t.termOf(resp.GetRegion().GetId()))
	return &v
}

func (t *fullTarget) Drop(id uint64) { t.rc.DropCacheRegion(id) }

func (t *fullTarget) Loadable(id uint64) bool {
	var m metapb.Region
	ok, err := t.st.LoadRegion(id, &m)
	return ok && err == nil
}

// Healthy reports whether the server is still the same running leader with the harness storage and
// every API call so far succeeded (under CPU starvation a member can lose its leader lease; the raft
// cluster is then stopped and later rebuilt from storage — nothing observed across that is a verdict).
func (t *fullTarget) Healthy() error {
	if errs := t.Errs(); len(errs) > 0 {
		return fmt.Errorf("API error: %s", errs[0])
	}
	if !t.m.Srv.GetMember().IsLeader() {
		return fmt.Errorf("server lost leadership")
	}
	if !t.rc.IsRunning() || t.m.Srv.GetRaftCluster() != t.rc {
		return fmt.Errorf("raft cluster not running")
	}
	if !t.realStorage && t.rc.GetStorage() != t.st {
		return fmt.Errorf("raft cluster was restarted (storage replaced)")
	}
	return nil
}

func (t *fullTarget) Close() {}
