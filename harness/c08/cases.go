package main

import (
	"fmt"
	"sort"

	"github.com/pingcap/kvproto/pkg/metapb"
	"github.com/tikv/pd/server/core"
	"github.com/tikv/pd/server/schedule/operator"
	"github.com/tikv/pd/server/schedule/opt"
	"github.com/tikv/pd/server/schedule/placement"
	"verif/harness/lib/sim"
)

// API names (which entry point produced the operator).
const (
	apiBuilder       = "builder"        // NewBuilder.SetPeers[.SetLeader][.EnableLightWeight][.EnableForceTargetLeader].Build
	apiBuilderRoles  = "builder-roles"  // NewBuilder.SetPeers.SetExpectedRoles[flags].Build
	apiMoveRegion    = "move-region"    // CreateMoveRegionOperator(roles)
	apiScatter       = "scatter"        // CreateScatterRegionOperator(targetPeers, targetLeader)
	apiAddPeer       = "add-peer"       // CreateAddPeerOperator
	apiRemovePeer    = "remove-peer"    // CreateRemovePeerOperator
	apiPromote       = "promote"        // CreatePromoteLearnerOperator
	apiDemote        = "demote"         // NewBuilder.DemoteVoter.Build
	apiTransfer      = "transfer"       // CreateTransferLeaderOperator
	apiForceTransfer = "force-transfer" // CreateForceTransferLeaderOperator
	apiMovePeer      = "move-peer"      // CreateMovePeerOperator
	apiMoveLeader    = "move-leader"    // CreateMoveLeaderOperator
	apiReplaceLeader = "replace-leader" // CreateReplaceLeaderPeerOperator
	apiLeaveJoint    = "leave-joint"    // CreateLeaveJointStateOperator
	apiChain         = "chain"          // NewBuilder.{RemovePeer,AddPeer,PromoteLearner,DemoteVoter}*[.SetLeader].Build: the same target spelled peer by peer
)

// peerReq is one requested peer: role "v" (voter) or "l" (learner); ID is the id written into the
// request (0 = let the builder allocate / keep the origin id).
type peerReq struct {
	Store uint64 `json:"store"`
	Role  string `json:"role"`
	ID    uint64 `json:"id,omitempty"`
}

type roleReq struct {
	Store uint64 `json:"store"`
	Role  string `json:"role"` // leader | voter | follower | learner
}

// request is what is asked from the builder.
type request struct {
	API    string    `json:"api"`
	Target []peerReq `json:"target,omitempty"` // builder, scatter
	Leader uint64    `json:"leader,omitempty"` // builder, scatter, transfer, replace-leader
	Roles  []roleReq `json:"roles,omitempty"`  // builder-roles, move-region
	Light  bool      `json:"light,omitempty"`
	Force  bool      `json:"force,omitempty"`
	Store  uint64    `json:"store,omitempty"` // add/remove/promote/demote: the store; move-*: the new store
	Old    uint64    `json:"old,omitempty"`   // move-peer / move-leader / replace-leader: store to vacate
	Role   string    `json:"role,omitempty"`  // add-peer / move-peer / replace-leader: role of the new peer
	NewID  uint64    `json:"new_id,omitempty"`
	// chain: "remove-first" (removes, demotes, promotes, adds) or "add-first" (the reverse)
	ChainOrder string `json:"chain_order,omitempty"`
}

// kase is one complete input.
type kase struct {
	World  *world  `json:"world"`
	Origin string  `json:"origin"` // compact layout, see sim.ParseLayout
	Req    request `json:"request"`
	// Family names the workload family when it is not the plain one-build-on-a-fixed-world case:
	// "live-world" (long-lived cluster and region objects, world changes between and inside builds),
	// "concurrent" (builds overlapped with each other and with world changes on one cluster),
	// "alloc-fault" (the FailAlloc-th id allocation of the build fails), "no-store-record".
	Family    string   `json:"family,omitempty"`
	FailAlloc int      `json:"fail_alloc,omitempty"`
	History   []string `json:"history,omitempty"` // last world events before the build (live families)
	// AmbiguousWorld: the world changed while the operator was being built; the expected-follower clause
	// (which depends on the store states the builder was entitled to see) is skipped and counted.
	AmbiguousWorld bool `json:"ambiguous_world,omitempty"`
	// world-change-during-build, deterministic form: store FlipStore becomes FlipTo at the FlipAt-th store
	// lookup of the build.
	FlipStore uint64 `json:"flip_store,omitempty"`
	FlipTo    string `json:"flip_to,omitempty"`
	FlipAt    int    `json:"flip_at,omitempty"`
	// the same for a cluster-wide setting: QueryFlip ("feature", "joint-config", "placement-rules",
	// "location-labels") is toggled away from QueryBase just before the QueryFlipAt-th cluster query.
	QueryFlip   string     `json:"query_flip,omitempty"`
	QueryFlipAt int        `json:"query_flip_at,omitempty"`
	QueryBase   *queryBase `json:"query_base,omitempty"`
}

func metaRole(r string) metapb.PeerRole {
	if r == "l" {
		return metapb.PeerRole_Learner
	}
	return metapb.PeerRole_Voter
}

// expect is the requested final placement, derived from the request alone.
type expect struct {
	roles     map[uint64]metapb.PeerRole // store -> final role
	leader    uint64                     // requested leader store, 0 = none requested
	followers map[uint64]bool            // stores whose expected role is follower
	origV     int                        // voters (everything but learners) in the origin
	targV     int                        // voters in the target
}

func originRoles(o *sim.Region) map[uint64]metapb.PeerRole {
	m := make(map[uint64]metapb.PeerRole, len(o.Peers))
	for _, p := range o.Peers {
		m[p.StoreId] = p.Role
	}
	return m
}

// expectation computes the requested placement. ok=false: the request is not a meaningful placement
// request on this origin (e.g. remove a peer that does not exist); if pd builds an operator for it
// anyway it is only judged for step safety, not for its final state.
func expectation(o *sim.Region, q *request) (e *expect, ok bool) {
	e = &expect{followers: map[uint64]bool{}}
	ok = true
	cur := originRoles(o)
	switch q.API {
	case apiBuilder, apiScatter, apiChain:
		e.roles = map[uint64]metapb.PeerRole{}
		for _, p := range q.Target {
			e.roles[p.Store] = metaRole(p.Role)
		}
		e.leader = q.Leader
	case apiBuilderRoles, apiMoveRegion:
		e.roles = map[uint64]metapb.PeerRole{}
		for _, r := range q.Roles {
			switch r.Role {
			case "learner":
				e.roles[r.Store] = metapb.PeerRole_Learner
			case "leader":
				e.roles[r.Store] = metapb.PeerRole_Voter
				e.leader = r.Store
			case "follower":
				e.roles[r.Store] = metapb.PeerRole_Voter
				e.followers[r.Store] = true
			default:
				e.roles[r.Store] = metapb.PeerRole_Voter
			}
		}
	case apiAddPeer:
		e.roles = cur
		if _, has := cur[q.Store]; has {
			ok = false
		}
		e.roles[q.Store] = metaRole(q.Role)
	case apiRemovePeer:
		e.roles = cur
		if _, has := cur[q.Store]; !has {
			ok = false
		}
		delete(e.roles, q.Store)
	case apiPromote:
		e.roles = cur
		if cur[q.Store] != metapb.PeerRole_Learner {
			ok = false
		}
		if _, has := cur[q.Store]; !has {
			ok = false
		}
		e.roles[q.Store] = metapb.PeerRole_Voter
	case apiDemote:
		e.roles = cur
		if r, has := cur[q.Store]; !has || r != metapb.PeerRole_Voter {
			ok = false
		}
		e.roles[q.Store] = metapb.PeerRole_Learner
	case apiTransfer, apiForceTransfer:
		e.roles = cur // joint roles, if any, stay as they are
		e.leader = q.Leader
	case apiMovePeer, apiMoveLeader, apiReplaceLeader:
		e.roles = cur
		if _, has := cur[q.Old]; !has {
			ok = false
		}
		delete(e.roles, q.Old)
		if _, has := e.roles[q.Store]; has {
			ok = false
		}
		e.roles[q.Store] = metaRole(q.Role)
		switch q.API {
		case apiMoveLeader:
			e.leader = q.Store
		case apiReplaceLeader:
			e.leader = q.Leader
		}
	case apiLeaveJoint:
		e.roles = cur
		for s, r := range cur {
			switch r {
			case metapb.PeerRole_IncomingVoter:
				e.roles[s] = metapb.PeerRole_Voter
			case metapb.PeerRole_DemotingVoter:
				e.roles[s] = metapb.PeerRole_Learner
			}
		}
	default:
		return nil, false
	}
	// a leader request only stands if that store ends up as a voter (documented: "If the target leader
	// does not exist or is a Learner, the target is cancelled")
	if e.leader != 0 {
		if r, has := e.roles[e.leader]; !has || r == metapb.PeerRole_Learner || r == metapb.PeerRole_DemotingVoter {
			e.leader = 0
			if q.API != apiBuilder && q.API != apiScatter && q.API != apiChain {
				ok = false
			}
		}
	}
	e.origV = o.VotersAll()
	for _, r := range e.roles {
		if r != metapb.PeerRole_Learner {
			e.targV++
		}
	}
	if e.targV == 0 {
		ok = false
	}
	return e, ok
}

func targetPeers(l []peerReq) map[uint64]*metapb.Peer {
	m := make(map[uint64]*metapb.Peer, len(l))
	for _, p := range l {
		m[p.Store] = &metapb.Peer{Id: p.ID, StoreId: p.Store, Role: metaRole(p.Role)}
	}
	return m
}

func rolesMap(l []roleReq) map[uint64]placement.PeerRoleType {
	m := make(map[uint64]placement.PeerRoleType, len(l))
	for _, r := range l {
		m[r.Store] = placement.PeerRoleType(r.Role)
	}
	return m
}

// invoke calls the real pd entry point named by the request. A panic inside pd is returned as
// panicked != nil.
func invoke(c opt.Cluster, origin *core.RegionInfo, q *request, between func()) (op *operator.Operator, err error, panicked interface{}) {
	defer func() {
		if p := recover(); p != nil {
			panicked = p
		}
	}()
	const desc = "c08"
	switch q.API {
	case apiBuilder:
		b := operator.NewBuilder(desc, c, origin)
		if between != nil {
			between() // the world moves on between NewBuilder and the rest of the chain
		}
		b = b.SetPeers(targetPeers(q.Target))
		if q.Leader != 0 {
			b = b.SetLeader(q.Leader)
		}
		if q.Light {
			b = b.EnableLightWeight()
		}
		if q.Force {
			b = b.EnableForceTargetLeader()
		}
		op, err = b.Build(0)
	case apiScatter:
		op, err = operator.CreateScatterRegionOperator(desc, c, origin, targetPeers(q.Target), q.Leader)
	case apiBuilderRoles:
		roles := rolesMap(q.Roles)
		peers := make(map[uint64]*metapb.Peer, len(roles))
		for s, r := range roles {
			peers[s] = &metapb.Peer{StoreId: s, Role: r.MetaPeerRole()}
		}
		b := operator.NewBuilder(desc, c, origin)
		if between != nil {
			between()
		}
		b = b.SetPeers(peers).SetExpectedRoles(roles)
		if q.Light {
			b = b.EnableLightWeight()
		}
		if q.Force {
			b = b.EnableForceTargetLeader()
		}
		op, err = b.Build(0)
	case apiMoveRegion:
		op, err = operator.CreateMoveRegionOperator(desc, c, origin, 0, rolesMap(q.Roles))
	case apiAddPeer:
		op, err = operator.CreateAddPeerOperator(desc, c, origin, &metapb.Peer{Id: q.NewID, StoreId: q.Store, Role: metaRole(q.Role)}, 0)
	case apiRemovePeer:
		op, err = operator.CreateRemovePeerOperator(desc, c, 0, origin, q.Store)
	case apiPromote:
		op, err = operator.CreatePromoteLearnerOperator(desc, c, origin, &metapb.Peer{StoreId: q.Store})
	case apiDemote:
		op, err = operator.NewBuilder(desc, c, origin).DemoteVoter(q.Store).Build(0)
	case apiTransfer:
		op, err = operator.CreateTransferLeaderOperator(desc, c, origin, origin.GetLeader().GetStoreId(), q.Leader, 0)
	case apiForceTransfer:
		op, err = operator.CreateForceTransferLeaderOperator(desc, c, origin, origin.GetLeader().GetStoreId(), q.Leader, 0)
	case apiMovePeer:
		op, err = operator.CreateMovePeerOperator(desc, c, origin, 0, q.Old, &metapb.Peer{Id: q.NewID, StoreId: q.Store, Role: metaRole(q.Role)})
	case apiMoveLeader:
		op, err = operator.CreateMoveLeaderOperator(desc, c, origin, 0, q.Old, &metapb.Peer{Id: q.NewID, StoreId: q.Store, Role: metaRole(q.Role)})
	case apiReplaceLeader:
		op, err = operator.CreateReplaceLeaderPeerOperator(desc, c, origin, 0, q.Old, &metapb.Peer{Id: q.NewID, StoreId: q.Store, Role: metaRole(q.Role)}, &metapb.Peer{StoreId: q.Leader})
	case apiLeaveJoint:
		op, err = operator.CreateLeaveJointStateOperator(desc, c, origin)
	case apiChain:
		b := operator.NewBuilder(desc, c, origin)
		var removes, demotes, promotes, adds []func()
		tgt := map[uint64]peerReq{}
		for _, p := range q.Target {
			tgt[p.Store] = p
		}
		for _, o := range origin.GetPeers() {
			store, isLearner := o.GetStoreId(), core.IsLearner(o)
			t, kept := tgt[store]
			switch {
			case !kept:
				removes = append(removes, func() { b = b.RemovePeer(store) })
			case isLearner && t.Role == "v":
				promotes = append(promotes, func() { b = b.PromoteLearner(store) })
			case !isLearner && t.Role == "l":
				demotes = append(demotes, func() { b = b.DemoteVoter(store) })
			}
		}
		for _, p := range q.Target {
			if origin.GetStorePeer(p.Store) == nil {
				peer := &metapb.Peer{Id: p.ID, StoreId: p.Store, Role: metaRole(p.Role)}
				adds = append(adds, func() { b = b.AddPeer(peer) })
			}
		}
		groups := [][]func(){removes, demotes, promotes, adds}
		if q.ChainOrder == "add-first" {
			groups = [][]func(){adds, promotes, demotes, removes}
		}
		for _, g := range groups {
			for _, f := range g {
				f()
			}
		}
		if q.Leader != 0 {
			b = b.SetLeader(q.Leader)
		}
		op, err = b.Build(0)
	default:
		err = fmt.Errorf("harness: unknown api %q", q.API)
	}
	return
}

func sortedStores(m map[uint64]metapb.PeerRole) []uint64 {
	s := make([]uint64, 0, len(m))
	for k := range m {
		s = append(s, k)
	}
	sort.Slice(s, func(i, j int) bool { return s[i] < s[j] })
	return s
}
