// C08 — Generated operator steps are safe and reach the requested placement.
//
// The real operator.Builder and every Create*Operator helper are driven over (a) complete
// enumerations of origin layout x leader x requested layout x requested leader / expected roles for
// S stores (S<=4 quick, S<=5 thorough) under every feature mode (joint consensus / demotion only /
// legacy) and flag variant, with all stores up and with hostile store-state patterns, and (b) random
// worlds (3..6 stores, mixed store states, labels, reject-leader property, placement rules, pending /
// down peers, joint-state origins, explicit peer ids). Every operator that is produced is executed
// step by step on lib/sim (an independent model of how a store applies a command) and judged by
// oracles written from the property statement (see judge.go).
package main

import (
	"encoding/json"
	"fmt"
	"io/ioutil"
	"math/rand"
	"regexp"
	"runtime"
	"sort"
	"strings"
	"sync"

	"github.com/pingcap/kvproto/pkg/metapb"
	"github.com/tikv/pd/server/core"
	"github.com/tikv/pd/server/schedule/opt"
	"verif/harness/lib/ev"
	"verif/harness/lib/sim"
)

const idBase = uint64(1) << 40 // origin peer ids live far away from the mock allocator's 1,2,3,...

// originRegion builds the simulated origin from peer specs; peer id = idBase + store.
func originRegion(specs []sim.PeerSpec) *sim.Region {
	for i := range specs {
		if specs[i].ID == 0 {
			specs[i].ID = idBase + specs[i].Store
		}
	}
	return sim.BuildRegion(1, specs, idBase)
}

func originFromLayout(layout string) (*sim.Region, error) {
	specs, err := sim.ParseLayout(layout)
	if err != nil {
		return nil, err
	}
	return originRegion(specs), nil
}

// layoutString renders specs with marks so that a witness can be replayed.
func layoutString(specs []sim.PeerSpec) string {
	var b []string
	for _, s := range specs {
		x := fmt.Sprintf("%d%s", s.Store, map[metapb.PeerRole]string{metapb.PeerRole_Voter: "v", metapb.PeerRole_Learner: "l",
			metapb.PeerRole_IncomingVoter: "i", metapb.PeerRole_DemotingVoter: "d"}[s.Role])
		if s.Leader {
			x += "*"
		}
		if s.Down {
			x += "!"
		}
		if s.Pending {
			x += "?"
		}
		b = append(b, x)
	}
	return strings.Join(b, " ")
}

var digits = regexp.MustCompile(`[0-9]+`)

// runner is the per-goroutine state.
type runner struct {
	st *stats
}

// exec runs one case on an existing cluster.
func (rn *runner) exec(cl opt.Cluster, k *kase, origin *sim.Region, originInfo *core.RegionInfo) {
	rn.execBetween(cl, k, origin, originInfo, nil)
}

// execBetween is exec with a hook that runs between NewBuilder and the rest of the builder chain.
func (rn *runner) execBetween(cl opt.Cluster, k *kase, origin *sim.Region, originInfo *core.RegionInfo, between func()) {
	s := rn.st
	e, ok := expectation(origin, &k.Req)
	if e == nil {
		s.count("harness_unknown_api", 1)
		return
	}
	s.count("builds_total", 1)
	if k.Family != "" {
		s.count("builds_family_"+k.Family, 1)
	}
	op, err, panicked := invoke(cl, originInfo, &k.Req, between)
	if panicked != nil {
		s.report(&finding{Key: "panic-in-build:" + k.Req.API + ":" + k.World.Mode + familySuffix(k), What: fmt.Sprintf("building the operator panicked: %v", panicked), Case: k,
			Size: len(origin.Peers) * 100, Witness: map[string]interface{}{"case": k, "origin": origin.Describe(), "panic": fmt.Sprint(panicked)}})
		return
	}
	if err != nil || op == nil {
		s.count("builds_error", 1)
		if err != nil {
			msg := digits.ReplaceAllString(err.Error(), "#")
			if i := strings.Index(msg, " id:#"); i > 0 {
				msg = msg[:i]
			}
			if i := strings.Index(msg, " store_id:#"); i > 0 {
				msg = msg[:i]
			}
			if len(msg) > 70 {
				msg = msg[:70]
			}
			s.count("error: "+msg, 1)
		}
		return
	}
	if op.Len() == 0 {
		s.count("operators_without_steps", 1)
		return
	}
	if !ok {
		s.count("operator_for_non_placement_request", 1)
	}
	failed := judge(s, k, origin, op, e, ok)
	if !failed && len(s.samples) < 2 && op.Len() >= 4 {
		var ss []string
		for _, st := range sim.Steps(op) {
			ss = append(ss, st.String())
		}
		s.samples = append(s.samples, map[string]interface{}{"mode": k.World.Mode, "origin": k.Origin, "request": k.Req, "steps": ss})
	}
}

// ---- bounded-exhaustive enumeration ------------------------------------------------------------------------

// xcfg is one configuration of the exhaustive phase.
type xcfg struct {
	Name    string
	S       int
	Mode    string
	Light   bool
	Force   bool
	States  []string // per store (index = store-1); "" = up
	Roles   bool     // enumerate expected-role requests
	Helpers bool     // enumerate the Create*Operator helpers
	Joint   bool     // enumerate joint-state origins (leave-joint, transfer-leader)
	// FailAlloc > 0: the FailAlloc-th id allocation of every build fails (family alloc-fault).
	FailAlloc int
	// Missing > 0: the last Missing stores have no store record in the cluster although peers may live
	// on them and requests may name them (family no-store-record); Labels: zone/host labels and
	// location labels are configured so that the label comparison code runs.
	Missing int
	Labels  bool
	Chain   bool   // spell every SetPeers request also as a RemovePeer/AddPeer/PromoteLearner/DemoteVoter chain
	Rules   string // "" = off, "default" = placement rules on with the unconstrained default rule
}

func (c *xcfg) family() string {
	switch {
	case c.FailAlloc > 0:
		return "alloc-fault"
	case c.Missing > 0:
		return "no-store-record"
	}
	return ""
}

func (c *xcfg) world() *world {
	w := &world{Mode: c.Mode, Rules: "off", LocationLabels: c.Labels}
	if c.Rules != "" {
		w.Rules = c.Rules
	}
	for i := 0; i < c.S-c.Missing; i++ {
		st := stUp
		if i < len(c.States) && c.States[i] != "" {
			st = c.States[i]
		}
		sd := storeDesc{ID: uint64(i + 1), State: st}
		if c.Labels {
			sd.Zone, sd.Host = fmt.Sprintf("z%d", 1+i%2), fmt.Sprintf("h%d", 1+i/2)
		}
		w.Stores = append(w.Stores, sd)
	}
	return w
}

type xitem struct {
	cfg    int
	layout int  // base-3 (plain) or base-5 (joint) code of the origin
	leader int  // store index of the leader
	joint  bool // joint-state origin
}

func pow(b, e int) int {
	n := 1
	for i := 0; i < e; i++ {
		n *= b
	}
	return n
}

func digitsOf(code, base, n int) []int {
	d := make([]int, n)
	for i := 0; i < n; i++ {
		d[i] = code % base
		code /= base
	}
	return d
}

var plainRoles = []metapb.PeerRole{0, metapb.PeerRole_Voter, metapb.PeerRole_Learner}
var jointRoles = []metapb.PeerRole{0, metapb.PeerRole_Voter, metapb.PeerRole_Learner, metapb.PeerRole_IncomingVoter, metapb.PeerRole_DemotingVoter}

// items lists the (origin, leader) pairs of a configuration.
func (c *xcfg) items(ci int) []xitem {
	var out []xitem
	for code := 0; code < pow(3, c.S); code++ {
		d := digitsOf(code, 3, c.S)
		for i, x := range d {
			if x == 1 {
				out = append(out, xitem{cfg: ci, layout: code, leader: i})
			}
		}
	}
	if c.Joint {
		for code := 0; code < pow(5, c.S); code++ {
			d := digitsOf(code, 5, c.S)
			jointN, oldN, newN := 0, 0, 0
			for _, x := range d {
				switch x {
				case 1:
					oldN++
					newN++
				case 3:
					jointN++
					newN++
				case 4:
					jointN++
					oldN++
				}
			}
			// a reachable joint state: some peer in a joint role, outgoing and incoming configuration non-empty
			if jointN == 0 || oldN == 0 || newN == 0 {
				continue
			}
			for i, x := range d {
				if x == 1 || x == 3 || x == 4 {
					out = append(out, xitem{cfg: ci, layout: code, leader: i, joint: true})
				}
			}
		}
	}
	return out
}

var roleNames = []string{"", "voter", "leader", "follower", "learner"}

// runItem enumerates every request for one origin.
func (rn *runner) runItem(c *xcfg, w *world, cl *cluster, it xitem) {
	S := c.S
	var specs []sim.PeerSpec
	var d []int
	if it.joint {
		d = digitsOf(it.layout, 5, S)
		for i, x := range d {
			if x != 0 {
				specs = append(specs, sim.PeerSpec{Store: uint64(i + 1), Role: jointRoles[x], Leader: i == it.leader})
			}
		}
	} else {
		d = digitsOf(it.layout, 3, S)
		for i, x := range d {
			if x != 0 {
				specs = append(specs, sim.PeerSpec{Store: uint64(i + 1), Role: plainRoles[x], Leader: i == it.leader})
			}
		}
	}
	layout := layoutString(specs)
	origin := originRegion(specs)
	info := origin.Info()
	fam := c.family()
	var fc *faultCluster
	if c.FailAlloc > 0 {
		fc = &faultCluster{cluster: cl}
	}
	run := func(q request) {
		k := &kase{World: w, Origin: layout, Req: q, Family: fam, FailAlloc: c.FailAlloc}
		if fc == nil {
			rn.exec(cl, k, origin, info)
			return
		}
		fc.arm(c.FailAlloc)
		before := rn.st.counters["builds_error"]
		rn.exec(fc, k, origin, info)
		if fc.failed {
			rn.st.count("alloc_faults_injected", 1)
			if rn.st.counters["builds_error"] == before {
				rn.st.count("alloc_fault_build_still_returned_an_operator", 1)
			}
		}
	}
	leaderStore := uint64(it.leader + 1)
	if it.joint {
		run(request{API: apiLeaveJoint})
		for s := 1; s <= S; s++ {
			run(request{API: apiTransfer, Leader: uint64(s)})
			run(request{API: apiForceTransfer, Leader: uint64(s)})
		}
		return
	}
	// A: SetPeers x optional SetLeader x flags
	for code := 0; code < pow(3, S); code++ {
		t := digitsOf(code, 3, S)
		var target []peerReq
		voters := 0
		for i, x := range t {
			switch x {
			case 1:
				target = append(target, peerReq{Store: uint64(i + 1), Role: "v"})
				voters++
			case 2:
				target = append(target, peerReq{Store: uint64(i + 1), Role: "l"})
			}
		}
		api := apiBuilder
		run(request{API: api, Target: target, Light: c.Light, Force: c.Force})
		if voters == 0 {
			continue
		}
		for i, x := range t {
			if x != 1 {
				continue
			}
			q := request{API: apiBuilder, Target: target, Leader: uint64(i + 1), Light: c.Light, Force: c.Force}
			if c.Light && c.Force {
				q.API = apiScatter // the same request through CreateScatterRegionOperator
			}
			run(q)
			if c.Chain {
				// the same target spelled peer by peer
				run(request{API: apiChain, Target: target, Leader: uint64(i + 1), ChainOrder: "remove-first"})
				run(request{API: apiChain, Target: target, Leader: uint64(i + 1), ChainOrder: "add-first"})
			}
		}
		if c.Chain {
			run(request{API: apiChain, Target: target, ChainOrder: "remove-first"})
			run(request{API: apiChain, Target: target, ChainOrder: "add-first"})
		}
	}
	// B: expected roles
	if c.Roles {
		for code := 0; code < pow(5, S); code++ {
			t := digitsOf(code, 5, S)
			leaders, followers := 0, 0
			var roles []roleReq
			for i, x := range t {
				if x == 2 {
					leaders++
				}
				if x == 3 {
					followers++
				}
				if x != 0 {
					roles = append(roles, roleReq{Store: uint64(i + 1), Role: roleNames[x]})
				}
			}
			// plain voter/learner maps are the same requests as A without a leader; keep those with a
			// leader or follower role, at most one leader
			if leaders > 1 || leaders+followers == 0 {
				continue
			}
			api := apiMoveRegion
			if c.Light || c.Force {
				api = apiBuilderRoles
			}
			run(request{API: api, Roles: roles, Light: c.Light, Force: c.Force})
		}
	}
	// C: helpers
	if c.Helpers {
		has := func(s int) bool { return d[s-1] != 0 }
		for s := 1; s <= S; s++ {
			su := uint64(s)
			run(request{API: apiAddPeer, Store: su, Role: "v"})
			run(request{API: apiAddPeer, Store: su, Role: "l"})
			run(request{API: apiRemovePeer, Store: su})
			run(request{API: apiPromote, Store: su})
			run(request{API: apiDemote, Store: su})
			run(request{API: apiTransfer, Leader: su})
			run(request{API: apiForceTransfer, Leader: su})
			if !has(s) {
				continue
			}
			for n := 1; n <= S; n++ {
				if has(n) {
					continue
				}
				nu := uint64(n)
				run(request{API: apiMovePeer, Old: su, Store: nu, Role: "v"})
				run(request{API: apiMovePeer, Old: su, Store: nu, Role: "l"})
				run(request{API: apiMoveLeader, Old: su, Store: nu, Role: "v"})
				for l := 1; l <= S; l++ {
					if l != s && (has(l) || l == n) {
						run(request{API: apiReplaceLeader, Old: su, Store: nu, Role: "v", Leader: uint64(l)})
					}
				}
			}
		}
		_ = leaderStore
	}
}

func exhaustiveConfigs(r *ev.Run) []xcfg {
	var cfgs []xcfg
	maxS := r.Pick(4, 5)
	for S := 2; S <= maxS; S++ {
		for _, m := range allModes {
			// all stores up: plain and light+force (= scatter) variants
			cfgs = append(cfgs, xcfg{Name: fmt.Sprintf("S%d/%s/all-up", S, m), S: S, Mode: m, Roles: true, Helpers: true, Joint: m != modeLegacy && S <= 4, Chain: S <= 4})
			if S <= 4 {
				// placement rules on with the default rule (the builder then fits the region and matches rules)
				cfgs = append(cfgs, xcfg{Name: fmt.Sprintf("S%d/%s/all-up/default-rules", S, m), S: S, Mode: m, Rules: "default", Roles: S <= 3, Helpers: true})
			}
			cfgs = append(cfgs, xcfg{Name: fmt.Sprintf("S%d/%s/all-up/light+force", S, m), S: S, Mode: m, Light: true, Force: true, Roles: S <= 4})
		}
	}
	// hostile store-state patterns on the largest S of the quick tier (4): one bad store of every kind,
	// with and without the force flag, plus two-bad-store patterns
	for _, m := range allModes {
		for _, st := range hostileStates {
			cfgs = append(cfgs, xcfg{Name: fmt.Sprintf("S4/%s/store4-%s", m, st), S: 4, Mode: m, States: []string{"", "", "", st}, Roles: r.Thorough(), Helpers: true, Joint: m == modeJoint})
			cfgs = append(cfgs, xcfg{Name: fmt.Sprintf("S4/%s/store4-%s/force", m, st), S: 4, Mode: m, Force: true, States: []string{"", "", "", st}})
		}
		cfgs = append(cfgs, xcfg{Name: fmt.Sprintf("S4/%s/down+offline", m), S: 4, Mode: m, States: []string{"", "", stDown, stOffline}, Roles: r.Thorough(), Helpers: true})
		cfgs = append(cfgs, xcfg{Name: fmt.Sprintf("S4/%s/reject+paused+disconnected", m), S: 4, Mode: m, States: []string{"", stReject, stPaused, stDisconnected}, Helpers: true})
		cfgs = append(cfgs, xcfg{Name: fmt.Sprintf("S3/%s/only-store1-up", m), S: 3, Mode: m, States: []string{"", stDown, stBusy}, Roles: true, Helpers: true, Joint: m == modeJoint})
		// faults: the 1st / 2nd / 3rd id allocation of a build fails (a build allocates one id per new peer)
		for k := 1; k <= 3; k++ {
			cfgs = append(cfgs, xcfg{Name: fmt.Sprintf("S4/%s/alloc-fault-%d", m, k), S: 4, Mode: m, FailAlloc: k, Helpers: k == 1})
		}
		// peers and requests on a store without a store record, location labels configured
		cfgs = append(cfgs, xcfg{Name: fmt.Sprintf("S4/%s/store4-no-record", m), S: 4, Mode: m, Missing: 1, Labels: true, Roles: true, Helpers: true})
		cfgs = append(cfgs, xcfg{Name: fmt.Sprintf("S4/%s/store3+4-no-record/force", m), S: 4, Mode: m, Missing: 2, Labels: true, Force: true})
	}
	return cfgs
}

func exhaustivePhase(r *ev.Run, workers int, merge func(*stats)) {
	cfgs := exhaustiveConfigs(r)
	var items []xitem
	for ci := range cfgs {
		items = append(items, cfgs[ci].items(ci)...)
	}
	ch := make(chan xitem, 256)
	var wg sync.WaitGroup
	var fatal sync.Once
	for wk := 0; wk < workers; wk++ {
		wg.Add(1)
		go func() {
			defer wg.Done()
			rn := &runner{st: newStats()}
			clusters := map[int]*cluster{}
			worlds := map[int]*world{}
			for it := range ch {
				cl := clusters[it.cfg]
				if cl == nil {
					w := cfgs[it.cfg].world()
					var err error
					cl, err = newCluster(w)
					if err != nil {
						fatal.Do(func() { r.Inconclusive("cannot build cluster for %s: %v", cfgs[it.cfg].Name, err) })
						continue
					}
					clusters[it.cfg], worlds[it.cfg] = cl, w
				}
				rn.runItem(&cfgs[it.cfg], worlds[it.cfg], cl, it)
				rn.st.count("exhaustive_origins", 1)
			}
			for _, cl := range clusters {
				cl.close()
			}
			merge(rn.st)
		}()
	}
	n := 0
	for i, it := range items {
		if i%r.Shards != r.Shard {
			continue
		}
		ch <- it
		n++
	}
	close(ch)
	wg.Wait()
	r.Set("exhaustive_configurations", len(cfgs))
	r.Set("exhaustive_origin_items_total", len(items))
	r.Set("exhaustive_origin_items_this_shard", n)
	var names []string
	for _, c := range cfgs {
		names = append(names, c.Name)
	}
	r.Set("exhaustive_configuration_names", names)
}

// ---- random worlds ------------------------------------------------------------------------------------------

var ruleTemplates = [][]ruleDesc{
	{{ID: "voters", Role: "voter", Count: 3, Zones: []string{"z1", "z2"}}, {ID: "f", Role: "follower", Count: 1, Zones: []string{"z3"}}},
	{{ID: "leader", Role: "leader", Count: 1, Zones: []string{"z1"}}, {ID: "voters", Role: "voter", Count: 2}, {ID: "learner", Role: "learner", Count: 1, Zones: []string{"z3"}}},
	{{ID: "voters", Role: "voter", Count: 3, Zones: []string{"z1", "z2", "z3"}}},
	{{ID: "followers", Role: "follower", Count: 2}, {ID: "leader", Role: "leader", Count: 1, Zones: []string{"z2", "z3"}}},
}

var labelVariants = [][]string{
	{"NoLeader", "true"}, {"noleader", "TRUE"}, {"noleader", ""}, {"NOLEADER", "true", "noleader", "false"},
	{"Zone", "z9"}, {"ZONE", ""}, {"zone", "Z1"}, {"host", "h1,h2"}, {"zone", "z1/z2"}, {"", "x"},
}

func randomWorld(rng *rand.Rand) *world {
	w := &world{Mode: allModes[rng.Intn(len(allModes))]}
	S := 3 + rng.Intn(4)
	pUp := []int{40, 60, 80, 100}[rng.Intn(4)]
	for i := 1; i <= S; i++ {
		st := stUp
		if rng.Intn(100) >= pUp {
			st = hostileStates[rng.Intn(len(hostileStates))]
		}
		sd := storeDesc{ID: uint64(i), State: st,
			Zone: fmt.Sprintf("z%d", 1+rng.Intn(3)), Host: fmt.Sprintf("h%d", 1+rng.Intn(2))}
		if rng.Intn(4) == 0 {
			// label spellings pd's readers treat differently (case-insensitive key lookup, first label wins,
			// empty value = unset, exact match for the reject-leader property)
			sd.Extra = labelVariants[rng.Intn(len(labelVariants))]
		}
		w.Stores = append(w.Stores, sd)
	}
	w.LocationLabels = rng.Intn(2) == 0
	switch x := rng.Intn(4); {
	case x <= 1:
		w.Rules = "off"
	case x == 2:
		w.Rules = "default"
	default:
		w.Rules = "custom"
		w.RuleSet = ruleTemplates[rng.Intn(len(ruleTemplates))]
	}
	return w
}

func randomOrigin(rng *rand.Rand, w *world, joint bool) []sim.PeerSpec {
	for {
		var specs []sim.PeerSpec
		var leaders []int
		jointN, oldN, newN := 0, 0, 0
		for _, s := range w.Stores {
			x := rng.Intn(100)
			var role metapb.PeerRole
			switch {
			case x < 30:
				continue
			case x < 75:
				role = metapb.PeerRole_Voter
			default:
				role = metapb.PeerRole_Learner
			}
			if joint && role == metapb.PeerRole_Voter {
				switch rng.Intn(3) {
				case 0:
					role = metapb.PeerRole_IncomingVoter
				case 1:
					role = metapb.PeerRole_DemotingVoter
				}
			}
			switch role {
			case metapb.PeerRole_Voter:
				oldN++
				newN++
			case metapb.PeerRole_IncomingVoter:
				jointN++
				newN++
			case metapb.PeerRole_DemotingVoter:
				jointN++
				oldN++
			}
			if role != metapb.PeerRole_Learner {
				leaders = append(leaders, len(specs))
			}
			specs = append(specs, sim.PeerSpec{Store: s.ID, Role: role})
		}
		if len(leaders) == 0 || (joint && (jointN == 0 || oldN == 0 || newN == 0)) {
			continue
		}
		l := leaders[rng.Intn(len(leaders))]
		specs[l].Leader = true
		for i := range specs {
			if i == l {
				continue
			}
			switch rng.Intn(12) {
			case 0:
				specs[i].Pending = true
			case 1:
				specs[i].Down = true
			}
		}
		return specs
	}
}

func randomRequest(rng *rand.Rand, w *world, origin *sim.Region, joint bool, nextID *uint64) request {
	S := len(w.Stores)
	anyStore := func() uint64 { return w.Stores[rng.Intn(S)].ID }
	var occupied, empty, voters, learners []uint64
	for _, s := range w.Stores {
		p := origin.Peer(s.ID)
		switch {
		case p == nil:
			empty = append(empty, s.ID)
		case p.Role == metapb.PeerRole_Learner:
			occupied = append(occupied, s.ID)
			learners = append(learners, s.ID)
		default:
			occupied = append(occupied, s.ID)
			voters = append(voters, s.ID)
		}
	}
	pick := func(l []uint64) uint64 {
		if len(l) == 0 || rng.Intn(8) == 0 {
			return anyStore()
		}
		return l[rng.Intn(len(l))]
	}
	role := func() string {
		if rng.Intn(3) == 0 {
			return "l"
		}
		return "v"
	}
	if joint {
		switch rng.Intn(3) {
		case 0:
			return request{API: apiLeaveJoint}
		case 1:
			return request{API: apiTransfer, Leader: anyStore()}
		default:
			return request{API: apiForceTransfer, Leader: anyStore()}
		}
	}
	randomTarget := func() ([]peerReq, []uint64) {
		for {
			var t []peerReq
			var tv []uint64
			for _, s := range w.Stores {
				x := rng.Intn(100)
				if x < 35 {
					continue
				}
				p := peerReq{Store: s.ID, Role: "v"}
				if x >= 80 {
					p.Role = "l"
				} else {
					tv = append(tv, s.ID)
				}
				if rng.Intn(6) == 0 {
					// an explicit peer id in the request: documented to be replaced by the origin's id for a
					// kept store and used as given for a new peer
					*nextID++
					p.ID = *nextID
				}
				t = append(t, p)
			}
			if len(tv) > 0 || rng.Intn(20) == 0 {
				return t, tv
			}
		}
	}
	switch x := rng.Intn(100); {
	case x < 30:
		t, tv := randomTarget()
		q := request{API: apiBuilder, Target: t, Light: rng.Intn(3) == 0, Force: rng.Intn(3) == 0}
		if len(tv) > 0 && rng.Intn(3) != 0 {
			q.Leader = tv[rng.Intn(len(tv))]
		}
		return q
	case x < 38:
		t, tv := randomTarget()
		for i := range t {
			t[i].ID = 0
		}
		q := request{API: apiScatter, Target: t}
		if len(tv) > 0 && rng.Intn(4) != 0 {
			q.Leader = tv[rng.Intn(len(tv))] // 0 lets pd pick a random voter itself
		}
		return q
	case x < 62:
		t, tv := randomTarget()
		var roles []roleReq
		lead := uint64(0)
		if len(tv) > 0 && rng.Intn(2) == 0 {
			lead = tv[rng.Intn(len(tv))]
		}
		for _, p := range t {
			rr := roleReq{Store: p.Store, Role: "voter"}
			switch {
			case p.Role == "l":
				rr.Role = "learner"
			case p.Store == lead:
				rr.Role = "leader"
			case rng.Intn(3) == 0:
				rr.Role = "follower"
			}
			roles = append(roles, rr)
		}
		q := request{API: apiMoveRegion, Roles: roles}
		if rng.Intn(3) == 0 {
			q.API, q.Light, q.Force = apiBuilderRoles, rng.Intn(2) == 0, rng.Intn(2) == 0
		}
		return q
	case x < 67:
		return request{API: apiAddPeer, Store: pick(empty), Role: role()}
	case x < 72:
		return request{API: apiRemovePeer, Store: pick(occupied)}
	case x < 76:
		return request{API: apiPromote, Store: pick(learners)}
	case x < 80:
		return request{API: apiDemote, Store: pick(voters)}
	case x < 84:
		return request{API: apiTransfer, Leader: pick(voters)}
	case x < 87:
		return request{API: apiForceTransfer, Leader: pick(voters)}
	case x < 92:
		return request{API: apiMovePeer, Old: pick(occupied), Store: pick(empty), Role: role()}
	case x < 96:
		return request{API: apiMoveLeader, Old: pick(occupied), Store: pick(empty), Role: "v"}
	default:
		return request{API: apiReplaceLeader, Old: pick(occupied), Store: pick(empty), Role: "v", Leader: pick(voters)}
	}
}

func randomPhase(r *ev.Run, workers int, merge func(*stats)) {
	worlds := r.Pick(400, 3000)
	perWorld := r.Pick(60, 120)
	var wg sync.WaitGroup
	var fatal sync.Once
	for wk := 0; wk < workers; wk++ {
		wg.Add(1)
		go func(wk int) {
			defer wg.Done()
			rng := rand.New(rand.NewSource(r.ShardSeed()*131 + int64(wk)))
			rn := &runner{st: newStats()}
			nextID := uint64(1) << 41
			for wi := wk; wi < worlds; wi += workers {
				w := randomWorld(rng)
				cl, err := newCluster(w)
				if err != nil && w.Rules == "custom" {
					// the rule manager refuses a rule no store can match: keep the world, use the default rule
					rn.st.count("random_worlds_custom_rules_refused", 1)
					w.Rules, w.RuleSet = "default", nil
					cl, err = newCluster(w)
				}
				if err != nil {
					fatal.Do(func() { r.Inconclusive("cannot build random cluster: %v (%+v)", err, w) })
					return
				}
				rn.st.count("random_worlds", 1)
				rn.st.count("random_worlds_rules_"+w.Rules, 1)
				rn.st.count("random_worlds_mode_"+w.Mode, 1)
				for c := 0; c < perWorld; c++ {
					joint := w.Mode != modeLegacy && rng.Intn(8) == 0
					specs := randomOrigin(rng, w, joint)
					layout := layoutString(specs)
					origin := originRegion(specs)
					q := randomRequest(rng, w, origin, joint, &nextID)
					rn.exec(cl, &kase{World: w, Origin: layout, Req: q}, origin, origin.Info())
					rn.st.count("random_cases", 1)
				}
				cl.close()
			}
			merge(rn.st)
		}(wk)
	}
	wg.Wait()
}

// ---- replay of one witness ----------------------------------------------------------------------------------

func replayFile(r *ev.Run, path string, merge func(*stats)) {
	b, err := ioutil.ReadFile(path)
	if err != nil {
		r.Inconclusive("replay: %v", err)
		return
	}
	var doc struct {
		Witness struct {
			Case *kase `json:"case"`
		} `json:"witness"`
	}
	if err := json.Unmarshal(b, &doc); err != nil || doc.Witness.Case == nil || doc.Witness.Case.World == nil {
		r.Inconclusive("replay: file holds no case (%v)", err)
		return
	}
	k := doc.Witness.Case
	origin, err := originFromLayout(k.Origin)
	if err != nil {
		r.Inconclusive("replay: %v", err)
		return
	}
	cl, err := newCluster(k.World)
	if err != nil {
		r.Inconclusive("replay: %v", err)
		return
	}
	defer cl.close()
	rn := &runner{st: newStats()}
	if k.FailAlloc > 0 {
		fc := &faultCluster{cluster: cl}
		fc.arm(k.FailAlloc)
		rn.exec(fc, k, origin, origin.Info())
	} else if k.QueryFlipAt > 0 && k.QueryBase != nil {
		qc := &queryCluster{cluster: cl}
		runQueryFlip(rn, qc, *k.QueryBase, k.QueryFlip, k.QueryFlipAt, k, origin, origin.Info())
	} else if k.FlipAt > 0 {
		then, err := storeInfo(storeDesc{ID: k.FlipStore, State: k.FlipTo})
		if err != nil {
			r.Inconclusive("replay: %v", err)
			return
		}
		fc := &flipCluster{cluster: cl, at: k.FlipAt, fire: func() { cl.PutStore(then) }}
		rn.exec(fc, k, origin, origin.Info())
	} else {
		rn.exec(cl, k, origin, origin.Info())
	}
	if (k.Family == "live-world" || (k.Family == famWorldChange && k.FlipAt == 0 && k.QueryFlipAt == 0)) && len(rn.st.findings) == 0 {
		r.Inconclusive("replay: the witness comes from a %s history (world changes / overlapping builds); the case alone did not reproduce it, see witness.case.history", k.Family)
	}
	rn.st.shapes["replay"] = struct{}{}
	rn.st.shapes["replay2"] = struct{}{}
	merge(rn.st)
}

func main() {
	r := ev.New("C08", "exploration")
	r.Rule("exhaustive: for S stores (quick S=2..4, thorough S=2..5) every origin layout {none,voter,learner}^S x leader x every requested layout x {no leader, each target voter} (Builder.SetPeers/SetLeader, CreateScatterRegionOperator), every expected-role map {none,voter,leader,follower,learner}^S with a leader or follower (CreateMoveRegionOperator / SetExpectedRoles), every argument of the Create{AddPeer,RemovePeer,PromoteLearner,TransferLeader,ForceTransferLeader,MovePeer,MoveLeader,ReplaceLeaderPeer}Operator helpers and Builder.DemoteVoter, every reachable joint-state origin x {CreateLeaveJointStateOperator, transfer to each store}; under 3 feature modes (joint consensus / demotion without joint consensus / legacy cluster) x flag variants, with all stores up and with hostile store-state patterns (down, offline, disconnected, busy, paused-leader, reject-leader); random: worlds of 3..6 stores with mixed states, labels, placement rules, pending/down peers, explicit peer ids. evaluations = operators produced and executed on the simulator; distinct = distinct step-kind sequences of the produced operators")
	r.Assume("pkg/mock/mockcluster is the opt.Cluster (real PersistOptions, real RuleManager, real filters); lib/sim is the store: simple conf changes, joint enter/leave with Incoming/Demoting roles, leader transfer, refusing what raftstore refuses")
	r.Assume("a ChangePeerV2Enter step enters a joint state whatever the number of changes (raftstore applies a single change as a simple change; counted as observed_enter_joint_with_single_change, not judged); an empty ChangePeerV2Leave on a region that is not in a joint state is skipped like pd's controller skips finished steps")
	r.Assume("builds that return an error are not judged (counted by error class); a request that is not a meaningful placement request (e.g. remove a missing peer) is judged for step safety only")
	r.Assume("expected role follower is asserted only when another requested voter sits on a store that is plainly able to lead (up, connected, not busy, not paused, no reject-leader label) and placement rules are off or the unconstrained default")

	var mu sync.Mutex
	total := newStats()
	merge := func(s *stats) {
		mu.Lock()
		defer mu.Unlock()
		for k, v := range s.counters {
			total.counters[k] += v
		}
		for k := range s.shapes {
			total.shapes[k] = struct{}{}
		}
		for k, v := range s.fcount {
			total.fcount[k] += v
		}
		for _, f := range s.findings {
			old := total.findings[f.Key]
			if old == nil || f.Size < old.Size || (f.Size == old.Size && f.Case.Origin+fmt.Sprint(f.Case.Req) < old.Case.Origin+fmt.Sprint(old.Case.Req)) {
				total.findings[f.Key] = f
			}
		}
		total.samples = append(total.samples, s.samples...)
	}

	workers := runtime.NumCPU()
	if r.Shards > 1 {
		workers = workers / r.Shards
	}
	if workers < 2 {
		workers = 2
	}
	if workers > 16 {
		workers = 16
	}

	if err := selfTest(); err != nil {
		r.Inconclusive("%v", err)
		r.Finish()
	}
	if r.Replay != "" {
		replayFile(r, r.Replay, merge)
	} else {
		exhaustivePhase(r, workers, merge)
		randomPhase(r, workers, merge)
		livePhase(r, workers, merge)
		concurrentPhase(r, merge)
		flipPhase(r, workers, merge)
		queryFlipPhase(r, workers, merge)
		spellPhase(r, workers, merge)
		r.Exhaustive(true)
		r.Set("exhaustive_max_stores", r.Pick(4, 5))
		r.Floor(int64(r.Pick(100000, 100000)))
	}

	// publish
	for k, v := range total.counters {
		r.Count(k, v)
	}
	r.Eval(total.counters["operators_judged"])
	for k := range total.shapes {
		r.Distinct(k)
	}
	for i, s := range total.samples {
		if i < 4 {
			r.Sample(s)
		}
	}
	if bt := total.counters["builds_total"]; bt > 0 {
		r.Set("build_error_ratio", float64(total.counters["builds_error"])/float64(bt))
	}
	var keys []string
	for k := range total.findings {
		keys = append(keys, k)
	}
	sort.Strings(keys)
	for _, k := range keys {
		f := total.findings[k]
		f.Witness["occurrences_in_this_run"] = total.fcount[k]
		r.Count("violations_"+k, total.fcount[k])
		r.Violation(k, f.What, f.Witness)
	}
	r.Finish()
}
