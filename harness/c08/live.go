package main

// Workload families beyond "one build on a fixed world":
//
//   live-world   one long-lived cluster and long-lived region objects; between builds (and between
//                NewBuilder and the rest of the builder chain) store states, labels, the joint-consensus
//                switch, placement rules, location labels and the cluster's cached copy of the region
//                change. The operator must still be safe and reach the request made on the region
//                object that was handed to the builder.
//   concurrent   the same on ONE cluster from several goroutines at once (schedulers, checkers and API
//                handlers all build against the shared cluster) while another goroutine changes the
//                world; every produced operator is judged as usual, the race detector watches the
//                builder / filter / rule-fitting functions (mechanism list in check.json).
//   alloc-fault  the k-th id allocation of a build fails (see faultCluster; enumerated in main.go).

import (
	"errors"
	"fmt"
	"math/rand"
	"runtime"
	"sync"

	"github.com/pingcap/kvproto/pkg/metapb"
	"github.com/tikv/pd/server/config"
	"github.com/tikv/pd/server/core"
	"github.com/tikv/pd/server/schedule/placement"
	"github.com/tikv/pd/server/versioninfo"
	"verif/harness/lib/ev"
	"verif/harness/lib/sim"
)

// faultCluster makes the failAt-th AllocID call after arm() fail.
type faultCluster struct {
	*cluster
	calls, failAt int
	failed        bool
}

func (f *faultCluster) arm(failAt int) { f.calls, f.failAt, f.failed = 0, failAt, false }

// AllocID shadows the mock allocator.
func (f *faultCluster) AllocID() (uint64, error) {
	f.calls++
	if f.calls == f.failAt {
		f.failed = true
		return 0, errors.New("injected fault: id allocation failed")
	}
	return f.cluster.AllocID()
}

// liveWorld is a cluster whose description is kept in step with every change made to it.
type liveWorld struct {
	mu        sync.RWMutex // guards w and events (the cluster has its own locks)
	w         *world
	cl        *cluster
	customIDs []string
	events    []string
	nEvents   int
}

func newLiveWorld(rng *rand.Rand) (*liveWorld, error) {
	w := randomWorld(rng)
	w.Rules, w.RuleSet = "off", nil
	for len(w.Stores) < 4 {
		w.Stores = append(w.Stores, storeDesc{ID: uint64(len(w.Stores) + 1), State: stUp, Zone: "z1", Host: "h1"})
	}
	cl, err := newCluster(w)
	if err != nil {
		return nil, err
	}
	// the rule manager exists from the start (it is created once in a real server too)
	cl.SetEnablePlacementRules(true)
	cl.SetEnablePlacementRules(false)
	return &liveWorld{w: w, cl: cl}, nil
}

func (lw *liveWorld) snapshot() (*world, []string) {
	lw.mu.RLock()
	defer lw.mu.RUnlock()
	c := *lw.w
	c.Stores = append([]storeDesc(nil), lw.w.Stores...)
	c.RuleSet = append([]ruleDesc(nil), lw.w.RuleSet...)
	n := len(lw.events)
	if n > 8 {
		n = 8
	}
	return &c, append([]string(nil), lw.events[len(lw.events)-n:]...)
}

func (lw *liveWorld) note(format string, a ...interface{}) string {
	s := fmt.Sprintf(format, a...)
	lw.nEvents++
	lw.events = append(lw.events, fmt.Sprintf("#%d %s", lw.nEvents, s))
	if len(lw.events) > 64 {
		lw.events = append([]string(nil), lw.events[32:]...)
	}
	return s
}

var defaultRule = &placement.Rule{GroupID: "pd", ID: "default", Role: placement.Voter, Count: 3}

// mutate changes one thing in the cluster and in its description.
func (lw *liveWorld) mutate(rng *rand.Rand) (nowCapable uint64) {
	lw.mu.Lock()
	defer lw.mu.Unlock()
	w, cl := lw.w, lw.cl
	defer func() {
		// after the change: a store that is plainly able to lead now (for the follower probe)
		if nowCapable != 0 && !w.clearlyLeaderCapable(nowCapable) {
			nowCapable = 0
		}
	}()
	switch x := rng.Intn(100); {
	case x < 45: // a store changes state (heartbeat lost / back, offline, busy, paused, reject label)
		s := &w.Stores[rng.Intn(len(w.Stores))]
		st := stUp
		if rng.Intn(2) == 0 {
			st = hostileStates[rng.Intn(len(hostileStates))]
		}
		s.State = st
		if info, err := storeInfo(*s); err == nil {
			cl.PutStore(info)
		}
		lw.note("store %d -> %s", s.ID, st)
		return s.ID
	case x < 55: // a store is relabelled
		s := &w.Stores[rng.Intn(len(w.Stores))]
		s.Zone, s.Host = fmt.Sprintf("z%d", 1+rng.Intn(3)), fmt.Sprintf("h%d", 1+rng.Intn(2))
		if info, err := storeInfo(*s); err == nil {
			cl.PutStore(info)
		}
		lw.note("store %d relabelled %s/%s", s.ID, s.Zone, s.Host)
	case x < 70: // enable-joint-consensus is switched
		if w.Mode == modeLegacy {
			lw.note("joint switch (legacy cluster: no effect)")
			sc := cl.GetScheduleConfig().Clone()
			sc.EnableJointConsensus = !sc.EnableJointConsensus
			cl.SetScheduleConfig(sc)
			return 0
		}
		sc := cl.GetScheduleConfig().Clone()
		sc.EnableJointConsensus = !sc.EnableJointConsensus
		cl.SetScheduleConfig(sc)
		if sc.EnableJointConsensus {
			w.Mode = modeJoint
		} else {
			w.Mode = modeDemote
		}
		lw.note("enable-joint-consensus=%v", sc.EnableJointConsensus)
	case x < 90: // placement rules off / default / a constrained set
		switch rng.Intn(3) {
		case 0:
			cl.SetEnablePlacementRules(false)
			w.Rules, w.RuleSet = "off", nil
			lw.note("placement rules off")
			return w.Stores[rng.Intn(len(w.Stores))].ID
		case 1:
			cl.SetEnablePlacementRules(true)
			_ = cl.RuleManager.SetRule(defaultRule.Clone())
			for _, id := range lw.customIDs {
				_ = cl.RuleManager.DeleteRule("pd", id)
			}
			lw.customIDs = nil
			w.Rules, w.RuleSet = "default", nil
			lw.note("placement rules: default")
			return w.Stores[rng.Intn(len(w.Stores))].ID
		default:
			cl.SetEnablePlacementRules(true)
			_ = cl.RuleManager.SetRule(defaultRule.Clone())
			for _, id := range lw.customIDs {
				_ = cl.RuleManager.DeleteRule("pd", id)
			}
			lw.customIDs = nil
			tpl := ruleTemplates[rng.Intn(len(ruleTemplates))]
			set := 0
			for _, rd := range tpl {
				rule := &placement.Rule{GroupID: "pd", ID: rd.ID, Role: placement.PeerRoleType(rd.Role), Count: rd.Count}
				if len(rd.Zones) > 0 {
					rule.LabelConstraints = []placement.LabelConstraint{{Key: "zone", Op: placement.In, Values: rd.Zones}}
				}
				if cl.RuleManager.SetRule(rule) == nil {
					lw.customIDs = append(lw.customIDs, rd.ID)
					set++
				}
			}
			if set > 0 {
				_ = cl.RuleManager.DeleteRule("pd", "default")
			}
			// any constrained rule makes "who may lead" a matter of rule matching: recorded as custom
			w.Rules, w.RuleSet = "custom", tpl
			lw.note("placement rules: custom %v (%d set)", tpl, set)
		}
	default: // location labels on / off
		w.LocationLabels = !w.LocationLabels
		if w.LocationLabels {
			cl.SetLocationLabels([]string{"zone", "host"})
		} else {
			cl.SetLocationLabels(nil)
		}
		lw.note("location labels %v", w.LocationLabels)
	}
	return 0
}

// followerProbe is the directed case after a store became plainly able to lead (heartbeat back, rules
// relaxed, ...): a region led from another store whose expected role is follower, the fresh store a
// requested voter. A builder that still sees the store as it was leaves the leader on the follower.
func followerProbe(rn *runner, lw *liveWorld, rng *rand.Rand, capable uint64) {
	w, hist := lw.snapshot()
	var others []uint64
	for _, sd := range w.Stores {
		if sd.ID != capable {
			others = append(others, sd.ID)
		}
	}
	if len(others) == 0 {
		return
	}
	a := others[rng.Intn(len(others))]
	specs := []sim.PeerSpec{{Store: a, Role: metapb.PeerRole_Voter, Leader: true}, {Store: capable, Role: metapb.PeerRole_Voter}}
	roles := []roleReq{{Store: a, Role: "follower"}, {Store: capable, Role: "voter"}}
	if len(others) > 1 && rng.Intn(2) == 0 { // a third peer that changes too, so that plans with peer changes are probed as well
		c := others[rng.Intn(len(others))]
		if c != a {
			specs = append(specs, sim.PeerSpec{Store: c, Role: metapb.PeerRole_Learner})
			roles = append(roles, roleReq{Store: c, Role: "follower"})
		}
	}
	o := originRegion(specs)
	k := &kase{World: w, Origin: layoutString(specs), Req: request{API: apiMoveRegion, Roles: roles}, Family: "live-world", History: hist}
	rn.exec(lw.cl, k, o, o.Info())
	rn.st.count("live_follower_probes", 1)
}

// decoy puts ANOTHER version of region 1 into the cluster's region cache: the region object a caller
// hands to the builder was obtained earlier, the cache may have moved on (or lag behind). The builder
// has to plan from the object it was given.
func (lw *liveWorld) decoy(rng *rand.Rand) {
	lw.mu.Lock()
	defer lw.mu.Unlock()
	specs := randomOrigin(rng, lw.w, false)
	r := originRegion(specs)
	r.ConfVer += uint64(rng.Intn(5))
	lw.cl.PutRegion(r.Info())
	lw.note("cluster cache now holds region 1 as %q", r.String())
}

type regionSlot struct {
	origin *sim.Region
	info   *core.RegionInfo // long-lived: obtained once, used for many builds
	layout string
	joint  bool
}

// liveCase runs one build against the live world. slots are this caller's long-lived region objects.
func liveCase(rn *runner, lw *liveWorld, rng *rand.Rand, slots []*regionSlot, nextID *uint64, family string, splitOK bool) {
	w, hist := lw.snapshot()
	i := rng.Intn(len(slots))
	if slots[i] == nil || rng.Intn(6) == 0 {
		joint := w.Mode != modeLegacy && rng.Intn(8) == 0
		specs := randomOrigin(rng, w, joint)
		o := originRegion(specs)
		slots[i] = &regionSlot{origin: o, info: o.Info(), layout: layoutString(specs), joint: joint}
	}
	sl := slots[i]
	q := randomRequest(rng, w, sl.origin, sl.joint, nextID)
	k := &kase{World: w, Origin: sl.layout, Req: q, Family: family, History: hist, AmbiguousWorld: family == famWorldChange}
	var between func()
	if splitOK && (q.API == apiBuilder || q.API == apiBuilderRoles) && rng.Intn(3) == 0 {
		k.AmbiguousWorld = true
		between = func() {
			lw.mutate(rng)
			if rng.Intn(2) == 0 {
				lw.mutate(rng)
			}
			rn.st.count("live_world_changes_inside_a_build", 1)
		}
	}
	n0 := lw.eventCount()
	rn.execBetween(lw.cl, k, sl.origin, sl.info, between)
	rn.st.count("live_cases", 1)
	if family == famWorldChange && lw.eventCount() != n0 {
		rn.st.count("concurrent_cases_overlapped_by_a_world_change", 1)
	}
}

func (lw *liveWorld) eventCount() int {
	lw.mu.RLock()
	defer lw.mu.RUnlock()
	return lw.nEvents
}

// livePhase: sequential histories on long-lived clusters.
func livePhase(r *ev.Run, workers int, merge func(*stats)) {
	histories := r.Pick(64, 256)
	events := r.Pick(400, 1200)
	var wg sync.WaitGroup
	var fatal sync.Once
	for wk := 0; wk < workers; wk++ {
		wg.Add(1)
		go func(wk int) {
			defer wg.Done()
			rng := rand.New(rand.NewSource(r.ShardSeed()*257 + 7 + int64(wk)))
			rn := &runner{st: newStats()}
			nextID := uint64(1) << 42
			for h := wk; h < histories; h += workers {
				lw, err := newLiveWorld(rng)
				if err != nil {
					fatal.Do(func() { r.Inconclusive("live world: %v", err) })
					return
				}
				slots := make([]*regionSlot, 4)
				for e := 0; e < events; e++ {
					switch x := rng.Intn(20); {
					case x < 5:
						if capable := lw.mutate(rng); capable != 0 {
							followerProbe(rn, lw, rng, capable)
						}
						rn.st.count("live_world_changes", 1)
					case x == 5:
						lw.decoy(rng)
						rn.st.count("live_cache_decoys", 1)
					default:
						liveCase(rn, lw, rng, slots, &nextID, "live-world", true)
					}
				}
				lw.cl.close()
				rn.st.count("live_histories", 1)
			}
			merge(rn.st)
		}(wk)
	}
	wg.Wait()
}

// concurrentPhase: several builders and one world-changer on ONE cluster.
func concurrentPhase(r *ev.Run, merge func(*stats)) {
	rounds := r.Pick(6, 24)
	builders := 8
	perBuilder := r.Pick(500, 1500)
	changes := r.Pick(1500, 4500)
	for round := 0; round < rounds; round++ {
		rng := rand.New(rand.NewSource(r.ShardSeed()*523 + 11 + int64(round)))
		lw, err := newLiveWorld(rng)
		if err != nil {
			r.Inconclusive("concurrent world: %v", err)
			return
		}
		var wg sync.WaitGroup
		start := make(chan struct{})
		for b := 0; b < builders; b++ {
			wg.Add(1)
			seed := rng.Int63()
			go func(b int) {
				defer wg.Done()
				lr := rand.New(rand.NewSource(seed))
				rn := &runner{st: newStats()}
				nextID := uint64(1)<<43 + uint64(b)<<32
				slots := make([]*regionSlot, 3)
				<-start
				for c := 0; c < perBuilder; c++ {
					liveCase(rn, lw, lr, slots, &nextID, famWorldChange, false)
					if c%16 == 0 {
						runtime.Gosched()
					}
				}
				merge(rn.st)
			}(b)
		}
		wg.Add(1)
		mseed := rng.Int63()
		go func() {
			defer wg.Done()
			mr := rand.New(rand.NewSource(mseed))
			st := newStats()
			<-start
			for c := 0; c < changes; c++ {
				if mr.Intn(10) == 0 {
					lw.decoy(mr)
				} else {
					lw.mutate(mr)
				}
				st.count("concurrent_world_changes", 1)
				runtime.Gosched()
			}
			merge(st)
		}()
		close(start)
		wg.Wait()
		lw.cl.close()
	}
	s := newStats()
	s.count("concurrent_rounds", int64(rounds))
	merge(s)
}

// ---- a store changes state at a chosen point INSIDE one Build ------------------------------------------------
//
// The builder asks the cluster for store records many times during one Build (every allowLeader call).
// A store heartbeat / state change processed by the server between two of those calls is an ordinary
// interleaving (builds hold no cluster lock). flipCluster makes it deterministic: the at-th GetStore
// call of the build first applies the change. The grid is complete: every origin x request (S stores)
// x flipped store x direction x every call index of that build.

type flipCluster struct {
	*cluster
	calls, at int
	fire      func()
}

// GetStore shadows cluster.GetStore.
func (f *flipCluster) GetStore(id uint64) *core.StoreInfo {
	f.calls++
	if f.calls == f.at && f.fire != nil {
		f.fire()
	}
	return f.cluster.GetStore(id)
}

const famWorldChange = "world-change-during-build"

type flipItem struct {
	mode   string
	layout int
	leader int
}

func flipPhase(r *ev.Run, workers int, merge func(*stats)) {
	// complete for 3 stores (both directions); thorough adds 4 stores for the direction "becomes up"
	flipGrid(r, workers, merge, 3, []bool{true, false})
	if r.Thorough() {
		flipGrid(r, workers, merge, 4, []bool{true})
	}
}

func flipGrid(r *ev.Run, workers int, merge func(*stats), S int, dirs []bool) {
	var items []flipItem
	for _, m := range allModes {
		for code := 0; code < pow(3, S); code++ {
			for i, x := range digitsOf(code, 3, S) {
				if x == 1 {
					items = append(items, flipItem{mode: m, layout: code, leader: i})
				}
			}
		}
	}
	ch := make(chan flipItem, 64)
	var wg sync.WaitGroup
	var fatal sync.Once
	for wk := 0; wk < workers; wk++ {
		wg.Add(1)
		go func() {
			defer wg.Done()
			rn := &runner{st: newStats()}
			clusters := map[string]*cluster{}
			for it := range ch {
				cl := clusters[it.mode]
				if cl == nil {
					w := (&xcfg{S: S, Mode: it.mode}).world()
					var err error
					if cl, err = newCluster(w); err != nil {
						fatal.Do(func() { r.Inconclusive("flip phase: %v", err) })
						continue
					}
					clusters[it.mode] = cl
				}
				rn.flipItem(cl, S, it, dirs)
			}
			for _, cl := range clusters {
				cl.close()
			}
			merge(rn.st)
		}()
	}
	n := 0
	for i, it := range items {
		if i%r.Shards == r.Shard {
			ch <- it
			n++
		}
	}
	close(ch)
	wg.Wait()
	r.Set(fmt.Sprintf("flip_phase_S%d_origin_items_this_shard", S), n)
}

// flipItem: one origin, every request, every flipped store, both directions, every call index.
func (rn *runner) flipItem(cl *cluster, S int, it flipItem, dirs []bool) {
	d := digitsOf(it.layout, 3, S)
	var specs []sim.PeerSpec
	for i, x := range d {
		if x != 0 {
			specs = append(specs, sim.PeerSpec{Store: uint64(i + 1), Role: plainRoles[x], Leader: i == it.leader})
		}
	}
	layout := layoutString(specs)
	origin := originRegion(specs)
	info := origin.Info()
	var reqs []request
	for code := 0; code < pow(3, S); code++ {
		t := digitsOf(code, 3, S)
		var target []peerReq
		voters := 0
		for i, x := range t {
			switch x {
			case 1:
				target = append(target, peerReq{Store: uint64(i + 1), Role: "v"})
				voters++
			case 2:
				target = append(target, peerReq{Store: uint64(i + 1), Role: "l"})
			}
		}
		if voters == 0 {
			continue
		}
		reqs = append(reqs, request{API: apiBuilder, Target: target})
		for i, x := range t {
			if x == 1 {
				reqs = append(reqs, request{API: apiBuilder, Target: target, Leader: uint64(i + 1)})
			}
		}
	}
	fc := &flipCluster{cluster: cl}
	for _, others := range []string{stUp, stDown} {
		// the stores that do not flip are all up, or all down (then only the flipping store and the
		// current leader's store can be chosen as leader)
		for o := 1; o <= S; o++ {
			si, _ := storeInfo(storeDesc{ID: uint64(o), State: others})
			cl.PutStore(si)
		}
		for f := 1; f <= S; f++ {
			for _, toUp := range dirs {
				first, then := stDown, stUp
				if !toUp {
					first, then = stUp, stDown
				}
				w := (&xcfg{S: S, Mode: it.mode}).world()
				for o := range w.Stores {
					w.Stores[o].State = others
				}
				w.Stores[f-1].State = first
				siFirst, _ := storeInfo(storeDesc{ID: uint64(f), State: first})
				siThen, _ := storeInfo(storeDesc{ID: uint64(f), State: then})
				hist := []string{fmt.Sprintf("store %d is %s when the build starts and becomes %s at the k-th store lookup of the build (k = flip_at)", f, first, then)}
				for qi := range reqs {
					// dry run: how many store lookups does this build make?
					cl.PutStore(siFirst)
					fc.calls, fc.at, fc.fire = 0, 0, nil
					_, _, _ = invoke(fc, info, &reqs[qi], nil)
					n := fc.calls
					rn.st.count("flip_cases", 1)
					for k := 1; k <= n; k++ {
						cl.PutStore(siFirst)
						fc.calls, fc.at = 0, k
						fc.fire = func() { cl.PutStore(siThen) }
						kk := &kase{World: w, Origin: layout, Req: reqs[qi], Family: famWorldChange, History: hist, AmbiguousWorld: true,
							FlipStore: uint64(f), FlipTo: then, FlipAt: k}
						rn.exec(fc, kk, origin, info)
						rn.st.count("flip_builds", 1)
					}
				}
			}
			si, _ := storeInfo(storeDesc{ID: uint64(f), State: others})
			cl.PutStore(si)
		}
	}
	for o := 1; o <= S; o++ {
		si, _ := storeInfo(storeDesc{ID: uint64(o), State: stUp})
		cl.PutStore(si)
	}
}

// ---- a cluster-wide setting changes at a chosen query INSIDE one NewBuilder/Build ---------------------------------
//
// Besides store records the builder asks the cluster for its feature level (IsFeatureSupported), its
// options (GetOpts: enable-joint-consensus, enable-placement-rules, location labels, store filters) and
// the placement fit. queryCluster counts EVERY such query of one build (NewBuilder included) and applies
// one change just before answering the k-th: the joint-consensus feature becoming supported (the last
// old store reports its new version) or unsupported, enable-joint-consensus switched, placement rules
// switched (thorough: location labels switched). Complete grid: every origin x request (3 stores) x base
// setting x kind of change x every k. A build may fail; an operator that is produced is judged as usual.

type queryCluster struct {
	*cluster
	feature   bool // answer for versioninfo.JointConsensus
	calls, at int
	fire      func()
}

func (q *queryCluster) tick() {
	q.calls++
	if q.calls == q.at && q.fire != nil {
		q.fire()
	}
}

// IsFeatureSupported shadows the mock (which cannot re-enable a feature).
func (q *queryCluster) IsFeatureSupported(f versioninfo.Feature) bool {
	q.tick()
	if f == versioninfo.JointConsensus {
		return q.feature
	}
	return q.cluster.IsFeatureSupported(f)
}

// GetOpts shadows the mock: the caller reads the option right after this call.
func (q *queryCluster) GetOpts() *config.PersistOptions {
	q.tick()
	return q.cluster.GetOpts()
}

// GetStore shadows cluster.GetStore.
func (q *queryCluster) GetStore(id uint64) *core.StoreInfo {
	q.tick()
	return q.cluster.GetStore(id)
}

// FitRegion shadows the mock.
func (q *queryCluster) FitRegion(region *core.RegionInfo) *placement.RegionFit {
	q.tick()
	return q.cluster.FitRegion(region)
}

// queryBase is the cluster-wide setting a build starts with.
type queryBase struct {
	Feature, JointCfg, Rules, LocLabels bool
}

func (b queryBase) mode() string {
	switch {
	case !b.Feature:
		return modeLegacy
	case b.JointCfg:
		return modeJoint
	}
	return modeDemote
}

func (q *queryCluster) apply(b queryBase) {
	q.feature = b.Feature
	sc := q.cluster.GetScheduleConfig().Clone()
	if sc.EnableJointConsensus != b.JointCfg {
		sc.EnableJointConsensus = b.JointCfg
		q.cluster.SetScheduleConfig(sc)
	}
	if q.cluster.GetOpts().IsPlacementRulesEnabled() != b.Rules {
		q.cluster.SetEnablePlacementRules(b.Rules)
	}
	if (len(q.cluster.GetOpts().GetLocationLabels()) > 0) != b.LocLabels {
		if b.LocLabels {
			q.cluster.SetLocationLabels([]string{"zone", "host"})
		} else {
			q.cluster.SetLocationLabels(nil)
		}
	}
}

// flipped returns the base with one setting toggled.
func (b queryBase) flipped(kind string) queryBase {
	switch kind {
	case "feature":
		b.Feature = !b.Feature
	case "joint-config":
		b.JointCfg = !b.JointCfg
	case "placement-rules":
		b.Rules = !b.Rules
	case "location-labels":
		b.LocLabels = !b.LocLabels
	}
	return b
}

func (b queryBase) world(S int) *world {
	w := (&xcfg{S: S, Mode: b.mode(), Labels: true}).world()
	w.LocationLabels = b.LocLabels
	if b.Rules {
		w.Rules = "default"
	}
	return w
}

// runQueryFlip builds one case with the change applied at the at-th query (at = 0: dry run, returns the
// number of queries).
func runQueryFlip(rn *runner, qc *queryCluster, base queryBase, kind string, at int, k *kase, origin *sim.Region, info *core.RegionInfo) int {
	qc.fire = nil
	qc.apply(base)
	qc.calls, qc.at = 0, at
	if at == 0 {
		_, _, _ = invoke(qc, info, &k.Req, nil)
		return qc.calls
	}
	after := base.flipped(kind)
	qc.fire = func() {
		qc.fire = nil
		n := qc.calls
		qc.apply(after) // (apply itself reads options through the embedded cluster, not through the counter)
		qc.calls = n
	}
	rn.exec(qc, k, origin, info)
	return qc.calls
}

func queryFlipPhase(r *ev.Run, workers int, merge func(*stats)) {
	const S = 3
	kinds := []string{"feature", "joint-config", "placement-rules"}
	if r.Thorough() {
		kinds = append(kinds, "location-labels")
	}
	var bases []queryBase
	for _, f := range []bool{false, true} {
		for _, j := range []bool{false, true} {
			bases = append(bases, queryBase{Feature: f, JointCfg: j})
		}
	}
	type item struct{ layout, leader int }
	var items []item
	for code := 0; code < pow(3, S); code++ {
		for i, x := range digitsOf(code, 3, S) {
			if x == 1 {
				items = append(items, item{code, i})
			}
		}
	}
	targets := spellTargets(S)
	ch := make(chan item, 32)
	var wg sync.WaitGroup
	var fatal sync.Once
	for wk := 0; wk < workers; wk++ {
		wg.Add(1)
		go func() {
			defer wg.Done()
			rn := &runner{st: newStats()}
			cl, err := newCluster(queryBase{Feature: true, JointCfg: true}.world(S))
			if err != nil {
				fatal.Do(func() { r.Inconclusive("query flip phase: %v", err) })
				for range ch {
				}
				return
			}
			qc := &queryCluster{cluster: cl}
			for it := range ch {
				var specs []sim.PeerSpec
				for i, x := range digitsOf(it.layout, 3, S) {
					if x != 0 {
						specs = append(specs, sim.PeerSpec{Store: uint64(i + 1), Role: plainRoles[x], Leader: i == it.leader})
					}
				}
				layout := layoutString(specs)
				origin := originRegion(specs)
				info := origin.Info()
				var reqs []request
				for _, t := range targets {
					reqs = append(reqs, request{API: apiBuilder, Target: t})
					for _, p := range t {
						if p.Role == "v" {
							reqs = append(reqs, request{API: apiBuilder, Target: t, Leader: p.Store})
						}
					}
				}
				for _, base := range bases {
					for _, kind := range kinds {
						bs := []queryBase{base}
						if kind == "placement-rules" {
							on := base
							on.Rules = true
							bs = append(bs, on) // rules: off -> on and on -> off
						}
						for _, b := range bs {
							w := b.world(S)
							hist := []string{fmt.Sprintf("%s changes to %+v just before the k-th cluster query of the build (k = query_flip_at)", kind, b.flipped(kind))}
							for qi := range reqs {
								k0 := &kase{World: w, Origin: layout, Req: reqs[qi]}
								n := runQueryFlip(rn, qc, b, kind, 0, k0, origin, info)
								rn.st.count("query_flip_cases", 1)
								for at := 1; at <= n; at++ {
									kk := &kase{World: w, Origin: layout, Req: reqs[qi], Family: famWorldChange, History: hist, AmbiguousWorld: true,
										QueryFlip: kind, QueryFlipAt: at, QueryBase: &b}
									runQueryFlip(rn, qc, b, kind, at, kk, origin, info)
									rn.st.count("query_flip_builds", 1)
									rn.st.count("query_flip_builds_"+kind, 1)
								}
							}
						}
					}
				}
			}
			cl.close()
			merge(rn.st)
		}()
	}
	for i, it := range items {
		if i%r.Shards == r.Shard {
			ch <- it
		}
	}
	close(ch)
	wg.Wait()
}
