package main

import (
	"context"
	"fmt"
	"strings"
	"sync"
	"time"

	"github.com/pingcap/kvproto/pkg/metapb"
	"github.com/pingcap/kvproto/pkg/pdpb"
	"github.com/tikv/pd/pkg/mock/mockcluster"
	"github.com/tikv/pd/server/config"
	"github.com/tikv/pd/server/core"
	"github.com/tikv/pd/server/schedule/opt"
	"github.com/tikv/pd/server/schedule/placement"
	"github.com/tikv/pd/server/versioninfo"
)

// Feature / configuration modes of the builder.
const (
	modeJoint  = "joint"  // cluster supports joint consensus and enable-joint-consensus = true
	modeDemote = "demote" // cluster supports joint consensus (demotion allowed) but enable-joint-consensus = false
	modeLegacy = "legacy" // cluster version below 5.0: no joint consensus, no demotion
)

var allModes = []string{modeJoint, modeDemote, modeLegacy}

// Store states (what the documented store-state filter looks at for a leader target).
const (
	stUp           = "up"
	stOffline      = "offline"
	stDown         = "down"
	stDisconnected = "disconnected"
	stBusy         = "busy"
	stPaused       = "paused-leader"
	stReject       = "reject-leader"
)

var hostileStates = []string{stOffline, stDown, stDisconnected, stBusy, stPaused, stReject}

type storeDesc struct {
	ID    uint64 `json:"id"`
	State string `json:"state"`
	Zone  string `json:"zone,omitempty"`
	Host  string `json:"host,omitempty"`
	// Extra are further labels as key,value pairs in order (case variants of zone / noleader, duplicates,
	// empty values): pd reads label keys case-insensitively in GetLabelValue but compares the
	// reject-leader property exactly, so such a store is never "plainly able to lead" for the oracle.
	Extra []string `json:"extra_labels,omitempty"`
}

type ruleDesc struct {
	ID    string   `json:"id"`
	Role  string   `json:"role"`
	Count int      `json:"count"`
	Zones []string `json:"zones,omitempty"` // label constraint "zone in (...)"; empty = unconstrained
}

// world describes one cluster configuration.
type world struct {
	Stores         []storeDesc `json:"stores"`
	Mode           string      `json:"mode"`
	LocationLabels bool        `json:"location_labels,omitempty"`
	Rules          string      `json:"rules"` // "off" | "default" | "custom"
	RuleSet        []ruleDesc  `json:"rule_set,omitempty"`
}

func (w *world) store(id uint64) *storeDesc {
	for i := range w.Stores {
		if w.Stores[i].ID == id {
			return &w.Stores[i]
		}
	}
	return nil
}

// clearlyLeaderCapable: the store is plainly able to take a leader by every documented filter
// (state up, connected, not busy, leader transfer not paused, no reject-leader label) and placement
// rules cannot object (off, or the unconstrained default voter rule is in force).
func (w *world) clearlyLeaderCapable(id uint64) bool {
	s := w.store(id)
	if s == nil || s.State != stUp {
		return false
	}
	for i := 0; i+1 < len(s.Extra); i += 2 {
		if strings.EqualFold(s.Extra[i], "noleader") {
			return false // a spelling pd's two label readers disagree about: not judged
		}
	}
	return w.Rules == "off" || w.Rules == "default"
}

// storeInfo builds the store record for a description (used at start and for live changes).
func storeInfo(s storeDesc) (*core.StoreInfo, error) {
	var labels []*metapb.StoreLabel
	if s.Zone != "" {
		labels = append(labels, &metapb.StoreLabel{Key: "zone", Value: s.Zone})
	}
	if s.Host != "" {
		labels = append(labels, &metapb.StoreLabel{Key: "host", Value: s.Host})
	}
	if s.State == stReject {
		labels = append(labels, &metapb.StoreLabel{Key: "noleader", Value: "true"})
	}
	for i := 0; i+1 < len(s.Extra); i += 2 {
		labels = append(labels, &metapb.StoreLabel{Key: s.Extra[i], Value: s.Extra[i+1]})
	}
	const capacity = 100 << 30
	stats := &pdpb.StoreStats{StoreId: s.ID, Capacity: capacity, Available: capacity, IsBusy: s.State == stBusy}
	far := time.Now().Add(24 * time.Hour) // an "up" store never drifts into "disconnected" during a long run
	opts := []core.StoreCreateOption{core.SetStoreStats(stats), core.SetLastHeartbeatTS(far)}
	switch s.State {
	case stUp, stReject, stBusy:
	case stOffline:
		opts = append(opts, core.OfflineStore(false))
	case stDown:
		opts = append(opts, core.SetLastHeartbeatTS(time.Time{}))
	case stDisconnected:
		opts = append(opts, core.SetLastHeartbeatTS(time.Now().Add(-5*time.Minute)))
	case stPaused:
		opts = append(opts, core.PauseLeaderTransfer())
	default:
		return nil, fmt.Errorf("unknown store state %q", s.State)
	}
	return core.NewStoreInfo(&metapb.Store{Id: s.ID, Labels: labels}, opts...), nil
}

// config.NewTestOptions registers schedulers in a global map and mock clusters start goroutines:
// clusters are created one at a time.
var clusterMu sync.Mutex

type cluster struct {
	*mockcluster.Cluster
	cancel context.CancelFunc
}

func (c *cluster) close() { c.cancel() }

// GetStore goes through BasicCluster's lock like the real RaftCluster.GetStore does. (The mock's own
// GetStore reads the store map without it; with builds overlapping store updates that would be a race
// of the test double, not of pd.)
func (c *cluster) GetStore(id uint64) *core.StoreInfo { return c.Cluster.BasicCluster.GetStore(id) }

func newCluster(w *world) (*cluster, error) {
	clusterMu.Lock()
	defer clusterMu.Unlock()
	opts := config.NewTestOptions()
	ctx, cancel := context.WithCancel(context.Background())
	mc := mockcluster.NewCluster(ctx, opts)
	mc.SetLabelPropertyConfig(config.LabelPropertyConfig{
		opt.RejectLeader: {{Key: "noleader", Value: "true"}},
	})
	if w.LocationLabels {
		mc.SetLocationLabels([]string{"zone", "host"})
	}
	switch w.Mode {
	case modeJoint:
	case modeDemote:
		sc := mc.GetScheduleConfig().Clone()
		sc.EnableJointConsensus = false
		mc.SetScheduleConfig(sc)
	case modeLegacy:
		mc.DisableFeature(versioninfo.JointConsensus)
	default:
		cancel()
		return nil, fmt.Errorf("unknown mode %q", w.Mode)
	}
	for _, s := range w.Stores {
		// AddLabelsStore registers the store limits; the record itself is rebuilt by storeInfo
		mc.AddLabelsStore(s.ID, 0, nil)
		st, err := storeInfo(s)
		if err != nil {
			cancel()
			return nil, err
		}
		mc.PutStore(st)
	}
	// config.NewTestOptions() comes with enable-placement-rules = true: "off" has to be said explicitly
	// (the rule manager stays initialised, as in a real server where rules were switched off).
	mc.SetEnablePlacementRules(w.Rules != "off")
	if w.Rules != "off" {
		if w.Rules == "custom" {
			for _, rd := range w.RuleSet {
				rule := &placement.Rule{GroupID: "pd", ID: rd.ID, Role: placement.PeerRoleType(rd.Role), Count: rd.Count}
				if len(rd.Zones) > 0 {
					rule.LabelConstraints = []placement.LabelConstraint{{Key: "zone", Op: placement.In, Values: rd.Zones}}
				}
				if err := mc.RuleManager.SetRule(rule); err != nil {
					cancel()
					return nil, fmt.Errorf("SetRule: %v", err)
				}
			}
			if err := mc.RuleManager.DeleteRule("pd", "default"); err != nil {
				cancel()
				return nil, fmt.Errorf("DeleteRule: %v", err)
			}
		}
	}
	return &cluster{Cluster: mc, cancel: cancel}, nil
}
