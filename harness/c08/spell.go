package main

// Directed "equivalent spellings" grids (3 stores, every mode): inputs pd treats alike but that are
// written differently, and origins in odd but legal shapes.
//
//   ids        every target peer carries id 0 / the id of the origin's peer on that store / a foreign id
//              (small, huge): a kept store keeps the origin's peer whatever the request says, a new peer
//              uses the given id or a fresh one.
//   unhealthy  every non-leader origin peer is healthy / pending / down.
//   leaderless the region object has no leader or names a leader on a store without a peer: if an
//              operator is produced nobody can execute it (the store model refuses every step).
//   alloc-zero the allocator hands out id 0 without an error: counted only (not reachable with pd's
//              allocator, so not judged).

import (
	"math"
	"sync"

	"github.com/pingcap/kvproto/pkg/metapb"
	"github.com/tikv/pd/server/core"
	"github.com/tikv/pd/server/schedule/operator"
	"verif/harness/lib/ev"
	"verif/harness/lib/sim"
)

const famSpelling = "spelling"

type zeroAllocCluster struct{ *cluster }

// AllocID hands out 0 without an error.
func (z *zeroAllocCluster) AllocID() (uint64, error) { return 0, nil }

func spellTargets(S int) [][]peerReq {
	var out [][]peerReq
	for code := 0; code < pow(3, S); code++ {
		var target []peerReq
		voters := 0
		for i, x := range digitsOf(code, 3, S) {
			switch x {
			case 1:
				target = append(target, peerReq{Store: uint64(i + 1), Role: "v"})
				voters++
			case 2:
				target = append(target, peerReq{Store: uint64(i + 1), Role: "l"})
			}
		}
		if voters > 0 {
			out = append(out, target)
		}
	}
	return out
}

func spellPhase(r *ev.Run, workers int, merge func(*stats)) {
	const S = 3
	type item struct {
		mode   string
		layout int
		leader int
	}
	var items []item
	for _, m := range allModes {
		for code := 0; code < pow(3, S); code++ {
			for i, x := range digitsOf(code, 3, S) {
				if x == 1 {
					items = append(items, item{m, code, i})
				}
			}
		}
	}
	targets := spellTargets(S)
	foreign := []uint64{7, idBase + 99, math.MaxUint64}
	ch := make(chan item, 64)
	var wg sync.WaitGroup
	var fatal sync.Once
	for wk := 0; wk < workers; wk++ {
		wg.Add(1)
		go func() {
			defer wg.Done()
			rn := &runner{st: newStats()}
			clusters := map[string]*cluster{}
			for it := range ch {
				cl := clusters[it.mode]
				if cl == nil {
					var err error
					if cl, err = newCluster((&xcfg{S: S, Mode: it.mode}).world()); err != nil {
						fatal.Do(func() { r.Inconclusive("spelling phase: %v", err) })
						continue
					}
					clusters[it.mode] = cl
				}
				w := (&xcfg{S: S, Mode: it.mode}).world()
				d := digitsOf(it.layout, 3, S)
				var base []sim.PeerSpec
				for i, x := range d {
					if x != 0 {
						base = append(base, sim.PeerSpec{Store: uint64(i + 1), Role: plainRoles[x], Leader: i == it.leader})
					}
				}
				// ---- ids
				{
					specs := append([]sim.PeerSpec(nil), base...)
					origin := originRegion(specs)
					info := origin.Info()
					layout := layoutString(specs)
					for _, t := range targets {
						// per target peer: 0 / origin id (kept stores) / a foreign id
						n := len(t)
						for code := 0; code < pow(3, n); code++ {
							sp := digitsOf(code, 3, n)
							tt := make([]peerReq, n)
							skip := false
							for i := range t {
								tt[i] = t[i]
								op := origin.Peer(t[i].Store)
								switch sp[i] {
								case 1:
									if op == nil {
										skip = true // "origin id" only exists for a kept store
									} else {
										tt[i].ID = op.Id
									}
								case 2:
									tt[i].ID = foreign[(i+code)%len(foreign)] + uint64(i) // distinct per peer
									if tt[i].ID < uint64(i) {
										tt[i].ID = math.MaxUint64 - uint64(i)
									}
								}
							}
							if skip || code == 0 {
								continue // all-zero spelling is the plain exhaustive grid
							}
							for _, api := range []string{apiBuilder, apiChain} {
								rn.exec(cl, &kase{World: w, Origin: layout, Req: request{API: api, Target: tt, ChainOrder: "add-first"}, Family: famSpelling}, origin, info)
								rn.st.count("spelling_id_cases", 1)
							}
						}
					}
				}
				// ---- unhealthy marks
				var others []int
				for i := range base {
					if !base[i].Leader {
						others = append(others, i)
					}
				}
				for code := 1; code < pow(3, len(others)); code++ {
					specs := append([]sim.PeerSpec(nil), base...)
					for j, m := range digitsOf(code, 3, len(others)) {
						specs[others[j]].Pending = m == 1
						specs[others[j]].Down = m == 2
					}
					origin := originRegion(specs)
					info := origin.Info()
					layout := layoutString(specs)
					for _, t := range targets {
						rn.exec(cl, &kase{World: w, Origin: layout, Req: request{API: apiBuilder, Target: t}, Family: famSpelling}, origin, info)
						for _, p := range t {
							if p.Role == "v" {
								rn.exec(cl, &kase{World: w, Origin: layout, Req: request{API: apiBuilder, Target: t, Leader: p.Store}, Family: famSpelling}, origin, info)
							}
						}
						// expected roles: one requested voter is to be a follower (the leader has to end elsewhere
						// even when the other candidates are pending or down peers)
						for _, f := range t {
							if f.Role != "v" {
								continue
							}
							var roles []roleReq
							for _, p := range t {
								rr := roleReq{Store: p.Store, Role: "voter"}
								if p.Role == "l" {
									rr.Role = "learner"
								} else if p.Store == f.Store {
									rr.Role = "follower"
								}
								roles = append(roles, rr)
							}
							rn.exec(cl, &kase{World: w, Origin: layout, Req: request{API: apiMoveRegion, Roles: roles}, Family: famSpelling}, origin, info)
						}
						rn.st.count("spelling_unhealthy_cases", 1)
					}
					for s := 1; s <= S; s++ {
						rn.exec(cl, &kase{World: w, Origin: layout, Req: request{API: apiPromote, Store: uint64(s)}, Family: famSpelling}, origin, info)
						rn.exec(cl, &kase{World: w, Origin: layout, Req: request{API: apiTransfer, Leader: uint64(s)}, Family: famSpelling}, origin, info)
					}
				}
				// ---- leaderless / foreign leader (once per layout: take the item whose leader is the first voter)
				first := -1
				for i, x := range d {
					if x == 1 {
						first = i
						break
					}
				}
				if first == it.leader {
					specs := append([]sim.PeerSpec(nil), base...)
					for i := range specs {
						specs[i].Leader = false
					}
					origin := originRegion(specs) // nobody leads: no store executes anything
					layout := layoutString(specs)
					infos := []*core.RegionInfo{
						origin.Info(),
						origin.Info().Clone(core.WithLeader(&metapb.Peer{Id: 4242, StoreId: S + 1})),
					}
					for _, info := range infos {
						for _, t := range targets {
							rn.exec(cl, &kase{World: w, Origin: layout, Req: request{API: apiBuilder, Target: t}, Family: famSpelling}, origin, info)
							rn.st.count("spelling_leaderless_cases", 1)
						}
						for s := 1; s <= S; s++ {
							rn.exec(cl, &kase{World: w, Origin: layout, Req: request{API: apiRemovePeer, Store: uint64(s)}, Family: famSpelling}, origin, info)
							rn.exec(cl, &kase{World: w, Origin: layout, Req: request{API: apiTransfer, Leader: uint64(s)}, Family: famSpelling}, origin, info)
						}
					}
				}
				// ---- allocator hands out 0 (observed only)
				{
					specs := append([]sim.PeerSpec(nil), base...)
					origin := originRegion(specs)
					info := origin.Info()
					z := &zeroAllocCluster{cluster: cl}
					for _, t := range targets {
						q := request{API: apiBuilder, Target: t}
						op, _, _ := invoke(z, info, &q, nil)
						if op != nil {
							rn.st.count("observed_alloc_zero_operator_built", 1)
							for _, st := range sim.Steps(op) {
								switch a := st.(type) {
								case operator.AddLearner:
									if a.PeerID == 0 {
										rn.st.count("observed_alloc_zero_add_step_with_peer_id_0", 1)
									}
								case operator.AddLightLearner:
									if a.PeerID == 0 {
										rn.st.count("observed_alloc_zero_add_step_with_peer_id_0", 1)
									}
								}
							}
						}
					}
				}
			}
			for _, cl := range clusters {
				cl.close()
			}
			merge(rn.st)
		}()
	}
	for i, it := range items {
		if i%r.Shards == r.Shard {
			ch <- it
		}
	}
	close(ch)
	wg.Wait()
}
