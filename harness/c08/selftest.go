package main

import (
	"fmt"

	"github.com/pingcap/kvproto/pkg/eraftpb"
	"github.com/pingcap/kvproto/pkg/metapb"
	"github.com/pingcap/kvproto/pkg/pdpb"
	"verif/harness/lib/sim"
)

// selfTest exercises the store model on a fixed script before it is trusted as an oracle.
// A failure is a harness problem (inconclusive), never a verdict about pd.
func selfTest() error {
	r := sim.MustRegion(1, "1v* 2v 3l", 100)
	expect := func(what string, err error, code string) error {
		if sim.Code(err) != code {
			return fmt.Errorf("simulator self-test: %s: got %q (%v), want %q", what, sim.Code(err), err, code)
		}
		return nil
	}
	steps := []struct {
		what string
		f    func() error
		code string
	}{
		{"remove leader", func() error { return r.Remove(1, 100) }, sim.RefRemoveLeader},
		{"demote leader", func() error { return r.Demote(1, 100) }, sim.RefDemoteLeader},
		{"transfer to learner", func() error { return r.TransferLeader(3) }, sim.RefTransferLearner},
		{"transfer to absent", func() error { return r.TransferLeader(4) }, sim.RefTransferAbsent},
		{"add on occupied store", func() error { return r.AddLearner(2, 500) }, sim.RefStoreHasPeer},
		{"add with used id", func() error { return r.AddLearner(4, 101) }, sim.RefDuplicatePeerID},
		{"promote a voter", func() error { return r.Promote(2, 101) }, sim.RefNotLearner},
		{"promote wrong id", func() error { return r.Promote(3, 7) }, sim.RefPeerIDMismatch},
		{"leave when not joint", func() error { return r.LeaveJoint() }, sim.RefNotInJoint},
		{"enter joint", func() error {
			return r.EnterJoint([]sim.PeerRef{{Store: 3, ID: 102}}, []sim.PeerRef{{Store: 1, ID: 100}})
		}, ""},
		{"simple change while joint", func() error { return r.AddLearner(4, 500) }, sim.RefInJoint},
		{"leave while leader demoting", func() error { return r.LeaveJoint() }, sim.RefLeaveDemoteLeader},
		{"transfer to demoting", func() error { return r.TransferLeader(1) }, ""}, // already leader: no-op
		{"transfer to incoming", func() error { return r.TransferLeader(3) }, ""},
		{"transfer back to demoting", func() error { return r.TransferLeader(1) }, sim.RefTransferDemoting},
		{"leave", func() error { return r.LeaveJoint() }, ""},
		{"remove learner 1", func() error { return r.Remove(1, 100) }, ""},
	}
	for _, s := range steps {
		if err := expect(s.what, s.f(), s.code); err != nil {
			return err
		}
	}
	if got := r.String(); got != "2v 3v*" {
		return fmt.Errorf("simulator self-test: final layout %q, want %q", got, "2v 3v*")
	}
	if r.ConfVer != 1+2+2+1 {
		return fmt.Errorf("simulator self-test: conf_ver %d, want 6", r.ConfVer)
	}
	if err := r.Invariant(); err != nil {
		return err
	}
	// command level: ChangePeerV2 with two changes enters, empty leaves; stale epoch refused
	c := sim.MustRegion(2, "1v* 2v 3l", 200)
	cmd := &pdpb.RegionHeartbeatResponse{RegionId: 2, RegionEpoch: c.Epoch(), TargetPeer: c.Leader(), ChangePeerV2: &pdpb.ChangePeerV2{Changes: []*pdpb.ChangePeer{
		{ChangeType: eraftpb.ConfChangeType_AddNode, Peer: &metapb.Peer{Id: 202, StoreId: 3}},
		{ChangeType: eraftpb.ConfChangeType_AddLearnerNode, Peer: &metapb.Peer{Id: 201, StoreId: 2, Role: metapb.PeerRole_Learner}},
	}}}
	if err := expect("command enter joint", c.ApplyResponse(cmd), ""); err != nil {
		return err
	}
	if got := c.String(); got != "1v* 2d 3i" {
		return fmt.Errorf("simulator self-test: joint layout %q, want %q", got, "1v* 2d 3i")
	}
	if err := expect("stale command", c.ApplyResponse(cmd), sim.RefStaleEpoch); err != nil {
		return err
	}
	leave := &pdpb.RegionHeartbeatResponse{RegionId: 2, RegionEpoch: c.Epoch(), TargetPeer: c.Leader(), ChangePeerV2: &pdpb.ChangePeerV2{}}
	if err := expect("command leave joint", c.ApplyResponse(leave), ""); err != nil {
		return err
	}
	if got := c.String(); got != "1v* 2l 3v" {
		return fmt.Errorf("simulator self-test: layout after leave %q, want %q", got, "1v* 2l 3v")
	}
	d := sim.MustRegion(3, "1v* 2v 4l", 300)
	mixed := &pdpb.RegionHeartbeatResponse{ChangePeerV2: &pdpb.ChangePeerV2{Changes: []*pdpb.ChangePeer{
		{ChangeType: eraftpb.ConfChangeType_AddNode, Peer: &metapb.Peer{Id: 900, StoreId: 3}},
		{ChangeType: eraftpb.ConfChangeType_AddLearnerNode, Peer: &metapb.Peer{Id: 301, StoreId: 2, Role: metapb.PeerRole_Learner}},
		{ChangeType: eraftpb.ConfChangeType_RemoveNode, Peer: &metapb.Peer{Id: 302, StoreId: 4, Role: metapb.PeerRole_Learner}},
	}}}
	if err := expect("command mixed joint change", d.ApplyResponse(mixed), ""); err != nil {
		return err
	}
	if got := d.String(); got != "1v* 2d 3i" || d.ConfVer != 4 {
		return fmt.Errorf("simulator self-test: mixed joint change gives %q conf_ver %d, want %q conf_ver 4", got, d.ConfVer, "1v* 2d 3i")
	}
	rmVoter := &pdpb.RegionHeartbeatResponse{ChangePeerV2: &pdpb.ChangePeerV2{Changes: []*pdpb.ChangePeer{
		{ChangeType: eraftpb.ConfChangeType_AddNode, Peer: &metapb.Peer{Id: 900, StoreId: 3}},
		{ChangeType: eraftpb.ConfChangeType_RemoveNode, Peer: &metapb.Peer{Id: 301, StoreId: 2}},
	}}}
	if err := expect("remove voter inside joint change", sim.MustRegion(3, "1v* 2v", 300).ApplyResponse(rmVoter), sim.RefRemoveVoterJoint); err != nil {
		return err
	}
	info := c.Info()
	if info.GetLeader().GetStoreId() != 1 || len(info.GetLearners()) != 1 || info.GetRegionEpoch().GetConfVer() != 5 {
		return fmt.Errorf("simulator self-test: RegionInfo does not reflect the region: %v", info.GetMeta())
	}
	return nil
}
