package main

import (
	"fmt"
	"strings"

	"github.com/pingcap/kvproto/pkg/metapb"
	"github.com/tikv/pd/server/core"
	"github.com/tikv/pd/server/schedule/operator"
	"verif/harness/lib/sim"
)

// finding is one refuted oracle on one case.
type finding struct {
	Key     string
	What    string
	Case    *kase
	Size    int // for picking the smallest witness per key
	Witness map[string]interface{}
}

// stats are the per-worker observations, merged at the end.
type stats struct {
	counters map[string]int64
	shapes   map[string]struct{}
	findings map[string]*finding // smallest witness per key
	fcount   map[string]int64
	samples  []interface{}
}

func newStats() *stats {
	return &stats{counters: map[string]int64{}, shapes: map[string]struct{}{}, findings: map[string]*finding{}, fcount: map[string]int64{}}
}

func (s *stats) count(k string, n int64) { s.counters[k] += n }

func (s *stats) report(f *finding) {
	s.fcount[f.Key]++
	old := s.findings[f.Key]
	if old == nil || f.Size < old.Size || (f.Size == old.Size && f.Case.Origin+fmt.Sprint(f.Case.Req) < old.Case.Origin+fmt.Sprint(old.Case.Req)) {
		s.findings[f.Key] = f
	}
}

func stepKind(st operator.OpStep) string {
	switch st.(type) {
	case operator.TransferLeader:
		return "TransferLeader"
	case operator.AddLearner:
		return "AddLearner"
	case operator.AddLightLearner:
		return "AddLightLearner"
	case operator.AddPeer:
		return "AddPeer"
	case operator.AddLightPeer:
		return "AddLightPeer"
	case operator.PromoteLearner:
		return "PromoteLearner"
	case operator.DemoteFollower:
		return "DemoteFollower"
	case operator.RemovePeer:
		return "RemovePeer"
	case operator.ChangePeerV2Enter:
		return "EnterJoint"
	case operator.ChangePeerV2Leave:
		return "LeaveJoint"
	}
	return fmt.Sprintf("%T", st)
}

// observed calls into pd (CheckSafety / IsFinish); a panic there is reported by the caller.
func checkSafety(st operator.OpStep, region *core.RegionInfo) (err error, panicked interface{}) {
	defer func() {
		if p := recover(); p != nil {
			panicked = p
		}
	}()
	return st.CheckSafety(region), nil
}

func isFinish(st operator.OpStep, region *core.RegionInfo) (fin bool, panicked interface{}) {
	defer func() {
		if p := recover(); p != nil {
			panicked = p
		}
	}()
	return st.IsFinish(region), nil
}

// stepOracle judges one step against the state it meets, from the property statement only:
// never remove / demote the current leader (a joint enter may), never leave a joint state while the
// leader is demoting, never transfer leadership to a learner, demoting or absent peer, never put a
// second peer on a store. Returns "" when the step is fine.
func stepOracle(before *sim.Region, st operator.OpStep, later []operator.OpStep) (key, what string) {
	leader := before.LeaderStore
	switch s := st.(type) {
	case operator.RemovePeer:
		if s.FromStore == leader {
			return "removes-current-leader", fmt.Sprintf("step removes the peer on store %d which is the leader at that moment", s.FromStore)
		}
	case operator.DemoteFollower:
		if s.ToStore == leader {
			return "demotes-current-leader", fmt.Sprintf("step demotes the peer on store %d which is the leader at that moment (outside a joint enter)", s.ToStore)
		}
	case operator.ChangePeerV2Leave:
		if l := before.Leader(); l != nil && l.Role == metapb.PeerRole_DemotingVoter {
			return "leaves-joint-while-leader-demoting", fmt.Sprintf("joint state is left while the leader (store %d) is a demoting voter", leader)
		}
	case operator.TransferLeader:
		p := before.Peer(s.ToStore)
		switch {
		case p != nil && s.ToStore == leader:
			// already the leader: nothing is transferred
		case p == nil:
			return "transfers-leader-to-absent-peer", fmt.Sprintf("leader transfer to store %d which holds no peer", s.ToStore)
		case p.Role == metapb.PeerRole_Learner:
			return "transfers-leader-to-learner", fmt.Sprintf("leader transfer to store %d whose peer is a learner", s.ToStore)
		case p.Role == metapb.PeerRole_DemotingVoter:
			return "transfers-leader-to-demoting-voter", fmt.Sprintf("leader transfer to store %d whose peer is a demoting voter", s.ToStore)
		}
	case operator.AddLearner:
		return occupied(before, s.ToStore, s.PeerID, false, later)
	case operator.AddLightLearner:
		return occupied(before, s.ToStore, s.PeerID, false, later)
	case operator.AddPeer:
		return occupied(before, s.ToStore, s.PeerID, true, later)
	case operator.AddLightPeer:
		return occupied(before, s.ToStore, s.PeerID, true, later)
	}
	return "", ""
}

func occupied(before *sim.Region, store, id uint64, promoteOK bool, later []operator.OpStep) (string, string) {
	p := before.Peer(store)
	if p == nil {
		return "", ""
	}
	if promoteOK && p.Id == id && p.Role == metapb.PeerRole_Learner {
		return "", ""
	}
	// classify the history: is the occupying peer removed by a later step of the same operator
	// (add issued before the remove it depends on) or never (the request itself was mis-planned)?
	when := "never-removed"
	for _, l := range later {
		if rp, ok := l.(operator.RemovePeer); ok && rp.FromStore == store {
			when = "removed-later"
			break
		}
	}
	occ := "voter"
	if p.Role == metapb.PeerRole_Learner {
		occ = "learner"
	}
	return "adds-second-peer-on-store:over-" + occ + "-" + when, fmt.Sprintf("step adds peer %d on store %d which still holds peer %d (%s, %s)", id, store, p.Id, occ, when)
}

// judge replays the operator on the simulator and evaluates every oracle.
// origin is the simulated region the operator was built for; e the requested placement; finalJudged
// whether the request is a meaningful placement request (else only the step oracles apply).
// The first pass is silent and cheap; only a failing case is replayed again with a full trace.
func judge(s *stats, k *kase, origin *sim.Region, op *operator.Operator, e *expect, finalJudged bool) bool {
	if !judgeRun(s, k, origin, op, e, finalJudged, false) {
		return false
	}
	tmp := newStats()
	judgeRun(tmp, k, origin, op, e, finalJudged, true)
	for _, f := range tmp.findings {
		s.report(f)
	}
	return true
}

// judgeRun returns true when some oracle was refuted. With verbose=false nothing is reported.
func judgeRun(s *stats, k *kase, origin *sim.Region, op *operator.Operator, e *expect, finalJudged, verbose bool) (failed bool) {
	steps := sim.Steps(op)
	mode := k.World.Mode
	reg := origin.Clone()
	floor := e.origV
	if e.targV < floor {
		floor = e.targV
	}
	var shape []string
	var traceLog []string
	logf := func(format string, a ...interface{}) {
		if verbose {
			traceLog = append(traceLog, fmt.Sprintf(format, a...))
		}
	}
	if verbose {
		traceLog = append(traceLog, "origin: "+reg.Describe())
	}
	// smallest witness first: few stores, all of them up, few peers, short request, short operator
	size := len(k.World.Stores)*10000 + len(origin.Peers)*100 + len(k.Req.Target)*10 + len(k.Req.Roles)*10 + len(steps)
	for _, sd := range k.World.Stores {
		if sd.State != stUp {
			size += 1000
		}
	}
	if k.World.Rules != "off" {
		size += 5000
	}
	fail := func(key, what string, at int) {
		failed = true
		if !verbose {
			return
		}
		var ss []string
		for _, st := range steps {
			ss = append(ss, st.String())
		}
		w := map[string]interface{}{"case": k, "origin": origin.Describe(), "steps": ss, "failed_at_step": at,
			"trace": append([]string(nil), traceLog...), "operator": op.String()}
		fam := ""
		if k.Family != "" {
			fam = " family=" + k.Family
		}
		s.report(&finding{Key: key + ":" + mode + familySuffix(k), What: what + " [api=" + k.Req.API + " mode=" + mode + fam + " origin=" + k.Origin + "]", Case: k, Size: size, Witness: w})
	}
	s.count("operators_judged", 1)
	if k.Family != "" {
		s.count("operators_family_"+k.Family, 1)
	}
	s.count("operators_"+mode, 1)
	s.count("api_"+k.Req.API, 1)
	aborted := false
	var lastInfo *core.RegionInfo
	removedIDs := map[uint64]uint64{} // removed peer id -> store
	for i, st := range steps {
		kind := stepKind(st)
		shape = append(shape, kind)
		s.count("step_"+kind, 1)
		before := reg.Clone()
		beforeInfo := lastInfo
		if beforeInfo == nil {
			beforeInfo = before.Info()
		}
		lastInfo = nil

		// observation of pd's enter/leave oddities (not judged: no clause of the statement speaks of them)
		switch x := st.(type) {
		case operator.ChangePeerV2Enter:
			switch n := len(x.PromoteLearners) + len(x.DemoteVoters); n {
			case 0:
				s.count("observed_enter_joint_with_no_change", 1)
			case 1:
				s.count("observed_enter_joint_with_single_change", 1)
			}
		case operator.ChangePeerV2Leave:
			if len(x.PromoteLearners)+len(x.DemoteVoters) == 0 && !before.InJoint() {
				// the partner of an empty enter: nothing to leave, pd never sends it (IsFinish is already true)
				fin, _ := isFinish(st, beforeInfo)
				if fin {
					s.count("observed_empty_leave_skipped", 1)
					logf("step %d %s: empty, skipped", i, kind)
					continue
				}
			}
		case operator.AddLearner:
			if store, was := removedIDs[x.PeerID]; was && store == x.ToStore {
				s.count("observed_readd_of_removed_peer_id", 1)
			}
		}

		// (1) statement oracles on (state, step)
		if key, what := stepOracle(before, st, steps[i+1:]); key != "" {
			logf("step %d %s: %s", i, st, what)
			fail(key, fmt.Sprintf("step %d (%s): %s", i, st, what), i)
			aborted = true
			break
		}
		// (2) the step's own precondition at its turn (observed)
		cerr, p := checkSafety(st, beforeInfo)
		if p != nil {
			fail("panic-in-CheckSafety:"+kind, fmt.Sprintf("CheckSafety of step %d (%s) panicked: %v", i, st, p), i)
			aborted = true
			break
		}
		if cerr != nil {
			logf("step %d %s: CheckSafety: %v", i, st, cerr)
			fail("step-precondition-fails:"+kind, fmt.Sprintf("CheckSafety of step %d (%s) fails when its turn comes: %v", i, st, cerr), i)
			aborted = true
			break
		}
		// (3) execute like a store
		if err := reg.ApplyStep(st); err != nil {
			logf("step %d %s: refused by the store: %v", i, st, err)
			fail("step-not-executable:"+kind+":"+sim.Code(err), fmt.Sprintf("step %d (%s) cannot be executed by a store in the state it meets: %v", i, st, err), i)
			aborted = true
			break
		}
		if rp, isRm := st.(operator.RemovePeer); isRm {
			if bp := before.Peer(rp.FromStore); bp != nil {
				removedIDs[bp.Id] = rp.FromStore
			}
		}
		if verbose {
			logf("step %d %s => %s", i, st, reg.Describe())
		}
		s.count("steps_executed", 1)
		if ierr := reg.Invariant(); ierr != nil {
			// one peer per store is enforced by the store model; reaching this means the model is broken
			fail("harness-simulator-invariant", "simulator invariant broken: "+ierr.Error(), i)
			aborted = true
			break
		}
		// (4) effect makes the step's own IsFinish true
		afterInfo := reg.Info()
		lastInfo = afterInfo
		fin, p := isFinish(st, afterInfo)
		if p != nil {
			fail("panic-in-IsFinish:"+kind, fmt.Sprintf("IsFinish of step %d (%s) panicked: %v", i, st, p), i)
			aborted = true
			break
		}
		if !fin {
			fail("step-effect-not-finished:"+kind, fmt.Sprintf("after a store executed step %d (%s) its IsFinish is still false", i, st), i)
			aborted = true
			break
		}
		// (5) voter floor
		if v := reg.VotersAll(); v < floor {
			// classify: do the remaining steps bring the count back (a voter is given up before its
			// replacement exists) or does the operator end below the floor?
			when := "lasting"
			rest := reg.Clone()
			for _, l := range steps[i+1:] {
				if rest.ApplyStep(l) != nil {
					break
				}
			}
			if rest.VotersAll() >= floor {
				when = "transient"
			}
			fail("voter-count-below-floor:"+when+":"+kind, fmt.Sprintf("after step %d (%s) the region has %d voters, below min(origin %d, target %d)", i, st, v, e.origV, e.targV), i)
			aborted = true
			break
		}
	}
	s.shapes[strings.Join(shape, ",")] = struct{}{}
	if aborted {
		return
	}
	if !finalJudged {
		s.count("final_state_not_judged_request_not_a_placement", 1)
		return
	}
	if verbose {
		logf("requested: roles=%v leader=%d followers=%v", e.roles, e.leader, e.followers)
	}
	// (6) final state = request
	final := originRoles(reg)
	for _, store := range sortedStores(e.roles) {
		want := e.roles[store]
		got, has := final[store]
		if !has {
			fail("final-missing-requested-peer", fmt.Sprintf("final state %q has no peer on requested store %d", reg.String(), store), len(steps))
			return
		}
		if got != want {
			fail("final-role-differs", fmt.Sprintf("final state %q: store %d is %v, requested %v", reg.String(), store, got, want), len(steps))
			return
		}
	}
	for _, store := range sortedStores(final) {
		if _, want := e.roles[store]; !want {
			fail("final-has-unrequested-peer", fmt.Sprintf("final state %q keeps a peer on store %d which is not in the request", reg.String(), store), len(steps))
			return
		}
	}
	// kept stores keep their peers (a legacy cluster replaces a voter by a fresh learner: exempt)
	for _, op0 := range origin.Peers {
		fp := reg.Peer(op0.StoreId)
		if fp == nil {
			continue
		}
		// (also when the feature level changed during the build: either convention may have been planned)
		if (mode == modeLegacy || k.QueryFlip == "feature") && op0.Role == metapb.PeerRole_Voter && fp.Role == metapb.PeerRole_Learner {
			s.count("legacy_voter_replaced_by_learner", 1)
			continue
		}
		if fp.Id != op0.Id {
			fail("kept-store-changes-peer", fmt.Sprintf("store %d is in origin and target but its peer %d was replaced by peer %d", op0.StoreId, op0.Id, fp.Id), len(steps))
			return
		}
	}
	// leader
	fl := reg.LeaderStore
	if e.leader != 0 {
		s.count("final_leader_requests_judged", 1)
		if fl != e.leader {
			fail("final-leader-differs", fmt.Sprintf("final leader is store %d, requested leader is store %d (final %q)", fl, e.leader, reg.String()), len(steps))
			return
		}
	} else if e.followers[fl] && k.AmbiguousWorld {
		s.count("skipped_ambiguous_follower_world_changed_during_build", 1)
	} else if e.followers[fl] {
		other := uint64(0)
		for _, store := range sortedStores(e.roles) {
			if store != fl && e.roles[store] != metapb.PeerRole_Learner && !e.followers[store] && k.World.clearlyLeaderCapable(store) {
				other = store
				break
			}
		}
		if other != 0 {
			fail("final-leader-on-expected-follower", fmt.Sprintf("final leader is store %d whose expected role is follower although store %d (voter, plainly able to lead) is in the target", fl, other), len(steps))
			return
		}
		if k.World.Rules == "custom" {
			s.count("skipped_ambiguous_follower_under_custom_rules", 1)
		} else {
			s.count("follower_leads_no_other_candidate", 1)
		}
	}
	s.count("final_states_judged", 1)
	return
}

// familySuffix makes the violation key of a non-plain workload family distinct: a defect that only
// shows under a changing world / a failing allocator / overlapping builds is another kind of history.
func familySuffix(k *kase) string {
	if k.Family == "" {
		return ""
	}
	return ":" + k.Family
}
