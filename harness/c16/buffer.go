// Part (a): the change log (history buffer) against an explicit list model.
package main

import (
	"fmt"
	"math"
	"math/rand"
	"sync"
	"sync/atomic"

	"github.com/pingcap/kvproto/pkg/metapb"
	"github.com/tikv/pd/server/core"
	"github.com/tikv/pd/server/kv"
	syncer "github.com/tikv/pd/server/region_syncer"
	"verif/harness/lib/ev"
	"verif/harness/lib/kvx"
)

const flushInterval = 100 // "its flush interval of 100 records" (property statement)

var bufCaps = []int{1, 2, 3, 7, 100, 101, 1000}

// bufOp is one step of a buffer history. Reads are not steps: after every step the runner probes
// RecordsFrom on every window edge +-1 (and a few far indexes).
type bufOp struct {
	Op  string `json:"op"`            // "rec" | "reset" | "restart"
	N   int    `json:"n,omitempty"`   // rec: number of records appended
	J   uint64 `json:"j,omitempty"`   // reset: new next index
	Cap int    `json:"cap,omitempty"` // restart: capacity of the new buffer
}

// listModel is the reference: the records appended since the last reset/restart, as a plain list.
type listModel struct {
	cap  int
	base uint64   // index of ids[0]
	ids  []uint64 // region ids in append order (trimmed to the last cap entries)
	// bookkeeping used only to classify a failing history
	sinceReset     int  // records appended since the last reset / creation
	resetsThisLife int  // resets since creation / last restart
	overflowed     bool // more than cap records were appended since the last reset
}

func (m *listModel) next() uint64 { return m.base + uint64(len(m.ids)) }
func (m *listModel) first() uint64 {
	return m.base
}
func (m *listModel) record(id uint64) {
	m.ids = append(m.ids, id)
	if len(m.ids) > m.cap {
		drop := len(m.ids) - m.cap
		m.ids = append([]uint64(nil), m.ids[drop:]...)
		m.base += uint64(drop)
		m.overflowed = true
	}
	m.sinceReset++
}
func (m *listModel) reset(j uint64) {
	m.ids, m.base, m.sinceReset, m.overflowed = nil, j, 0, false
	m.resetsThisLife++
}
func (m *listModel) expect(i uint64) []uint64 {
	if i >= m.first() && i < m.next() {
		return m.ids[i-m.base:]
	}
	return nil
}
func (m *listModel) fill() string {
	switch {
	case m.overflowed:
		return "overflowed"
	case len(m.ids) == m.cap:
		return "exact-fill"
	case len(m.ids) == 0:
		return "empty"
	default:
		return "partial"
	}
}

type bufVerdict struct {
	Key    string
	What   string
	Detail map[string]interface{}
	Step   int
}

func newRec(id uint64) *core.RegionInfo {
	return core.NewRegionInfo(&metapb.Region{Id: id}, nil)
}

// probeIndexes returns every window edge +-1 and some far indexes.
func probeIndexes(m *listModel) []uint64 {
	f, n := m.first(), m.next()
	c := uint64(m.cap)
	set := map[uint64]bool{}
	var out []uint64
	add := func(v uint64) {
		if !set[v] {
			set[v] = true
			out = append(out, v)
		}
	}
	add(0)
	add(1)
	for _, d := range []uint64{2, 1} {
		if f >= d {
			add(f - d)
		}
		if n >= d {
			add(n - d)
		}
	}
	add(f)
	add(f + 1)
	add(n)
	add(n + 1)
	add(n + c)
	add(f + (n-f)/2)
	if f >= c {
		add(f - c)
	}
	if f >= c+1 {
		add(f - c - 1)
	}
	add(uint64(1) << 62)
	add(math.MaxUint64)
	return out
}

func classifyIndex(m *listModel, i uint64) string {
	f, n := m.first(), m.next()
	switch {
	case i < f:
		return "index<first"
	case i == f && i < n:
		return "index=first"
	case i == n:
		return "index=next"
	case i > n:
		return "index>next"
	case i == n-1:
		return "index=next-1"
	default:
		return "index-interior"
	}
}

// runBufHistory executes one history against a fresh store and returns the first refuted oracle.
func runBufHistory(cap0 int, ops []bufOp, cnt *ev.Run) *bufVerdict {
	store := kvx.New(kv.NewMemoryKV())
	store.SetLogging(false)
	buf := syncer.VerifNewHistoryBuffer(cap0, store)
	m := &listModel{cap: cap0}
	m.base = buf.NextIndex() // fresh store: 0
	nextID := uint64(1)
	probe := func(step int) *bufVerdict {
		if got := buf.NextIndex(); got != m.next() {
			return &bufVerdict{Key: "next-index-wrong:" + m.fill(), Step: step,
				What:   fmt.Sprintf("next index is %d, the model (records appended since the last reset) says %d", got, m.next()),
				Detail: map[string]interface{}{"next_got": got, "next_model": m.next()}}
		}
		for _, i := range probeIndexes(m) {
			got := buf.RecordsFrom(i)
			want := m.expect(i)
			if cnt != nil {
				cnt.Count("buffer_reads", 1)
				if len(want) > 0 {
					cnt.Count("buffer_reads_in_window", 1)
				}
			}
			bad := len(got) != len(want)
			pos := -1
			if !bad {
				for k := range got {
					if got[k] == nil || got[k].GetID() != want[k] {
						bad, pos = true, k
						break
					}
				}
			}
			if !bad {
				continue
			}
			gotIDs := make([]uint64, 0, 8)
			for k := 0; k < len(got) && k < 8; k++ {
				if got[k] == nil {
					gotIDs = append(gotIDs, 0)
				} else {
					gotIDs = append(gotIDs, got[k].GetID())
				}
			}
			wantIDs := want
			if len(wantIDs) > 8 {
				wantIDs = wantIDs[:8]
			}
			d := map[string]interface{}{"index": i, "first_model": m.first(), "next_model": m.next(), "capacity": m.cap,
				"first_impl": buf.FirstIndex(), "len_impl": buf.Len(), "got_len": len(got), "want_len": len(want),
				"got_ids_head": gotIDs, "want_ids_head": wantIDs, "first_bad_pos": pos}
			if len(want) == 0 {
				return &bufVerdict{Key: "records-from-outside-window-nonempty:" + classifyIndex(m, i) + ":" + m.fill(), Step: step,
					What:   fmt.Sprintf("RecordsFrom(%d) returned %d records although the window is [%d,%d)", i, len(got), m.first(), m.next()),
					Detail: d}
			}
			return &bufVerdict{Key: "records-from-wrong:" + classifyIndex(m, i) + ":" + m.fill(), Step: step,
				What:   fmt.Sprintf("RecordsFrom(%d) with window [%d,%d) capacity %d returned %d records, expected exactly the %d records %d..%d in order", i, m.first(), m.next(), m.cap, len(got), len(want), i, m.next()-1),
				Detail: d}
		}
		return nil
	}
	if v := probe(-1); v != nil {
		return v
	}
	for si, op := range ops {
		switch op.Op {
		case "rec":
			for k := 0; k < op.N; k++ {
				buf.Record(newRec(nextID))
				m.record(nextID)
				nextID++
			}
			if cnt != nil {
				cnt.Count("buffer_records", int64(op.N))
			}
		case "reset":
			buf.ResetWithIndex(op.J)
			m.reset(op.J)
			if cnt != nil {
				cnt.Count("buffer_resets", 1)
			}
		case "restart":
			before := m.next()
			buf = syncer.VerifNewHistoryBuffer(op.Cap, store)
			after := buf.NextIndex()
			if cnt != nil {
				cnt.Count("buffer_restarts", 1)
				if after > before {
					cnt.Count("buffer_restart_index_jumped_forward", 1)
				}
			}
			if before > flushInterval && after < before-flushInterval {
				class := "records-only"
				if m.resetsThisLife > 0 {
					if m.sinceReset < flushInterval {
						class = "after-reset-with-fewer-than-100-records"
					} else {
						class = "after-reset-with-100-or-more-records"
					}
				}
				persisted, _ := store.Load("historyIndex")
				return &bufVerdict{Key: "restart-next-index-regresses:" + class, Step: si,
					What: fmt.Sprintf("next index was %d before the restart and %d after it (new buffer on the same store): went backwards by %d > %d", before, after, before-after, flushInterval),
					Detail: map[string]interface{}{"next_before": before, "next_after": after, "persisted_value": persisted,
						"records_since_last_reset": m.sinceReset, "resets_since_creation": m.resetsThisLife}}
			}
			*m = listModel{cap: op.Cap, base: after}
		}
		if v := probe(si); v != nil {
			return v
		}
	}
	return nil
}

// shrinkBuf reduces a failing history to a locally minimal one with the same violation key.
func shrinkBuf(cap0 int, ops []bufOp, key string) (int, []bufOp) {
	fails := func(c int, o []bufOp) bool {
		v := runBufHistory(c, o, nil)
		return v != nil && v.Key == key
	}
	cur := append([]bufOp(nil), ops...)
	for changed := true; changed; {
		changed = false
		for i := 0; i < len(cur); i++ {
			cand := append(append([]bufOp(nil), cur[:i]...), cur[i+1:]...)
			if fails(cap0, cand) {
				cur, changed = cand, true
				i--
			}
		}
		for i := range cur {
			if cur[i].Op != "rec" {
				continue
			}
			for _, n := range []int{1, cur[i].N / 2, cur[i].N - 1} {
				if n < 1 || n >= cur[i].N {
					continue
				}
				cand := append([]bufOp(nil), cur...)
				cand[i].N = n
				if fails(cap0, cand) {
					cur, changed = cand, true
					break
				}
			}
		}
		for i := range cur {
			switch cur[i].Op {
			case "reset":
				for _, j := range []uint64{0, flushInterval + 1, 1000, cur[i].J / 2} {
					if j >= cur[i].J {
						continue
					}
					cand := append([]bufOp(nil), cur...)
					cand[i].J = j
					if fails(cap0, cand) {
						cur, changed = cand, true
						break
					}
				}
			case "restart":
				if cur[i].Cap != cap0 {
					cand := append([]bufOp(nil), cur...)
					cand[i].Cap = cap0
					if fails(cap0, cand) {
						cur, changed = cand, true
					}
				}
			}
		}
	}
	for _, c := range bufCaps {
		if c < cap0 {
			cand := append([]bufOp(nil), cur...)
			for i := range cand {
				if cand[i].Op == "restart" && cand[i].Cap == cap0 {
					cand[i].Cap = c
				}
			}
			if fails(c, cand) {
				cap0, cur = c, cand
				break
			}
		}
	}
	return cap0, cur
}

func genBufHistory(rng *rand.Rand, cap0 int) ([]bufOp, string) {
	// a shadow model drives the choice of "below / inside / far above the window"
	m := &listModel{cap: cap0}
	nops := 3 + rng.Intn(10)
	if cap0 >= 1000 {
		nops = 2 + rng.Intn(5)
	}
	var ops []bufOp
	shape := fmt.Sprintf("c%d", cap0)
	for k := 0; k < nops; k++ {
		switch x := rng.Intn(10); {
		case x < 6:
			c := m.cap
			choices := []int{1, 2, 3, c - 1, c, c + 1, 2*c + 1, flushInterval - 1, flushInterval, flushInterval + 1,
				1 + rng.Intn(2*c+3), c - len(m.ids), c - len(m.ids) + 1}
			n := choices[rng.Intn(len(choices))]
			if n < 1 {
				n = 1
			}
			if n > 2100 {
				n = 2100
			}
			before := len(m.ids)
			for i := 0; i < n; i++ {
				m.record(0)
			}
			ops = append(ops, bufOp{Op: "rec", N: n})
			switch {
			case before+n < c:
				shape += "|r<"
			case before+n == c:
				shape += "|r="
			case n > c:
				shape += "|r>>"
			default:
				shape += "|r>"
			}
		case x < 8:
			f, n := m.first(), m.next()
			var j uint64
			var cls string
			switch rng.Intn(6) {
			case 0:
				j, cls = 0, "0"
			case 1: // below the window
				if f > 0 {
					j = uint64(rng.Int63n(int64(f)))
				}
				cls = "below"
			case 2: // inside the window
				j = f + uint64(rng.Int63n(int64(n-f)+1))
				cls = "inside"
			case 3: // just above
				j = n + uint64(rng.Intn(3))
				cls = "edge"
			default: // far above
				j = n + 150 + uint64(rng.Int63n(100000))
				cls = "far"
			}
			m.reset(j)
			ops = append(ops, bufOp{Op: "reset", J: j})
			shape += "|Z" + cls
		default:
			c := cap0
			if rng.Intn(3) == 0 {
				c = bufCaps[rng.Intn(len(bufCaps))]
			}
			// what the new buffer starts from is decided by the implementation; the shadow model
			// only needs an index to go on from
			*m = listModel{cap: c, base: m.next()}
			ops = append(ops, bufOp{Op: "restart", Cap: c})
			shape += fmt.Sprintf("|S%d", c)
		}
	}
	return ops, shape
}

// directedBufHistories: exact fill, overflow by one, wrap-around several times, for every capacity.
func directedBufHistories() [][2]interface{} {
	var out [][2]interface{}
	for _, c := range bufCaps {
		out = append(out,
			[2]interface{}{c, []bufOp{{Op: "rec", N: c}}},
			[2]interface{}{c, []bufOp{{Op: "rec", N: c - 1}, {Op: "rec", N: 1}, {Op: "rec", N: 1}}},
			[2]interface{}{c, []bufOp{{Op: "rec", N: c + 1}}},
			[2]interface{}{c, []bufOp{{Op: "rec", N: 2*c + 1}, {Op: "rec", N: c}, {Op: "rec", N: 1}}},
			[2]interface{}{c, []bufOp{{Op: "rec", N: flushInterval - 1}, {Op: "restart", Cap: c}, {Op: "rec", N: 1}, {Op: "restart", Cap: c}}},
			[2]interface{}{c, []bufOp{{Op: "rec", N: flushInterval}, {Op: "restart", Cap: c}, {Op: "rec", N: c + 1}}},
			[2]interface{}{c, []bufOp{{Op: "rec", N: 3*flushInterval + 50}, {Op: "restart", Cap: c}}},
			[2]interface{}{c, []bufOp{{Op: "rec", N: c + 2}, {Op: "reset", J: 5}, {Op: "rec", N: c}, {Op: "rec", N: 1}}},
			[2]interface{}{c, []bufOp{{Op: "rec", N: 3}, {Op: "reset", J: 50000}, {Op: "rec", N: 5}, {Op: "restart", Cap: c}, {Op: "rec", N: c + 1}}},
			[2]interface{}{c, []bufOp{{Op: "reset", J: 50000}, {Op: "rec", N: flushInterval + 5}, {Op: "restart", Cap: c}}},
		)
	}
	return out
}

func bufferPhase(r *ev.Run, rng *rand.Rand) {
	shrunk := map[string]bool{}
	report := func(cap0 int, ops []bufOp, v *bufVerdict) {
		if v == nil {
			return
		}
		if shrunk[v.Key] {
			// counted; the minimal witness of this kind has been written already
			r.Violation("history-buffer:"+v.Key, v.What, nil)
			return
		}
		shrunk[v.Key] = true
		mc, mops := shrinkBuf(cap0, ops, v.Key)
		mv := runBufHistory(mc, mops, nil)
		if mv == nil || mv.Key != v.Key {
			mc, mops, mv = cap0, ops, v
		}
		r.Violation("history-buffer:"+mv.Key, mv.What, map[string]interface{}{
			"capacity": mc, "minimal_history": mops, "failed_after_step": mv.Step, "detail": mv.Detail,
			"original_capacity": cap0, "original_history": ops,
			"note": "history replayed on a fresh in-memory store; reads (RecordsFrom on every window edge +-1) follow every step"})
	}
	for _, d := range directedBufHistories() {
		c, ops := d[0].(int), d[1].([]bufOp)
		for _, o := range ops {
			if o.Op == "rec" && o.N < 1 {
				ops = nil
			}
		}
		if ops == nil {
			continue
		}
		r.Eval(1)
		r.Count("buffer_histories_directed", 1)
		r.Distinct(fmt.Sprintf("bufd|%d|%v", c, ops))
		report(c, ops, runBufHistory(c, ops, r))
	}
	n := r.Pick(2000, 12000)
	for h := 0; h < n; h++ {
		c := bufCaps[rng.Intn(len(bufCaps))]
		if c == 1000 && rng.Intn(3) != 0 {
			c = bufCaps[rng.Intn(len(bufCaps)-1)]
		}
		ops, shape := genBufHistory(rng, c)
		r.Eval(1)
		r.Count("buffer_histories_random", 1)
		r.Distinct("buf|" + shape)
		v := runBufHistory(c, ops, r)
		if h == 5 {
			r.Sample(map[string]interface{}{"part": "history-buffer", "capacity": c, "history": ops, "violation": v != nil})
		}
		report(c, ops, v)
	}
}

// concurrentBufferPhase: one recorder, several readers (the leader's RunServer goroutine records
// while Sync goroutines read). Record k gets region id k, so any answer can be judged on its own.
func concurrentBufferPhase(r *ev.Run, rng *rand.Rand) {
	rounds := r.Pick(6, 40)
	for round := 0; round < rounds; round++ {
		c := bufCaps[rng.Intn(len(bufCaps))]
		total := 3000 + rng.Intn(3000)
		buf := syncer.VerifNewHistoryBuffer(c, kv.NewMemoryKV())
		var written uint64 // number of completed Record calls
		var wg sync.WaitGroup
		var mu sync.Mutex
		var bad map[string]interface{}
		var reads, inWindow int64
		stop := make(chan struct{})
		seeds := make([]int64, 4)
		for i := range seeds {
			seeds[i] = rng.Int63()
		}
		for w := 0; w < len(seeds); w++ {
			wg.Add(1)
			go func(w int) {
				defer wg.Done()
				lr := rand.New(rand.NewSource(seeds[w]))
				for {
					select {
					case <-stop:
						return
					default:
					}
					lo := atomic.LoadUint64(&written) // records 0..lo-1 are certainly in the log
					var i uint64
					if back := uint64(lr.Intn(c + 3)); back <= lo {
						i = lo - back
					}
					got := buf.RecordsFrom(i)
					hi := buf.NextIndex() // the log never held more than hi records during the call
					atomic.AddInt64(&reads, 1)
					var why string
					for k, g := range got {
						if g == nil || g.GetID() != i+uint64(k) {
							why = fmt.Sprintf("position %d is not record %d", k, i+uint64(k))
							break
						}
					}
					if why == "" && len(got) > c {
						why = "more records than the capacity"
					}
					// i was inside the window during the whole call when it was already written
					// before the call and cannot have been overwritten until after it
					if why == "" && i < lo && hi <= i+uint64(c) {
						atomic.AddInt64(&inWindow, 1)
						if uint64(len(got)) < lo-i || uint64(len(got)) > hi-i {
							why = fmt.Sprintf("index inside the window during the whole call but %d records returned (between %d and %d expected)", len(got), lo-i, hi-i)
						}
					}
					if why != "" {
						mu.Lock()
						if bad == nil {
							bad = map[string]interface{}{"capacity": c, "index": i, "written_before_call": lo, "next_after_call": hi, "got_len": len(got), "why": why}
						}
						mu.Unlock()
						return
					}
				}
			}(w)
		}
		for k := 0; k < total; k++ {
			buf.Record(newRec(uint64(k)))
			atomic.StoreUint64(&written, uint64(k+1))
		}
		close(stop)
		wg.Wait()
		r.Eval(1)
		r.Count("buffer_concurrent_rounds", 1)
		r.Count("buffer_concurrent_reads", reads)
		r.Count("buffer_concurrent_reads_in_window", inWindow)
		r.Distinct(fmt.Sprintf("bufc|%d|%d", c, total/1000))
		if bad != nil {
			r.Violation("history-buffer:records-from-wrong:concurrent-reader", "RecordsFrom answered a reader running concurrently with the recorder with something that is not the run of records from the requested index: "+bad["why"].(string), bad)
		}
	}
}
