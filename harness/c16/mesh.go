// Part (d): overlapped / faulty / long-lived histories of the sync path.
//
// A "mesh" is 2-3 members, each pd's RegionSyncer behind a harness syncer.Server with its own
// loopback gRPC server, so that leadership can move (the same syncer objects, caches and logs live
// through several terms). The harness plays TiKV: it owns the ground truth of every region (all
// versions ever produced, epochs monotone), applies each change to the current leader's cache the
// way the cluster does and pushes it through RunServer's notifier. Every message is captured at the
// sending member's stream.Send.
//
// Oracles (the existing ones, phrased for overlapped executions):
//   - wire: Regions[i] / RegionLeaders[i] / RegionStats[i] of every message must be ONE version of
//     that region that existed (every version has unique flow statistics, so mixing two versions or
//     two regions is visible);
//   - follower: after a checkpoint (sentinel change seen in the follower's cache => everything sent
//     before it on that stream has been applied) the follower's cache holds, for every region sent
//     to it, the last version sent to it. Messages sent on a stream that died before a checkpoint
//     confirmed them may or may not have arrived: every such version is admissible.
//
// Regions that were never sent to a follower (broadcast before its stream was bound, dropped by an
// injected send error, changed while it was offline and outside the log window) are not judged.
package main

import (
	"bytes"
	"errors"
	"fmt"
	"math/rand"
	"net"
	"sync"
	"sync/atomic"
	"time"

	"github.com/pingcap/kvproto/pkg/metapb"
	"github.com/pingcap/kvproto/pkg/pdpb"
	"github.com/tikv/pd/server/core"
	syncer "github.com/tikv/pd/server/region_syncer"
	"google.golang.org/grpc"
	"verif/harness/lib/ev"
)

type triple struct {
	meta   *metapb.Region
	leader *metapb.Peer
	stat   *pdpb.RegionStat
	via    string
}

type expect struct {
	adm []*triple // admissible states; a nil entry = "absent"
}

type member struct {
	name      string
	n         *node
	sy        *syncer.RegionSyncer
	gs        *grpc.Server
	addr      string
	notifier  chan *core.RegionInfo
	quit      chan struct{}
	following bool
	startGen  int // number of StartSyncWithLeader calls
	exp       map[uint64]*expect
	cur       *mstream // newest stream this member opened at a leader (guarded by mesh.mu)
}

type mstream struct {
	pdpb.PD_SyncRegionsServer
	m         *mesh
	ld        *member
	id        int
	follower  string
	gen       int
	recvCalls int32
	finished  int32
	sends     int
}

type mcap struct {
	st    *mstream
	ord   int
	bytes []byte
	err   error
	msg   *pdpb.SyncRegionResponse
}

type mesh struct {
	r    *ev.Run
	fam  string
	rng  *rand.Rand
	desc map[string]interface{}
	ms   []*member
	ld   *member

	mu       sync.Mutex
	caps     []*mcap
	absorbed int
	nstreams int
	// sendHook runs in the sending goroutine before a message is captured and sent; it may push
	// changes (overlap) and may inject a failure: err != nil makes Send return err, deliver tells
	// whether the message still goes out (lost acknowledgement) or not (fail before send).
	sendHook func(st *mstream, ord int, msg *pdpb.SyncRegionResponse) (err error, deliver bool)

	gmu        sync.Mutex // generator state (pump goroutine / send hook / main)
	truth      map[uint64]*core.RegionInfo
	versions   map[uint64][]*core.RegionInfo
	ids        []uint64
	splitDone  map[uint64]bool
	nextID     uint64
	tick       uint64
	sentinel   uint64
	termBase   uint64
	termPush   uint64
	failedFlag int32
	checks     int
}

func (m *mesh) fail(format string, a ...interface{}) {
	if atomic.CompareAndSwapInt32(&m.failedFlag, 0, 1) {
		m.r.Inconclusive("mesh %s %v: %s", m.fam, m.desc, fmt.Sprintf(format, a...))
	}
}

func (m *mesh) isFailed() bool { return atomic.LoadInt32(&m.failedFlag) == 1 }

func (m *mesh) waitFor(what string, cond func() bool) bool {
	if m.isFailed() {
		return false
	}
	deadline := time.Now().Add(pollWatchdog)
	for !cond() {
		if time.Now().After(deadline) {
			m.fail("watchdog while waiting for %s (no verdict)", what)
			return false
		}
		time.Sleep(time.Millisecond)
	}
	return true
}

// ---- streams ----

func (s *mstream) Recv() (*pdpb.SyncRegionRequest, error) {
	atomic.AddInt32(&s.recvCalls, 1)
	req, err := s.PD_SyncRegionsServer.Recv()
	if err == nil {
		s.m.mu.Lock()
		if s.follower == "" {
			s.follower = req.GetMember().GetName()
			if f := s.m.byName(s.follower); f != nil {
				s.gen = f.startGen
				f.cur = s
			}
		}
		s.m.mu.Unlock()
	}
	return req, err
}

func (s *mstream) Send(msg *pdpb.SyncRegionResponse) error {
	s.m.mu.Lock()
	s.sends++
	ord := s.sends
	hook := s.m.sendHook
	s.m.mu.Unlock()
	var inject error
	deliver := true
	if hook != nil {
		inject, deliver = hook(s, ord, msg)
	}
	c := &mcap{st: s, ord: ord}
	if inject != nil && !deliver {
		c.err = inject
		s.m.mu.Lock()
		s.m.caps = append(s.m.caps, c)
		s.m.mu.Unlock()
		return inject
	}
	b, merr := msg.Marshal()
	c.bytes = b
	s.m.mu.Lock()
	s.m.caps = append(s.m.caps, c)
	s.m.mu.Unlock()
	err := s.PD_SyncRegionsServer.Send(msg)
	if err == nil {
		err = merr
	}
	if err != nil {
		s.m.mu.Lock()
		c.err = err
		s.m.mu.Unlock()
		return err
	}
	return inject // delivered, acknowledgement "lost"
}

type meshSvc struct {
	pdpb.PDServer
	m  *mesh
	mb *member
}

func (p *meshSvc) SyncRegions(stream pdpb.PD_SyncRegionsServer) error {
	st := &mstream{PD_SyncRegionsServer: stream, m: p.m, ld: p.mb}
	p.m.mu.Lock()
	p.m.nstreams++
	st.id = p.m.nstreams
	p.m.mu.Unlock()
	err := p.mb.sy.Sync(st)
	atomic.StoreInt32(&st.finished, 1)
	return err
}

func (m *mesh) byName(name string) *member {
	for _, mb := range m.ms {
		if mb.name == name {
			return mb
		}
	}
	return nil
}

// ---- construction ----

func newMesh(r *ev.Run, fam string, seed int64, members int, desc map[string]interface{}) (*mesh, error) {
	m := &mesh{r: r, fam: fam, rng: rand.New(rand.NewSource(seed)), desc: desc,
		truth: map[uint64]*core.RegionInfo{}, versions: map[uint64][]*core.RegionInfo{}, splitDone: map[uint64]bool{}}
	m.desc["family"], m.desc["mesh_seed"] = fam, seed
	m.nextID = uint64(5000 + m.rng.Intn(1000))
	clusterID := uint64(8000000 + m.rng.Intn(1000))
	for i := 0; i < members; i++ {
		lis, err := net.Listen("tcp", "127.0.0.1:0")
		if err != nil {
			return nil, err
		}
		name := string(rune('A' + i))
		mb := &member{name: name, addr: "http://" + lis.Addr().String(), exp: map[uint64]*expect{}}
		if mb.n, err = newNode(name, clusterID, mb.addr); err != nil {
			lis.Close()
			return nil, err
		}
		mb.n.member.MemberId = uint64(i + 1)
		mb.sy = syncer.NewRegionSyncer(mb.n)
		m.serve(mb, lis)
		m.ms = append(m.ms, mb)
	}
	return m, nil
}

func (m *mesh) serve(mb *member, lis net.Listener) {
	mb.gs = grpc.NewServer()
	pdpb.RegisterPDServer(mb.gs, &meshSvc{m: m, mb: mb})
	go mb.gs.Serve(lis)
}

func (m *mesh) close() {
	var wg sync.WaitGroup
	for _, mb := range m.ms {
		wg.Add(1)
		go func(mb *member) { defer wg.Done(); mb.sy.StopSyncWithLeader() }(mb)
	}
	wg.Wait()
	for _, mb := range m.ms {
		if mb.quit != nil {
			close(mb.quit)
			mb.quit = nil
		}
		mb.gs.Stop()
		mb.n.close()
	}
}

// ---- ground truth and changes ----

func (m *mesh) alloc() uint64 { m.nextID++; return m.nextID }

// flow gives every version of every region its own flow statistics.
func (m *mesh) flow() []core.RegionCreateOption {
	m.tick++
	t := m.tick
	return []core.RegionCreateOption{core.SetWrittenBytes(1000000 + t), core.SetWrittenKeys(2000000 + t), core.SetReadBytes(3000000 + t), core.SetReadKeys(4000000 + t)}
}

func (m *mesh) noteVersion(ri *core.RegionInfo) {
	id := ri.GetID()
	if _, ok := m.truth[id]; !ok {
		m.ids = append(m.ids, id)
	}
	m.truth[id] = ri
	m.versions[id] = append(m.versions[id], ri)
}

// populate creates n regions (a partition of the key space) directly in the leader's cache, as if
// loaded from its storage at start-up; every fourth one has no leader yet.
func (m *mesh) populate(n int, viaNotifier bool) {
	m.gmu.Lock()
	defer m.gmu.Unlock()
	for i := 0; i < n; i++ {
		id := m.alloc()
		stores := m.rng.Perm(9)
		var peers []*metapb.Peer
		for k := 0; k < 3; k++ {
			peers = append(peers, &metapb.Peer{Id: m.alloc(), StoreId: uint64(stores[k] + 1)})
		}
		end := key(i + 1)
		if i == n-1 {
			end = []byte("")
		}
		meta := &metapb.Region{Id: id, StartKey: key(i), EndKey: end, Peers: peers,
			RegionEpoch: &metapb.RegionEpoch{ConfVer: uint64(1 + m.rng.Intn(3)), Version: uint64(1 + m.rng.Intn(3))}}
		var leader *metapb.Peer
		if i%4 != 3 || viaNotifier {
			leader = peers[m.rng.Intn(3)]
		}
		ri := core.NewRegionInfo(meta, leader, m.flow()...)
		if viaNotifier {
			m.pushOne(ri)
			continue
		}
		m.noteVersion(ri)
		m.ld.n.bc.CheckAndPutRegion(ri)
	}
	if n > 0 {
		m.sentinel = m.ids[0]
	}
}

// change produces the next 1-2 region versions from the ground truth (never from a member's cache).
func (m *mesh) change(simple bool) []*core.RegionInfo {
	rng := m.rng
	var id uint64
	for {
		id = m.ids[rng.Intn(len(m.ids))]
		if id != m.sentinel || len(m.ids) == 1 {
			break
		}
	}
	cur := m.truth[id]
	if cur.GetLeader() == nil {
		return []*core.RegionInfo{cur.Clone(append(m.flow(), core.WithLeader(cur.GetPeers()[rng.Intn(len(cur.GetPeers()))]))...)}
	}
	others := func() []*metapb.Peer {
		var o []*metapb.Peer
		for _, p := range cur.GetPeers() {
			if p.GetId() != cur.GetLeader().GetId() {
				o = append(o, p)
			}
		}
		return o
	}
	k := rng.Intn(6)
	if simple && k == 4 {
		k = 0
	}
	switch k {
	case 0, 1:
		o := others()
		return []*core.RegionInfo{cur.Clone(append(m.flow(), core.WithLeader(o[rng.Intn(len(o))]))...)}
	case 2:
		if len(cur.GetPeers()) < 5 {
			used := cur.GetStoreIds()
			st := uint64(1)
			for ; st < 20; st++ {
				if _, ok := used[st]; !ok {
					break
				}
			}
			return []*core.RegionInfo{cur.Clone(append(m.flow(), core.WithAddPeer(&metapb.Peer{Id: m.alloc(), StoreId: st}), core.WithIncConfVer())...)}
		}
		o := others()
		var keep []*metapb.Peer
		for _, p := range cur.GetPeers() {
			if p.GetId() != o[0].GetId() {
				keep = append(keep, p)
			}
		}
		return []*core.RegionInfo{cur.Clone(append(m.flow(), core.SetPeers(keep), core.WithIncConfVer())...)}
	case 4:
		mid := append(append([]byte(nil), cur.GetStartKey()...), '5')
		if m.splitDone[id] || (len(cur.GetEndKey()) > 0 && bytes.Compare(mid, cur.GetEndKey()) >= 0) {
			break
		}
		right := cur.Clone(append(m.flow(), core.WithStartKey(mid), core.WithIncVersion())...)
		nid := m.alloc()
		var peers []*metapb.Peer
		var leader *metapb.Peer
		for _, p := range cur.GetPeers() {
			np := &metapb.Peer{Id: m.alloc(), StoreId: p.GetStoreId(), Role: p.GetRole()}
			peers = append(peers, np)
			if p.GetId() == cur.GetLeader().GetId() {
				leader = np
			}
		}
		meta := &metapb.Region{Id: nid, StartKey: append([]byte(nil), cur.GetStartKey()...), EndKey: mid, Peers: peers,
			RegionEpoch: &metapb.RegionEpoch{ConfVer: right.GetRegionEpoch().GetConfVer(), Version: right.GetRegionEpoch().GetVersion()}}
		left := core.NewRegionInfo(meta, leader, m.flow()...)
		m.splitDone[id], m.splitDone[nid] = true, true
		if rng.Intn(2) == 0 {
			return []*core.RegionInfo{right, left}
		}
		return []*core.RegionInfo{left, right}
	}
	return []*core.RegionInfo{cur.Clone(m.flow()...)}
}

// pushOne applies one version at the current leader and hands it to RunServer. gmu must be held.
func (m *mesh) pushOne(ri *core.RegionInfo) bool {
	m.noteVersion(ri)
	m.ld.n.bc.CheckAndPutRegion(ri)
	if m.ld.n.bc.GetRegion(ri.GetID()) != ri {
		m.fail("the leader's own cache rejects a change derived from the ground truth (region %d)", ri.GetID())
		return false
	}
	m.termPush++
	m.ld.notifier <- ri
	m.r.Count("mesh_changes_pushed", 1)
	return true
}

// push applies n changes; returns the term-relative count after them.
func (m *mesh) push(n int, simple bool) uint64 {
	m.gmu.Lock()
	defer m.gmu.Unlock()
	for done := 0; done < n && !m.isFailed(); {
		for _, ri := range m.change(simple) {
			if !m.pushOne(ri) {
				break
			}
			done++
		}
	}
	return m.termPush
}

func (m *mesh) waitRecorded(k uint64) bool {
	base := m.termBase
	return m.waitFor("RunServer to record the pushed changes", func() bool { return m.ld.sy.VerifHistory().NextIndex() >= base+k })
}

// pushSentinel changes the sentinel region's flow to a fresh marker and waits until it is recorded.
func (m *mesh) pushSentinel() (uint64, bool) {
	m.gmu.Lock()
	cur := m.truth[m.sentinel]
	opts := m.flow()
	marker := 1000000 + m.tick
	if cur.GetLeader() == nil {
		opts = append(opts, core.WithLeader(cur.GetPeers()[0]))
	}
	ok := m.pushOne(cur.Clone(opts...))
	k := m.termPush
	m.gmu.Unlock()
	return marker, ok && m.waitRecorded(k)
}

// ---- terms ----

func (m *mesh) startSync(f *member) {
	f.n.leader = m.ld.n.member
	m.mu.Lock()
	f.startGen++
	m.mu.Unlock()
	f.following = true
	f.sy.StartSyncWithLeader(m.ld.addr)
}

func (m *mesh) stopSync(fs ...*member) {
	var wg sync.WaitGroup
	for _, f := range fs {
		if f.following {
			f.following = false
			wg.Add(1)
			go func(f *member) { defer wg.Done(); f.sy.StopSyncWithLeader() }(f)
		}
	}
	wg.Wait()
}

// lead makes mb the leader of a new term (its RunServer starts; nobody follows yet).
func (m *mesh) lead(mb *member) {
	if m.ld != nil && m.ld.quit != nil {
		close(m.ld.quit)
		m.ld.quit = nil
	}
	m.ld = mb
	// a leader's cache evolves by the changes it is given, not by what was once sent to it
	mb.exp = map[uint64]*expect{}
	mb.notifier = make(chan *core.RegionInfo, 10000)
	mb.quit = make(chan struct{})
	m.termBase = mb.sy.VerifHistory().NextIndex()
	m.termPush = 0
	go mb.sy.RunServer(mb.notifier, mb.quit)
	m.r.Count("mesh_terms", 1)
}

// elect moves leadership: everybody stops following, the old RunServer stops, the new one starts,
// the given members follow the new leader.
func (m *mesh) elect(mb *member, followers ...*member) {
	m.stopSync(m.ms...)
	m.lead(mb)
	for _, f := range followers {
		m.startSync(f)
	}
}

// answered: the follower's newest stream belongs to its latest StartSyncWithLeader, is alive and the
// leader has finished answering its request (the second Recv is only called after bindStream).
func (m *mesh) answered(f *member) bool {
	m.mu.Lock()
	st := f.cur
	gen := f.startGen
	m.mu.Unlock()
	return st != nil && st.gen == gen && st.ld == m.ld && atomic.LoadInt32(&st.finished) == 0 && atomic.LoadInt32(&st.recvCalls) >= 2
}

// ---- checkpoint: quiesce, absorb the captured messages, compare ----

func (c *mcap) decode() *pdpb.SyncRegionResponse {
	if c.msg == nil && c.bytes != nil {
		c.msg = &pdpb.SyncRegionResponse{}
		if err := c.msg.Unmarshal(c.bytes); err != nil {
			c.msg = nil
		}
	}
	return c.msg
}

func (m *mesh) checkpoint(label string, fs ...*member) bool {
	if m.isFailed() {
		return false
	}
	for _, f := range fs {
		f := f
		if !m.waitFor("the leader to answer "+f.name+"'s request", func() bool { return m.answered(f) }) {
			return false
		}
	}
	// barrier: five sentinel changes s1..s5, each pushed after the previous one was recorded. RunServer
	// is one goroutine (record a batch, broadcast it, next batch), so s(k+2) is never in s(k)'s batch
	// and the broadcast of s(k)'s batch has returned when s(k+2) is recorded: after s5 the messages
	// holding s1 and s3 have been captured on every bound stream, and s3's message comes after s1's.
	var markers [5]uint64
	ok := true
	for i := 0; ok && i < 5; i++ {
		markers[i], ok = m.pushSentinel()
	}
	if !ok {
		return false
	}
	holds := func(c *mcap, marker uint64) bool {
		if msg := c.decode(); msg != nil {
			for i, meta := range msg.GetRegions() {
				if meta.GetId() == m.sentinel && i < len(msg.GetRegionStats()) && msg.GetRegionStats()[i].GetBytesWritten() == marker {
					return true
				}
			}
		}
		return false
	}
	for _, f := range fs {
		f := f
		m.mu.Lock()
		st := f.cur
		var last, m1, m3 *mcap
		for _, c := range m.caps {
			if c.st != st || c.err != nil {
				continue
			}
			last = c
			if holds(c, markers[0]) {
				m1 = c
			}
			if holds(c, markers[2]) {
				m3 = c
			}
		}
		m.mu.Unlock()
		if m1 != nil && m3 != nil {
			// the follower has begun the message holding s3 (its index is at or beyond that message's
			// start index: it is reset to a message's start index on any mismatch, and never exceeds
			// the leader's), so everything up to s1 is applied;
			// this does not depend on the follower's cache nor on its saves succeeding
			msg := m3.decode()
			if !m.waitFor(f.name+" to reach the message after the sentinel", func() bool {
				n := f.sy.VerifHistory().NextIndex()
				return n >= msg.GetStartIndex() && n <= m.ld.sy.VerifHistory().NextIndex()
			}) {
				return false
			}
			continue
		}
		// the stream is not (or no longer) bound at the leader: nothing more is sent on it
		m.r.Count("mesh_checkpoints_follower_not_bound", 1)
		if last != nil {
			msg := last.decode()
			if !m.waitFor(f.name+" to apply the last message sent on its stream", func() bool {
				return f.sy.VerifHistory().NextIndex() == msg.GetStartIndex()+uint64(len(msg.GetRegions()))
			}) {
				return false
			}
		}
	}
	m.absorb(fs)
	for _, f := range fs {
		m.compare(label, f)
	}
	m.checks++
	m.r.Eval(1)
	m.r.Count("mesh_checkpoints_"+m.fam, 1)
	m.r.Distinct(fmt.Sprintf("mesh|%s|%v|%d|%s", m.fam, m.desc["variant"], m.checks, label))
	return !m.isFailed()
}

func overlap(a, b *metapb.Region) bool {
	// [a.start, a.end) and [b.start, b.end), empty end = +inf
	if len(a.GetEndKey()) > 0 && bytes.Compare(a.GetEndKey(), b.GetStartKey()) <= 0 {
		return false
	}
	if len(b.GetEndKey()) > 0 && bytes.Compare(b.GetEndKey(), a.GetStartKey()) <= 0 {
		return false
	}
	return true
}

func sameRange(a, b *metapb.Region) bool {
	return bytes.Equal(a.GetStartKey(), b.GetStartKey()) && bytes.Equal(a.GetEndKey(), b.GetEndKey())
}

func statEq(a *pdpb.RegionStat, ri *core.RegionInfo) bool {
	return a.GetBytesWritten() == ri.GetBytesWritten() && a.GetKeysWritten() == ri.GetKeysWritten() && a.GetBytesRead() == ri.GetBytesRead() && a.GetKeysRead() == ri.GetKeysRead()
}

// absorb judges the messages captured since the last call on the wire and turns them into
// expectations for the follower they were sent to.
func (m *mesh) absorb(confirmed []*member) {
	m.mu.Lock()
	caps := append([]*mcap(nil), m.caps[m.absorbed:]...)
	m.absorbed = len(m.caps)
	errs := make([]error, len(caps))
	curOf := map[string]*mstream{}
	for i, c := range caps {
		errs[i] = c.err
	}
	for _, mb := range confirmed {
		curOf[mb.name] = mb.cur
	}
	m.mu.Unlock()
	m.gmu.Lock()
	defer m.gmu.Unlock()
	r := m.r
	for ci, c := range caps {
		if errs[ci] != nil {
			r.Count("mesh_sends_failed", 1)
			continue
		}
		msg := c.decode()
		if msg == nil {
			m.fail("captured message does not decode")
			return
		}
		f := m.byName(c.st.follower)
		if f == nil || len(msg.GetRegions()) == 0 {
			continue
		}
		r.Count("mesh_wire_messages", 1)
		r.Count("mesh_wire_regions", int64(len(msg.GetRegions())))
		definitive := curOf[f.name] != nil && curOf[f.name] == c.st
		if !definitive {
			r.Count("mesh_messages_with_unconfirmed_delivery", 1)
		}
		nl, ns := len(msg.GetRegionLeaders()), len(msg.GetRegionStats())
		var badL, badS, badR bool
		for i, meta := range msg.GetRegions() {
			t := &triple{meta: meta, via: fmt.Sprintf("%s->%s stream %d message %d position %d", c.st.ld.name, f.name, c.st.id, c.ord, i)}
			if i < nl && msg.GetRegionLeaders()[i].GetId() != 0 {
				t.leader = msg.GetRegionLeaders()[i]
			}
			if i < ns {
				t.stat = msg.GetRegionStats()[i]
			}
			// wire: one version of this region
			var metaOK, leaderOK, allOK bool
			for _, v := range m.versions[meta.GetId()] {
				if !sameMeta(v.GetMeta(), meta) {
					continue
				}
				metaOK = true
				le := i < nl && peerEq(msg.GetRegionLeaders()[i], v.GetLeader())
				if le {
					leaderOK = true
				}
				if le && i < ns && statEq(t.stat, v) {
					allOK = true
					break
				}
			}
			wit := map[string]interface{}{"mesh": m.desc, "message": t.via, "start_index": msg.GetStartIndex(), "len_regions": len(msg.GetRegions()),
				"len_region_leaders": nl, "len_region_stats": ns, "region": core.RegionToHexMeta(meta).String(), "leader_on_wire": t.leader, "stat_on_wire": t.stat}
			switch {
			case !metaOK && !badR:
				badR = true
				r.Violation("wire-content:"+m.fam+":region-version-never-held", fmt.Sprintf("%s carries region %d in a state no member was ever given", t.via, meta.GetId()), wit)
			case metaOK && !leaderOK && !badL:
				badL = true
				r.Violation("wire-pairing:"+m.fam+":leaders", fmt.Sprintf("%s: RegionLeaders[%d] (%s) is not the leader of any version of region %d with this meta", t.via, i, peerStr(t.leader), meta.GetId()), wit)
			case metaOK && leaderOK && !allOK && !badS:
				badS = true
				r.Violation("wire-pairing:"+m.fam+":stats", fmt.Sprintf("%s: meta, leader and RegionStats[%d] of region %d do not belong to one version of the region", t.via, i, meta.GetId()), wit)
			}
			m.expectAt(f, t, definitive)
		}
	}
}

func newerEpoch(a, b *metapb.Region) bool { // a strictly newer than b in some component
	return a.GetRegionEpoch().GetVersion() > b.GetRegionEpoch().GetVersion() || a.GetRegionEpoch().GetConfVer() > b.GetRegionEpoch().GetConfVer()
}

func (m *mesh) expectAt(f *member, t *triple, definitive bool) {
	id := t.meta.GetId()
	old := f.exp[id]
	rangeKnown := false
	if old != nil {
		for _, a := range old.adm {
			if a != nil && newerEpoch(a.meta, t.meta) {
				// an older record sent again (catch-up from a log that is behind): whether the
				// follower keeps what it has is the region cache's business (C06), not judged here
				delete(f.exp, id)
				m.r.Count("skipped_ambiguous", 1)
				return
			}
			if a != nil && sameRange(a.meta, t.meta) {
				rangeKnown = true
			}
		}
	}
	if !rangeKnown || (old != nil && len(old.adm) > 1) {
		ambiguous := false
		for oid, e := range f.exp {
			if oid == id {
				continue
			}
			for _, a := range e.adm {
				if a != nil && overlap(a.meta, t.meta) {
					if a.meta.GetRegionEpoch().GetVersion() > t.meta.GetRegionEpoch().GetVersion() {
						ambiguous = true // the cache may refuse the older overlapping region (C06's business)
					}
					delete(f.exp, oid) // displaced (or refusing): not judged
					break
				}
			}
		}
		if ambiguous {
			delete(f.exp, id)
			m.r.Count("skipped_ambiguous", 1)
			return
		}
	}
	if definitive {
		f.exp[id] = &expect{adm: []*triple{t}}
		return
	}
	if old == nil {
		old = &expect{adm: []*triple{nil}}
	}
	f.exp[id] = &expect{adm: append(append([]*triple(nil), old.adm...), t)}
}

func tripleDiff(t *triple, g *core.RegionInfo) (string, string) {
	switch {
	case t == nil && g == nil:
		return "", ""
	case t == nil:
		return "presence", "held although never (certainly) sent"
	case g == nil:
		return "presence", "the follower does not hold the region"
	}
	exp := core.NewRegionInfo(t.meta, t.leader, core.SetWrittenBytes(t.stat.GetBytesWritten()), core.SetWrittenKeys(t.stat.GetKeysWritten()),
		core.SetReadBytes(t.stat.GetBytesRead()), core.SetReadKeys(t.stat.GetKeysRead()))
	return diffRegion(exp, g)
}

func (m *mesh) compare(label string, f *member) {
	r := m.r
	reported := map[string]bool{}
	for id, e := range f.exp {
		if id == m.sentinel {
			continue
		}
		g := f.n.bc.GetRegion(id)
		r.Count("mesh_follower_regions_compared", 1)
		if len(e.adm) > 1 {
			r.Count("mesh_follower_regions_with_several_admissible_states", 1)
		}
		field, detail := "", ""
		for k := len(e.adm) - 1; k >= 0; k-- {
			fl, d := tripleDiff(e.adm[k], g)
			if fl == "" {
				field = ""
				break
			}
			if field == "" {
				field, detail = fl, d
			}
		}
		if field == "" {
			if cur := m.truth[id]; cur != nil && g != nil {
				if fl, _ := diffRegion(cur, g); fl == "" {
					r.Count("mesh_follower_regions_equal_to_ground_truth", 1)
				}
			}
			continue
		}
		k := "follower-differs:" + m.fam + ":" + field
		if reported[k] {
			continue
		}
		reported[k] = true
		last := e.adm[len(e.adm)-1]
		wit := map[string]interface{}{"mesh": m.desc, "checkpoint": label, "follower": f.name, "leader": m.ld.name, "region_id": id, "difference": detail, "admissible_states": len(e.adm)}
		if last != nil {
			wit["last_sent"] = map[string]interface{}{"via": last.via, "meta": core.RegionToHexMeta(last.meta).String(), "leader": peerStr(last.leader), "stat": last.stat}
		}
		if g != nil {
			wit["follower_side"] = describe(g)
		}
		r.Violation(k, fmt.Sprintf("%s checkpoint %q: follower %s's region %d differs from the last version sent to it in %s: %s", m.fam, label, f.name, id, field, detail), wit)
	}
}

var errInjected = errors.New("verif: injected stream send error")

// ---- families ----

func (m *mesh) guard() {
	if p := recover(); p != nil {
		m.r.Violation("panic:"+m.fam, fmt.Sprintf("panic while driving the sync path: %v", p), map[string]interface{}{"mesh": m.desc})
	}
}

// famOverlap: a follower connects while changes keep arriving at the leader. gated: the leader's
// handler is held at chosen Sends while a burst is recorded by RunServer; free: a pump goroutine.
func famOverlap(r *ev.Run, seed int64, branch string, n int, gated bool) *mesh {
	m, err := newMesh(r, "overlap", seed, 2, map[string]interface{}{"variant": fmt.Sprintf("%s/%d/gated=%v", branch, n, gated)})
	if err != nil {
		r.Inconclusive("mesh set-up: %v", err)
		return nil
	}
	defer m.guard()
	a, b := m.ms[0], m.ms[1]
	if branch == "full" {
		a.sy.VerifHistory().ResetWithIndex(50000 + uint64(m.rng.Intn(1000)))
		m.lead(a)
		m.populate(n, false)
	} else {
		m.lead(a)
		// the log holds everything from index 0 on: every region arrived through the notifier
		m.populate(n, true)
		if !m.waitRecorded(m.termPush) {
			return m
		}
	}
	var stopPump chan struct{}
	var pumpWG sync.WaitGroup
	if gated {
		at := map[int]bool{1: true, 2: true, 3: true, 7: true}
		m.mu.Lock()
		m.sendHook = func(st *mstream, ord int, msg *pdpb.SyncRegionResponse) (error, bool) {
			if st.follower == "B" && atomic.LoadInt32(&st.recvCalls) < 2 && at[ord] {
				k := m.push(25, true)
				m.waitRecorded(k)
				m.r.Count("overlap_bursts_recorded_inside_a_sync_answer", 1)
			}
			return nil, true
		}
		m.mu.Unlock()
	} else {
		stopPump = make(chan struct{})
		pumpWG.Add(1)
		go func() {
			defer pumpWG.Done()
			for {
				select {
				case <-stopPump:
					return
				default:
				}
				m.push(3, true)
				time.Sleep(200 * time.Microsecond)
			}
		}()
	}
	m.startSync(b)
	m.waitFor("the leader to answer B's request", func() bool { return m.answered(b) })
	if stopPump != nil {
		close(stopPump)
		pumpWG.Wait()
	}
	m.mu.Lock()
	m.sendHook = nil
	m.mu.Unlock()
	if m.checkpoint("after connecting under load", b) {
		k := m.push(40, false)
		m.waitRecorded(k)
		m.checkpoint("after a quiet burst", b)
	}
	return m
}

// famChurn: the follower disconnects and reconnects repeatedly while the leader keeps broadcasting
// (bindStream / broadcast / delete-failed-stream against each other).
func famChurn(r *ev.Run, seed int64, cycles int) *mesh {
	m, err := newMesh(r, "churn", seed, 2, map[string]interface{}{"variant": fmt.Sprintf("cycles=%d", cycles)})
	if err != nil {
		r.Inconclusive("mesh set-up: %v", err)
		return nil
	}
	defer m.guard()
	a, b := m.ms[0], m.ms[1]
	a.sy.VerifHistory().ResetWithIndex(70000)
	m.lead(a)
	m.populate(150, false)
	m.startSync(b)
	if !m.checkpoint("initial", b) {
		return m
	}
	stop := make(chan struct{})
	var wg sync.WaitGroup
	wg.Add(1)
	go func() {
		defer wg.Done()
		for {
			select {
			case <-stop:
				return
			default:
			}
			m.push(2, false)
			time.Sleep(300 * time.Microsecond)
		}
	}()
	for c := 0; c < cycles; c++ {
		time.Sleep(time.Duration(5+m.rng.Intn(30)) * time.Millisecond)
		m.stopSync(b)
		m.startSync(b)
		m.r.Count("churn_reconnects_under_broadcast", 1)
	}
	m.waitFor("the leader to answer B's request", func() bool { return m.answered(b) })
	time.Sleep(10 * time.Millisecond)
	close(stop)
	wg.Wait()
	m.waitRecorded(m.termPush)
	m.checkpoint("after churn", b)
	return m
}

// famTerms: three long-lived members, leadership moves A -> B -> A (-> C ...); C follows all the
// time, once across a term it slept through.
func famTerms(r *ev.Run, seed int64, n, extra int) *mesh {
	m, err := newMesh(r, "leader-changes", seed, 3, map[string]interface{}{"variant": fmt.Sprintf("n=%d extra=%d", n, extra)})
	if err != nil {
		r.Inconclusive("mesh set-up: %v", err)
		return nil
	}
	defer m.guard()
	a, b, c := m.ms[0], m.ms[1], m.ms[2]
	a.sy.VerifHistory().ResetWithIndex(60000 + uint64(m.rng.Intn(1000)))
	m.lead(a)
	m.populate(n, false)
	m.startSync(b)
	m.startSync(c)
	step := func(k int, label string, fs ...*member) bool {
		cnt := m.push(k, false)
		return m.waitRecorded(cnt) && m.checkpoint(label, fs...)
	}
	if !step(60, "term 1 (A leads)", b, c) {
		return m
	}
	m.elect(b, a, c)
	if !step(130, "term 2 (B, an ex-follower, leads)", a, c) {
		return m
	}
	// C sleeps, changes go on, leadership moves back to A, C wakes up under A
	m.stopSync(c)
	if !step(40, "term 2, C offline", a) {
		return m
	}
	m.elect(a, b, c)
	if !step(25, "term 3 (A leads again, C catches up from A's log)", b, c) {
		return m
	}
	members := []*member{a, b, c}
	for t := 0; t < extra; t++ {
		ld := members[m.rng.Intn(3)]
		var fs []*member
		for _, x := range members {
			if x != ld {
				fs = append(fs, x)
			}
		}
		m.elect(ld, fs...)
		if !step(10+m.rng.Intn(150), fmt.Sprintf("term %d (%s leads)", 4+t, ld.name), fs...) {
			return m
		}
	}
	return m
}

// famSendErrors: stream.Send fails inside a full synchronisation, inside a catch-up (the follower
// retries by itself) and inside a broadcast (acknowledgement lost: the leader drops the stream).
func famSendErrors(r *ev.Run, seed int64) *mesh {
	m, err := newMesh(r, "send-errors", seed, 2, map[string]interface{}{"variant": "full:batch2 / catch-up:first try / broadcast:lost-ack"})
	if err != nil {
		r.Inconclusive("mesh set-up: %v", err)
		return nil
	}
	defer m.guard()
	a, b := m.ms[0], m.ms[1]
	a.sy.VerifHistory().ResetWithIndex(80000)
	m.lead(a)
	m.populate(250, false)
	var injected int32
	setHook := func(match func(st *mstream, ord int) bool, deliver bool) {
		atomic.StoreInt32(&injected, 0)
		m.mu.Lock()
		m.sendHook = func(st *mstream, ord int, msg *pdpb.SyncRegionResponse) (error, bool) {
			if len(msg.GetRegions()) > 0 && match(st, ord) && atomic.CompareAndSwapInt32(&injected, 0, 1) {
				m.r.Count("send_errors_injected", 1)
				return errInjected, deliver
			}
			return nil, true
		}
		m.mu.Unlock()
	}
	setHook(func(st *mstream, ord int) bool { return ord == 2 }, false)
	m.startSync(b)
	if !m.checkpoint("full sync with the second batch failing", b) {
		return m
	}
	k := m.push(30, false)
	if !m.waitRecorded(k) || !m.checkpoint("live", b) {
		return m
	}
	m.stopSync(b)
	k = m.push(50, false)
	if !m.waitRecorded(k) {
		return m
	}
	setHook(func(st *mstream, ord int) bool { return ord == 1 && atomic.LoadInt32(&st.recvCalls) < 2 }, false)
	m.startSync(b) // first catch-up fails, pd's client loop retries after a second
	if !m.checkpoint("catch-up whose first attempt failed", b) {
		return m
	}
	setHook(func(st *mstream, ord int) bool { return atomic.LoadInt32(&st.recvCalls) >= 2 }, true)
	k = m.push(20, false)
	if !m.waitRecorded(k) {
		return m
	}
	k = m.push(20, false)
	if !m.waitRecorded(k) || !m.checkpoint("broadcast acknowledged with an error (stream dropped by the leader)", b) {
		return m
	}
	m.mu.Lock()
	m.sendHook = nil
	m.mu.Unlock()
	m.stopSync(b)
	m.startSync(b)
	m.checkpoint("reconnect after the dropped stream", b)
	return m
}

// famSaveFailures: the follower's region storage starts failing in the middle of a batch.
func famSaveFailures(r *ev.Run, seed int64) *mesh {
	m, err := newMesh(r, "follower-save-failures", seed, 2, map[string]interface{}{"variant": "leveldb closed under the follower"})
	if err != nil {
		r.Inconclusive("mesh set-up: %v", err)
		return nil
	}
	defer m.guard()
	a, b := m.ms[0], m.ms[1]
	a.sy.VerifHistory().ResetWithIndex(90000)
	m.lead(a)
	m.populate(130, false)
	m.startSync(b)
	if !m.checkpoint("healthy", b) {
		return m
	}
	// from now on every flush of the follower's region storage fails: SaveRegion succeeds while the
	// in-memory batch fills up and fails from the flush point on, i.e. in the middle of a message
	b.n.rs.LeveldbKV.Close()
	for _, burst := range []int{60, 150, 101} {
		k := m.push(burst, false)
		if !m.waitRecorded(k) || !m.checkpoint(fmt.Sprintf("burst of %d with failing saves", burst), b) {
			return m
		}
	}
	if err := b.n.storage.SaveRegion(&metapb.Region{Id: 1 << 60}); err != nil {
		m.r.Count("save_failures_confirmed_by_probe", 1)
	} else {
		m.fail("the follower's region storage did not fail although its LevelDB is closed")
	}
	return m
}

// famRestart: the follower process restarts: new syncer and empty cache on the same region storage,
// regions loaded back from it, log index taken from the persisted value.
func famRestart(r *ev.Run, seed int64, n int, ctxFirst bool, wrap int) *mesh {
	m, err := newMesh(r, "follower-restart", seed, 2, map[string]interface{}{"variant": fmt.Sprintf("n=%d server-context-cancelled-first=%v log-wrapped-to-persisted-index%+d", n, ctxFirst, wrap)})
	if err != nil {
		r.Inconclusive("mesh set-up: %v", err)
		return nil
	}
	defer m.guard()
	a, b := m.ms[0], m.ms[1]
	a.sy.VerifHistory().ResetWithIndex(40000)
	m.lead(a)
	m.populate(n, false)
	m.startSync(b)
	k := m.push(130, false)
	if !m.waitRecorded(k) || !m.checkpoint("before the restart", b) {
		return m
	}
	rounds := 2
	if wrap != noWrap {
		rounds = 1
	}
	for round := 0; round < rounds; round++ {
		old := b.n
		if ctxFirst {
			// pd-server cancels the server context before it closes the server: the sync loop sees a
			// dead context while it has not been told to stop
			old.cancel()
			k = m.push(7, false)
			m.waitRecorded(k)
		}
		m.stopSync(b)
		b.sy.StopSyncWithLeader() // a second stop on the stopped syncer must be harmless
		k = m.push(40+round*170, false)
		if !m.waitRecorded(k) {
			return m
		}
		before := b.sy.VerifHistory().NextIndex()
		old.cancel()
		old.rs.Close()
		if ctxFirst {
			old.rs.Close() // double close
		}
		nn, err := reopenNode(old)
		if err != nil {
			m.fail("reopen the follower's region storage: %v", err)
			return m
		}
		b.n = nn
		b.sy = syncer.NewRegionSyncer(nn)
		b.exp = map[uint64]*expect{} // a new incarnation: only what is sent to it from now on is judged
		after := b.sy.VerifHistory().NextIndex()
		m.r.Count("restart_follower_index_behind_by", int64(before-after))
		if before > flushInterval && after < before-flushInterval {
			m.r.Violation("history-buffer:restart-next-index-regresses:follower-restart", fmt.Sprintf("follower's next index was %d, after its restart on the same region storage %d", before, after), map[string]interface{}{"mesh": m.desc})
		}
		if wrap != noWrap {
			// the leader's log (capacity 10000) wraps while the follower is down: its first index ends
			// up at the follower's persisted index + wrap
			target := after + uint64(wrap) + leaderLogCapacity
			cur := a.sy.VerifHistory().NextIndex()
			if target <= cur+10 {
				m.fail("harness: cannot place the log window (leader %d, follower persisted %d)", cur, after)
				return m
			}
			k = m.push(int(target-cur)-6, false)
			if !m.waitRecorded(k) {
				return m
			}
			cur = a.sy.VerifHistory().NextIndex()
			k = m.push(int(target-cur), true) // exact
			if !m.waitRecorded(k) {
				return m
			}
			if got := a.sy.VerifHistory().FirstIndex(); got != after+uint64(wrap) {
				m.fail("harness: leader's first index is %d, wanted %d", got, after+uint64(wrap))
				return m
			}
			m.r.Count("restart_with_leader_log_wrapped_to_persisted_index", 1)
		}
		m.startSync(b)
		if !m.checkpoint(fmt.Sprintf("after restart %d", round+1), b) {
			return m
		}
		m.r.Count("restart_follower_regions_in_cache", int64(b.n.bc.GetRegionCount()))
		k = m.push(60, false)
		if !m.waitRecorded(k) || !m.checkpoint(fmt.Sprintf("live after restart %d", round+1), b) {
			return m
		}
	}
	return m
}

const noWrap = -1000

// famThreeParties: RunServer keeps broadcasting while two followers bind at once; then one follower
// rebinds while a broadcast to the other one fails and its stream is cleaned up; then that one
// comes back while the first stays bound.
func famThreeParties(r *ev.Run, seed int64, rounds int) *mesh {
	m, err := newMesh(r, "three-parties", seed, 3, map[string]interface{}{"variant": fmt.Sprintf("rounds=%d", rounds)})
	if err != nil {
		r.Inconclusive("mesh set-up: %v", err)
		return nil
	}
	defer m.guard()
	a, b, c := m.ms[0], m.ms[1], m.ms[2]
	a.sy.VerifHistory().ResetWithIndex(20000)
	m.lead(a)
	m.populate(220, false)
	stop := make(chan struct{})
	var wg sync.WaitGroup
	wg.Add(1)
	go func() {
		defer wg.Done()
		for {
			select {
			case <-stop:
				return
			default:
			}
			m.push(2, false)
			time.Sleep(300 * time.Microsecond)
		}
	}()
	both := func(f func(x *member)) {
		var w2 sync.WaitGroup
		for _, x := range []*member{b, c} {
			w2.Add(1)
			go func(x *member) { defer w2.Done(); f(x) }(x)
		}
		w2.Wait()
	}
	both(func(x *member) { m.startSync(x) })
	m.waitFor("both followers to be answered", func() bool { return m.answered(b) && m.answered(c) })
	for i := 0; i < rounds && !m.isFailed(); i++ {
		// a broadcast to B is acknowledged with an error: the leader drops B's stream, while C rebinds
		var once int32
		m.mu.Lock()
		m.sendHook = func(st *mstream, ord int, msg *pdpb.SyncRegionResponse) (error, bool) {
			if st.follower == "B" && atomic.LoadInt32(&st.recvCalls) >= 2 && len(msg.GetRegions()) > 0 && atomic.CompareAndSwapInt32(&once, 0, 1) {
				m.r.Count("send_errors_injected", 1)
				return errInjected, true
			}
			return nil, true
		}
		m.mu.Unlock()
		m.stopSync(c)
		m.startSync(c)
		m.mu.Lock()
		m.sendHook = nil
		m.mu.Unlock()
		// B comes back (its stream may have been dropped) while C binds / stays bound
		both(func(x *member) {
			if x == b {
				m.stopSync(b)
				m.startSync(b)
			}
		})
		m.waitFor("both followers to be answered", func() bool { return m.answered(b) && m.answered(c) })
		m.r.Count("three_party_rounds", 1)
	}
	close(stop)
	wg.Wait()
	m.waitRecorded(m.termPush)
	m.checkpoint("after the three-party rounds", b, c)
	return m
}

// famLeaderRestart: the follower, fully synced at index N, stays alive; the leader process restarts
// on the same region storage and comes up at its persisted index P (N-P = d, the index is persisted
// every 100 records), i.e. it re-uses index numbers the follower already holds for other records.
// The follower reconnects (its index is outside the new log: nothing is sent, the stream is bound)
// and the first thing it receives is ONE batch of `batch` regions (the notifier is filled before
// RunServer starts), unless heal: then a one-region batch comes first.
func famLeaderRestart(r *ev.Run, seed int64, d, batch int, heal bool) *mesh {
	m, err := newMesh(r, "leader-restart", seed, 2, map[string]interface{}{"variant": fmt.Sprintf("N-P=%d batch=%d small-batch-first=%v", d, batch, heal)})
	if err != nil {
		r.Inconclusive("mesh set-up: %v", err)
		return nil
	}
	defer m.guard()
	a, b := m.ms[0], m.ms[1]
	a.sy.VerifHistory().ResetWithIndex(30000)
	m.lead(a)
	m.populate(40, false)
	m.startSync(b)
	// the checkpoint adds 5 sentinel records: records since the reset = x + 5 = 100*q + d
	x := 100 + d - 5
	if x < 100 {
		x += 100
	}
	k := m.push(x, true)
	if !m.waitRecorded(k) || !m.checkpoint("before the leader restarts", b) {
		return m
	}
	if !m.waitFor("B to hold the leader's index", func() bool { return b.sy.VerifHistory().NextIndex() == a.sy.VerifHistory().NextIndex() }) {
		return m
	}
	n := b.sy.VerifHistory().NextIndex()
	// leader restart: process gone (RunServer, gRPC server, cache), same region storage
	m.stopSync(b)
	close(a.quit)
	a.quit = nil
	a.gs.Stop()
	old := a.n
	old.cancel()
	old.rs.Close()
	lis, err := net.Listen("tcp", "127.0.0.1:0")
	if err != nil {
		m.fail("listen: %v", err)
		return m
	}
	a.addr = "http://" + lis.Addr().String()
	nn, err := reopenNode(old)
	if err != nil {
		lis.Close()
		m.fail("reopen the leader's region storage: %v", err)
		return m
	}
	nn.member.ClientUrls, nn.member.PeerUrls = []string{a.addr}, []string{a.addr}
	a.n = nn
	a.sy = syncer.NewRegionSyncer(nn)
	m.serve(a, lis)
	p := a.sy.VerifHistory().NextIndex()
	if n-p != uint64(d) {
		m.fail("harness expected the restarted leader %d behind the follower, it is %d behind (follower %d, leader %d)", d, n-p, n, p)
		return m
	}
	m.r.Count("leader_restarts_with_lower_index", 1)
	// leader again, RunServer not running yet
	m.ld = a
	a.exp = map[uint64]*expect{}
	a.notifier = make(chan *core.RegionInfo, 10000)
	a.quit = make(chan struct{})
	m.termBase, m.termPush = p, 0
	m.r.Count("mesh_terms", 1)
	m.startSync(b)
	if !m.waitFor("the restarted leader to answer B's request", func() bool { return m.answered(b) }) {
		return m
	}
	started := false
	if heal {
		started = true
		go a.sy.RunServer(a.notifier, a.quit)
		if !m.waitRecorded(m.push(1, true)) {
			return m
		}
	}
	k = m.push(batch, true) // all in the channel before RunServer looks at it: one message
	if !started {
		go a.sy.RunServer(a.notifier, a.quit)
	}
	if m.waitRecorded(k) {
		m.checkpoint("after the first batch from the restarted leader", b)
	}
	// evidence: was the batch really one message starting at the restarted leader's index?
	m.mu.Lock()
	skip := 0
	if heal {
		skip = 1
	}
	for _, c := range m.caps {
		if c.st == b.cur && c.err == nil {
			if msg := c.decode(); msg != nil && len(msg.GetRegions()) > 0 {
				if skip > 0 {
					skip--
					continue
				}
				if len(msg.GetRegions()) == batch {
					m.r.Count("leader_restart_first_batch_in_one_message", 1)
				} else {
					m.r.Count("leader_restart_first_batch_split", 1)
				}
				break
			}
		}
	}
	m.mu.Unlock()
	return m
}

func reopenNode(o *node) (*node, error) {
	n, err := newNodeAt(o.name, o.clusterID, o.member.ClientUrls[0], o.dir)
	if err != nil {
		return nil, err
	}
	n.member, n.leader = o.member, o.leader
	return n, nil
}

func meshPhase(r *ev.Run, rng *rand.Rand) {
	type job func() *mesh
	var jobs []job
	s := func() int64 { return rng.Int63() }
	if !r.Thorough() {
		s1, s2, s3, s4, s5, s6, s7, s8 := s(), s(), s(), s(), s(), s(), s(), s()
		jobs = []job{
			func() *mesh { return famOverlap(r, s1, "full", 1000, true) },
			func() *mesh { return famOverlap(r, s2, "incr", 250, true) },
			func() *mesh { return famOverlap(r, s3, "full", 2500, false) },
			func() *mesh { return famChurn(r, s4, 2) },
			func() *mesh { return famTerms(r, s5, 150, 0) },
			func() *mesh { return famSendErrors(r, s6) },
			func() *mesh { return famSaveFailures(r, s7) },
			func() *mesh { return famRestart(r, s8, 250, false, noWrap) },
		}
		s9, s10, s11 := s(), s(), s()
		jobs = append(jobs,
			func() *mesh { return famRestart(r, s9, 60, true, noWrap) },
			func() *mesh { return famRestart(r, s10, 60, false, 0) },
			func() *mesh { return famThreeParties(r, s11, 1) })
		for _, c := range [][3]int{{37, 38, 0}, {99, 101, 0}, {1, 2, 0}, {50, 50, 0}, {37, 101, 1}} {
			c, sd := c, s()
			jobs = append(jobs, func() *mesh { return famLeaderRestart(r, sd, c[0], c[1], c[2] == 1) })
		}
	} else {
		for _, n := range []int{101, 250, 1000, 2500} {
			for _, br := range []string{"full", "incr"} {
				for _, g := range []bool{true, false} {
					n, br, g, sd := n, br, g, s()
					jobs = append(jobs, func() *mesh { return famOverlap(r, sd, br, n, g) })
				}
			}
		}
		for i := 0; i < 4; i++ {
			sd, sd2, sd3, sd4, sd5 := s(), s(), s(), s(), s()
			i := i
			jobs = append(jobs,
				func() *mesh { return famChurn(r, sd, 3+i) },
				func() *mesh { return famTerms(r, sd2, 100+i*70, 2+i) },
				func() *mesh { return famSendErrors(r, sd3) },
				func() *mesh { return famSaveFailures(r, sd4) },
				func() *mesh { return famRestart(r, sd5, 99+i*101, i%2 == 1, noWrap) })
		}
	}
	if r.Thorough() {
		for _, w := range []int{-1, 0, 1} {
			w, sd, sd2 := w, s(), s()
			jobs = append(jobs, func() *mesh { return famRestart(r, sd, 80, w == 1, w) }, func() *mesh { return famThreeParties(r, sd2, 2+w) })
		}
		for _, d := range []int{1, 37, 50, 99} {
			for _, bsz := range []int{d - 1, d, d + 1, 101} {
				for _, heal := range []bool{false, true} {
					if bsz < 1 || (heal && bsz != d+1) {
						continue
					}
					d, bsz, heal, sd := d, bsz, heal, s()
					jobs = append(jobs, func() *mesh { return famLeaderRestart(r, sd, d, bsz, heal) })
				}
			}
		}
	}
	var tear sync.WaitGroup
	for i, j := range jobs {
		if r.Shards > 1 && i%r.Shards != r.Shard {
			continue
		}
		m := j()
		if m != nil {
			tear.Add(1)
			go func() { defer tear.Done(); m.close() }()
		}
	}
	tear.Wait()
}
