// Part (b): the real sync path, real code on both sides, over a loopback gRPC connection.
package main

import (
	"bytes"
	"context"
	"fmt"
	"io/ioutil"
	"math"
	"math/rand"
	"net"
	"os"
	"sort"
	"sync"
	"sync/atomic"
	"time"

	"github.com/pingcap/kvproto/pkg/metapb"
	"github.com/pingcap/kvproto/pkg/pdpb"
	"github.com/tikv/pd/pkg/grpcutil"
	"github.com/tikv/pd/server/core"
	"github.com/tikv/pd/server/kv"
	syncer "github.com/tikv/pd/server/region_syncer"
	"google.golang.org/grpc"
	"verif/harness/lib/ev"
)

const (
	leaderLogCapacity = 10000 // defaultHistoryBufferSize of the syncer
	batchBound        = 100   // "full sync in batches of 100" (anchored mechanism, maxSyncRegionBatchSize)
	pollWatchdog      = 90 * time.Second
)

// ---- the two implementations of syncer.Server ----

type node struct {
	name      string
	clusterID uint64
	ctx       context.Context
	cancel    context.CancelFunc
	member    *pdpb.Member
	leader    *pdpb.Member
	dir       string
	rs        *core.RegionStorage
	storage   *core.Storage
	bc        *core.BasicCluster
	regions   func() []*core.RegionInfo
}

func (n *node) LoopContext() context.Context { return n.ctx }
func (n *node) ClusterID() uint64            { return n.clusterID }
func (n *node) GetMemberInfo() *pdpb.Member {
	m := *n.member
	m.ClientUrls = append([]string(nil), n.member.ClientUrls...)
	m.PeerUrls = append([]string(nil), n.member.PeerUrls...)
	return &m
}
func (n *node) GetLeader() *pdpb.Member           { return n.leader }
func (n *node) GetStorage() *core.Storage         { return n.storage }
func (n *node) Name() string                      { return n.name }
func (n *node) GetTLSConfig() *grpcutil.TLSConfig { return &grpcutil.TLSConfig{} }
func (n *node) GetBasicCluster() *core.BasicCluster {
	return n.bc
}
func (n *node) GetRegions() []*core.RegionInfo {
	if n.regions != nil {
		return n.regions()
	}
	return n.bc.GetRegions()
}

func newNode(name string, clusterID uint64, url string) (*node, error) {
	dir, err := ioutil.TempDir("", "verif_c16_"+name)
	if err != nil {
		return nil, err
	}
	n, err := newNodeAt(name, clusterID, url, dir)
	if err != nil {
		os.RemoveAll(dir)
	}
	return n, err
}

// newNodeAt opens (or re-opens) the region storage in dir.
func newNodeAt(name string, clusterID uint64, url, dir string) (*node, error) {
	ctx, cancel := context.WithCancel(context.Background())
	rs, err := core.NewRegionStorage(ctx, dir, nil)
	if err != nil {
		cancel()
		return nil, err
	}
	n := &node{name: name, clusterID: clusterID, ctx: ctx, cancel: cancel, dir: dir, rs: rs,
		member:  &pdpb.Member{Name: name, MemberId: uint64(len(name)) + 100, ClientUrls: []string{url}, PeerUrls: []string{url}},
		storage: core.NewStorage(kv.NewMemoryKV(), core.WithRegionStorage(rs)),
		bc:      core.NewBasicCluster(),
	}
	// the default configuration (use-region-storage = true): region metas go to the region storage
	n.storage.SwitchToRegionStorage()
	return n, nil
}

func (n *node) close() {
	n.cancel()
	n.rs.Close()
	os.RemoveAll(n.dir)
}

// ---- wire capture ----

type capMsg struct {
	Stream int
	Phase  string
	Ord    int // 1-based ordinal among the data messages of its (stream, phase)
	Bytes  []byte
	Err    error
	msg    *pdpb.SyncRegionResponse
}

type wrapStream struct {
	pdpb.PD_SyncRegionsServer
	w         *world
	id        int
	recvCalls int32
	requested []uint64
	finished  int32
}

func (s *wrapStream) Recv() (*pdpb.SyncRegionRequest, error) {
	atomic.AddInt32(&s.recvCalls, 1)
	req, err := s.PD_SyncRegionsServer.Recv()
	if err == nil {
		s.w.mu.Lock()
		s.requested = append(s.requested, req.GetStartIndex())
		s.w.mu.Unlock()
	}
	return req, err
}

// Send serialises the message at send time (as gRPC does) and keeps the bytes.
func (s *wrapStream) Send(m *pdpb.SyncRegionResponse) error {
	b, merr := m.Marshal()
	c := &capMsg{Stream: s.id, Bytes: b}
	s.w.mu.Lock()
	c.Phase = s.w.phase
	s.w.caps = append(s.w.caps, c)
	s.w.mu.Unlock()
	err := s.PD_SyncRegionsServer.Send(m)
	if err == nil && merr != nil {
		err = merr
	}
	if err != nil {
		s.w.mu.Lock()
		c.Err = err
		s.w.mu.Unlock()
	}
	return err
}

type pdSvc struct {
	pdpb.PDServer // only SyncRegions is ever called
	w             *world
}

func (p *pdSvc) SyncRegions(stream pdpb.PD_SyncRegionsServer) error {
	w := p.w
	ws := &wrapStream{PD_SyncRegionsServer: stream, w: w}
	w.mu.Lock()
	ws.id = len(w.streams) + 1
	w.streams = append(w.streams, ws)
	w.mu.Unlock()
	err := w.ls.Sync(ws)
	atomic.StoreInt32(&ws.finished, 1)
	return err
}

// ---- scenario ----

type scenario struct {
	N          int    `json:"n"`
	Branch     string `json:"branch"`      // "full" | "incr"
	LeaderMode string `json:"leader_mode"` // "all" | "none" | "mixed"
	ZeroStats  bool   `json:"some_zero_stats"`
	Bursts     []int  `json:"live_bursts"`
	Reconnect  bool   `json:"reconnect"`
	Offline    int    `json:"offline_changes"`
	Odd        bool   `json:"huge_ids_prefix_keys"`
	OneField   bool   `json:"one_field_updates"`
	Seed       int64  `json:"scenario_seed"`
}

type sentInfo struct {
	Phase string
	Ord   int
	Pos   int
}

type world struct {
	r   *ev.Run
	sc  scenario
	rng *rand.Rand

	leader, follower *node
	ls, fs           *syncer.RegionSyncer
	notifier         chan *core.RegionInfo
	quit             chan struct{}
	gs               *grpc.Server
	addr             string

	mu      sync.Mutex
	phase   string
	caps    []*capMsg
	streams []*wrapStream

	order     []uint64 // order in which the leader hands out its regions (seeded)
	live      []uint64 // ids currently present at the leader
	histBase  uint64
	pushed    []*core.RegionInfo // records of the leader's history from histBase on
	sent      map[uint64]sentInfo
	judged    int // captures already judged
	nextID    uint64
	splitDone map[uint64]bool
	noSplit   bool
	inOrder   map[uint64]bool
	failed    bool
}

func key(i int) []byte {
	if i <= 0 {
		return []byte("")
	}
	return []byte(fmt.Sprintf("k%06d", i))
}

func (w *world) allocID() uint64 { w.nextID++; return w.nextID }

func (w *world) stats(id uint64, zero bool) []core.RegionCreateOption {
	if zero {
		return nil
	}
	return []core.RegionCreateOption{
		core.SetWrittenBytes(1000000 + id%1000003*7 + uint64(w.rng.Intn(5))),
		core.SetWrittenKeys(2000 + id%1000003*3 + uint64(w.rng.Intn(5))),
		core.SetReadBytes(3000000 + id%1000003*11 + uint64(w.rng.Intn(5))),
		core.SetReadKeys(4000 + id%1000003*5 + uint64(w.rng.Intn(5))),
	}
}

// makeRegions builds a partition of the key space into n regions (3 peers each, globally unique
// peer ids), leaders and flow statistics per the scenario.
func (w *world) makeRegions(n int) []*core.RegionInfo {
	out := make([]*core.RegionInfo, 0, n)
	keyOf := key
	if w.sc.Odd {
		// ids at the top of the 64-bit range (2^64-1 included), keys that are prefixes of each other
		// (job-1, job-10, job-100, a, a\x00, aa ...), first start key and last end key empty
		w.nextID = math.MaxUint64 - uint64(4*n+16)
		ks := [][]byte{[]byte("a"), []byte("a\x00"), []byte("a\x00\x00"), []byte("aa"), []byte("aaa"), []byte("aa\xff")}
		for i := 0; len(ks) < n+1; i++ {
			ks = append(ks, []byte(fmt.Sprintf("job-%d", i)))
		}
		sort.Slice(ks, func(a, b int) bool { return bytes.Compare(ks[a], ks[b]) < 0 })
		keyOf = func(i int) []byte {
			if i <= 0 {
				return []byte("")
			}
			return ks[i-1]
		}
	}
	for i := 0; i < n; i++ {
		id := w.allocID()
		if w.sc.Odd && i == n-1 {
			id = math.MaxUint64
		}
		stores := w.rng.Perm(9)
		var peers []*metapb.Peer
		for k := 0; k < 3; k++ {
			peers = append(peers, &metapb.Peer{Id: w.allocID(), StoreId: uint64(stores[k] + 1)})
		}
		end := keyOf(i + 1)
		if i == n-1 {
			end = []byte("")
		}
		meta := &metapb.Region{Id: id, StartKey: keyOf(i), EndKey: end, Peers: peers,
			RegionEpoch: &metapb.RegionEpoch{ConfVer: uint64(1 + w.rng.Intn(4)), Version: uint64(1 + w.rng.Intn(4))}}
		var leader *metapb.Peer
		switch w.sc.LeaderMode {
		case "all":
			leader = peers[w.rng.Intn(3)]
		case "mixed":
			if w.rng.Intn(4) != 0 {
				leader = peers[w.rng.Intn(3)]
			}
		}
		zero := w.sc.ZeroStats && w.rng.Intn(3) == 0
		out = append(out, core.NewRegionInfo(meta, leader, w.stats(id, zero)...))
	}
	if w.sc.Odd {
		w.nextID = 1 << 40 // ids of later changes stay clear of the wrap-around
	}
	return out
}

func (w *world) fail(format string, a ...interface{}) {
	if !w.failed {
		w.failed = true
		w.r.Inconclusive("sync scenario %+v: %s", w.sc, fmt.Sprintf(format, a...))
	}
}

func (w *world) waitFor(what string, cond func() bool) bool {
	deadline := time.Now().Add(pollWatchdog)
	for !cond() {
		if time.Now().After(deadline) {
			w.fail("watchdog while waiting for %s (no verdict)", what)
			return false
		}
		time.Sleep(time.Millisecond)
	}
	return true
}

func (w *world) setPhase(p string) { w.mu.Lock(); w.phase = p; w.mu.Unlock() }

func (w *world) stream(i int) *wrapStream {
	w.mu.Lock()
	defer w.mu.Unlock()
	if i <= len(w.streams) {
		return w.streams[i-1]
	}
	return nil
}

// lastCap returns the last message captured on the given stream (nil if none).
func (w *world) lastCap(stream int) *capMsg {
	w.mu.Lock()
	defer w.mu.Unlock()
	for i := len(w.caps) - 1; i >= 0; i-- {
		if w.caps[i].Stream == stream {
			return w.caps[i]
		}
	}
	return nil
}

func (c *capMsg) decode() *pdpb.SyncRegionResponse {
	if c.msg == nil {
		c.msg = &pdpb.SyncRegionResponse{}
		if err := c.msg.Unmarshal(c.Bytes); err != nil {
			c.msg = nil
		}
	}
	return c.msg
}

// followerCaughtUp: the follower has applied everything up to the last message captured on stream.
func (w *world) followerCaughtUp(stream int) bool {
	c := w.lastCap(stream)
	if c == nil {
		return true
	}
	m := c.decode()
	if m == nil {
		return false
	}
	return w.fs.VerifHistory().NextIndex() == m.GetStartIndex()+uint64(len(m.GetRegions()))
}

func (w *world) liveRegionsCaptured(stream int, phase string) int {
	w.mu.Lock()
	defer w.mu.Unlock()
	n := 0
	for _, c := range w.caps {
		if c.Stream == stream && c.Phase == phase && c.Err == nil {
			if m := c.decode(); m != nil {
				n += len(m.GetRegions())
			}
		}
	}
	return n
}

func newWorld(r *ev.Run, sc scenario) (*world, error) {
	w := &world{r: r, sc: sc, rng: rand.New(rand.NewSource(sc.Seed)), sent: map[uint64]sentInfo{}, splitDone: map[uint64]bool{}, inOrder: map[uint64]bool{}}
	w.nextID = uint64(1000 + w.rng.Intn(1000))
	lis, err := net.Listen("tcp", "127.0.0.1:0")
	if err != nil {
		return nil, err
	}
	w.addr = "http://" + lis.Addr().String()
	clusterID := uint64(7000000 + w.rng.Intn(1000))
	if w.leader, err = newNode("leader", clusterID, w.addr); err != nil {
		lis.Close()
		return nil, err
	}
	if w.follower, err = newNode("follower", clusterID, "http://127.0.0.1:1"); err != nil {
		lis.Close()
		w.leader.close()
		return nil, err
	}
	w.leader.leader, w.follower.leader = w.leader.member, w.leader.member
	w.leader.regions = func() []*core.RegionInfo {
		w.mu.Lock()
		ids := append([]uint64(nil), w.order...)
		w.mu.Unlock()
		out := make([]*core.RegionInfo, 0, len(ids))
		for _, id := range ids {
			if ri := w.leader.bc.GetRegion(id); ri != nil {
				out = append(out, ri)
			}
		}
		return out
	}
	w.ls = syncer.NewRegionSyncer(w.leader)
	w.fs = syncer.NewRegionSyncer(w.follower)
	w.notifier = make(chan *core.RegionInfo, 10000)
	w.quit = make(chan struct{})
	w.gs = grpc.NewServer()
	pdpb.RegisterPDServer(w.gs, &pdSvc{w: w})
	go w.gs.Serve(lis)
	go w.ls.RunServer(w.notifier, w.quit)
	return w, nil
}

// close tears the scenario down (StopSyncWithLeader sleeps about a second inside pd).
func (w *world) close() {
	w.fs.StopSyncWithLeader()
	close(w.quit)
	w.gs.Stop()
	w.follower.close()
	w.leader.close()
}

func sameMeta(a, b *metapb.Region) bool {
	x, err1 := a.Marshal()
	y, err2 := b.Marshal()
	return err1 == nil && err2 == nil && bytes.Equal(x, y)
}

func peerEq(a, b *metapb.Peer) bool {
	if a.GetId() == 0 && b.GetId() == 0 {
		return true // "no leader" is an empty peer on the wire
	}
	return a.GetId() == b.GetId() && a.GetStoreId() == b.GetStoreId() && a.GetRole() == b.GetRole()
}

func peerStr(p *metapb.Peer) string {
	if p.GetId() == 0 {
		return "none"
	}
	return fmt.Sprintf("peer %d on store %d", p.GetId(), p.GetStoreId())
}

func batchClass(ord int) string {
	if ord <= 1 {
		return "batch1"
	}
	return "batch>=2"
}

func wirePhaseName(p string) string {
	switch p {
	case "full":
		return "full-sync"
	case "incr":
		return "incremental-history"
	case "live":
		return "incremental-live"
	case "reconnect":
		return "incremental-reconnect"
	case "live2":
		return "incremental-live"
	}
	return p
}

// judgeWire checks the messages captured since the last call on the given stream, message by
// message, position by position: Regions[i], RegionLeaders[i], RegionStats[i] must describe the same
// region. catchUp: the messages answer a request for index `requested` while the leader is quiescent.
func (w *world) judgeWire(stream int, phaseTag string, requested uint64, catchUp bool) {
	w.mu.Lock()
	caps := append([]*capMsg(nil), w.caps[w.judged:]...)
	w.judged = len(w.caps)
	errs := make([]error, len(caps))
	for i, c := range caps {
		errs[i] = c.Err
	}
	w.mu.Unlock()
	r := w.r
	phase := wirePhaseName(phaseTag)
	ord := 0
	seenFull := map[uint64]int{}
	var fullSeen bool
	var lastEnd uint64
	var haveEnd bool
	newest := w.histBase + uint64(len(w.pushed))
	for ci, c := range caps {
		m := c.decode()
		if m == nil {
			w.fail("captured message does not decode")
			return
		}
		if errs[ci] != nil {
			r.Count("wire_sends_failed", 1)
			continue
		}
		if c.Stream != stream || c.Phase != phaseTag {
			if len(m.GetRegions()) > 0 {
				r.Count("wire_sends_on_stale_stream_or_between_phases", 1)
			}
			continue
		}
		if len(m.GetRegions()) == 0 {
			r.Count("wire_keepalives", 1)
			continue
		}
		ord++
		c.Ord = ord
		r.Count("wire_messages_"+phase, 1)
		r.Count("wire_regions_"+phase, int64(len(m.GetRegions())))
		nr, nl, ns := len(m.GetRegions()), len(m.GetRegionLeaders()), len(m.GetRegionStats())
		base := map[string]interface{}{"scenario": w.sc, "phase": phase, "message_ordinal": c.Ord, "start_index": m.GetStartIndex(),
			"len_regions": nr, "len_region_leaders": nl, "len_region_stats": ns}
		wit := func(extra map[string]interface{}) map[string]interface{} {
			o := map[string]interface{}{}
			for k, v := range base {
				o[k] = v
			}
			for k, v := range extra {
				o[k] = v
			}
			return o
		}
		if nl > nr {
			r.Count("wire_trailing_extra_leaders", int64(nl-nr))
		}
		if ns > nr {
			r.Count("wire_trailing_extra_stats", int64(ns-nr))
		}
		// a request for index 0 that the log cannot answer is served by a full synchronisation
		// (fake indexes 0,100,...) whatever branch the scenario aimed at
		isFull := phaseTag == "full"
		if isFull {
			fullSeen = true
			if nr > batchBound {
				// the batch size is an implementation constant, not part of the property: counted, not judged
				r.Count("wire_full_sync_batches_above_100", 1)
			}
			if nr > maxFullBatch {
				maxFullBatch = nr
			}
		} else if nr > maxIncrMsg {
			maxIncrMsg = nr
		}
		var badRegion, badLeader, badStat bool
		for i, meta := range m.GetRegions() {
			var exp *core.RegionInfo
			if isFull {
				exp = w.leader.bc.GetRegion(meta.GetId())
				seenFull[meta.GetId()]++
			} else {
				idx := m.GetStartIndex() + uint64(i)
				if idx >= w.histBase && idx < newest {
					exp = w.pushed[idx-w.histBase]
				}
			}
			w.sent[meta.GetId()] = sentInfo{Phase: phase, Ord: c.Ord, Pos: i}
			if exp == nil || !sameMeta(exp.GetMeta(), meta) {
				if !badRegion {
					badRegion = true
					var expMeta interface{}
					if exp != nil {
						expMeta = core.RegionToHexMeta(exp.GetMeta()).String()
					}
					r.Violation("wire-content:"+phase+":region-not-the-record-at-its-index:"+batchClass(c.Ord),
						fmt.Sprintf("%s message %d position %d (index %d) carries region %d which is not what the leader holds at that index", phase, c.Ord, i, m.GetStartIndex()+uint64(i), meta.GetId()),
						wit(map[string]interface{}{"position": i, "got_region": core.RegionToHexMeta(meta).String(), "expected_region": expMeta}))
				}
				continue
			}
			if !badLeader {
				var got *metapb.Peer
				if i < nl {
					got = m.GetRegionLeaders()[i]
				}
				if i >= nl || !peerEq(got, exp.GetLeader()) {
					badLeader = true
					r.Violation("wire-pairing:"+phase+":leaders:"+batchClass(c.Ord),
						fmt.Sprintf("%s message %d: RegionLeaders[%d] is %s but Regions[%d] is region %d whose leader is %s (len Regions=%d, RegionLeaders=%d)",
							phase, c.Ord, i, peerStr(got), i, meta.GetId(), peerStr(exp.GetLeader()), nr, nl),
						wit(map[string]interface{}{"position": i, "region_id": meta.GetId(), "region_peers": meta.GetPeers(), "leader_on_wire": got, "leader_at_leader": exp.GetLeader()}))
				}
			}
			if !badStat {
				var got *pdpb.RegionStat
				if i < ns {
					got = m.GetRegionStats()[i]
				}
				es := exp.GetStat()
				if i >= ns || got.GetBytesWritten() != es.BytesWritten || got.GetKeysWritten() != es.KeysWritten || got.GetBytesRead() != es.BytesRead || got.GetKeysRead() != es.KeysRead {
					badStat = true
					r.Violation("wire-pairing:"+phase+":stats:"+batchClass(c.Ord),
						fmt.Sprintf("%s message %d: RegionStats[%d] does not belong to Regions[%d] (region %d) (len Regions=%d, RegionStats=%d)", phase, c.Ord, i, i, meta.GetId(), nr, ns),
						wit(map[string]interface{}{"position": i, "region_id": meta.GetId(), "stat_on_wire": got, "stat_at_leader": es}))
				}
			}
		}
		if !isFull {
			if haveEnd && m.GetStartIndex() != lastEnd {
				r.Violation("wire-incomplete:"+phase+":gap-between-messages", fmt.Sprintf("%s message %d starts at index %d but the previous one ended at %d", phase, c.Ord, m.GetStartIndex(), lastEnd), wit(nil))
			}
			if !haveEnd && catchUp && m.GetStartIndex() != requested {
				r.Violation("wire-incomplete:"+phase+":not-from-requested-index", fmt.Sprintf("the follower asked for index %d, the answer starts at %d", requested, m.GetStartIndex()), wit(nil))
			}
			lastEnd, haveEnd = m.GetStartIndex()+uint64(nr), true
		}
	}
	if fullSeen || (phaseTag == "full" && len(w.live) > 0) {
		var missing, dup []uint64
		for _, id := range w.live {
			switch n := seenFull[id]; {
			case n == 0:
				missing = append(missing, id)
			case n > 1:
				dup = append(dup, id)
			}
		}
		r.Count("full_sync_regions_sent_twice", int64(len(dup)))
		if len(missing) > 0 {
			nm := len(missing)
			if len(missing) > 5 {
				missing = missing[:5]
			}
			r.Violation("wire-incomplete:full-sync:regions-not-sent", fmt.Sprintf("full synchronisation of %d regions finished without sending %d of them", len(w.live), nm),
				map[string]interface{}{"scenario": w.sc, "some_missing_region_ids": missing})
		}
	}
	if catchUp && phaseTag != "full" {
		switch {
		case haveEnd && lastEnd != newest:
			r.Violation("wire-incomplete:"+phase+":does-not-reach-newest", fmt.Sprintf("catch-up from index %d ends at %d, the leader's next index is %d", requested, lastEnd, newest),
				map[string]interface{}{"scenario": w.sc})
		case !haveEnd && requested >= w.windowFirst() && requested < newest:
			r.Violation("wire-incomplete:"+phase+":nothing-sent", fmt.Sprintf("the follower asked for index %d inside the leader's log [%d,%d) and nothing was sent", requested, w.windowFirst(), newest),
				map[string]interface{}{"scenario": w.sc})
		case !haveEnd && requested < w.windowFirst():
			// the log has wrapped past the follower's index: nothing is sent, what the follower missed
			// is not judged; only what is sent from now on is
			r.Count("catch_up_requests_below_the_wrapped_window", 1)
			w.sent = map[uint64]sentInfo{}
		case haveEnd && requested < w.windowFirst():
			r.Violation("wire-content:"+phase+":answer-for-index-below-window", fmt.Sprintf("index %d is below the log window [%d,%d) and still got an answer", requested, w.windowFirst(), newest), map[string]interface{}{"scenario": w.sc})
		}
	}
}

// judgeFollower compares, for every region sent so far, the follower's cache with the leader's.
func (w *world) judgeFollower(after string) {
	r := w.r
	ids := make([]uint64, 0, len(w.sent))
	for id := range w.sent {
		ids = append(ids, id)
	}
	sort.Slice(ids, func(a, b int) bool {
		x, y := w.sent[ids[a]], w.sent[ids[b]]
		if x.Phase != y.Phase {
			return x.Phase < y.Phase
		}
		if x.Ord != y.Ord {
			return x.Ord < y.Ord
		}
		return x.Pos < y.Pos
	})
	reported := map[string]bool{}
	for _, id := range ids {
		si := w.sent[id]
		l, f := w.leader.bc.GetRegion(id), w.follower.bc.GetRegion(id)
		r.Count("follower_regions_compared", 1)
		field, detail := diffRegion(l, f)
		if field == "" {
			continue
		}
		k := "follower-differs:" + si.Phase + ":" + field + ":" + batchClass(si.Ord)
		if reported[k] {
			continue
		}
		reported[k] = true
		wit := map[string]interface{}{"scenario": w.sc, "checked_after": after, "region_id": id, "sent_in": si, "difference": detail}
		if l != nil {
			wit["leader_side"] = describe(l)
		}
		if f != nil {
			wit["follower_side"] = describe(f)
		}
		r.Violation(k, fmt.Sprintf("after %s the follower's region %d (sent in %s message %d position %d) differs from the leader's in %s: %s", after, id, si.Phase, si.Ord, si.Pos, field, detail), wit)
	}
}

func describe(ri *core.RegionInfo) map[string]interface{} {
	return map[string]interface{}{"meta": core.RegionToHexMeta(ri.GetMeta()).String(), "leader": peerStr(ri.GetLeader()),
		"written_bytes": ri.GetBytesWritten(), "written_keys": ri.GetKeysWritten(), "read_bytes": ri.GetBytesRead(), "read_keys": ri.GetKeysRead()}
}

func diffRegion(l, f *core.RegionInfo) (string, string) {
	switch {
	case l == nil && f == nil:
		return "", ""
	case l == nil:
		return "presence", "the leader no longer holds the region, the follower does"
	case f == nil:
		return "presence", "the follower does not hold the region"
	}
	if !bytes.Equal(l.GetStartKey(), f.GetStartKey()) || !bytes.Equal(l.GetEndKey(), f.GetEndKey()) {
		return "range", fmt.Sprintf("leader [%q,%q) follower [%q,%q)", l.GetStartKey(), l.GetEndKey(), f.GetStartKey(), f.GetEndKey())
	}
	lp, fp := append([]*metapb.Peer(nil), l.GetPeers()...), append([]*metapb.Peer(nil), f.GetPeers()...)
	sort.Slice(lp, func(a, b int) bool { return lp[a].GetId() < lp[b].GetId() })
	sort.Slice(fp, func(a, b int) bool { return fp[a].GetId() < fp[b].GetId() })
	same := len(lp) == len(fp)
	for i := 0; same && i < len(lp); i++ {
		same = lp[i].GetId() == fp[i].GetId() && lp[i].GetStoreId() == fp[i].GetStoreId() && lp[i].GetRole() == fp[i].GetRole()
	}
	if !same {
		return "peers", fmt.Sprintf("leader %v follower %v", lp, fp)
	}
	if !peerEq(l.GetLeader(), f.GetLeader()) {
		return "leader", fmt.Sprintf("leader side: %s, follower side: %s", peerStr(l.GetLeader()), peerStr(f.GetLeader()))
	}
	if l.GetBytesWritten() != f.GetBytesWritten() || l.GetKeysWritten() != f.GetKeysWritten() || l.GetBytesRead() != f.GetBytesRead() || l.GetKeysRead() != f.GetKeysRead() {
		return "flow-stats", fmt.Sprintf("leader w=%d/%d r=%d/%d follower w=%d/%d r=%d/%d", l.GetBytesWritten(), l.GetKeysWritten(), l.GetBytesRead(), l.GetKeysRead(),
			f.GetBytesWritten(), f.GetKeysWritten(), f.GetBytesRead(), f.GetKeysRead())
	}
	return "", ""
}

// ---- changes at the leader (always valid evolutions, always with a leader: a heartbeat has one) ----

func (w *world) nextChange() []*core.RegionInfo {
	rng := w.rng
	if len(w.live) == 0 {
		id := w.allocID()
		p := []*metapb.Peer{{Id: w.allocID(), StoreId: 1}, {Id: w.allocID(), StoreId: 2}, {Id: w.allocID(), StoreId: 3}}
		meta := &metapb.Region{Id: id, Peers: p, RegionEpoch: &metapb.RegionEpoch{ConfVer: 1, Version: 1}}
		return []*core.RegionInfo{core.NewRegionInfo(meta, p[0], w.stats(id, false)...)}
	}
	id := w.live[rng.Intn(len(w.live))]
	cur := w.leader.bc.GetRegion(id)
	if cur.GetLeader() == nil {
		return []*core.RegionInfo{cur.Clone(core.WithLeader(cur.GetPeers()[rng.Intn(len(cur.GetPeers()))]))}
	}
	switch rng.Intn(7) {
	case 0, 1: // leader transfer
		var others []*metapb.Peer
		for _, p := range cur.GetPeers() {
			if p.GetId() != cur.GetLeader().GetId() {
				others = append(others, p)
			}
		}
		return []*core.RegionInfo{cur.Clone(core.WithLeader(others[rng.Intn(len(others))]))}
	case 2: // conf change
		if len(cur.GetPeers()) < 5 {
			used := cur.GetStoreIds()
			st := uint64(1)
			for ; st < 20; st++ {
				if _, ok := used[st]; !ok {
					break
				}
			}
			return []*core.RegionInfo{cur.Clone(core.WithAddPeer(&metapb.Peer{Id: w.allocID(), StoreId: st}), core.WithIncConfVer())}
		}
		var keep []*metapb.Peer
		dropped := false
		for _, p := range cur.GetPeers() {
			if !dropped && p.GetId() != cur.GetLeader().GetId() {
				dropped = true
				continue
			}
			keep = append(keep, p)
		}
		return []*core.RegionInfo{cur.Clone(core.SetPeers(keep), core.WithIncConfVer())}
	case 3: // split
		mid := append(append([]byte(nil), cur.GetStartKey()...), '5')
		if w.noSplit || w.splitDone[id] || (len(cur.GetEndKey()) > 0 && bytes.Compare(mid, cur.GetEndKey()) >= 0) {
			break
		}
		right := cur.Clone(core.WithStartKey(mid), core.WithIncVersion())
		nid := w.allocID()
		var peers []*metapb.Peer
		var leader *metapb.Peer
		for _, p := range cur.GetPeers() {
			np := &metapb.Peer{Id: w.allocID(), StoreId: p.GetStoreId(), Role: p.GetRole()}
			peers = append(peers, np)
			if p.GetId() == cur.GetLeader().GetId() {
				leader = np
			}
		}
		meta := &metapb.Region{Id: nid, StartKey: append([]byte(nil), cur.GetStartKey()...), EndKey: mid, Peers: peers,
			RegionEpoch: &metapb.RegionEpoch{ConfVer: right.GetRegionEpoch().GetConfVer(), Version: right.GetRegionEpoch().GetVersion()}}
		left := core.NewRegionInfo(meta, leader, w.stats(nid, false)...)
		w.splitDone[id], w.splitDone[nid] = true, true
		if rng.Intn(2) == 0 {
			return []*core.RegionInfo{right, left}
		}
		return []*core.RegionInfo{left, right}
	case 4: // merge with the right neighbour
		_, next := w.leader.bc.GetAdjacentRegions(cur)
		if next == nil {
			break
		}
		v := cur.GetRegionEpoch().GetVersion()
		if nv := next.GetRegionEpoch().GetVersion(); nv > v {
			v = nv
		}
		w.splitDone[id] = true
		return []*core.RegionInfo{cur.Clone(core.WithEndKey(next.GetEndKey()), core.SetRegionVersion(v+1))}
	}
	// flow statistics change
	return []*core.RegionInfo{cur.Clone(w.stats(id+uint64(rng.Intn(1000)), w.sc.ZeroStats && rng.Intn(4) == 0)...)}
}

// apply puts a change into the leader's cache the way the cluster does before notifying the syncer.
func (w *world) apply(ri *core.RegionInfo) bool {
	w.leader.bc.CheckAndPutRegion(ri)
	if w.leader.bc.GetRegion(ri.GetID()) != ri {
		w.fail("harness generated a change the leader's own cache rejects (region %d)", ri.GetID())
		return false
	}
	var live []uint64
	seen := false
	for _, id := range w.live {
		if id == ri.GetID() {
			seen = true
		}
		if w.leader.bc.GetRegion(id) != nil {
			live = append(live, id)
		}
	}
	if !seen {
		live = append(live, ri.GetID())
		if !w.inOrder[ri.GetID()] {
			w.inOrder[ri.GetID()] = true
			w.mu.Lock()
			w.order = append(w.order, ri.GetID())
			w.mu.Unlock()
		}
	}
	w.live = live
	return true
}

// burst applies n changes and pushes them through RunServer's notifier in one go.
func (w *world) burst(n int) bool {
	var batch []*core.RegionInfo
	for len(batch) < n {
		w.noSplit = n-len(batch) < 2 // exactly n records
		for _, ri := range w.nextChange() {
			if !w.apply(ri) {
				return false
			}
			batch = append(batch, ri)
		}
	}
	for _, ri := range batch {
		w.pushed = append(w.pushed, ri)
		w.notifier <- ri
	}
	w.r.Count("changes_pushed_through_notifier", int64(len(batch)))
	return true
}

func (w *world) leaderNext() uint64 { return w.ls.VerifHistory().NextIndex() }

// run executes the scenario; returns the number of phases evaluated.
func (w *world) run() {
	r, sc := w.r, w.sc
	defer func() {
		if p := recover(); p != nil {
			// the only calls made here are harness code and pd's exported API on the covered path
			r.Violation("panic:sync-path:"+sc.Branch, fmt.Sprintf("panic while driving the sync path: %v", p), map[string]interface{}{"scenario": sc})
		}
	}()
	regions := w.makeRegions(sc.N)
	perm := w.rng.Perm(len(regions))
	for _, ri := range regions {
		w.leader.bc.CheckAndPutRegion(ri)
		w.live = append(w.live, ri.GetID())
	}
	for _, p := range perm {
		w.order = append(w.order, regions[p].GetID())
		w.inOrder[regions[p].GetID()] = true
	}
	if w.leader.bc.GetRegionCount() != sc.N {
		w.fail("leader set-up: %d regions cached, %d generated", w.leader.bc.GetRegionCount(), sc.N)
		return
	}
	lh := w.ls.VerifHistory()
	switch sc.Branch {
	case "full":
		// index 0 outside the leader's window: a restarted leader whose log starts far above 0
		w.histBase = 50000 + uint64(w.rng.Intn(50000))
		lh.ResetWithIndex(w.histBase)
	case "incr":
		// index 0 inside the window: the log holds every region from index 0 on (an ex-follower that
		// became leader holds such a log, including records without a leader)
		w.histBase = 0
		for _, p := range perm {
			lh.Record(regions[p])
			w.pushed = append(w.pushed, regions[p])
		}
	}
	// ---- initial synchronisation ----
	w.setPhase(sc.Branch)
	requested := w.fs.VerifHistory().NextIndex()
	w.fs.StartSyncWithLeader(w.addr)
	if !w.waitFor("the leader to finish answering the first request", func() bool {
		s := w.stream(1)
		return s != nil && atomic.LoadInt32(&s.recvCalls) >= 2
	}) {
		return
	}
	if !w.waitFor("the follower to apply the last message sent", func() bool { return w.followerCaughtUp(1) }) {
		return
	}
	w.judgeWire(1, sc.Branch, requested, sc.Branch == "incr")
	w.judgeFollower(wirePhaseName(sc.Branch))
	r.Eval(1)
	r.Count("sync_phases_"+wirePhaseName(sc.Branch), 1)
	r.Distinct(fmt.Sprintf("sync|%s|%d|%s|%v", sc.Branch, sc.N, sc.LeaderMode, sc.ZeroStats))
	// ---- changes pushed through RunServer's notifier while connected ----
	if len(sc.Bursts) > 0 {
		w.setPhase("live")
		for _, b := range sc.Bursts {
			if !w.burst(b) {
				return
			}
			total := len(w.pushed)
			if !w.waitFor("RunServer to send every pushed change", func() bool {
				return w.leaderNext() == w.histBase+uint64(total) && w.liveRegionsCaptured(1, "live") >= total-w.liveBase()
			}) {
				return
			}
			if !w.waitFor("the follower to apply the pushed changes", func() bool { return w.followerCaughtUp(1) }) {
				return
			}
		}
		w.judgeWire(1, "live", 0, false)
		w.judgeFollower("incremental-live")
		r.Eval(1)
		r.Count("sync_phases_incremental-live", 1)
		r.Distinct(fmt.Sprintf("live|%s|%d|%v", sc.Branch, sc.N, sc.Bursts))
		if sc.OneField && !w.oneFieldPhase() {
			return
		}
	}
	// ---- disconnect, change the leader meanwhile, reconnect: catch-up from the log ----
	if sc.Reconnect && len(sc.Bursts) > 0 {
		w.fs.StopSyncWithLeader()
		if !w.waitFor("the leader's handler to return after the disconnect", func() bool { return atomic.LoadInt32(&w.stream(1).finished) == 1 }) {
			return
		}
		w.setPhase("offline")
		for done := 0; done < sc.Offline; {
			n := sc.Offline - done
			if n > 120 {
				n = 120
			}
			before := len(w.pushed)
			if !w.burst(n) {
				return
			}
			done += len(w.pushed) - before
			total := len(w.pushed)
			if !w.waitFor("RunServer to record the offline changes", func() bool { return w.leaderNext() == w.histBase+uint64(total) && len(w.notifier) == 0 }) {
				return
			}
		}
		// RunServer has taken everything from the notifier; let a broadcast in progress finish
		time.Sleep(20 * time.Millisecond)
		w.setPhase("reconnect")
		requested = w.fs.VerifHistory().NextIndex()
		w.fs.StartSyncWithLeader(w.addr)
		if !w.waitFor("the leader to finish answering the reconnect request", func() bool {
			s := w.stream(2)
			return s != nil && atomic.LoadInt32(&s.recvCalls) >= 2
		}) {
			return
		}
		if !w.waitFor("the follower to apply the catch-up", func() bool { return w.followerCaughtUp(2) }) {
			return
		}
		w.judgeWire(2, "reconnect", requested, true)
		w.judgeFollower("incremental-reconnect")
		r.Eval(1)
		r.Count("sync_phases_incremental-reconnect", 1)
		r.Distinct(fmt.Sprintf("reconnect|%s|%d|%d", sc.Branch, sc.N, sc.Offline))
		if sc.Offline >= leaderLogCapacity-1 {
			w.setPhase("live2")
			base := w.liveRegionsCaptured(2, "live2")
			before := len(w.pushed)
			if !w.burst(30) {
				return
			}
			total := len(w.pushed)
			if !w.waitFor("RunServer to send the burst after the wrapped catch-up", func() bool {
				return w.leaderNext() == w.histBase+uint64(total) && w.liveRegionsCaptured(2, "live2")-base >= total-before
			}) {
				return
			}
			if !w.waitFor("the follower to apply the burst", func() bool { return w.followerCaughtUp(2) }) {
				return
			}
			w.judgeWire(2, "live2", 0, false)
			w.judgeFollower("incremental-live")
			r.Eval(1)
			r.Count("sync_phases_after-wrapped-log", 1)
			r.Distinct(fmt.Sprintf("wrapped|%d", sc.Offline))
		}
	}
}

// windowFirst: first index still held by the leader's log (capacity 10000 in pd).
func (w *world) windowFirst() uint64 {
	newest := w.histBase + uint64(len(w.pushed))
	if uint64(len(w.pushed)) > leaderLogCapacity {
		return newest - leaderLogCapacity
	}
	return w.histBase
}

// settleLive waits until everything pushed so far has been broadcast on stream 1 and applied.
func (w *world) settleLive() bool {
	total := len(w.pushed)
	if !w.waitFor("RunServer to send every pushed change", func() bool {
		return w.leaderNext() == w.histBase+uint64(total) && w.liveRegionsCaptured(1, "live") >= total-w.liveBase()
	}) {
		return false
	}
	return w.waitFor("the follower to apply the pushed changes", func() bool { return w.followerCaughtUp(1) })
}

// oneFieldPhase: versions of a region that differ from the previous one in exactly ONE field (each
// flow counter alone, a counter going to zero, the leader alone, conf_ver alone, version alone, the
// peer list alone, a peer role alone, the end key alone), each sent alone and judged on its own, then
// all of them again inside one message.
func (w *world) oneFieldPhase() bool {
	r := w.r
	var ids []uint64
	for _, id := range w.live {
		if ri := w.leader.bc.GetRegion(id); ri != nil && ri.GetLeader() != nil && len(ri.GetPeers()) >= 3 && len(ids) < 2 {
			ids = append(ids, id)
		}
	}
	type step struct {
		name string
		f    func(cur *core.RegionInfo) *core.RegionInfo
	}
	other := func(cur *core.RegionInfo) *metapb.Peer {
		for _, p := range cur.GetPeers() {
			if p.GetId() != cur.GetLeader().GetId() {
				return p
			}
		}
		return cur.GetLeader()
	}
	steps := []step{
		{"written-bytes", func(c *core.RegionInfo) *core.RegionInfo {
			return c.Clone(core.SetWrittenBytes(c.GetBytesWritten() + 1))
		}},
		{"written-keys", func(c *core.RegionInfo) *core.RegionInfo { return c.Clone(core.SetWrittenKeys(c.GetKeysWritten() + 1)) }},
		{"read-bytes", func(c *core.RegionInfo) *core.RegionInfo { return c.Clone(core.SetReadBytes(c.GetBytesRead() + 1)) }},
		{"read-keys", func(c *core.RegionInfo) *core.RegionInfo { return c.Clone(core.SetReadKeys(c.GetKeysRead() + 1)) }},
		{"written-bytes-to-zero", func(c *core.RegionInfo) *core.RegionInfo { return c.Clone(core.SetWrittenBytes(0)) }},
		{"read-keys-to-zero", func(c *core.RegionInfo) *core.RegionInfo { return c.Clone(core.SetReadKeys(0)) }},
		{"written-keys-to-zero", func(c *core.RegionInfo) *core.RegionInfo { return c.Clone(core.SetWrittenKeys(0)) }},
		{"read-bytes-to-zero", func(c *core.RegionInfo) *core.RegionInfo { return c.Clone(core.SetReadBytes(0)) }},
		{"written-bytes-back", func(c *core.RegionInfo) *core.RegionInfo { return c.Clone(core.SetWrittenBytes(777)) }},
		{"leader", func(c *core.RegionInfo) *core.RegionInfo { return c.Clone(core.WithLeader(other(c))) }},
		{"conf-ver", func(c *core.RegionInfo) *core.RegionInfo { return c.Clone(core.WithIncConfVer()) }},
		{"version", func(c *core.RegionInfo) *core.RegionInfo { return c.Clone(core.WithIncVersion()) }},
		{"peer-added", func(c *core.RegionInfo) *core.RegionInfo {
			return c.Clone(core.WithAddPeer(&metapb.Peer{Id: w.allocID(), StoreId: 19}))
		}},
		{"peer-role", func(c *core.RegionInfo) *core.RegionInfo {
			var ps []*metapb.Peer
			o := other(c)
			for _, p := range c.GetPeers() {
				q := *p
				if p.GetId() == o.GetId() {
					q.Role = metapb.PeerRole_Learner
				}
				ps = append(ps, &q)
			}
			return c.Clone(core.SetPeers(ps))
		}},
		{"end-key", func(c *core.RegionInfo) *core.RegionInfo {
			mid := append(append([]byte(nil), c.GetStartKey()...), '7')
			if len(c.GetEndKey()) > 0 && bytes.Compare(mid, c.GetEndKey()) >= 0 {
				return nil
			}
			return c.Clone(core.WithEndKey(mid))
		}},
	}
	for pass := 0; pass < 2; pass++ {
		for _, id := range ids {
			for _, st := range steps {
				cur := w.leader.bc.GetRegion(id)
				if cur == nil {
					break
				}
				nv := st.f(cur)
				if nv == nil {
					continue
				}
				if !w.apply(nv) {
					return false
				}
				w.pushed = append(w.pushed, nv)
				w.notifier <- nv
				r.Count("one_field_updates_pushed", 1)
				if pass == 0 {
					// alone in its message, judged on its own
					if !w.settleLive() {
						return false
					}
					w.judgeWire(1, "live", 0, false)
					w.judgeFollower("one-field update: " + st.name)
				}
			}
			if pass == 1 {
				if !w.settleLive() {
					return false
				}
				w.judgeWire(1, "live", 0, false)
				w.judgeFollower("one-field updates of one region inside one message")
			}
		}
	}
	r.Eval(1)
	r.Count("sync_phases_one-field-updates", 1)
	r.Distinct(fmt.Sprintf("onefield|%s|%d", w.sc.Branch, w.sc.N))
	return true
}

// liveBase: number of log records that were not sent as live messages (recorded before connect).
func (w *world) liveBase() int {
	if w.sc.Branch == "incr" {
		return w.sc.N
	}
	return 0
}

var maxFullBatch, maxIncrMsg int

var syncSizes = []int{0, 1, 99, 100, 101, 199, 200, 201, 250, 1000}

func syncScenarios(r *ev.Run, rng *rand.Rand) []scenario {
	var out []scenario
	burstSets := [][]int{{1, 2, 5}, {3, 101}, {250}, {100, 1}, {102, 7}, {1}, {40, 40}}
	if !r.Thorough() {
		k := 0
		for _, branch := range []string{"full", "incr"} {
			for _, n := range syncSizes {
				sc := scenario{N: n, Branch: branch, LeaderMode: "mixed", Bursts: burstSets[k%len(burstSets)]}
				if branch == "incr" {
					sc.LeaderMode = []string{"all", "none", "mixed"}[k%3]
				}
				sc.ZeroStats = k%4 == 3
				if k%5 == 1 {
					sc.Reconnect, sc.Offline = true, []int{1, 99, 150, 0}[(k/5)%4]
				}
				k++
				out = append(out, sc)
			}
		}
		out = append(out, scenario{N: 250, Branch: "full", LeaderMode: "none", Bursts: []int{2}},
			scenario{N: 201, Branch: "full", LeaderMode: "all", Bursts: []int{2}, Reconnect: true, Offline: 101})
		out = append(out,
			scenario{N: 250, Branch: "full", LeaderMode: "mixed", Odd: true, Bursts: []int{30}, Reconnect: true, Offline: 40},
			scenario{N: 101, Branch: "incr", LeaderMode: "mixed", Odd: true, Bursts: []int{5}},
			scenario{N: 1, Branch: "full", LeaderMode: "all", Odd: true, Bursts: []int{3}},
			scenario{N: 2500, Branch: "full", LeaderMode: "mixed", Bursts: []int{3}},
			scenario{N: 20, Branch: "full", LeaderMode: "all", OneField: true, Bursts: []int{2}, Reconnect: true, Offline: 3},
			scenario{N: 7, Branch: "incr", LeaderMode: "all", OneField: true, Bursts: []int{1}},
			// the leader's log (capacity 10000) wraps exactly up to the follower's index
			scenario{N: 120, Branch: "full", LeaderMode: "all", Bursts: []int{4}, Reconnect: true, Offline: leaderLogCapacity})
	} else {
		k := 0
		for _, branch := range []string{"full", "incr"} {
			for _, n := range syncSizes {
				for _, lm := range []string{"mixed", "all", "none"} {
					for _, zs := range []bool{false, true} {
						sc := scenario{N: n, Branch: branch, LeaderMode: lm, ZeroStats: zs, Bursts: burstSets[k%len(burstSets)]}
						if k%3 == 1 {
							sc.Reconnect, sc.Offline = true, []int{1, 99, 100, 101, 250, 0, 1000}[(k/3)%7]
						}
						k++
						out = append(out, sc)
					}
				}
			}
		}
	}
	if r.Thorough() {
		for i, off := range []int{leaderLogCapacity - 1, leaderLogCapacity, leaderLogCapacity + 1, leaderLogCapacity + 700} {
			out = append(out, scenario{N: 100 + 50*i, Branch: []string{"full", "incr"}[i%2], LeaderMode: "mixed", Bursts: []int{4}, Reconnect: true, Offline: off})
		}
		for _, n := range []int{1, 2, 101, 250, 1000} {
			out = append(out, scenario{N: n, Branch: "full", LeaderMode: "mixed", Odd: true, Bursts: []int{30}, Reconnect: true, Offline: 40},
				scenario{N: n, Branch: "incr", LeaderMode: "all", Odd: true, Bursts: []int{101}})
		}
		for _, n := range []int{3, 20, 101} {
			out = append(out, scenario{N: n, Branch: "full", LeaderMode: "all", OneField: true, Bursts: []int{2}, Reconnect: true, Offline: 3},
				scenario{N: n, Branch: "incr", LeaderMode: "mixed", OneField: true, Bursts: []int{1}})
		}
		out = append(out, scenario{N: 2500, Branch: "full", LeaderMode: "mixed", Bursts: []int{3}}, scenario{N: 5000, Branch: "full", LeaderMode: "all", Bursts: []int{3}})
	}
	for i := range out {
		out[i].Seed = rng.Int63()
	}
	return out
}

func syncPhase(r *ev.Run, rng *rand.Rand) {
	scs := syncScenarios(r, rng)
	var tear sync.WaitGroup
	for i, sc := range scs {
		if r.Shards > 1 && i%r.Shards != r.Shard {
			continue
		}
		w, err := newWorld(r, sc)
		if err != nil {
			r.Inconclusive("sync scenario set-up: %v", err)
			continue
		}
		w.run()
		if i == 4 {
			r.Sample(map[string]interface{}{"part": "sync-path", "scenario": sc, "regions_compared": len(w.sent), "messages_captured": len(w.caps)})
		}
		tear.Add(1)
		go func() { defer tear.Done(); w.close() }()
	}
	tear.Wait()
	r.Set("max_full_sync_batch_regions", fmt.Sprint(maxFullBatch))
	r.Set("max_incremental_message_regions", fmt.Sprint(maxIncrMsg))
}
