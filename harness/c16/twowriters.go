// Part (a'), two writers on one history buffer under the gate scheduler.
//
// The leader's RunServer goroutine records while a follower-turned-leader path (or a second
// recorder) resets / records on the same buffer; every kv.Save of the index parks at the kvx gate.
// Worker A records up to (and a little beyond) a flush point, worker B either resets the index or
// records across a flush point of its own. Both start orders, all release orders of the parked
// Saves (depth-first). A buffer that persists under its write lock is serial here: the second
// writer blocks on the lock while the first one's Save is parked (settle rule). After both workers
// returned only the existing oracles are applied: the RecordsFrom window oracle on the live buffer
// (the log must be what SOME serial order of the atomic calls leaves) and the restart rule
// next_after >= next_before - 100 with next_before = the live next index.
package main

import (
	"fmt"
	"math/rand"
	"time"

	"github.com/tikv/pd/server/kv"
	syncer "github.com/tikv/pd/server/region_syncer"
	"verif/harness/lib/ev"
	"verif/harness/lib/kvx"
	"verif/harness/lib/sched"
)

type twCase struct {
	Cap     int    `json:"capacity"`
	Prefill int    `json:"records_before"`         // recorded (un-gated) before the workers start
	ARecs   int    `json:"worker_A_records"`       // reaches the flush point, plus a tail
	BKind   string `json:"worker_B"`               // "reset" | "records"
	BReset  uint64 `json:"worker_B_reset_index"`   // BKind == reset
	BRecs   int    `json:"worker_B_records"`       // BKind == records
	AFirst  bool   `json:"worker_A_started_first"` // start order
}

func twCases(r *ev.Run, rng *rand.Rand) []twCase {
	var out []twCase
	n := r.Pick(14, 80)
	for i := 0; i < n; i++ {
		c := twCase{Cap: []int{7, 100, 101, 1000}[rng.Intn(4)]}
		c.Prefill = []int{flushInterval - 1, flushInterval - 3, flushInterval - 20, 0}[rng.Intn(4)]
		c.ARecs = flushInterval - c.Prefill + []int{0, 3, 7}[rng.Intn(3)]
		switch i % 3 {
		case 0:
			c.BKind, c.BReset = "reset", 5000+uint64(rng.Intn(100000)) // far ahead
		case 1:
			c.BKind, c.BReset = "reset", uint64(rng.Intn(flushInterval)) // inside / below the window
		default:
			c.BKind, c.BRecs = "records", flushInterval+[]int{1, 5, 60, 150}[rng.Intn(4)]
		}
		out = append(out, c)
	}
	return out
}

// isSuffixOf: got (ascending ids of one writer found in the window) is a suffix of that writer's ids.
func isSuffixOf(got []uint64, first uint64, n int) bool {
	if len(got) > n {
		return false
	}
	for k, id := range got {
		if id != first+uint64(n-len(got)+k) {
			return false
		}
	}
	return true
}

// twJudgeWindow checks the live buffer after both workers returned against every serial order of the
// atomic calls (Record, ResetWithIndex): returns "" when some order explains it.
func twJudgeWindow(buf *syncer.VerifHistoryBuffer, c twCase) (string, map[string]interface{}) {
	const pBase, aBase, bBase = 1, 100001, 200001
	next, first := buf.NextIndex(), buf.FirstIndex()
	all := buf.RecordsFrom(first)
	d := map[string]interface{}{"next": next, "first": first, "window_len": len(all)}
	if uint64(len(all)) != next-first || len(all) > c.Cap {
		return fmt.Sprintf("RecordsFrom(first=%d) returned %d records, next index is %d, capacity %d", first, len(all), next, c.Cap), d
	}
	// edges: suffix consistency inside, nothing outside
	for _, i := range []uint64{first, first + 1, first + uint64(len(all))/2, next - 1, next, next + 1, first - 1} {
		got := buf.RecordsFrom(i)
		if i >= first && i < next {
			want := all[i-first:]
			ok := len(got) == len(want)
			for k := 0; ok && k < len(got); k++ {
				ok = got[k] == want[k]
			}
			if !ok {
				return fmt.Sprintf("RecordsFrom(%d) is not the tail of RecordsFrom(%d) (window [%d,%d))", i, first, first, next), d
			}
		} else if len(got) != 0 {
			return fmt.Sprintf("RecordsFrom(%d) returned %d records outside the window [%d,%d)", i, len(got), first, next), d
		}
	}
	var ps, as, bs []uint64
	for _, ri := range all {
		if ri == nil {
			return "nil record inside the window", d
		}
		switch id := ri.GetID(); {
		case id >= bBase:
			bs = append(bs, id)
		case id >= aBase:
			as = append(as, id)
		default:
			ps = append(ps, id)
		}
	}
	d["window_from_before"], d["window_from_A"], d["window_from_B"] = len(ps), len(as), len(bs)
	if !isSuffixOf(ps, pBase, c.Prefill) || !isSuffixOf(as, aBase, c.ARecs) || !isSuffixOf(bs, bBase, c.BRecs) {
		return "the window is not made of the newest records of each writer in their order", d
	}
	if c.BKind == "reset" {
		// serial orders: the reset falls between two Records of A (or before / after all of them):
		// what is left is the last k records of A, next = j + k
		k := next - c.BReset
		if next < c.BReset || k > uint64(c.ARecs) || len(ps) != 0 || uint64(len(as)) != minU(k, uint64(c.Cap)) {
			return fmt.Sprintf("after ResetWithIndex(%d) concurrent with %d Records no serial order gives next index %d with %d records in the window", c.BReset, c.ARecs, next, len(all)), d
		}
		return "", d
	}
	total := uint64(c.Prefill + c.ARecs + c.BRecs)
	if next != total || uint64(len(all)) != minU(total, uint64(c.Cap)) {
		return fmt.Sprintf("%d + %d + %d records were appended, next index is %d with %d records in the window (capacity %d)", c.Prefill, c.ARecs, c.BRecs, next, len(all), c.Cap), d
	}
	if len(ps) > 0 && (len(as) != c.ARecs || len(bs) != c.BRecs) {
		return "records appended before the workers started are in the window although newer ones are missing", d
	}
	return "", d
}

func minU(a, b uint64) uint64 {
	if a < b {
		return a
	}
	return b
}

func twoWriterBufferPhase(r *ev.Run, rng *rand.Rand) {
	maxRuns := r.Pick(8, 24) // schedules per case and start order
	for ci, c0 := range twCases(r, rng) {
		for oi, aFirst := range []bool{true, false, true, false} {
			c := c0
			c.AFirst = aFirst
			readerPos := []int{0, 2, 1, 1}[oi] // no reader / reader started last / reader started second
			if oi >= 2 && ci%2 == 1 && !r.Thorough() {
				continue
			}
			ex := &sched.Explorer{}
			for ex.Runs < maxRuns {
				ch := ex.Next()
				if ch == nil {
					break
				}
				store := kvx.New(kv.NewMemoryKV())
				buf := syncer.VerifNewHistoryBuffer(c.Cap, store)
				for k := 0; k < c.Prefill; k++ {
					buf.Record(newRec(uint64(1 + k)))
				}
				store.ResetLog()
				sc := sched.New()
				sc.Settle = 12 * time.Millisecond
				sc.Stagger = true
				overlapped := false
				sc.OnQuiescent = func(step int, parked []sched.Info) {
					if len(parked) > 1 {
						overlapped = true
					}
				}
				var panics [3]interface{}
				workerA := func() {
					defer func() { panics[0] = recover() }()
					for k := 0; k < c.ARecs; k++ {
						buf.Record(newRec(uint64(100001 + k)))
					}
				}
				workerB := func() {
					defer func() { panics[1] = recover() }()
					if c.BKind == "reset" {
						buf.ResetWithIndex(c.BReset)
						return
					}
					for k := 0; k < c.BRecs; k++ {
						buf.Record(newRec(uint64(200001 + k)))
					}
				}
				// third party: a reader (the Sync handler's RecordsFrom / GetNextIndex) that queues on
				// the same lock as the second writer while the first one's Save is parked
				var readerBad string
				readAt := uint64(0)
				if c.Prefill > 2 {
					readAt = uint64(c.Prefill - 2)
				}
				workerR := func() {
					defer func() { panics[2] = recover() }()
					for rep := 0; rep < 2 && readerBad == ""; rep++ {
						got := buf.RecordsFrom(readAt)
						hi := buf.NextIndex()
						var lastP, lastA, lastB uint64
						for k, ri := range got {
							if ri == nil {
								readerBad = fmt.Sprintf("nil record at position %d", k)
								break
							}
							id := ri.GetID()
							switch {
							case id >= 200001:
								if lastB != 0 && id != lastB+1 {
									readerBad = fmt.Sprintf("records of writer B not consecutive at position %d", k)
								}
								lastB = id
							case id >= 100001:
								if lastA != 0 && id != lastA+1 {
									readerBad = fmt.Sprintf("records of writer A not consecutive at position %d", k)
								}
								lastA = id
							default:
								if (lastP != 0 && id != lastP+1) || lastA != 0 || lastB != 0 {
									readerBad = fmt.Sprintf("earlier records out of order at position %d", k)
								}
								lastP = id
							}
						}
						if readerBad == "" && len(got) > c.Cap {
							readerBad = "more records than the capacity"
						}
						if readerBad == "" && c.BKind == "records" && hi >= readAt && uint64(len(got)) > hi-readAt {
							readerBad = fmt.Sprintf("RecordsFrom(%d) returned %d records, next index right after is %d", readAt, len(got), hi)
						}
					}
				}
				ws, names := []func(){workerA, workerB}, "A,B"
				if !aFirst {
					ws, names = []func(){workerB, workerA}, "B,A"
				}
				switch readerPos {
				case 1:
					ws, names = []func(){ws[0], workerR, ws[1]}, names[:1]+",R,"+names[2:]
				case 2:
					ws, names = append(ws, workerR), names+",R"
				}
				store.Gate, store.Done = sc.Gate, sc.Done
				sc.Run(ws, ch)
				store.Gate, store.Done = nil, nil
				ex.Advance(sc)
				if sc.Err != nil {
					r.Inconclusive("two-writer buffer phase: scheduler: %v", sc.Err)
					return
				}
				r.Eval(1)
				r.Count("buffer_two_writer_executions", 1)
				r.Count("buffer_two_writer_gated_saves", int64(len(sc.Trace)))
				if overlapped {
					r.Count("buffer_two_writer_executions_with_both_saves_parked", 1)
				}
				if sc.Blocked > 0 {
					r.Count("buffer_two_writer_executions_second_writer_blocked_on_lock", 1)
				}
				r.Distinct(fmt.Sprintf("buf2w|%d|%d|%d|%s|%v|%d|%s", c.Cap, c.Prefill, c.ARecs, c.BKind, aFirst, readerPos, sc.TraceKey()))
				var saves []string
				for _, e := range store.Log() {
					if e.Kind == "Save" {
						saves = append(saves, e.Value)
					}
				}
				wit := func(extra map[string]interface{}) map[string]interface{} {
					m := map[string]interface{}{"phase": "two-writers", "case": c, "workers_in_start_order": names,
						"released_saves": sc.Trace, "values_saved_in_order": saves,
						"note": "worker numbers in released_saves are positions in workers_in_start_order; A's records have ids 100001.., B's 200001.., earlier ones 1.."}
					for k, v := range extra {
						m[k] = v
					}
					return m
				}
				if panics[0] != nil || panics[1] != nil || panics[2] != nil {
					r.Violation("history-buffer:panic:two-writers", fmt.Sprintf("panic inside a buffer call running concurrently with another writer: %v %v %v", panics[0], panics[1], panics[2]), wit(nil))
					break
				}
				if readerPos > 0 {
					r.Count("buffer_three_party_executions", 1)
				}
				if readerBad != "" {
					r.Violation("history-buffer:records-from-wrong:three-parties", "a reader queued behind a writer parked in its index save, together with a second writer, got something that is not a run of the log: "+readerBad, wit(nil))
					continue
				}
				if why, d := twJudgeWindow(buf, c); why != "" {
					r.Violation("history-buffer:records-from-wrong:two-writers:"+c.BKind, "after two concurrent writers returned the log is not what any serial order of the calls leaves: "+why, wit(map[string]interface{}{"detail": d}))
					continue
				}
				before := buf.NextIndex()
				persisted, _ := store.Inner.Load("historyIndex")
				after := syncer.VerifNewHistoryBuffer(c.Cap, store).NextIndex()
				r.Count("buffer_restarts", 1)
				if before > flushInterval && after < before-flushInterval {
					r.Violation("history-buffer:restart-next-index-regresses:concurrent-persist",
						fmt.Sprintf("two concurrent writers returned with next index %d; a restart (new buffer on the same store) comes back with %d: backwards by %d > %d (persisted value %q)", before, after, before-after, flushInterval, persisted),
						wit(map[string]interface{}{"next_before": before, "next_after": after, "persisted_value": persisted}))
					continue
				}
				if ci == 0 && aFirst && ex.Runs == 1 {
					r.Sample(wit(map[string]interface{}{"next_before": before, "next_after": after}))
				}
			}
			if ex.Diverged > 0 {
				r.Count("buffer_two_writer_dfs_diverged_prefixes", int64(ex.Diverged))
			}
		}
	}
}
