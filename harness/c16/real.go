// Part (c), thorough tier: real pd servers (2 and 3 members, region storage on), heartbeats into the
// leader's RaftCluster, follower caches compared after a sentinel change has arrived.
package main

import (
	"fmt"
	"math/rand"
	"time"

	"github.com/pingcap/kvproto/pkg/metapb"
	"github.com/tikv/pd/server/config"
	"github.com/tikv/pd/server/core"
	"verif/harness/lib/ev"
	"verif/harness/lib/srv"
)

func realServersPhase(r *ev.Run, rng *rand.Rand) {
	members := 2
	switch {
	case r.Shards > 1 && r.Shard == 1:
		members = 3
	case r.Shards > 1 && r.Shard > 1:
		return
	}
	cfgs := srv.NewConfigs(members, func(i int, c *config.Config) { c.PDServerCfg.UseRegionStorage = true })
	ms, err := srv.StartCluster(cfgs)
	if err != nil {
		r.Inconclusive("real servers: start: %v", err)
		return
	}
	defer func() {
		for _, m := range ms {
			m.Close()
		}
	}()
	leader := srv.WaitLeader(ms, 60*time.Second)
	if leader == nil {
		r.Inconclusive("real servers: no leader")
		return
	}
	if err := leader.Bootstrap(); err != nil {
		r.Inconclusive("real servers: bootstrap: %v", err)
		return
	}
	var followers []*srv.Member
	for _, m := range ms {
		if m != leader {
			followers = append(followers, m)
		}
	}
	rc := leader.Srv.GetRaftCluster()
	if rc == nil {
		r.Inconclusive("real servers: leader has no running cluster")
		return
	}
	nextID := uint64(100000)
	alloc := func() uint64 { nextID++; return nextID }
	mk := func(i, n int, version uint64) *core.RegionInfo {
		id := alloc()
		peers := []*metapb.Peer{{Id: alloc(), StoreId: 1}, {Id: alloc(), StoreId: 2}, {Id: alloc(), StoreId: 3}}
		end := key(i + 1)
		if i == n-1 {
			end = []byte("")
		}
		meta := &metapb.Region{Id: id, StartKey: key(i), EndKey: end, Peers: peers, RegionEpoch: &metapb.RegionEpoch{ConfVer: 1, Version: version}}
		return core.NewRegionInfo(meta, peers[rng.Intn(3)],
			core.SetWrittenBytes(1000000*(1+uint64(rng.Intn(900)))), core.SetWrittenKeys(1000*(1+uint64(rng.Intn(900)))),
			core.SetReadBytes(1000000*(1+uint64(rng.Intn(900)))), core.SetReadKeys(1000*(1+uint64(rng.Intn(900)))))
	}
	hb := func(ri *core.RegionInfo) bool {
		if err := rc.HandleRegionHeartbeat(ri); err != nil {
			r.Inconclusive("real servers: heartbeat of region %d rejected: %v", ri.GetID(), err)
			return false
		}
		r.Count("real_heartbeats", 1)
		return true
	}
	arrived := func(ri *core.RegionInfo) bool {
		for _, f := range followers {
			g := f.Srv.GetBasicCluster().GetRegion(ri.GetID())
			if g == nil || g.GetLeader().GetId() != ri.GetLeader().GetId() || g.GetRegionEpoch().GetVersion() != ri.GetRegionEpoch().GetVersion() {
				return false
			}
		}
		return true
	}
	n := 260
	regions := make([]*core.RegionInfo, n)
	for i := range regions {
		regions[i] = mk(i, n, 2)
	}
	// changes broadcast before a follower's stream is bound are not "sent" to it: wait, with a
	// sacrificial region whose leader keeps changing, until every follower shows a change made
	// after the previous one was seen nowhere
	probe := regions[0]
	if !hb(probe) {
		return
	}
	deadline := time.Now().Add(pollWatchdog)
	for bound := false; !bound; {
		var others []*metapb.Peer
		for _, p := range probe.GetPeers() {
			if p.GetId() != probe.GetLeader().GetId() {
				others = append(others, p)
			}
		}
		probe = probe.Clone(core.WithLeader(others[rng.Intn(len(others))]))
		if !hb(probe) {
			return
		}
		for k := 0; k < 200 && !bound; k++ {
			bound = arrived(probe)
			time.Sleep(time.Millisecond)
		}
		if time.Now().After(deadline) {
			r.Inconclusive("real servers: followers never showed the probe region (sync streams not established)")
			return
		}
	}
	regions[0] = probe
	touched := map[uint64]bool{probe.GetID(): true}
	for i := 1; i < n; i++ {
		if !hb(regions[i]) {
			return
		}
		touched[regions[i].GetID()] = true
	}
	// leader transfers and flow changes (flow alone is only synchronised when the rounded value
	// changes: always combined with a leader change here), a few merges
	for k := 0; k < 300; k++ {
		i := rng.Intn(n)
		cur := rc.GetRegion(regions[i].GetID())
		if cur == nil {
			continue
		}
		var others []*metapb.Peer
		for _, p := range cur.GetPeers() {
			if p.GetId() != cur.GetLeader().GetId() {
				others = append(others, p)
			}
		}
		opts := []core.RegionCreateOption{core.WithLeader(others[rng.Intn(len(others))]),
			core.SetWrittenBytes(1000000 * (1 + uint64(rng.Intn(900)))), core.SetReadBytes(1000000 * (1 + uint64(rng.Intn(900))))}
		if rng.Intn(10) == 0 {
			if _, next := rc.GetAdjacentRegions(cur); next != nil {
				v := cur.GetRegionEpoch().GetVersion()
				if nv := next.GetRegionEpoch().GetVersion(); nv > v {
					v = nv
				}
				opts = append(opts, core.WithEndKey(next.GetEndKey()), core.SetRegionVersion(v+1))
				touched[next.GetID()] = true
			}
		}
		if !hb(cur.Clone(opts...)) {
			return
		}
	}
	// sentinel: the stream is ordered, so once it shows up everything before it has been applied
	var sentinel *core.RegionInfo
	for _, ri := range regions {
		if cur := rc.GetRegion(ri.GetID()); cur != nil {
			var others []*metapb.Peer
			for _, p := range cur.GetPeers() {
				if p.GetId() != cur.GetLeader().GetId() {
					others = append(others, p)
				}
			}
			sentinel = cur.Clone(core.WithLeader(others[0]), core.WithIncVersion())
			break
		}
	}
	if sentinel == nil || !hb(sentinel) {
		return
	}
	deadline = time.Now().Add(pollWatchdog)
	for !arrived(sentinel) {
		if time.Now().After(deadline) {
			r.Inconclusive("real servers: the sentinel change never showed up at every follower (no verdict)")
			return
		}
		time.Sleep(2 * time.Millisecond)
	}
	for fi, f := range followers {
		for id := range touched {
			l, g := rc.GetRegion(id), f.Srv.GetBasicCluster().GetRegion(id)
			r.Count("real_follower_regions_compared", 1)
			if field, detail := diffRegion(l, g); field != "" {
				wit := map[string]interface{}{"members": members, "follower": fi, "region_id": id, "difference": detail}
				if l != nil {
					wit["leader_side"] = describe(l)
				}
				if g != nil {
					wit["follower_side"] = describe(g)
				}
				r.Violation("follower-differs:real-servers:"+field, fmt.Sprintf("real %d-member cluster: follower's region %d differs from the leader's in %s: %s", members, id, field, detail), wit)
				break
			}
		}
	}
	r.Eval(1)
	r.Count("real_server_clusters", 1)
	r.Distinct(fmt.Sprintf("real|%d", members))
}
