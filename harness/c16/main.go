// C16 — Followers converge to the leader's region view through region sync.
//
// (a) the change log (history buffer) behind syncer.VerifNewHistoryBuffer against an explicit list
// model: record / reset / restart histories, RecordsFrom probed on every window edge +-1 after every
// step, next index across a restart; one recorder with concurrent readers under the race detector.
// (a') two writers (Record / ResetWithIndex) on one buffer with every kv.Save of the index parked at a
// gate: both start orders, all release orders; window oracle on the live buffer, restart rule after.
// (b) the real sync path with pd's code on both sides: two harness implementations of the exported
// syncer.Server interface, pdpb.PD/SyncRegions served on a loopback gRPC server by the leader's
// RegionSyncer.Sync, the follower started with StartSyncWithLeader; full-sync and incremental
// branches, changes pushed through RunServer's notifier, disconnect / reconnect catch-up. Messages are
// captured (serialised) at the leader's stream.Send and checked position by position; afterwards the
// follower's BasicCluster is compared with the leader's for every region sent.
// (d) overlapped / faulty / long-lived histories on a mesh of 2-3 members whose leadership moves (mesh.go).
// (c) thorough only: real pd servers (lib/srv), heartbeats into the leader, follower cache compared.
package main

import (
	"math/rand"

	"verif/harness/lib/ev"
	"verif/harness/lib/srv"
)

func main() {
	r := ev.New("C16", "exploration")
	r.Rule("history buffer: one evaluation per history = capacity from {1,2,3,7,100,101,1000} x 2-12 steps of record(n) / ResetWithIndex(j below, inside, at the edge of, far above the window) / restart (new buffer on the same store), n chosen around the capacity and around the flush interval, every step followed by RecordsFrom on every window edge +-1 (distinct = capacity x sequence of step classes: fill below/exactly/over capacity, reset class, restart capacity); concurrent rounds (distinct = capacity x length); two writers under the gate scheduler: records up to a flush point x (ResetWithIndex far ahead / inside the window | records across another flush point) x both start orders x every release order of the parked index saves (distinct = case x start order x released sequence). sync path: one evaluation per scenario phase = leader region set size from {0,1,99,100,101,199,200,201,250,1000} x branch (full sync / incremental from the log) x leaders (all, none, mixed) x flow statistics, then bursts of changes (leader transfer, conf change, split, merge, flow) through RunServer's notifier, then disconnect + changes + reconnect, also with huge ids / prefix-related keys, 2500-5000 regions and a leader log wrapped exactly up to / past the follower's index (distinct = those parameters). overlapped and faulty sync histories on long-lived members (one evaluation per checkpoint): follower connecting while bursts are recorded inside the leader's answer (gated at stream.Send) or pumped freely, reconnect churn under broadcast, leadership moving between three long-lived members (ex-follower serving from its own log, a follower sleeping through a term), stream.Send failing in a full sync / catch-up / broadcast, follower region storage failing mid-message, follower restart on its persisted storage and index (also with the server context cancelled first, double stop / double close, and the leader log wrapped exactly to the persisted index -1/0/+1), leader restart below the follower's index followed by one big batch, two followers binding at once under broadcast with a stream being cleaned up (distinct = family x variant x checkpoint). one-field updates: versions differing from the previous in exactly one field (each flow counter, a counter going to zero, leader, conf_ver, version, peer list, peer role, end key), each alone in a message and all inside one message. gated buffer phase with a third party: a reader queued with the second writer behind the writer parked in its index save, four start orders")
	r.Assume("the history buffer is driven through the build-tag guarded hooks VerifNewHistoryBuffer/Record/RecordsFrom/ResetWithIndex/NextIndex on an in-memory kv.Base; no storage faults are injected; reset indexes stay below 2^40")
	r.Assume("sync path: both ends are pd's RegionSyncer over a loopback gRPC connection; the two syncer.Server implementations are harness code configured like the default server (region storage on LevelDB in a temp dir, use-region-storage on); the leader's region set does not change while a full synchronisation runs; changes pushed through the notifier always carry a leader (a heartbeat always has one)")
	r.Assume("overlapped families: the harness owns the ground truth of every region (every version has unique flow statistics, epochs monotone) and applies each change to the current leader's cache before notifying; a follower is judged against the last version SENT to it (all versions are admissible for messages whose delivery a checkpoint did not confirm); regions never sent to it (broadcast before its stream was bound, dropped by an injected error, outside the wrapped log) and older records sent again are not judged")
	r.Assume("completion is detected by polling (leader answered the request, follower's next index reached the end of the last captured message); a 90 s watchdog per wait gives 'inconclusive', never a verdict")
	r.Assume("wire-level oracle: besides positional pairing, a full-sync message is expected to carry at most 100 regions (documented batch bound of the mechanism) and a full synchronisation to send every region of the unchanged leader set")
	rng := rand.New(rand.NewSource(r.ShardSeed()))
	srv.Quiet()
	bufferPhase(r, rng)
	concurrentBufferPhase(r, rng)
	twoWriterBufferPhase(r, rng)
	syncPhase(r, rng)
	meshPhase(r, rng)
	if r.Thorough() {
		realServersPhase(r, rng)
	}
	r.Floor(int64(r.Pick(1500, 2000)))
	r.Finish()
}
