package main

// Instrumented members: the server's own etcd client gets a clientv3.KV wrapper (installed in a
// start callback, before the server serves anything) that recognises the bootstrap transaction
// (a Then-put on the cluster root key) and can fail it before sending, lose its reply after it
// committed, or hold it before / after the commit until the harness releases it. Optionally the
// server's core.Storage is replaced by one over lib/kvx so that the storage writes that follow the
// transaction (region save, everything RaftCluster.Start persists) can be failed.

import (
	"context"
	"fmt"
	"os"
	"strings"
	"sync"
	"sync/atomic"
	"time"

	"github.com/tikv/pd/server"
	"github.com/tikv/pd/server/config"
	"github.com/tikv/pd/server/core"
	"github.com/tikv/pd/server/kv"
	"go.etcd.io/etcd/clientv3"
	"verif/harness/lib/kvx"
)

// member is one running server (lib/srv.Member cannot carry a start callback).
type member struct {
	Cfg    *config.Config
	Srv    *server.Server
	KV     *kvx.KV // non-nil when the storage was replaced
	orig   *core.Storage
	cancel context.CancelFunc
}

func (m *member) Stop() {
	m.cancel()
	m.Srv.Close()
	if m.orig != nil {
		// the server closes the storage it holds now; the one it created (with the leveldb region
		// storage and its file lock) is closed here
		m.orig.Close()
		m.orig = nil
	}
}

func (m *member) Close() {
	m.Stop()
	os.RemoveAll(m.Cfg.DataDir)
}

// txnPlan is shared by all members of one world.
type txnPlan struct {
	// Mode: "" | fail-before | lost-ack | hold-after | hold-before
	//  fail-before: the Nth bootstrap transaction is not sent
	//  lost-ack:    the bootstrap transaction that commits returns an error to the server
	//  hold-after:  the bootstrap transaction that commits is held after the commit until Release
	//  hold-before: every bootstrap transaction is held before sending until Release
	//  hold-after-quiet: like hold-after, but nothing else happens (no resign, no fault): other
	//               requests are issued and answered inside the winner's window, then Release
	Mode string
	N    int32
	// StoreFault > 0: the StoreFault-th storage write after the committing bootstrap transaction fails
	StoreFault int64

	seen     int32
	injected int32
	holds    int32
	held     chan struct{} // closed when the first transaction is held
	heldOnce sync.Once
	release  chan struct{}
	relOnce  sync.Once
	kvs      []*kvx.KV
	mu       sync.Mutex
}

func newTxnPlan(mode string, n int32, storeFault int64) *txnPlan {
	return &txnPlan{Mode: mode, N: n, StoreFault: storeFault, held: make(chan struct{}), release: make(chan struct{})}
}

func (p *txnPlan) Release()        { p.relOnce.Do(func() { close(p.release) }) }
func (p *txnPlan) Injected() int32 { return atomic.LoadInt32(&p.injected) }
func (p *txnPlan) hold() {
	// a hold is a delay, not a fault: the delayed request is judged like any other
	atomic.AddInt32(&p.holds, 1)
	p.heldOnce.Do(func() { close(p.held) })
	<-p.release
}

type kvWrap struct {
	clientv3.KV
	root func() string // cluster root key (known once the server has its cluster id)
	plan *txnPlan
}

func (k *kvWrap) Txn(ctx context.Context) clientv3.Txn {
	return &txnWrap{Txn: k.KV.Txn(ctx), k: k}
}

type txnWrap struct {
	clientv3.Txn
	k       *kvWrap
	isBoot  bool
	touched []string
}

func (t *txnWrap) If(cs ...clientv3.Cmp) clientv3.Txn { t.Txn = t.Txn.If(cs...); return t }
func (t *txnWrap) Else(ops ...clientv3.Op) clientv3.Txn {
	t.Txn = t.Txn.Else(ops...)
	return t
}
func (t *txnWrap) Then(ops ...clientv3.Op) clientv3.Txn {
	root := t.k.root()
	for _, op := range ops {
		if op.IsPut() && root != "" && string(op.KeyBytes()) == root {
			t.isBoot = true
		}
	}
	t.Txn = t.Txn.Then(ops...)
	return t
}

func (t *txnWrap) Commit() (*clientv3.TxnResponse, error) {
	p := t.k.plan
	if !t.isBoot || p == nil {
		return t.Txn.Commit()
	}
	n := atomic.AddInt32(&p.seen, 1)
	switch p.Mode {
	case "fail-before":
		if n == p.N {
			atomic.AddInt32(&p.injected, 1)
			return nil, fmt.Errorf("c20: injected failure before sending the bootstrap transaction")
		}
	case "hold-before":
		select {
		case <-p.release:
		default:
			p.hold()
		}
	}
	resp, err := t.Txn.Commit()
	if err != nil || !resp.Succeeded {
		return resp, err
	}
	// this is the transaction that bootstrapped the cluster
	if p.StoreFault > 0 {
		p.mu.Lock()
		for _, k := range p.kvs {
			k.FailWrite(p.StoreFault, kvx.FailBefore)
		}
		p.mu.Unlock()
		atomic.AddInt32(&p.injected, 1)
	}
	switch p.Mode {
	case "lost-ack":
		atomic.AddInt32(&p.injected, 1)
		return nil, fmt.Errorf("c20: injected lost acknowledgement of the bootstrap transaction")
	case "hold-after", "hold-after-quiet":
		select {
		case <-p.release:
		default:
			p.hold()
		}
	}
	return resp, err
}

// startMember creates and runs a server; with a plan its etcd client (and storage) are wrapped
// before the server starts serving.
func startMember(cfg *config.Config, plan *txnPlan, kvxStorage bool) (*member, error) {
	ctx, cancel := context.WithCancel(context.Background())
	s, err := server.CreateServer(ctx, cfg)
	if err != nil {
		cancel()
		return nil, err
	}
	m := &member{Cfg: cfg, Srv: s, cancel: cancel}
	if plan != nil {
		s.AddStartCallback(func() {
			c := s.GetClient()
			c.KV = &kvWrap{KV: c.KV, plan: plan, root: s.GetClusterRootPath}
			if kvxStorage {
				m.orig = s.GetStorage()
				m.KV = kvx.New(kv.NewEtcdKVBase(c, s.GetServerRootPath()))
				m.KV.SetLogging(false)
				s.SetStorage(core.NewStorage(m.KV))
				plan.mu.Lock()
				plan.kvs = append(plan.kvs, m.KV)
				plan.mu.Unlock()
			}
		})
	}
	if err = s.Run(); err != nil {
		cancel()
		s.Close()
		return nil, err
	}
	return m, nil
}

func startMembers(cfgs []*config.Config, plan *txnPlan, kvxStorage bool) ([]*member, error) {
	ms := make([]*member, len(cfgs))
	errs := make([]error, len(cfgs))
	var wg sync.WaitGroup
	for i := range cfgs {
		wg.Add(1)
		go func(i int) {
			defer wg.Done()
			ms[i], errs[i] = startMember(cfgs[i], plan, kvxStorage)
		}(i)
	}
	wg.Wait()
	for _, e := range errs {
		if e != nil {
			for _, m := range ms {
				if m != nil {
					m.Close()
				}
			}
			return nil, e
		}
	}
	return ms, nil
}

func waitLeader(ms []*member, timeout time.Duration) *member {
	deadline := time.Now().Add(timeout)
	for time.Now().Before(deadline) {
		for _, m := range ms {
			if m != nil && !m.Srv.IsClosed() && m.Srv.GetMember().IsLeader() {
				return m
			}
		}
		time.Sleep(10 * time.Millisecond)
	}
	return nil
}

// ---- populated key space ----

// plantKeys writes thousands of unrelated keys around the keys the property is about: siblings
// whose names are prefixes / extensions of the cluster root, of the cluster id key and of the
// cluster's own path (a foreign cluster whose id extends ours by a digit, with a complete
// bootstrap record), plus bulk keys before and after them in key order. Returns the planted keys.
func plantKeys(cli *clientv3.Client, id uint64, n int) (map[string]string, error) {
	base := fmt.Sprintf("/pd/%d", id)
	root := base + "/raft"
	keys := map[string]string{}
	add := func(k string) { keys[k] = "verif-unrelated:" + k }
	for _, k := range []string{
		root + "0", root + "_", root + "-", root + "\x00", base + "/raf", base + "/raf~", base + "/r", base + "raft", base + "/raft_bootstrap",
		root + "/", root + "/s", root + "/r", root + "/s0", root + "/r0", root + "/sx/00000000000000000001", root + "/status", root + "/status0", root + "/statu",
		root + "/t/zzz", root + "/a/aaa",
		clusterIDKey + "0", clusterIDKey + "/x", clusterIDKey + "\x00", "/pd/cluster_i", "/pd/cluster_id_", "/pd/cluster", "/pd/cluster_idcluster_id",
		"/pd", "/pd/", "/p", "/pe/cluster_id",
	} {
		add(k)
	}
	// a foreign cluster whose path extends ours / is a prefix of ours
	for _, f := range []string{fmt.Sprintf("/pd/%d0", id), fmt.Sprintf("/pd/%d", id/10), fmt.Sprintf("/pd/%d", id+1), fmt.Sprintf("/pd/%d", id-1)} {
		add(f + "/raft")
		add(f + "/raft/s/00000000000000000001")
		add(f + "/raft/r/00000000000000000002")
		add(f + "/raft/status/raft_bootstrap_time")
	}
	for i := 0; len(keys) < n; i++ {
		switch i % 4 {
		case 0:
			add(fmt.Sprintf("%s/unrelated/k%06d", base, i))
		case 1:
			add(fmt.Sprintf("%s/raft-archive/s/%020d", base, i))
		case 2:
			add(fmt.Sprintf("/pd/cluster_id.bak/%06d", i))
		default:
			add(fmt.Sprintf("%s/zz/%06d", base, i))
		}
	}
	var ops []clientv3.Op
	flush := func() error {
		if len(ops) == 0 {
			return nil
		}
		ctx, cancel := context.WithTimeout(context.Background(), 60*time.Second)
		defer cancel()
		_, err := cli.Txn(ctx).Then(ops...).Commit()
		ops = nil
		return err
	}
	for k, v := range keys {
		if strings.HasPrefix(k, "\x00") {
			continue
		}
		ops = append(ops, clientv3.OpPut(k, v))
		if len(ops) == 100 {
			if err := flush(); err != nil {
				return nil, err
			}
		}
	}
	return keys, flush()
}
