// C20 — A cluster is bootstrapped exactly once and keeps one identity.
//
// (a) clusterid.go: server.VerifInitOrGetClusterID raced by 2-32 contenders on instrumented clients
// of one embedded etcd, with every release order of their transactions for 2-3 contenders and
// fail-before / lost-ack faults; oracle on returned values + committed history of the key.
// (b) bootstrap.go / foreign.go: real pd clusters (1 member; 3 members in the thorough tier), one
// fresh cluster per round: malformed requests, K in {2,8,32} concurrent Bootstrap requests with
// distinct payloads on *server.Server and through real gRPC clients, repeats, leader resign and
// re-campaign, member restart on the same data dir, every metadata RPC kind with a foreign cluster
// id. Oracle: exactly one success among the recorded responses plus ground truth read through an
// independent etcd client (cluster root key, raft/s/*, raft/r/*, their complete committed history,
// /pd/cluster_id) and the region storage.
package main

import (
	"math/rand"
	"os"
	"sync"
	"time"

	"verif/harness/lib/etcdx"
	"verif/harness/lib/ev"
	"verif/harness/lib/srv"
)

func removeAll(p string) {
	if p != "" {
		os.RemoveAll(p)
	}
}

func main() {
	r := ev.New("C20", "exploration")
	r.Rule("cluster id: one execution per (number of contenders 2-3, fault plan over {none, fail-before, lost-ack} for each contender's transactions, release order of the transactions) enumerated depth-first, plus free races of 2-32 contenders on 1-7 clients with random fault plans (distinct = contenders x clients x which client's transaction created the key x failed calls x faults); " +
		"bootstrap: one fresh real cluster per round, distinct = (members, K, direct/grpc/mixed, id mode of the contenders {distinct ids, shared store/region/peer id with different content, mixed, byte-identical copies, one base payload with exactly one field changed per contender incl. ids 2^64-1}, malformed requests in the race, resign before the race, resign after, restart) x how the winner arrived; foreign id: distinct = RPC kind x kind of foreign id")
	r.Assume("contenders for the cluster id are goroutines calling the hook server.VerifInitOrGetClusterID (= initOrGetClusterID) on instrumented clientv3 clients of one embedded single-node etcd; a contender whose call fails calls again (at most 3 times)")
	r.Assume("real clusters run in process (lib/srv); handler methods are called on *server.Server and through grpc.Dial + pdpb.NewPDClient against the member's client URL; ground truth comes from a separate un-instrumented clientv3 client of the members' embedded etcd")
	r.Assume("leader change = Member.ResetLeader on the leader (it campaigns again); restart = Server.Close + CreateServer/Run on the same data dir; LeaderLease is 30 s so that a starved process does not lose its leadership by itself")
	r.Assume("GetMembers (discovery: how a client learns the cluster id) and the PD-internal RPCs SyncMaxTS / GetDCLocationInfo (documented as validated by validateInternalRequest only) are not judged for the foreign-cluster-id clause")
	r.Assume("byte-identical Bootstrap requests (a true retry of one request) are not judged for the number of successes (the statement is ambiguous there): counted; the stored state is judged as always. Exactly one success is demanded among requests with pairwise different payloads, including payloads that share store/region/peer id and differ only in content")
	r.Assume("instrumented rounds: the server's own clientv3 client gets a KV wrapper in a start callback (before the server serves); the bootstrap transaction (the one that puts the cluster root key) can be failed before sending, lose its reply after committing, or be held before / after the commit while the leader resigns and a new term starts; in some rounds the server's core.Storage is replaced by one over lib/kvx (UseRegionStorage=false) so that the k-th storage write after the commit fails")
	r.Assume("faults are outside the stated quantifier: when an injected fault made pd answer an error to the request that took effect, the missing success is counted, not judged; the stored state must still come from exactly one sent request, and any request answered with success must be the one whose payload is stored. Holds (delays) are not faults: delayed requests are judged like all others")
	r.Assume("populated rounds plant 2500-4000 unrelated keys (siblings whose names extend / are prefixes of the cluster root, of /pd/cluster_id and of the cluster's own /pd/<id> path, incl. a foreign cluster /pd/<id>0/raft with a full bootstrap record) through the independent client before the first request; keys inside the raft/s/ and raft/r/ scan ranges are not planted (they would be stores/regions of the cluster). The embedded etcd of part (a) holds 3000-5000 bulk keys and 4 relatives per race key")
	rng := rand.New(rand.NewSource(r.ShardSeed()))
	srv.Quiet()

	// ---- (a) cluster id races ----
	e, err := etcdx.Start()
	if err != nil {
		r.Inconclusive("etcd: %v", err)
		r.Finish()
	}
	var cl []*etcdx.Client
	for i := 0; i < 8; i++ {
		c, err := e.NewClient(i)
		if err != nil {
			r.Inconclusive("etcd client: %v", err)
			e.Close()
			r.Finish()
		}
		cl = append(cl, c)
	}
	if err := plantBulk(e, r.Pick(3000, 5000)); err != nil {
		r.Inconclusive("etcd: %v", err)
		e.Close()
		r.Finish()
	}
	r.Count("cluster_id_bulk_keys_planted", int64(r.Pick(3000, 5000)))
	t0 := time.Now()
	clusterIDGated(r, e, cl)
	r.Set("wall_cluster_id_gated_s", time.Since(t0).Seconds())
	t0 = time.Now()
	if r.Violations() == 0 {
		clusterIDFree(r, e, cl, rng)
	}
	r.Set("wall_cluster_id_free_s", time.Since(t0).Seconds())
	for _, c := range cl {
		c.Close()
	}
	e.Close()
	t0 = time.Now()

	// ---- (b) real clusters ----
	rounds := r.Pick(20, 16) // thorough: per shard
	ks := []int{2, 8, 32}
	vias := []string{"direct", "grpc", "mixed"}
	idModes := []string{"distinct", "shared", "mixed", "duplicate", "onefield"}
	// rounds are independent (own cluster, own PRNG derived from seed and round number); a few run
	// side by side to keep the wall time down
	par := r.Pick(3, 2)
	jobs := make(chan int)
	var wg sync.WaitGroup
	for k := 0; k < par; k++ {
		wg.Add(1)
		go func() {
			defer wg.Done()
			for i := range jobs {
				if r.Violations() > 0 {
					continue
				}
				g := i + r.Shard*rounds // global round number: shards walk through different plans
				rrng := rand.New(rand.NewSource(r.Seed*1000003 + int64(g)*7919 + 17))
				p := roundPlan{Members: 1, K: ks[g%3], Via: vias[(g/3)%3], IDs: idModes[(g+g/10)%5], Malformed: rrng.Intn(4),
					PreResign: g%5 == 3, PostResign: g%2 == 0, Restart: g%4 == 1, ForeignKind: g}
				if r.Thorough() && (g%7)%2 == 1 {
					p.Members = 3
				}
				// instrumented rounds: faults / holds on the bootstrap transaction and the writes after it
				switch g % 10 {
				case 0:
					p.TxnFault = "hold-after-quiet"
				case 1:
					p.TxnFault = "hold-after"
				case 2:
					p.TxnFault, p.FaultRestart = "lost-ack", true
				case 4:
					p.TxnFault = "hold-before"
				case 5:
					p.KvxStorage, p.StoreFault = true, 1+(g/10)%4
				case 6:
					p.TxnFault, p.KvxStorage = "hold-after", true
				case 7:
					p.TxnFault = "lost-ack"
				case 9:
					p.TxnFault, p.TxnN = "fail-before", 1+(g/10)%2
				}
				p.RestartEarly = g%10 == 3 || g%20 == 10
				p.Populate = g%3 == 1
				p.Side = g%2 == 1
				bootstrapRound(r, g, p, rrng)
			}
		}()
	}
	for i := 0; i < rounds; i++ {
		jobs <- i
	}
	close(jobs)
	wg.Wait()
	r.Set("wall_bootstrap_rounds_s", time.Since(t0).Seconds())
	r.Floor(int64(r.Pick(300, 100)))
	r.Finish()
}
