package main

// Streaming RPCs and foreign cluster ids: on ONE long-lived stream a foreign request follows valid
// ones (valid->foreign, valid->valid->foreign->valid, foreign->valid). Every foreign request must be
// refused and must not change anything: no timestamp for Tso, no region change for
// RegionHeartbeat, no sync response for SyncRegions. Decided causally (the next message on the
// stream is either the refusal or the served answer), never by waiting.

import (
	"context"
	"fmt"
	"time"

	"github.com/gogo/protobuf/proto"
	"github.com/pingcap/kvproto/pkg/metapb"
	"github.com/pingcap/kvproto/pkg/pdpb"
)

type foreignHdr struct {
	name string
	hdr  *pdpb.RequestHeader
}

func (w *world) foreignHeaders() []foreignHdr {
	cands := []foreignHdr{
		{"plus-one", &pdpb.RequestHeader{ClusterId: w.id + 1}},
		{"minus-one", &pdpb.RequestHeader{ClusterId: w.id - 1}},
		{"zero", &pdpb.RequestHeader{ClusterId: 0}},
		{"high-bits-only", &pdpb.RequestHeader{ClusterId: w.id &^ 0xffffffff}},
		{"low-bits-only", &pdpb.RequestHeader{ClusterId: w.id & 0xffffffff}},
		{"missing-header", nil},
	}
	var out []foreignHdr
	for _, c := range cands {
		if c.hdr != nil && c.hdr.ClusterId == w.id {
			continue
		}
		out = append(out, c)
	}
	return out
}

// seqs: V = valid request, F = foreign request. After a refusal the stream is closed by the server;
// the rest of the sequence continues on a new stream.
var streamSeqs = [][]byte{[]byte("VF"), []byte("VVFV"), []byte("FV")}

// tsoSequences runs the sequences on Tso streams of member l.
func (w *world) tsoSequences(l int, stage string, all bool) {
	r := w.r
	right := &pdpb.RequestHeader{ClusterId: w.id}
	for hi, fh := range w.foreignHeaders() {
		for si, seq := range streamSeqs {
			if !all && (hi+si)%3 != 0 {
				continue
			}
			func() {
				ctx, cancel := context.WithTimeout(context.Background(), 30*time.Second)
				defer cancel()
				var s pdpb.PD_TsoClient
				established := false
				for _, step := range seq {
					if s == nil {
						var err error
						if s, err = w.pd(l, hi).Tso(ctx); err != nil {
							r.Count("stream_open_failed", 1)
							return
						}
						established = false
					}
					hdr := right
					if step == 'F' {
						hdr = fh.hdr
					}
					if err := s.Send(&pdpb.TsoRequest{Header: hdr, Count: 1}); err != nil {
						s = nil
						continue
					}
					resp, err := s.Recv()
					if step == 'V' {
						if err != nil || resp.GetHeader().GetError() != nil {
							r.Count("stream_valid_request_not_served:Tso", 1)
							return // no leader / TSO not ready: nothing to learn from this stream
						}
						established = true
						r.Count("stream_valid_requests_served:Tso", 1)
						continue
					}
					r.Count("stream_foreign_requests:Tso", 1)
					if err == nil && resp.GetHeader().GetError() == nil && resp.GetTimestamp() != nil {
						key := "foreign-cluster-id-served:Tso"
						if established {
							key += ":on-established-stream"
						}
						r.Violation(key, fmt.Sprintf("a Tso request with cluster id header %s (%v) was answered with timestamp %v by cluster %d (%s, sequence %s on one stream)", fh.name, fh.hdr, resp.GetTimestamp(), w.id, stage, seq),
							w.witness(map[string]interface{}{"rpc": "Tso", "foreign": fh.name, "sequence": string(seq), "stage": stage}))
						return
					}
					r.Count("stream_foreign_requests_refused:Tso", 1)
					if err != nil {
						s = nil // the server closed the stream
					}
				}
				r.Distinct("stream|Tso|" + fh.name + "|" + string(seq) + "|" + stage)
			}()
		}
	}
}

// heartbeatSequences (bootstrapped cluster): valid heartbeats of the first region, then a foreign
// one that would move the region to a higher version.
func (w *world) heartbeatSequences(l int, stage string) {
	r := w.r
	if w.winner == nil {
		return
	}
	right := &pdpb.RequestHeader{ClusterId: w.id}
	rg := w.winner.Region
	for hi, fh := range w.foreignHeaders() {
		seq := streamSeqs[hi%len(streamSeqs)]
		func() {
			ctx, cancel := context.WithTimeout(context.Background(), 5*time.Second)
			defer cancel()
			var s pdpb.PD_RegionHeartbeatClient
			for _, step := range seq {
				if s == nil {
					var err error
					if s, err = w.pd(l, hi).RegionHeartbeat(ctx); err != nil {
						return
					}
				}
				if step == 'V' {
					if err := s.Send(&pdpb.RegionHeartbeatRequest{Header: right, Region: rg, Leader: rg.Peers[0]}); err != nil {
						s = nil
					}
					continue // a valid heartbeat is not answered
				}
				moved := proto.Clone(rg).(*metapb.Region)
				if moved.RegionEpoch == nil {
					moved.RegionEpoch = &metapb.RegionEpoch{}
				}
				moved.RegionEpoch.Version += 7
				if err := s.Send(&pdpb.RegionHeartbeatRequest{Header: fh.hdr, Region: moved, Leader: moved.Peers[0]}); err != nil {
					s = nil
					continue
				}
				r.Count("stream_foreign_requests:RegionHeartbeat", 1)
				resp, err := s.Recv() // the refusal; a served heartbeat is never answered (bounded by ctx)
				if err != nil && ctx.Err() == nil || err == nil && resp.GetHeader().GetError() != nil {
					r.Count("stream_foreign_requests_refused:RegionHeartbeat", 1)
					s = nil
				} else {
					r.Count("stream_foreign_heartbeat_no_refusal_seen", 1)
				}
				// state: the region must be what it was
				c2, cancel2 := context.WithTimeout(context.Background(), 30*time.Second)
				rr, err := w.pd(l, 0).GetRegionByID(c2, &pdpb.GetRegionByIDRequest{Header: right, RegionId: rg.GetId()})
				cancel2()
				if err == nil && rr.GetHeader().GetError() == nil && rr.Region != nil && rr.Region.GetRegionEpoch().GetVersion() == moved.RegionEpoch.Version {
					r.Violation("foreign-cluster-id-served:RegionHeartbeat:on-established-stream", fmt.Sprintf("a region heartbeat with cluster id header %s changed region %d to version %d in cluster %d (%s, sequence %s)", fh.name, rg.GetId(), moved.RegionEpoch.Version, w.id, stage, seq),
						w.witness(map[string]interface{}{"rpc": "RegionHeartbeat", "foreign": fh.name, "sequence": string(seq), "stage": stage}))
					return
				}
			}
			r.Distinct("stream|RegionHeartbeat|" + fh.name + "|" + string(seq) + "|" + stage)
		}()
	}
}

// syncSequences (bootstrapped cluster): every served SyncRegions request with start index 0 is
// answered with the regions; the foreign one must be answered with the refusal instead.
func (w *world) syncSequences(l int, stage string) {
	r := w.r
	if w.winner == nil {
		return
	}
	right := &pdpb.RequestHeader{ClusterId: w.id}
	mem := &pdpb.Member{Name: fmt.Sprintf("verif-sync-%d", w.round), MemberId: 424242, ClientUrls: []string{"http://127.0.0.1:1"}}
	for hi, fh := range w.foreignHeaders() {
		seq := streamSeqs[(hi+1)%len(streamSeqs)]
		func() {
			ctx, cancel := context.WithTimeout(context.Background(), 30*time.Second)
			defer cancel()
			var s pdpb.PD_SyncRegionsClient
			established := false
			for _, step := range seq {
				if s == nil {
					var err error
					if s, err = w.pd(l, hi).SyncRegions(ctx); err != nil {
						return
					}
					established = false
				}
				hdr := right
				if step == 'F' {
					hdr = fh.hdr
				}
				if err := s.Send(&pdpb.SyncRegionRequest{Header: hdr, Member: mem, StartIndex: 0}); err != nil {
					s = nil
					continue
				}
				resp, err := s.Recv()
				if step == 'V' {
					if err != nil {
						r.Count("stream_valid_request_not_served:SyncRegions", 1)
						return
					}
					established = true
					r.Count("stream_valid_requests_served:SyncRegions", 1)
					continue
				}
				r.Count("stream_foreign_requests:SyncRegions", 1)
				if err == nil && resp.GetHeader().GetError() == nil {
					key := "foreign-cluster-id-served:SyncRegions"
					if established {
						key += ":on-established-stream"
					}
					r.Violation(key, fmt.Sprintf("a SyncRegions request with cluster id header %s was answered with %d regions by cluster %d (%s, sequence %s)", fh.name, len(resp.GetRegions()), w.id, stage, seq),
						w.witness(map[string]interface{}{"rpc": "SyncRegions", "foreign": fh.name, "sequence": string(seq), "stage": stage}))
					return
				}
				r.Count("stream_foreign_requests_refused:SyncRegions", 1)
				s = nil
			}
			r.Distinct("stream|SyncRegions|" + fh.name + "|" + string(seq) + "|" + stage)
		}()
	}
}
