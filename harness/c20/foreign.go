package main

// Requests carrying a different cluster id are refused: every metadata RPC kind is sent once
// with a foreign cluster id in its header, to the leader of a bootstrapped cluster, both by calling
// the handler on *server.Server and through a real gRPC client. "Served" = no transport error and
// no error in the response header. Read-only kinds are also sent with the right id as a control.

import (
	"context"
	"fmt"
	"math/rand"
	"sync"
	"time"

	"github.com/pingcap/kvproto/pkg/metapb"
	"github.com/pingcap/kvproto/pkg/pdpb"
)

type hdrResp interface {
	GetHeader() *pdpb.ResponseHeader
}

// unaryAPI is the handler-side signature shared by *server.Server and the gRPC adapter.
type unaryAPI interface {
	Bootstrap(context.Context, *pdpb.BootstrapRequest) (*pdpb.BootstrapResponse, error)
	IsBootstrapped(context.Context, *pdpb.IsBootstrappedRequest) (*pdpb.IsBootstrappedResponse, error)
	AllocID(context.Context, *pdpb.AllocIDRequest) (*pdpb.AllocIDResponse, error)
	GetStore(context.Context, *pdpb.GetStoreRequest) (*pdpb.GetStoreResponse, error)
	PutStore(context.Context, *pdpb.PutStoreRequest) (*pdpb.PutStoreResponse, error)
	GetAllStores(context.Context, *pdpb.GetAllStoresRequest) (*pdpb.GetAllStoresResponse, error)
	StoreHeartbeat(context.Context, *pdpb.StoreHeartbeatRequest) (*pdpb.StoreHeartbeatResponse, error)
	GetRegion(context.Context, *pdpb.GetRegionRequest) (*pdpb.GetRegionResponse, error)
	GetPrevRegion(context.Context, *pdpb.GetRegionRequest) (*pdpb.GetRegionResponse, error)
	GetRegionByID(context.Context, *pdpb.GetRegionByIDRequest) (*pdpb.GetRegionResponse, error)
	ScanRegions(context.Context, *pdpb.ScanRegionsRequest) (*pdpb.ScanRegionsResponse, error)
	AskSplit(context.Context, *pdpb.AskSplitRequest) (*pdpb.AskSplitResponse, error)
	AskBatchSplit(context.Context, *pdpb.AskBatchSplitRequest) (*pdpb.AskBatchSplitResponse, error)
	ReportSplit(context.Context, *pdpb.ReportSplitRequest) (*pdpb.ReportSplitResponse, error)
	ReportBatchSplit(context.Context, *pdpb.ReportBatchSplitRequest) (*pdpb.ReportBatchSplitResponse, error)
	GetClusterConfig(context.Context, *pdpb.GetClusterConfigRequest) (*pdpb.GetClusterConfigResponse, error)
	PutClusterConfig(context.Context, *pdpb.PutClusterConfigRequest) (*pdpb.PutClusterConfigResponse, error)
	ScatterRegion(context.Context, *pdpb.ScatterRegionRequest) (*pdpb.ScatterRegionResponse, error)
	GetGCSafePoint(context.Context, *pdpb.GetGCSafePointRequest) (*pdpb.GetGCSafePointResponse, error)
	UpdateGCSafePoint(context.Context, *pdpb.UpdateGCSafePointRequest) (*pdpb.UpdateGCSafePointResponse, error)
	UpdateServiceGCSafePoint(context.Context, *pdpb.UpdateServiceGCSafePointRequest) (*pdpb.UpdateServiceGCSafePointResponse, error)
	GetOperator(context.Context, *pdpb.GetOperatorRequest) (*pdpb.GetOperatorResponse, error)
	SplitRegions(context.Context, *pdpb.SplitRegionsRequest) (*pdpb.SplitRegionsResponse, error)
	SyncMaxTS(context.Context, *pdpb.SyncMaxTSRequest) (*pdpb.SyncMaxTSResponse, error)
	GetDCLocationInfo(context.Context, *pdpb.GetDCLocationInfoRequest) (*pdpb.GetDCLocationInfoResponse, error)
}

type viaGRPC struct{ c pdpb.PDClient }

func (g viaGRPC) Bootstrap(ctx context.Context, q *pdpb.BootstrapRequest) (*pdpb.BootstrapResponse, error) {
	return g.c.Bootstrap(ctx, q)
}
func (g viaGRPC) IsBootstrapped(ctx context.Context, q *pdpb.IsBootstrappedRequest) (*pdpb.IsBootstrappedResponse, error) {
	return g.c.IsBootstrapped(ctx, q)
}
func (g viaGRPC) AllocID(ctx context.Context, q *pdpb.AllocIDRequest) (*pdpb.AllocIDResponse, error) {
	return g.c.AllocID(ctx, q)
}
func (g viaGRPC) GetStore(ctx context.Context, q *pdpb.GetStoreRequest) (*pdpb.GetStoreResponse, error) {
	return g.c.GetStore(ctx, q)
}
func (g viaGRPC) PutStore(ctx context.Context, q *pdpb.PutStoreRequest) (*pdpb.PutStoreResponse, error) {
	return g.c.PutStore(ctx, q)
}
func (g viaGRPC) GetAllStores(ctx context.Context, q *pdpb.GetAllStoresRequest) (*pdpb.GetAllStoresResponse, error) {
	return g.c.GetAllStores(ctx, q)
}
func (g viaGRPC) StoreHeartbeat(ctx context.Context, q *pdpb.StoreHeartbeatRequest) (*pdpb.StoreHeartbeatResponse, error) {
	return g.c.StoreHeartbeat(ctx, q)
}
func (g viaGRPC) GetRegion(ctx context.Context, q *pdpb.GetRegionRequest) (*pdpb.GetRegionResponse, error) {
	return g.c.GetRegion(ctx, q)
}
func (g viaGRPC) GetPrevRegion(ctx context.Context, q *pdpb.GetRegionRequest) (*pdpb.GetRegionResponse, error) {
	return g.c.GetPrevRegion(ctx, q)
}
func (g viaGRPC) GetRegionByID(ctx context.Context, q *pdpb.GetRegionByIDRequest) (*pdpb.GetRegionResponse, error) {
	return g.c.GetRegionByID(ctx, q)
}
func (g viaGRPC) ScanRegions(ctx context.Context, q *pdpb.ScanRegionsRequest) (*pdpb.ScanRegionsResponse, error) {
	return g.c.ScanRegions(ctx, q)
}
func (g viaGRPC) AskSplit(ctx context.Context, q *pdpb.AskSplitRequest) (*pdpb.AskSplitResponse, error) {
	return g.c.AskSplit(ctx, q)
}
func (g viaGRPC) AskBatchSplit(ctx context.Context, q *pdpb.AskBatchSplitRequest) (*pdpb.AskBatchSplitResponse, error) {
	return g.c.AskBatchSplit(ctx, q)
}
func (g viaGRPC) ReportSplit(ctx context.Context, q *pdpb.ReportSplitRequest) (*pdpb.ReportSplitResponse, error) {
	return g.c.ReportSplit(ctx, q)
}
func (g viaGRPC) ReportBatchSplit(ctx context.Context, q *pdpb.ReportBatchSplitRequest) (*pdpb.ReportBatchSplitResponse, error) {
	return g.c.ReportBatchSplit(ctx, q)
}
func (g viaGRPC) GetClusterConfig(ctx context.Context, q *pdpb.GetClusterConfigRequest) (*pdpb.GetClusterConfigResponse, error) {
	return g.c.GetClusterConfig(ctx, q)
}
func (g viaGRPC) PutClusterConfig(ctx context.Context, q *pdpb.PutClusterConfigRequest) (*pdpb.PutClusterConfigResponse, error) {
	return g.c.PutClusterConfig(ctx, q)
}
func (g viaGRPC) ScatterRegion(ctx context.Context, q *pdpb.ScatterRegionRequest) (*pdpb.ScatterRegionResponse, error) {
	return g.c.ScatterRegion(ctx, q)
}
func (g viaGRPC) GetGCSafePoint(ctx context.Context, q *pdpb.GetGCSafePointRequest) (*pdpb.GetGCSafePointResponse, error) {
	return g.c.GetGCSafePoint(ctx, q)
}
func (g viaGRPC) UpdateGCSafePoint(ctx context.Context, q *pdpb.UpdateGCSafePointRequest) (*pdpb.UpdateGCSafePointResponse, error) {
	return g.c.UpdateGCSafePoint(ctx, q)
}
func (g viaGRPC) UpdateServiceGCSafePoint(ctx context.Context, q *pdpb.UpdateServiceGCSafePointRequest) (*pdpb.UpdateServiceGCSafePointResponse, error) {
	return g.c.UpdateServiceGCSafePoint(ctx, q)
}
func (g viaGRPC) GetOperator(ctx context.Context, q *pdpb.GetOperatorRequest) (*pdpb.GetOperatorResponse, error) {
	return g.c.GetOperator(ctx, q)
}
func (g viaGRPC) SplitRegions(ctx context.Context, q *pdpb.SplitRegionsRequest) (*pdpb.SplitRegionsResponse, error) {
	return g.c.SplitRegions(ctx, q)
}
func (g viaGRPC) SyncMaxTS(ctx context.Context, q *pdpb.SyncMaxTSRequest) (*pdpb.SyncMaxTSResponse, error) {
	return g.c.SyncMaxTS(ctx, q)
}
func (g viaGRPC) GetDCLocationInfo(ctx context.Context, q *pdpb.GetDCLocationInfoRequest) (*pdpb.GetDCLocationInfoResponse, error) {
	return g.c.GetDCLocationInfo(ctx, q)
}

type rpcKind struct {
	name     string
	readOnly bool // also sent with the right id as a control
	call     func(ctx context.Context, api unaryAPI, h *pdpb.RequestHeader) (hdrResp, error)
}

func (w *world) rpcKinds() []rpcKind {
	st, rg := w.winner.Store, w.winner.Region
	left := &metapb.Region{Id: rg.Id, EndKey: []byte("m"), RegionEpoch: &metapb.RegionEpoch{ConfVer: 1, Version: 2}, Peers: rg.Peers}
	right := &metapb.Region{Id: w.base + 900001, StartKey: []byte("m"), RegionEpoch: &metapb.RegionEpoch{ConfVer: 1, Version: 2},
		Peers: []*metapb.Peer{{Id: w.base + 900002, StoreId: st.Id}}}
	newStore := &metapb.Store{Id: w.base + 900003, Address: fmt.Sprintf("mock://foreign-r%d:20160", w.round), Version: "5.0.0"}
	return []rpcKind{
		{"Bootstrap", false, func(ctx context.Context, a unaryAPI, h *pdpb.RequestHeader) (hdrResp, error) {
			s, r := w.payload()
			return a.Bootstrap(ctx, &pdpb.BootstrapRequest{Header: h, Store: s, Region: r})
		}},
		{"IsBootstrapped", true, func(ctx context.Context, a unaryAPI, h *pdpb.RequestHeader) (hdrResp, error) {
			return a.IsBootstrapped(ctx, &pdpb.IsBootstrappedRequest{Header: h})
		}},
		{"AllocID", true, func(ctx context.Context, a unaryAPI, h *pdpb.RequestHeader) (hdrResp, error) {
			return a.AllocID(ctx, &pdpb.AllocIDRequest{Header: h})
		}},
		{"GetStore", true, func(ctx context.Context, a unaryAPI, h *pdpb.RequestHeader) (hdrResp, error) {
			return a.GetStore(ctx, &pdpb.GetStoreRequest{Header: h, StoreId: st.Id})
		}},
		{"PutStore", false, func(ctx context.Context, a unaryAPI, h *pdpb.RequestHeader) (hdrResp, error) {
			return a.PutStore(ctx, &pdpb.PutStoreRequest{Header: h, Store: newStore})
		}},
		{"GetAllStores", true, func(ctx context.Context, a unaryAPI, h *pdpb.RequestHeader) (hdrResp, error) {
			return a.GetAllStores(ctx, &pdpb.GetAllStoresRequest{Header: h})
		}},
		{"StoreHeartbeat", false, func(ctx context.Context, a unaryAPI, h *pdpb.RequestHeader) (hdrResp, error) {
			return a.StoreHeartbeat(ctx, &pdpb.StoreHeartbeatRequest{Header: h, Stats: &pdpb.StoreStats{StoreId: st.Id, Capacity: 1 << 40, Available: 1 << 39, RegionCount: 1}})
		}},
		{"GetRegion", true, func(ctx context.Context, a unaryAPI, h *pdpb.RequestHeader) (hdrResp, error) {
			return a.GetRegion(ctx, &pdpb.GetRegionRequest{Header: h, RegionKey: []byte("k")})
		}},
		{"GetPrevRegion", true, func(ctx context.Context, a unaryAPI, h *pdpb.RequestHeader) (hdrResp, error) {
			return a.GetPrevRegion(ctx, &pdpb.GetRegionRequest{Header: h, RegionKey: []byte("k")})
		}},
		{"GetRegionByID", true, func(ctx context.Context, a unaryAPI, h *pdpb.RequestHeader) (hdrResp, error) {
			return a.GetRegionByID(ctx, &pdpb.GetRegionByIDRequest{Header: h, RegionId: rg.Id})
		}},
		{"ScanRegions", true, func(ctx context.Context, a unaryAPI, h *pdpb.RequestHeader) (hdrResp, error) {
			return a.ScanRegions(ctx, &pdpb.ScanRegionsRequest{Header: h, Limit: 10})
		}},
		{"AskSplit", false, func(ctx context.Context, a unaryAPI, h *pdpb.RequestHeader) (hdrResp, error) {
			return a.AskSplit(ctx, &pdpb.AskSplitRequest{Header: h, Region: rg})
		}},
		{"AskBatchSplit", false, func(ctx context.Context, a unaryAPI, h *pdpb.RequestHeader) (hdrResp, error) {
			return a.AskBatchSplit(ctx, &pdpb.AskBatchSplitRequest{Header: h, Region: rg, SplitCount: 2})
		}},
		{"ReportSplit", false, func(ctx context.Context, a unaryAPI, h *pdpb.RequestHeader) (hdrResp, error) {
			return a.ReportSplit(ctx, &pdpb.ReportSplitRequest{Header: h, Left: left, Right: right})
		}},
		{"ReportBatchSplit", false, func(ctx context.Context, a unaryAPI, h *pdpb.RequestHeader) (hdrResp, error) {
			return a.ReportBatchSplit(ctx, &pdpb.ReportBatchSplitRequest{Header: h, Regions: []*metapb.Region{left, right}})
		}},
		{"GetClusterConfig", true, func(ctx context.Context, a unaryAPI, h *pdpb.RequestHeader) (hdrResp, error) {
			return a.GetClusterConfig(ctx, &pdpb.GetClusterConfigRequest{Header: h})
		}},
		{"PutClusterConfig", false, func(ctx context.Context, a unaryAPI, h *pdpb.RequestHeader) (hdrResp, error) {
			return a.PutClusterConfig(ctx, &pdpb.PutClusterConfigRequest{Header: h, Cluster: &metapb.Cluster{Id: h.GetClusterId(), MaxPeerCount: 5}})
		}},
		{"ScatterRegion", false, func(ctx context.Context, a unaryAPI, h *pdpb.RequestHeader) (hdrResp, error) {
			return a.ScatterRegion(ctx, &pdpb.ScatterRegionRequest{Header: h, RegionId: rg.Id})
		}},
		{"GetGCSafePoint", true, func(ctx context.Context, a unaryAPI, h *pdpb.RequestHeader) (hdrResp, error) {
			return a.GetGCSafePoint(ctx, &pdpb.GetGCSafePointRequest{Header: h})
		}},
		{"UpdateGCSafePoint", false, func(ctx context.Context, a unaryAPI, h *pdpb.RequestHeader) (hdrResp, error) {
			return a.UpdateGCSafePoint(ctx, &pdpb.UpdateGCSafePointRequest{Header: h, SafePoint: 7})
		}},
		{"UpdateServiceGCSafePoint", false, func(ctx context.Context, a unaryAPI, h *pdpb.RequestHeader) (hdrResp, error) {
			return a.UpdateServiceGCSafePoint(ctx, &pdpb.UpdateServiceGCSafePointRequest{Header: h, ServiceId: []byte("verif"), TTL: 100, SafePoint: 7})
		}},
		{"GetOperator", false, func(ctx context.Context, a unaryAPI, h *pdpb.RequestHeader) (hdrResp, error) {
			return a.GetOperator(ctx, &pdpb.GetOperatorRequest{Header: h, RegionId: rg.Id})
		}},
		{"SplitRegions", false, func(ctx context.Context, a unaryAPI, h *pdpb.RequestHeader) (hdrResp, error) {
			return a.SplitRegions(ctx, &pdpb.SplitRegionsRequest{Header: h, SplitKeys: [][]byte{[]byte("m")}, RetryLimit: 1})
		}},
	}
}

func served(resp hdrResp, err error) bool {
	if err != nil || resp == nil {
		return false
	}
	// typed nil responses
	defer func() { recover() }()
	return resp.GetHeader().GetError() == nil
}

func (w *world) foreignID(kind int, rng *rand.Rand) uint64 {
	switch kind % 7 {
	case 5:
		return w.id &^ 0xffffffff // high bits only
	case 6:
		return w.id & 0xffffffff // low bits only
	case 0:
		return 0
	case 1:
		return w.id + 1
	case 2:
		return w.id - 1
	case 3:
		return w.id ^ (1 << 63)
	}
	for {
		v := rng.Uint64()
		if v != w.id {
			return v
		}
	}
}

func (w *world) foreignSweep(l, kind int, rng *rand.Rand) {
	r := w.r
	if w.winner == nil {
		return
	}
	fid := w.foreignID(kind, rng)
	w.step("foreign cluster id sweep with id %d on leader %d", fid, l)
	apis := []struct {
		name string
		api  unaryAPI
	}{{"direct", w.ms[l].Srv}, {"grpc", viaGRPC{w.pd(l, 0)}}}
	for _, k := range w.rpcKinds() {
		for _, a := range apis {
			ctx, cancel := context.WithTimeout(context.Background(), 60*time.Second)
			var resp hdrResp
			var err error
			func() {
				defer func() {
					if p := recover(); p != nil {
						err = fmt.Errorf("panic: %v", p)
					}
				}()
				resp, err = k.call(ctx, a.api, &pdpb.RequestHeader{ClusterId: fid})
			}()
			cancel()
			r.Count("foreign_id_requests", 1)
			if served(resp, err) {
				r.Violation("foreign-cluster-id-served:"+k.name, fmt.Sprintf("%s with cluster id %d was served by a cluster whose id is %d (%s)", k.name, fid, w.id, a.name),
					w.witness(map[string]interface{}{"rpc": k.name, "via": a.name, "foreign_id": fid}))
				return
			}
			r.Count("foreign_id_refused", 1)
			if k.readOnly {
				ctx, cancel := context.WithTimeout(context.Background(), 60*time.Second)
				resp, err := k.call(ctx, a.api, &pdpb.RequestHeader{ClusterId: w.id})
				cancel()
				if served(resp, err) {
					r.Count("foreign_id_control_served_with_right_id", 1)
				} else {
					r.Count("foreign_id_control_not_served", 1)
				}
			}
		}
		r.Eval(1) // one RPC kind exercised with a foreign cluster id (direct and through gRPC)
		r.Distinct("foreign|" + k.name + "|" + fmt.Sprint(kind%7))
	}
	// streaming kinds on long-lived streams: a foreign request after valid ones
	w.tsoSequences(l, "after-bootstrap", true)
	w.heartbeatSequences(l, "after-bootstrap")
	w.syncSequences(l, "after-bootstrap")
	// streaming kinds, through gRPC only
	pd := w.pd(l, 1)
	hdr := &pdpb.RequestHeader{ClusterId: fid}
	{
		ctx, cancel := context.WithTimeout(context.Background(), 60*time.Second)
		if s, err := pd.Tso(ctx); err == nil {
			s.Send(&pdpb.TsoRequest{Header: hdr, Count: 1})
			resp, err := s.Recv()
			r.Count("foreign_id_requests", 1)
			if err == nil && resp.GetHeader().GetError() == nil {
				r.Violation("foreign-cluster-id-served:Tso", fmt.Sprintf("Tso with cluster id %d was served by cluster %d", fid, w.id), w.witness(map[string]interface{}{"foreign_id": fid}))
			} else {
				r.Count("foreign_id_refused", 1)
			}
		}
		cancel()
	}
	{
		ctx, cancel := context.WithTimeout(context.Background(), 60*time.Second)
		if s, err := pd.SyncRegions(ctx); err == nil {
			s.Send(&pdpb.SyncRegionRequest{Header: hdr, Member: &pdpb.Member{Name: "verif-foreign", MemberId: 424242}, StartIndex: 0})
			resp, err := s.Recv()
			r.Count("foreign_id_requests", 1)
			if err == nil && resp.GetHeader().GetError() == nil {
				r.Violation("foreign-cluster-id-served:SyncRegions", fmt.Sprintf("SyncRegions with cluster id %d was served by cluster %d", fid, w.id), w.witness(map[string]interface{}{"foreign_id": fid}))
			} else {
				r.Count("foreign_id_refused", 1)
			}
		}
		cancel()
	}
	{
		// a region heartbeat with a foreign id must not be processed: the stream ends with an error
		// (nothing is sent back on success either, so a bounded wait decides "not refused" only as
		// a count, never as a verdict)
		ctx, cancel := context.WithTimeout(context.Background(), 5*time.Second)
		if s, err := pd.RegionHeartbeat(ctx); err == nil {
			rg := w.winner.Region
			s.Send(&pdpb.RegionHeartbeatRequest{Header: hdr, Region: rg, Leader: rg.Peers[0]})
			_, err := s.Recv()
			r.Count("foreign_id_requests", 1)
			if err != nil && ctx.Err() == nil {
				r.Count("foreign_id_refused", 1)
			} else {
				r.Count("foreign_id_region_heartbeat_no_refusal_seen_not_judged", 1)
			}
		}
		cancel()
	}
	// kinds that are documented as PD-internal (validateInternalRequest) or as discovery
	// (GetMembers, how a client learns the cluster id): exercised and counted, not judged
	for _, a := range apis {
		ctx, cancel := context.WithTimeout(context.Background(), 30*time.Second)
		h := &pdpb.RequestHeader{ClusterId: fid, SenderId: w.ms[l].Srv.GetMember().ID()}
		if resp, err := a.api.GetDCLocationInfo(ctx, &pdpb.GetDCLocationInfoRequest{Header: h, DcLocation: "dc-1"}); served(resp, err) {
			r.Count("skipped_ambiguous_internal_rpc_served_with_foreign_id", 1)
		}
		cancel()
	}
	r.Count("foreign_id_sweeps", 1)
}

// sideTraffic drives other RPC kinds while the bootstrap race runs: IsBootstrapped and
// GetClusterConfig with the right cluster id (a "true" answer must be backed by a stored cluster
// record), and IsBootstrapped / GetClusterConfig / PutClusterConfig / PutStore / StoreHeartbeat /
// AllocID / RegionHeartbeat with a foreign cluster id, which must be refused at every moment of
// the bootstrap, not only on a settled cluster.
func (w *world) sideTraffic(l int, done chan struct{}, wg *sync.WaitGroup) {
	r := w.r
	apis := []struct {
		name string
		api  unaryAPI
	}{{"direct", w.ms[l].Srv}, {"grpc", viaGRPC{w.pd(l, 1)}}}
	for i := range apis {
		ai := i
		a := apis[ai]
		wg.Add(1)
		go func() {
			defer wg.Done()
			fid := w.id + 1 + uint64(ai)
			if ai == 1 {
				fid = 0
			}
			right := &pdpb.RequestHeader{ClusterId: w.id}
			foreign := &pdpb.RequestHeader{ClusterId: fid}
			for n := 0; n < 3000; n++ {
				ctx, cancel := context.WithTimeout(context.Background(), 60*time.Second)
				if resp, err := a.api.IsBootstrapped(ctx, &pdpb.IsBootstrappedRequest{Header: right}); err == nil && resp.GetHeader().GetError() == nil {
					r.Count("side_is_bootstrapped_answers", 1)
					if resp.Bootstrapped && !w.rootExists() {
						r.Violation("is-bootstrapped:true-without-cluster-record", "IsBootstrapped answered true while no cluster record was stored", w.witness(map[string]interface{}{"via": a.name}))
					}
				}
				if resp, err := a.api.GetClusterConfig(ctx, &pdpb.GetClusterConfigRequest{Header: right}); served(resp, err) {
					r.Count("side_get_cluster_config_served", 1)
				}
				st, _ := w.variantOf(w.shared[0], w.shared[1], w.shared[2], false)
				calls := []struct {
					name string
					f    func() (hdrResp, error)
				}{
					{"IsBootstrapped", func() (hdrResp, error) {
						return a.api.IsBootstrapped(ctx, &pdpb.IsBootstrappedRequest{Header: foreign})
					}},
					{"GetClusterConfig", func() (hdrResp, error) {
						return a.api.GetClusterConfig(ctx, &pdpb.GetClusterConfigRequest{Header: foreign})
					}},
					{"PutClusterConfig", func() (hdrResp, error) {
						return a.api.PutClusterConfig(ctx, &pdpb.PutClusterConfigRequest{Header: foreign, Cluster: &metapb.Cluster{Id: fid, MaxPeerCount: 7}})
					}},
					{"PutStore", func() (hdrResp, error) { return a.api.PutStore(ctx, &pdpb.PutStoreRequest{Header: foreign, Store: st}) }},
					{"StoreHeartbeat", func() (hdrResp, error) {
						return a.api.StoreHeartbeat(ctx, &pdpb.StoreHeartbeatRequest{Header: foreign, Stats: &pdpb.StoreStats{StoreId: st.Id, Capacity: 1 << 40, Available: 1 << 39}})
					}},
					{"AllocID", func() (hdrResp, error) { return a.api.AllocID(ctx, &pdpb.AllocIDRequest{Header: foreign}) }},
				}
				for _, c := range calls {
					resp, err := c.f()
					r.Count("side_foreign_id_requests", 1)
					if served(resp, err) {
						r.Violation("foreign-cluster-id-served:"+c.name, fmt.Sprintf("%s with cluster id %d was served by a cluster whose id is %d while it was being bootstrapped (%s)", c.name, fid, w.id, a.name),
							w.witness(map[string]interface{}{"rpc": c.name, "via": a.name, "foreign_id": fid, "during": "bootstrap race"}))
					}
				}
				cancel()
				select {
				case <-done:
					return
				default:
				}
				time.Sleep(500 * time.Microsecond)
			}
		}()
	}
	// Tso streams on which a foreign request follows valid ones, while the race runs
	wg.Add(1)
	go func() {
		defer wg.Done()
		for n := 0; n < 200; n++ {
			w.tsoSequences(l, "during-bootstrap-race", n == 0)
			select {
			case <-done:
				return
			default:
			}
		}
	}()
	// one region heartbeat stream with a foreign id, opened while the race runs
	wg.Add(1)
	go func() {
		defer wg.Done()
		ctx, cancel := context.WithTimeout(context.Background(), 5*time.Second)
		defer cancel()
		s, err := w.pd(l, 0).RegionHeartbeat(ctx)
		if err != nil {
			return
		}
		_, rg := w.variantOf(w.shared[0], w.shared[1], w.shared[2], false)
		s.Send(&pdpb.RegionHeartbeatRequest{Header: &pdpb.RequestHeader{ClusterId: w.id + 1}, Region: rg, Leader: rg.Peers[0]})
		if resp, err := s.Recv(); (err != nil && ctx.Err() == nil) || (err == nil && resp.GetHeader().GetError() != nil) {
			r.Count("side_foreign_region_heartbeat_refused", 1)
		} else {
			r.Count("side_foreign_region_heartbeat_no_refusal_seen_not_judged", 1)
		}
	}()
}
