package main

// Payloads that differ from a base payload in exactly one field (gap (e): every field, through every
// entry point), including the extreme ids 0 and 2^64-1 and equivalent spellings of labels.

import (
	"math"

	"github.com/gogo/protobuf/proto"
	"github.com/pingcap/kvproto/pkg/metapb"
)

// raceFields: variants that stay well-formed and may win a race.
var raceFields = []string{"store-id", "address", "labels", "label-case", "version", "start-timestamp", "region-id", "epoch-confver", "epoch-version",
	"peer-id", "store-id-max", "region-id-max", "peer-id-max"}

// repeatFields: all variants sent against a bootstrapped cluster; the bool tells whether the variant
// is still a well-formed bootstrap payload.
var repeatFields = []struct {
	name string
	well bool
}{
	{"store-id", true}, {"address", true}, {"labels", true}, {"label-case", true}, {"label-empty-value", true}, {"version", true}, {"state-offline", true},
	{"state-tombstone", true}, {"start-timestamp", true}, {"region-id", true}, {"epoch-confver", true}, {"epoch-version", true}, {"epoch-nil", true},
	{"peer-id", true}, {"peer-learner", true}, {"store-id-max", true}, {"region-id-max", true}, {"peer-id-max", true},
	{"store-id-only", false}, {"peer-store-only", false}, {"start-key", false}, {"end-key", false}, {"second-peer", false},
	{"store-id-zero", false}, {"region-id-zero", false}, {"peer-id-zero", false},
}

// oneField returns copies of st / rg with exactly the named field changed (salt makes two variants
// of the same field different from each other).
func oneField(st0 *metapb.Store, rg0 *metapb.Region, f string, salt uint64) (*metapb.Store, *metapb.Region) {
	st := proto.Clone(st0).(*metapb.Store)
	rg := proto.Clone(rg0).(*metapb.Region)
	switch f {
	case "store-id": // the store id and, to stay well-formed, the peer's store id
		st.Id += 100000 + salt
		rg.Peers[0].StoreId = st.Id
	case "store-id-max":
		st.Id = math.MaxUint64
		rg.Peers[0].StoreId = st.Id
	case "store-id-zero":
		st.Id = 0
		rg.Peers[0].StoreId = 0
	case "store-id-only": // peer stays on the old store: peer on a store other than the bootstrapping one
		st.Id += 100000 + salt
	case "peer-store-only":
		rg.Peers[0].StoreId += 100000 + salt
	case "address":
		st.Address += "-" + string(rune('a'+salt%26))
	case "labels":
		st.Labels = append(st.Labels, &metapb.StoreLabel{Key: "rack", Value: "r" + string(rune('a'+salt%26))})
	case "label-case": // an equivalent spelling of the key, a different payload nevertheless
		if len(st.Labels) > 0 {
			st.Labels[0].Key = "ZONE"
		}
	case "label-empty-value":
		if len(st.Labels) > 0 {
			st.Labels[0].Value = ""
		}
	case "version":
		st.Version = "5.0." + string(rune('1'+salt%9))
	case "state-offline":
		st.State = metapb.StoreState_Offline
	case "state-tombstone":
		st.State = metapb.StoreState_Tombstone
	case "start-timestamp":
		st.StartTimestamp += int64(1 + salt)
	case "region-id":
		rg.Id += 100000 + salt
	case "region-id-max":
		rg.Id = math.MaxUint64
	case "region-id-zero":
		rg.Id = 0
	case "epoch-confver":
		rg.RegionEpoch.ConfVer += 1 + salt
	case "epoch-version":
		rg.RegionEpoch.Version += 1 + salt
	case "epoch-nil":
		rg.RegionEpoch = nil
	case "peer-id":
		rg.Peers[0].Id += 100000 + salt
	case "peer-id-max":
		rg.Peers[0].Id = math.MaxUint64
	case "peer-id-zero":
		rg.Peers[0].Id = 0
	case "peer-learner":
		rg.Peers[0].Role = metapb.PeerRole_Learner
	case "start-key":
		rg.StartKey = []byte("a")
	case "end-key":
		rg.EndKey = []byte("z")
	case "second-peer":
		rg.Peers = append(rg.Peers, &metapb.Peer{Id: rg.Peers[0].Id + 100000 + salt, StoreId: st.Id})
	}
	return st, rg
}
