package main

// Part (a): members racing to initialise the cluster id.
//
// N contenders (goroutines on instrumented clients of one embedded etcd) call
// server.VerifInitOrGetClusterID on a fresh key; a contender whose call fails calls again (a member
// that failed to start is started again). Their etcd transactions are released in gate-scheduled
// orders (all orders, depth-first, for 2-3 contenders) or run freely (2-32 contenders); single
// transactions are failed before sending or after they committed.
//
// Oracle (from the statement): every successful call returns the same value; the committed history
// of the key, read through an un-instrumented client, holds at most one value, is never deleted,
// and equals the returned value; callers arriving after the race return it too.

import (
	"context"

	"fmt"
	"go.etcd.io/etcd/clientv3"
	"math/rand"
	"sort"
	"strings"
	"sync"
	"time"

	"github.com/tikv/pd/pkg/typeutil"
	"github.com/tikv/pd/server"
	"verif/harness/lib/etcdx"
	"verif/harness/lib/ev"
	"verif/harness/lib/hist"
	"verif/harness/lib/sched"
)

type idCall struct {
	W       int    `json:"contender"`
	Attempt int    `json:"attempt"`
	Client  int    `json:"client"`
	Val     uint64 `json:"value"`
	Err     string `json:"err,omitempty"`
	Fault   string `json:"fault,omitempty"`
	Late    bool   `json:"late,omitempty"`
	Call    int64  `json:"call"`
	Ret     int64  `json:"ret"`
}

var faultName = map[etcdx.FaultMode]string{etcdx.NoFault: "-", etcdx.FailBefore: "fail-before", etcdx.LostAck: "lost-ack"}

// idRace is one race on one fresh key.
type idRace struct {
	r       *ev.Run
	e       *etcdx.Etcd
	cl      []*etcdx.Client
	key     string
	n       int
	plans   [][]etcdx.FaultMode // plans[w][attempt]
	maxTry  int
	fromRev int64

	logs  []etcdx.RPC // transactions of the contenders' clients during this race
	trace interface{}
	mode  string
	out   string

	mu     sync.Mutex
	calls  []idCall
	goid   map[int64]int // goroutine -> contender
	txnNo  map[int]int   // contender -> txns seen so far
	faults int
}

func (x *idRace) client(w int) *etcdx.Client { return x.cl[w%len(x.cl)] }

// decide is installed on every client: the k-th transaction of contender w gets plans[w][k].
func (x *idRace) decide(rpc *etcdx.RPC) etcdx.FaultMode {
	if rpc.Method != "Txn" {
		return etcdx.NoFault
	}
	x.mu.Lock()
	defer x.mu.Unlock()
	w, ok := x.goid[rpc.Goid]
	if !ok {
		return etcdx.NoFault
	}
	k := x.txnNo[w]
	x.txnNo[w] = k + 1
	if w < len(x.plans) && k < len(x.plans[w]) && x.plans[w][k] != etcdx.NoFault {
		x.faults++
		return x.plans[w][k]
	}
	return etcdx.NoFault
}

// contend is the body of contender w.
func (x *idRace) contend(w int) {
	g := hist.Goid()
	x.mu.Lock()
	x.goid[g] = w
	x.mu.Unlock()
	defer func() {
		x.mu.Lock()
		delete(x.goid, g)
		x.mu.Unlock()
	}()
	for a := 0; a < x.maxTry; a++ {
		c := idCall{W: w, Attempt: a, Client: x.client(w).Member}
		if w < len(x.plans) && a < len(x.plans[w]) {
			c.Fault = faultName[x.plans[w][a]]
		}
		var err error
		func() {
			defer func() {
				if p := recover(); p != nil {
					err = fmt.Errorf("panic: %v", p)
					x.r.Violation("cluster-id:init-panics", fmt.Sprintf("initOrGetClusterID panicked: %v", p), x.witness(nil))
				}
			}()
			c.Call = hist.Tick()
			c.Val, err = server.VerifInitOrGetClusterID(x.client(w).Client, x.key)
			c.Ret = hist.Tick()
		}()
		if err != nil {
			c.Err = err.Error()
		}
		x.mu.Lock()
		x.calls = append(x.calls, c)
		x.mu.Unlock()
		if err == nil {
			return
		}
	}
}

func (x *idRace) late(client *etcdx.Client, w int) {
	c := idCall{W: w, Client: client.Member, Late: true, Call: hist.Tick()}
	v, err := server.VerifInitOrGetClusterID(client.Client, x.key)
	c.Val, c.Ret = v, hist.Tick()
	if err != nil {
		c.Err = err.Error()
	}
	x.mu.Lock()
	x.calls = append(x.calls, c)
	x.mu.Unlock()
}

func (x *idRace) witness(extra map[string]interface{}) map[string]interface{} {
	x.mu.Lock()
	calls := append([]idCall(nil), x.calls...)
	x.mu.Unlock()
	m := map[string]interface{}{"key": x.key, "contenders": x.n, "fault_plans": planString(x.plans), "calls": calls}
	for k, v := range extra {
		m[k] = v
	}
	return m
}

func planString(p [][]etcdx.FaultMode) []string {
	var out []string
	for _, l := range p {
		var s []string
		for _, f := range l {
			s = append(s, faultName[f])
		}
		out = append(out, strings.Join(s, ","))
	}
	return out
}

// judge evaluates the oracles; mode is part of the violation key. Returns a short outcome
// descriptor used for distinctness (who won, how many calls failed).
func (x *idRace) judge(keyEvents []etcdx.WatchEvent) string {
	r := x.r
	mode, trace := x.mode, x.trace
	wit := x.witness(map[string]interface{}{"mode": mode, "schedule": trace, "key_history": keyEvents})
	r.Count("cluster_id_history_events", int64(len(keyEvents)))

	// (1) all successful callers return one value
	var vals []uint64
	seen := map[uint64]bool{}
	okCalls, failed := 0, 0
	for _, c := range x.calls {
		if c.Err != "" {
			failed++
			continue
		}
		okCalls++
		if !seen[c.Val] {
			seen[c.Val] = true
			vals = append(vals, c.Val)
		}
	}
	r.Count("cluster_id_calls_ok", int64(okCalls))
	r.Count("cluster_id_calls_failed", int64(failed))
	if len(vals) > 1 {
		sort.Slice(vals, func(a, b int) bool { return vals[a] < vals[b] })
		r.Violation("cluster-id:callers-disagree:"+mode, fmt.Sprintf("contenders initialising one cluster id key returned %d different values %v", len(vals), vals), wit)
		return "disagree"
	}
	if okCalls == 0 {
		// every contender, and the member arriving after the race without any injected fault, failed
		transient := false
		for _, c := range x.calls {
			if c.Fault == "" || c.Fault == "-" {
				if strings.Contains(c.Err, "deadline") || strings.Contains(c.Err, "Unavailable") || strings.Contains(c.Err, "canceled") {
					transient = true
				}
			}
		}
		if transient {
			r.Count("cluster_id_race_without_any_id_transient_errors_not_judged", 1)
		} else {
			r.Violation("cluster-id:no-caller-obtains-an-id:"+mode, "no member obtained a cluster id although calls without any injected fault were made", wit)
			return "none"
		}
	}
	// (2) the committed history of the key holds one value forever
	stored := map[string]bool{}
	var storedVals []string
	puts := 0
	for _, h := range keyEvents {
		if h.Delete {
			r.Violation("cluster-id:key-deleted:"+mode, fmt.Sprintf("cluster id key was deleted at revision %d", h.Rev), wit)
			return "deleted"
		}
		puts++
		if !stored[h.Hex] {
			stored[h.Hex] = true
			storedVals = append(storedVals, h.Hex)
		}
	}
	if len(storedVals) > 1 {
		r.Violation("cluster-id:stored-value-changes:"+mode, fmt.Sprintf("the cluster id key took %d different values %v", len(storedVals), storedVals), wit)
		return "changes"
	}
	if puts > 1 {
		r.Count("cluster_id_rewritten_same_value", 1) // not a change of value: counted, not judged
	}
	// (3) what callers return is what is stored
	if len(vals) == 1 {
		if len(storedVals) == 0 {
			r.Violation("cluster-id:returned-but-not-stored:"+mode, fmt.Sprintf("value %d was returned but the key was never written", vals[0]), wit)
			return "not-stored"
		}
		sv, err := typeutil.BytesToUint64([]byte(keyEvents[0].Value))
		if err != nil || sv != vals[0] {
			r.Violation("cluster-id:returned-differs-from-stored:"+mode, fmt.Sprintf("callers returned %d, the key holds %s (%v)", vals[0], storedVals[0], err), wit)
			return "differs"
		}
	}
	// outcome descriptor: which contender's transaction created the key, how many calls failed
	winner := -1
	if len(keyEvents) > 0 {
		for _, rpc := range x.logs {
			if rpc.Method == "Txn" && rpc.Succ && rpc.Rev == keyEvents[0].Rev && len(rpc.Keys) > 0 && rpc.Keys[0] == x.key {
				winner = rpc.Member
				if rpc.Fault == "lost-ack" {
					r.Count("cluster_id_winner_lost_its_ack", 1)
				}
			}
		}
	}
	return fmt.Sprintf("win%d|fail%d", winner, failed)
}

func (x *idRace) reset() {
	for _, c := range x.cl {
		c.ResetLog()
		c.Decide = x.decide
	}
}

func (x *idRace) done() {
	for _, c := range x.cl {
		c.Decide = nil
		c.Gate, c.Done = nil, nil
		x.logs = append(x.logs, c.Log()...)
	}
}

// judgeBatch reads the committed history once for a batch of finished races (each on its own
// fresh key) and judges every race against the events of its key.
func judgeBatch(r *ev.Run, e *etcdx.Etcd, batch []*idRace) bool {
	if len(batch) == 0 {
		return true
	}
	hs, err := e.History("/verif-c20/", batch[0].fromRev)
	if err != nil {
		r.Inconclusive("cluster-id history: %v", err)
		return false
	}
	byKey := map[string][]etcdx.WatchEvent{}
	mine := map[string]bool{}
	for _, x := range batch {
		mine[x.key] = true
	}
	for _, h := range hs {
		byKey[h.Key] = append(byKey[h.Key], h)
		if !mine[h.Key] {
			// the relatives and the bulk keys were planted before the batch started: nothing but the
			// race keys may change
			r.Violation("cluster-id:unrelated-key-written", fmt.Sprintf("key %s was written at revision %d while members initialised the cluster id keys of this batch", h.Key, h.Rev),
				map[string]interface{}{"event": h, "race_keys": len(batch)})
			return false
		}
	}
	for _, x := range batch {
		x.out = x.judge(byKey[x.key])
	}
	return r.Violations() == 0
}

// relatives of a race key: names that extend it, are a prefix of it, or sit next to it in key order.
func relatives(key string) []string {
	return []string{key + "0", key + "/x", key[:len(key)-1], key + "\x00"}
}

// plantRelatives writes the relatives of the given race keys (the keys themselves stay fresh).
func plantRelatives(e *etcdx.Etcd, keys []string, planted map[string]bool) error {
	var ops []clientv3.Op
	flush := func() error {
		if len(ops) == 0 {
			return nil
		}
		_, err := e.Observer.Txn(context.Background()).Then(ops...).Commit()
		ops = nil
		return err
	}
	for _, k := range keys {
		for _, rk := range relatives(k) {
			planted[rk] = true
			ops = append(ops, clientv3.OpPut(rk, "verif-unrelated"))
			if len(ops) >= 100 {
				if err := flush(); err != nil {
					return err
				}
			}
		}
	}
	return flush()
}

// plantBulk surrounds the race keys with a few thousand unrelated keys (before and after them in
// key order, inside and outside their directory prefix).
func plantBulk(e *etcdx.Etcd, n int) error {
	var ops []clientv3.Op
	for i := 0; i < n; i++ {
		var k string
		switch i % 4 {
		case 0:
			k = fmt.Sprintf("/verif-c20/a-bulk/%06d/cluster_id", i)
		case 1:
			k = fmt.Sprintf("/verif-c20/zz-bulk/%06d", i)
		case 2:
			k = fmt.Sprintf("/verif-c2/%06d/cluster_id", i)
		default:
			k = fmt.Sprintf("/verif-c200/%06d", i)
		}
		ops = append(ops, clientv3.OpPut(k, "verif-bulk"))
		if len(ops) == 100 || i == n-1 {
			if _, err := e.Observer.Txn(context.Background()).Then(ops...).Commit(); err != nil {
				return err
			}
			ops = nil
		}
	}
	return nil
}

// currentRev returns the next revision of the store: keys are fresh (never used before), so the
// history from here on is the whole history of the keys of the races started afterwards.
func currentRev(e *etcdx.Etcd) (int64, error) {
	resp, err := e.Observer.Get(context.Background(), "\x00")
	if err != nil {
		return 0, err
	}
	return resp.Header.Revision + 1, nil
}

func newRace(r *ev.Run, e *etcdx.Etcd, cl []*etcdx.Client, key string, n int, plans [][]etcdx.FaultMode) (*idRace, error) {
	x := &idRace{r: r, e: e, cl: cl, key: key, n: n, plans: plans, maxTry: 3, goid: map[int64]int{}, txnNo: map[int]int{}}
	return x, nil
}

// allPlans enumerates fault plans for n contenders: the first transaction of each contender is
// {none, fail-before, lost-ack}; maxFaulty bounds the number of faulty contenders.
func allPlans(n, maxFaulty int) [][][]etcdx.FaultMode {
	modes := []etcdx.FaultMode{etcdx.NoFault, etcdx.FailBefore, etcdx.LostAck}
	var out [][][]etcdx.FaultMode
	var rec func(w int, cur [][]etcdx.FaultMode, faulty int)
	rec = func(w int, cur [][]etcdx.FaultMode, faulty int) {
		if w == n {
			out = append(out, append([][]etcdx.FaultMode(nil), cur...))
			return
		}
		for _, m := range modes {
			f := faulty
			if m != etcdx.NoFault {
				f++
				if f > maxFaulty {
					continue
				}
			}
			rec(w+1, append(cur, []etcdx.FaultMode{m}), f)
		}
	}
	rec(0, nil, 0)
	return out
}

// clusterIDGated enumerates every release order of the contenders' transactions.
func clusterIDGated(r *ev.Run, e *etcdx.Etcd, cl []*etcdx.Client) {
	type cfg struct {
		n, maxFaulty int
	}
	cfgs := []cfg{{2, 2}, {3, r.Pick(2, 3)}}
	cnt := 0
	complete := true
	planted := map[string]bool{}
	for _, c := range cfgs {
		plans := allPlans(c.n, c.maxFaulty)
		// double faults: a contender whose first two transactions both fail (2 contenders only)
		if c.n == 2 {
			plans = append(plans,
				[][]etcdx.FaultMode{{etcdx.LostAck, etcdx.LostAck}, {etcdx.NoFault}},
				[][]etcdx.FaultMode{{etcdx.LostAck, etcdx.FailBefore}, {etcdx.LostAck}},
				[][]etcdx.FaultMode{{etcdx.FailBefore, etcdx.LostAck}, {etcdx.FailBefore}})
		}
		for pi, plan := range plans {
			if r.Shards > 1 && pi%r.Shards != r.Shard {
				continue
			}
			// the keys of the next races get relatives (names extending them, prefixes, neighbours)
			var next []string
			for q := 1; q <= 150; q++ {
				next = append(next, fmt.Sprintf("/verif-c20/g%d-%d/cluster_id", r.Shard, cnt+q))
			}
			if err := plantRelatives(e, next, planted); err != nil {
				r.Inconclusive("etcd: %v", err)
				return
			}
			r.Count("cluster_id_relatives_planted", int64(4*len(next)))
			rev, err := currentRev(e)
			if err != nil {
				r.Inconclusive("etcd: %v", err)
				return
			}
			var batch []*idRace
			ex := &sched.Explorer{}
			for {
				ch := ex.Next()
				if ch == nil {
					break
				}
				cnt++
				key := fmt.Sprintf("/verif-c20/g%d-%d/cluster_id", r.Shard, cnt)
				x, _ := newRace(r, e, cl[:c.n], key, c.n, plan)
				x.fromRev, x.mode = rev, "gated"
				x.reset()
				s := sched.New()
				s.Settle = 250 * time.Millisecond // contenders never block each other; only a starved start-up would need it
				for _, c := range x.cl {
					c.Gate, c.Done = s.Gate, s.Done
				}
				var ws []func()
				for w := 0; w < c.n; w++ {
					w := w
					ws = append(ws, func() { x.contend(w) })
				}
				s.Run(ws, ch)
				x.done()
				ex.Advance(s)
				if s.Err != nil {
					r.Inconclusive("scheduler (cluster id): %v", s.Err)
					return
				}
				x.trace = s.Trace
				// a member arriving after the race
				x.late(cl[len(cl)-1], c.n)
				batch = append(batch, x)
				r.Eval(1)
				r.Count("cluster_id_gated_schedules", 1)
				r.Count("cluster_id_gated_txns_released", int64(len(s.Trace)))
				r.Count("cluster_id_faults_injected", int64(x.faults))
				r.Distinct(fmt.Sprintf("idg|%d|%v|%s", c.n, planString(plan), s.TraceKey()))
				if cnt == 9 {
					r.Sample(map[string]interface{}{"part": "cluster-id gated", "contenders": c.n, "fault_plans": planString(plan), "schedule": s.Trace, "calls": x.calls})
				}
				if ex.Runs > 3000 {
					complete = false
					break
				}
			}
			if ex.Diverged > 0 {
				r.Count("cluster_id_dfs_diverged_prefixes", int64(ex.Diverged))
			}
			if !judgeBatch(r, e, batch) {
				return
			}
		}
	}
	r.Set("cluster_id_dfs_complete_for_enumerated_plans", complete)
}

// clusterIDFree runs free races with 2-32 contenders.
func clusterIDFree(r *ev.Run, e *etcdx.Etcd, cl []*etcdx.Client, rng *rand.Rand) {
	races := r.Pick(300, 2500)
	sizes := []int{2, 3, 4, 8, 16, 32}
	var batch []*idRace
	var rev int64
	flush := func() bool {
		ok := judgeBatch(r, e, batch)
		for _, x := range batch {
			r.Distinct(fmt.Sprintf("idf|%d|%d|%s|%d", x.n, len(x.cl), x.out, x.faults))
		}
		batch = nil
		return ok
	}
	for i := 0; i < races; i++ {
		if len(batch) == 0 {
			var next []string
			for q := 0; q < 25; q++ {
				next = append(next, fmt.Sprintf("/verif-c20/f%d-%d/cluster_id", r.Shard, i+q))
			}
			err := plantRelatives(e, next, map[string]bool{})
			if err != nil {
				r.Inconclusive("etcd: %v", err)
				return
			}
			r.Count("cluster_id_relatives_planted", int64(4*len(next)))
			if rev, err = currentRev(e); err != nil {
				r.Inconclusive("etcd: %v", err)
				return
			}
		}
		n := sizes[rng.Intn(len(sizes))]
		if rng.Intn(3) == 0 {
			n = 2 + rng.Intn(31)
		}
		nc := 1 + rng.Intn(len(cl)-1) // contenders share 1..len-1 clients ("members"); the last is the late one
		plans := make([][]etcdx.FaultMode, n)
		pf := []float64{0, 0.1, 0.3, 0.6}[rng.Intn(4)]
		for w := range plans {
			for a := 0; a < 2; a++ {
				m := etcdx.NoFault
				if rng.Float64() < pf {
					m = []etcdx.FaultMode{etcdx.FailBefore, etcdx.LostAck}[rng.Intn(2)]
				}
				plans[w] = append(plans[w], m)
			}
		}
		key := fmt.Sprintf("/verif-c20/f%d-%d/cluster_id", r.Shard, i)
		x, _ := newRace(r, e, cl[:nc], key, n, plans)
		x.fromRev, x.mode = rev, "free"
		x.reset()
		var wg sync.WaitGroup
		start := make(chan struct{})
		for w := 0; w < n; w++ {
			wg.Add(1)
			go func(w int) {
				defer wg.Done()
				<-start
				x.contend(w)
			}(w)
		}
		close(start)
		wg.Wait()
		x.done()
		x.late(cl[len(cl)-1], n)
		batch = append(batch, x)
		r.Eval(1)
		r.Count("cluster_id_free_races", 1)
		r.Count("cluster_id_contenders", int64(n))
		r.Count("cluster_id_faults_injected", int64(x.faults))
		if i == 5 {
			calls := x.calls
			if len(calls) > 12 {
				calls = calls[:12]
			}
			r.Sample(map[string]interface{}{"part": "cluster-id free", "contenders": n, "clients": nc, "fault_plans": planString(plans), "first_calls": calls})
		}
		if len(batch) >= 25 {
			if !flush() {
				return
			}
		}
	}
	flush()
}
