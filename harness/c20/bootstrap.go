package main

// Part (b): real pd clusters. One fresh cluster per round (1 member; 3 members in the thorough
// tier): malformed requests, K concurrent Bootstrap requests with distinct payloads (directly on
// *server.Server and through real gRPC clients), repeats, leader resign / re-campaign, member
// restart, requests with a foreign cluster id.
//
// Everything that decides is either a recorded response or ground truth read through an
// independent etcd client (current keys + complete committed history of the cluster root prefix
// and of /pd/cluster_id) and the region storage.

import (
	"context"
	"fmt"
	"math/rand"
	"path"
	"sort"
	"strconv"
	"strings"
	"sync"
	"sync/atomic"
	"time"

	"github.com/gogo/protobuf/proto"
	"github.com/pingcap/kvproto/pkg/metapb"
	"github.com/pingcap/kvproto/pkg/pdpb"
	"github.com/tikv/pd/pkg/typeutil"
	"github.com/tikv/pd/server/config"
	"github.com/tikv/pd/server/core"
	"go.etcd.io/etcd/clientv3"
	"google.golang.org/grpc"
	"verif/harness/lib/etcdx"
	"verif/harness/lib/ev"
	"verif/harness/lib/hist"
	"verif/harness/lib/srv"
)

const clusterIDKey = "/pd/cluster_id"

type bsCall struct {
	Seq     int            `json:"seq"`
	Phase   string         `json:"phase"`
	Kind    string         `json:"kind"` // "valid" or the name of the malformation
	Via     string         `json:"via"`  // direct | grpc
	Member  int            `json:"member"`
	Header  uint64         `json:"header_cluster_id"`
	Store   *metapb.Store  `json:"store,omitempty"`
	Region  *metapb.Region `json:"region,omitempty"`
	OK      bool           `json:"ok"`
	Err     string         `json:"err,omitempty"`
	HdrErr  string         `json:"header_error,omitempty"`
	Call    int64          `json:"call"`
	Ret     int64          `json:"ret"`
	timeout bool
}

type world struct {
	r       *ev.Run
	round   int
	cfgs    []*config.Config
	ms      []*member
	plan    *txnPlan
	kvx     bool
	planted map[string]string
	faults  int32  // faults injected into bootstrap processing so far
	silent  bool   // the request that bootstrapped the cluster was answered with an error (injected fault)
	quiet   string // non-empty: the race ran in one leader term without any fault; names the class of the race
	etcd    *clientv3.Client
	hx      *etcdx.Etcd
	conns   [][]*grpc.ClientConn
	id      uint64
	root    string // cluster root key

	mu      sync.Mutex
	calls   []bsCall
	steps   []string
	nextPay int
	nextVar int
	base    uint64
	shared  [3]uint64 // store / region / peer id shared by the "same ids" contenders of the race
	dupSeen bool
	winner  *bsCall // the single successful request once known
	served  int     // member that served the winner
}

func (w *world) step(format string, a ...interface{}) {
	w.mu.Lock()
	w.steps = append(w.steps, fmt.Sprintf(format, a...))
	w.mu.Unlock()
}

func (w *world) witness(extra map[string]interface{}) map[string]interface{} {
	w.mu.Lock()
	defer w.mu.Unlock()
	calls := w.calls
	m := map[string]interface{}{"round": w.round, "members": len(w.ms), "cluster_id": w.id, "steps": append([]string(nil), w.steps...)}
	// keep the witness readable: all successful calls, and the first/last refused ones
	var ok, rest []bsCall
	for _, c := range calls {
		if c.OK {
			ok = append(ok, c)
		} else {
			rest = append(rest, c)
		}
	}
	if len(rest) > 60 {
		rest = append(append([]bsCall(nil), rest[:30]...), rest[len(rest)-30:]...)
	}
	m["successful_requests"] = ok
	m["refused_requests_sample"] = rest
	m["requests_total"] = len(calls)
	for k, v := range extra {
		m[k] = v
	}
	return m
}

func hostOf(url string) string {
	return strings.TrimPrefix(strings.TrimPrefix(url, "http://"), "https://")
}

func (w *world) dial(i int) error {
	for _, c := range w.conns[i] {
		c.Close()
	}
	w.conns[i] = nil
	for k := 0; k < 2; k++ {
		ctx, cancel := context.WithTimeout(context.Background(), 30*time.Second)
		c, err := grpc.DialContext(ctx, hostOf(w.cfgs[i].ClientUrls), grpc.WithInsecure(), grpc.WithBlock())
		cancel()
		if err != nil {
			return err
		}
		w.conns[i] = append(w.conns[i], c)
	}
	return nil
}

func (w *world) pd(member, k int) pdpb.PDClient {
	cs := w.conns[member]
	return pdpb.NewPDClient(cs[k%len(cs)])
}

var cfgMu sync.Mutex

// newWorld starts a fresh cluster; a start-up failure (ports are allocated by listen-and-close, other
// processes on the machine may grab them) is retried with new ports.
func newWorld(r *ev.Run, round int, p roundPlan) (w *world, err error) {
	for try := 0; try < 3; try++ {
		if w, err = newWorldOnce(r, round, p); err == nil {
			return w, nil
		}
		r.Count("cluster_start_retries", 1)
	}
	return nil, err
}

func newWorldOnce(r *ev.Run, round int, p roundPlan) (*world, error) {
	members := p.Members
	w := &world{r: r, round: round, kvx: p.KvxStorage}
	if p.TxnFault != "" || p.StoreFault > 0 || p.KvxStorage {
		w.plan = newTxnPlan(p.TxnFault, int32(p.TxnN), int64(p.StoreFault))
	}
	cfgMu.Lock()
	w.cfgs = srv.NewConfigs(members, func(i int, c *config.Config) {
		c.LeaderLease = 30 // a starved process must not lose its leadership by itself
		if p.KvxStorage {
			c.PDServerCfg.UseRegionStorage = false // regions go through the (instrumented) kv.Base
		}
	})
	cfgMu.Unlock()
	var err error
	w.ms, err = startMembers(w.cfgs, w.plan, w.kvx)
	if err != nil {
		for _, c := range w.cfgs {
			removeAll(c.DataDir)
		}
		return nil, err
	}
	var eps []string
	for _, c := range w.cfgs {
		eps = append(eps, c.ClientUrls)
	}
	w.etcd, err = clientv3.New(clientv3.Config{Endpoints: eps, DialTimeout: 20 * time.Second})
	if err != nil {
		w.close()
		return nil, err
	}
	w.hx = &etcdx.Etcd{Observer: w.etcd}
	w.conns = make([][]*grpc.ClientConn, members)
	for i := range w.ms {
		if err = w.dial(i); err != nil {
			w.close()
			return nil, err
		}
	}
	return w, nil
}

func (w *world) close() {
	for _, cs := range w.conns {
		for _, c := range cs {
			c.Close()
		}
	}
	if w.etcd != nil {
		w.etcd.Close()
	}
	for _, m := range w.ms {
		if m != nil {
			m.Close()
		}
	}
}

// leader waits for a leader and returns its index (-1 none).
func (w *world) leader() int {
	m := waitLeader(w.ms, 90*time.Second)
	for i := range w.ms {
		if w.ms[i] == m && m != nil {
			return i
		}
	}
	return -1
}

// waitRunning waits until the leader serves the bootstrapped cluster (raft cluster started).
func (w *world) waitRunning() int {
	for i := 0; i < 3000; i++ {
		l := w.leader()
		if l < 0 {
			return -1
		}
		if w.ms[l].Srv.GetRaftCluster() != nil {
			return l
		}
		time.Sleep(10 * time.Millisecond)
	}
	return -1
}

// ---- payloads ----

func (w *world) payload() (*metapb.Store, *metapb.Region) {
	w.mu.Lock()
	j := w.nextPay
	w.nextPay++
	w.mu.Unlock()
	sid, rid, pid := w.base+uint64(3*j)+1, w.base+uint64(3*j)+2, w.base+uint64(3*j)+3
	st := &metapb.Store{Id: sid, Address: fmt.Sprintf("mock://tikv-r%d-p%d:20160", w.round, j), Version: "5.0.0",
		Labels: []*metapb.StoreLabel{{Key: "zone", Value: fmt.Sprintf("z%d", j)}}, StartTimestamp: int64(1600000000 + j)}
	rg := &metapb.Region{Id: rid, RegionEpoch: &metapb.RegionEpoch{ConfVer: 1, Version: 1}, Peers: []*metapb.Peer{{Id: pid, StoreId: sid}}}
	return st, rg
}

// variantOf returns a well-formed payload that carries the given store / region ids (the ids of
// another request) but differs from every other payload of the round in address, labels, version,
// start timestamp and region epoch; with varyPeer some variants also carry another peer id.
func (w *world) variantOf(sid, rid, pid uint64, varyPeer bool) (*metapb.Store, *metapb.Region) {
	w.mu.Lock()
	v := w.nextVar
	w.nextVar++
	w.mu.Unlock()
	st := &metapb.Store{Id: sid, Address: fmt.Sprintf("mock://tikv-r%d-v%d:20161", w.round, v), Version: fmt.Sprintf("5.%d.%d", 1+v%3, v),
		Labels:         []*metapb.StoreLabel{{Key: "zone", Value: fmt.Sprintf("zv%d", v)}, {Key: "host", Value: fmt.Sprintf("h%d", v)}},
		StartTimestamp: int64(1700000000 + v)}
	peer := pid
	if varyPeer && v%3 == 2 {
		peer = pid + 700000 + uint64(v)
	}
	rg := &metapb.Region{Id: rid, RegionEpoch: &metapb.RegionEpoch{ConfVer: uint64(1 + v%3), Version: uint64(2 + v)}, Peers: []*metapb.Peer{{Id: peer, StoreId: sid}}}
	return st, rg
}

// sameIDsRequest: a request with the ids of the successful request (or of the shared set before
// there is one) and different content.
func (w *world) sameIDsRequest() *pdpb.BootstrapRequest {
	sid, rid, pid := w.shared[0], w.shared[1], w.shared[2]
	w.mu.Lock()
	if w.winner != nil {
		sid, rid, pid = w.winner.Store.GetId(), w.winner.Region.GetId(), w.winner.Region.GetPeers()[0].GetId()
	}
	w.mu.Unlock()
	st, rg := w.variantOf(sid, rid, pid, true)
	w.r.Count("bootstrap_requests_same_ids_different_content", 1)
	return &pdpb.BootstrapRequest{Header: &pdpb.RequestHeader{ClusterId: w.id}, Store: st, Region: rg}
}

func samePayload(a, b *bsCall) bool {
	return proto.Equal(a.Store, b.Store) && proto.Equal(a.Region, b.Region)
}

var malformations = []string{"nil-store", "nil-region", "zero-store-id", "zero-region-id", "zero-peer-id", "start-key", "end-key",
	"both-keys", "no-peers", "two-peers", "three-peers-other-stores", "peer-on-another-store", "foreign-cluster-id", "nil-header",
	"header-minus-one", "header-high-bits-only", "header-low-bits-only", "header-zero"}

// malform turns a well-formed request into a malformed one. The payload stays distinct and
// recognisable so that a stored trace of it can be attributed.
func (w *world) malform(kind string, req *pdpb.BootstrapRequest) {
	switch kind {
	case "nil-store":
		req.Store = nil
	case "nil-region":
		req.Region = nil
	case "zero-store-id":
		req.Store.Id = 0
		req.Region.Peers[0].StoreId = 0
	case "zero-region-id":
		req.Region.Id = 0
	case "zero-peer-id":
		req.Region.Peers[0].Id = 0
	case "start-key":
		req.Region.StartKey = []byte("a")
	case "end-key":
		req.Region.EndKey = []byte("z")
	case "both-keys":
		req.Region.StartKey, req.Region.EndKey = []byte("a"), []byte("z")
	case "no-peers":
		req.Region.Peers = nil
	case "two-peers":
		req.Region.Peers = append(req.Region.Peers, &metapb.Peer{Id: req.Region.Peers[0].Id + 500000, StoreId: req.Store.Id})
	case "three-peers-other-stores":
		req.Region.Peers = append(req.Region.Peers, &metapb.Peer{Id: req.Region.Peers[0].Id + 500000, StoreId: req.Store.Id + 500000},
			&metapb.Peer{Id: req.Region.Peers[0].Id + 500001, StoreId: req.Store.Id + 500001})
	case "peer-on-another-store":
		req.Region.Peers[0].StoreId = req.Store.Id + 500000
	case "foreign-cluster-id":
		req.Header.ClusterId = w.id + 1
	case "nil-header":
		req.Header = nil
	case "header-minus-one":
		req.Header.ClusterId = w.id - 1
	case "header-high-bits-only":
		req.Header.ClusterId = w.id &^ 0xffffffff
	case "header-low-bits-only":
		req.Header.ClusterId = w.id & 0xffffffff
	case "header-zero":
		req.Header.ClusterId = 0
	}
}

func (w *world) request(kind string) *pdpb.BootstrapRequest {
	st, rg := w.payload()
	req := &pdpb.BootstrapRequest{Header: &pdpb.RequestHeader{ClusterId: w.id}, Store: st, Region: rg}
	if kind != "valid" {
		w.malform(kind, req)
	}
	return req
}

func cloneReq(req *pdpb.BootstrapRequest) *pdpb.BootstrapRequest {
	return proto.Clone(req).(*pdpb.BootstrapRequest)
}

// send issues one Bootstrap request and records the response.
func (w *world) send(phase, kind, via string, member int, req *pdpb.BootstrapRequest) bsCall {
	keep := cloneReq(req) // pd keeps pointers into the request it was given; the oracle uses its own copy
	c := bsCall{Phase: phase, Kind: kind, Via: via, Member: member, Header: keep.GetHeader().GetClusterId(), Store: keep.Store, Region: keep.Region}
	ctx, cancel := context.WithTimeout(context.Background(), 120*time.Second)
	defer cancel()
	var resp *pdpb.BootstrapResponse
	var err error
	c.Call = hist.Tick()
	if via == "grpc" {
		resp, err = w.pd(member, int(c.Call)).Bootstrap(ctx, req)
	} else {
		func() {
			defer func() {
				if p := recover(); p != nil {
					err = fmt.Errorf("panic: %v", p)
					w.r.Violation("bootstrap:handler-panics:"+kind, fmt.Sprintf("Server.Bootstrap panicked on a %s request: %v", kind, p), w.witness(map[string]interface{}{"request": keep}))
				}
			}()
			resp, err = w.ms[member].Srv.Bootstrap(ctx, req)
		}()
	}
	c.Ret = hist.Tick()
	if err != nil {
		c.Err = err.Error()
		if ctx.Err() != nil {
			c.timeout = true
		}
	} else if e := resp.GetHeader().GetError(); e != nil {
		c.HdrErr = e.String()
	} else {
		c.OK = true
	}
	w.mu.Lock()
	c.Seq = len(w.calls)
	w.calls = append(w.calls, c)
	w.mu.Unlock()
	w.r.Count("bootstrap_requests_"+via, 1)
	if kind != "valid" {
		w.r.Count("bootstrap_requests_malformed", 1)
	}
	return c
}

func (w *world) isBootstrapped(via string, member int) (bool, error) {
	ctx, cancel := context.WithTimeout(context.Background(), 60*time.Second)
	defer cancel()
	req := &pdpb.IsBootstrappedRequest{Header: &pdpb.RequestHeader{ClusterId: w.id}}
	var resp *pdpb.IsBootstrappedResponse
	var err error
	if via == "grpc" {
		resp, err = w.pd(member, 0).IsBootstrapped(ctx, req)
	} else {
		resp, err = w.ms[member].Srv.IsBootstrapped(ctx, req)
	}
	w.r.Count("is_bootstrapped_calls", 1)
	if err != nil {
		return false, err
	}
	if e := resp.GetHeader().GetError(); e != nil {
		return false, fmt.Errorf("%v", e)
	}
	return resp.Bootstrapped, nil
}

// ---- ground truth ----

type truth struct {
	Root    *kvInfo            `json:"root,omitempty"`
	Stores  map[string]string  `json:"-"`
	Regions map[string]string  `json:"-"`
	Status  []string           `json:"status_keys,omitempty"`
	Other   []string           `json:"other_keys,omitempty"`
	Keys    []string           `json:"keys"`
	History []etcdx.WatchEvent `json:"history"`
	IDHist  []etcdx.WatchEvent `json:"cluster_id_history"`
	Touched []etcdx.WatchEvent `json:"unrelated_keys_touched,omitempty"`
	all     []etcdx.WatchEvent
}

type kvInfo struct {
	Create  int64  `json:"create_revision"`
	Mod     int64  `json:"mod_revision"`
	Version int64  `json:"version"`
	Hex     string `json:"value_hex"`
	value   []byte
}

func (w *world) readTruth() (*truth, error) {
	var lastErr error
	for try := 0; try < 5; try++ {
		t := &truth{Stores: map[string]string{}, Regions: map[string]string{}}
		ctx, cancel := context.WithTimeout(context.Background(), 30*time.Second)
		resp, err := w.etcd.Get(ctx, w.root, clientv3.WithPrefix())
		cancel()
		if err != nil {
			lastErr = err
			time.Sleep(200 * time.Millisecond)
			continue
		}
		for _, kv := range resp.Kvs {
			k := string(kv.Key)
			if _, planted := w.planted[k]; planted {
				continue
			}
			t.Keys = append(t.Keys, k)
			switch {
			case k == w.root:
				t.Root = &kvInfo{Create: kv.CreateRevision, Mod: kv.ModRevision, Version: kv.Version, Hex: fmt.Sprintf("%x", kv.Value), value: kv.Value}
			case strings.HasPrefix(k, w.root+"/s/"):
				t.Stores[k] = string(kv.Value)
			case strings.HasPrefix(k, w.root+"/r/"):
				t.Regions[k] = string(kv.Value)
			case strings.HasPrefix(k, w.root+"/status/"):
				t.Status = append(t.Status, k)
			default:
				t.Other = append(t.Other, k)
			}
		}
		all, err := w.hx.History("", 1)
		if err != nil {
			lastErr = err
			time.Sleep(200 * time.Millisecond)
			continue
		}
		t.all = all
		for _, h := range all {
			if want, planted := w.planted[h.Key]; planted {
				if h.Delete || h.Value != want {
					t.Touched = append(t.Touched, h)
				}
				continue
			}
			if strings.HasPrefix(h.Key, w.root) {
				t.History = append(t.History, h)
			}
			if h.Key == clusterIDKey {
				t.IDHist = append(t.IDHist, h)
			}
		}
		return t, nil
	}
	return nil, lastErr
}

func storeKey(root string, id uint64) string  { return path.Join(root, "s", fmt.Sprintf("%020d", id)) }
func regionKey(root string, id uint64) string { return path.Join(root, "r", fmt.Sprintf("%020d", id)) }

// judgeIdentity: every member reports one cluster id, and /pd/cluster_id held exactly that value
// ever since it exists.
func (w *world) judgeIdentity(stage string, t *truth) {
	r := w.r
	for i, m := range w.ms {
		if m == nil {
			continue
		}
		if got := m.Srv.ClusterID(); got != w.id {
			r.Violation("identity:members-disagree:"+stage, fmt.Sprintf("member %d reports cluster id %d, member 0 reported %d at start", i, got, w.id),
				w.witness(map[string]interface{}{"stage": stage, "cluster_id_history": t.IDHist}))
			return
		}
	}
	vals := map[string]bool{}
	for _, h := range t.IDHist {
		if h.Delete {
			r.Violation("identity:cluster-id-key-deleted:"+stage, "the /pd/cluster_id key was deleted", w.witness(map[string]interface{}{"stage": stage, "cluster_id_history": t.IDHist}))
			return
		}
		vals[h.Hex] = true
	}
	r.Count("cluster_id_key_events_real_cluster", int64(len(t.IDHist)))
	if len(vals) > 1 {
		r.Violation("identity:cluster-id-key-changes:"+stage, fmt.Sprintf("/pd/cluster_id took %d values", len(vals)), w.witness(map[string]interface{}{"stage": stage, "cluster_id_history": t.IDHist}))
		return
	}
	if len(t.IDHist) == 0 {
		r.Violation("identity:cluster-id-not-stored:"+stage, "members serve a cluster id but /pd/cluster_id was never written", w.witness(map[string]interface{}{"stage": stage}))
		return
	}
	v, err := typeutil.BytesToUint64([]byte(t.IDHist[0].Value))
	if err != nil || v != w.id {
		r.Violation("identity:served-id-differs-from-stored:"+stage, fmt.Sprintf("members serve cluster id %d, /pd/cluster_id holds %d (%v)", w.id, v, err),
			w.witness(map[string]interface{}{"stage": stage, "cluster_id_history": t.IDHist}))
	}
}

// judgeBootstrap decides exactly-once on the recorded responses plus ground truth.
// final=false is used before any valid request was sent (nothing may be stored then).
func (w *world) judgeBootstrap(stage string) bool {
	r := w.r
	t, err := w.readTruth()
	if err != nil {
		r.Inconclusive("round %d: reading ground truth: %v", w.round, err)
		return false
	}
	w.judgeIdentity(stage, t)
	w.mu.Lock()
	calls := append([]bsCall(nil), w.calls...)
	w.mu.Unlock()
	var succ []bsCall
	validSent, timeouts := 0, 0
	for _, c := range calls {
		if c.OK {
			succ = append(succ, c)
		}
		if c.Kind == "valid" {
			validSent++
		}
		if c.timeout {
			timeouts++
		}
	}
	wit := func(extra map[string]interface{}) map[string]interface{} {
		m := map[string]interface{}{"stage": stage, "etcd": t, "stores_stored": keysOf(t.Stores), "regions_stored": keysOf(t.Regions)}
		for k, v := range extra {
			m[k] = v
		}
		return w.witness(m)
	}
	if timeouts > 0 {
		r.Inconclusive("round %d: %d bootstrap requests timed out", w.round, timeouts)
		return false
	}
	if len(t.Touched) > 0 {
		r.Violation("bootstrap:unrelated-key-touched", fmt.Sprintf("key %s, which belongs to nothing the cluster owns, was changed at revision %d", t.Touched[0].Key, t.Touched[0].Rev), wit(nil))
		return false
	}
	for _, c := range succ {
		if c.Kind != "valid" {
			r.Violation("bootstrap:malformed-accepted:"+c.Kind, fmt.Sprintf("a malformed bootstrap request (%s) succeeded", c.Kind), wit(map[string]interface{}{"request": c}))
			return false
		}
	}
	// exactly one success among requests with pairwise different payloads; several successes of
	// byte-identical requests (a true retry of one request) are counted, not judged
	var groups []bsCall
	for i := range succ {
		found := false
		for g := range groups {
			if samePayload(&groups[g], &succ[i]) {
				found = true
			}
		}
		if !found {
			groups = append(groups, succ[i])
		}
	}
	if len(groups) > 1 {
		class := phaseOf(succ)
		sameIDs := true
		for _, g := range groups[1:] {
			if g.Store.GetId() != groups[0].Store.GetId() || g.Region.GetId() != groups[0].Region.GetId() {
				sameIDs = false
			}
		}
		if sameIDs {
			class = "same-ids-different-content"
		}
		r.Violation("bootstrap:multiple-successes:"+class, fmt.Sprintf("%d bootstrap requests with %d different payloads succeeded on one cluster", len(succ), len(groups)), wit(nil))
		return false
	}
	if len(succ) > 1 && !w.dupSeen {
		w.dupSeen = true
		r.Count("identical_payload_several_successes_not_judged", 1)
	}
	if len(succ) == 0 && atomic.LoadInt32(&w.faults) > 0 && t.Root != nil {
		// A fault was injected into the processing of a request (reply of the committed transaction
		// lost, storage write failed after the commit): that request was answered with an error
		// although it took effect. The stated quantifier does not cover faults, so the missing
		// success is counted, not judged; everything about the stored state is judged: it must come
		// from exactly one request that was sent.
		var from []bsCall
		for _, c := range calls {
			if c.Kind != "valid" || c.Store == nil || c.Region == nil {
				continue
			}
			sv, ok1 := t.Stores[storeKey(w.root, c.Store.GetId())]
			rv, ok2 := t.Regions[regionKey(w.root, c.Region.GetId())]
			st, rg := &metapb.Store{}, &metapb.Region{}
			if ok1 && ok2 && st.Unmarshal([]byte(sv)) == nil && rg.Unmarshal([]byte(rv)) == nil && proto.Equal(st, c.Store) && proto.Equal(rg, c.Region) {
				dup := false
				for i := range from {
					dup = dup || samePayload(&from[i], &c)
				}
				if !dup {
					from = append(from, c)
				}
			}
		}
		if len(from) != 1 {
			r.Violation("bootstrap:stored-state-from-no-single-request:"+stage, fmt.Sprintf("cluster records are stored but they equal the payload of %d sent requests", len(from)), wit(nil))
			return false
		}
		if !w.silent {
			w.silent = true
			r.Count("bootstrap_took_effect_but_answered_error_under_fault_not_judged", 1)
		}
		succ = from
	}
	if len(succ) == 0 {
		if t.Root != nil || len(t.Stores) > 0 || len(t.Regions) > 0 || len(t.History) > 0 {
			r.Violation("bootstrap:stored-without-success:"+stage, "no bootstrap request succeeded but cluster records are stored", wit(nil))
			return false
		}
		if validSent > 0 {
			r.Violation("bootstrap:no-success:"+stage, fmt.Sprintf("%d well-formed bootstrap requests were sent to a cluster with a stable leader and none succeeded", validSent), wit(nil))
			return false
		}
		return true
	}
	win := succ[0]
	if w.winner == nil {
		w.winner = &win
		w.served = win.Member
	}
	// cluster meta: created once, never rewritten, carries the cluster's identity
	if t.Root == nil {
		r.Violation("bootstrap:success-but-no-cluster-record", "a bootstrap request succeeded but the cluster root key does not exist", wit(nil))
		return false
	}
	meta := &metapb.Cluster{}
	if err := meta.Unmarshal(t.Root.value); err != nil || meta.Id != w.id {
		r.Violation("bootstrap:cluster-meta-wrong-identity", fmt.Sprintf("stored cluster meta has id %d (%v), cluster id is %d", meta.Id, err, w.id), wit(nil))
		return false
	}
	rootEvents := 0
	for _, h := range t.History {
		if h.Key == w.root {
			rootEvents++
			if h.Delete {
				r.Violation("bootstrap:cluster-record-deleted", "the cluster root key was deleted", wit(nil))
				return false
			}
		}
	}
	if rootEvents != 1 || t.Root.Version != 1 || t.Root.Create != t.Root.Mod {
		r.Violation("bootstrap:cluster-record-rewritten:"+stage, fmt.Sprintf("the cluster root key was written %d times (version %d, create revision %d, mod revision %d)", rootEvents, t.Root.Version, t.Root.Create, t.Root.Mod), wit(nil))
		return false
	}
	// first store / first region: exactly the winner's
	wantS, wantR := storeKey(w.root, win.Store.GetId()), regionKey(w.root, win.Region.GetId())
	for k := range t.Stores {
		if k != wantS {
			r.Violation("bootstrap:store-of-refused-request-stored", fmt.Sprintf("store key %s is stored; the only successful request carried store %d", k, win.Store.GetId()), wit(nil))
			return false
		}
	}
	for k := range t.Regions {
		if k != wantR {
			r.Violation("bootstrap:region-of-refused-request-stored", fmt.Sprintf("region key %s is stored; the only successful request carried region %d", k, win.Region.GetId()), wit(nil))
			return false
		}
	}
	sv, ok := t.Stores[wantS]
	st := &metapb.Store{}
	if !ok || st.Unmarshal([]byte(sv)) != nil || !proto.Equal(st, win.Store) {
		r.Violation("bootstrap:stored-store-differs-from-winner", fmt.Sprintf("stored first store (%v) is not the store of the successful request", st), wit(map[string]interface{}{"stored_store": st}))
		return false
	}
	rv, ok := t.Regions[wantR]
	rg := &metapb.Region{}
	if !ok || rg.Unmarshal([]byte(rv)) != nil || !proto.Equal(rg, win.Region) {
		r.Violation("bootstrap:stored-region-differs-from-winner", fmt.Sprintf("stored first region (%v) is not the region of the successful request", rg), wit(map[string]interface{}{"stored_region": rg}))
		return false
	}
	// history: nothing of any other request was ever committed, anywhere in the key space
	loser := map[string]int{}
	for _, c := range calls {
		if c.OK {
			continue
		}
		if c.Store != nil {
			if b, err := c.Store.Marshal(); err == nil && !proto.Equal(c.Store, win.Store) {
				loser[string(b)] = c.Seq
			}
		}
		if c.Region != nil {
			if b, err := c.Region.Marshal(); err == nil && !proto.Equal(c.Region, win.Region) {
				loser[string(b)] = c.Seq
			}
		}
	}
	for _, h := range t.all {
		if h.Delete {
			continue
		}
		if seq, bad := loser[h.Value]; bad {
			r.Violation("bootstrap:trace-of-refused-request-committed", fmt.Sprintf("key %s was written at revision %d with the payload of refused request #%d", h.Key, h.Rev, seq), wit(map[string]interface{}{"refused_request": calls[seq]}))
			return false
		}
	}
	for _, h := range t.History {
		if (strings.HasPrefix(h.Key, w.root+"/s/") && h.Key != wantS) || (strings.HasPrefix(h.Key, w.root+"/r/") && h.Key != wantR) {
			r.Violation("bootstrap:foreign-record-in-history", fmt.Sprintf("key %s was written at revision %d; only %s and %s belong to the successful request", h.Key, h.Rev, wantS, wantR), wit(nil))
			return false
		}
		// nothing under the cluster root may precede the winner's commit
		if h.Rev < t.Root.Create {
			r.Violation("bootstrap:record-before-bootstrap", fmt.Sprintf("key %s was written at revision %d, before the cluster record was created at %d", h.Key, h.Rev, t.Root.Create), wit(nil))
			return false
		}
	}
	r.Count("etcd_history_events_under_cluster_root", int64(len(t.History)))
	// region storage of every live member: nothing but the winner's region; the member that served
	// the winner holds it
	for i, m := range w.ms {
		if m == nil || m.Srv.IsClosed() {
			continue
		}
		var ids []uint64
		var regs []*metapb.Region
		err := m.Srv.GetStorage().LoadRegions(func(ri *core.RegionInfo) []*core.RegionInfo {
			ids = append(ids, ri.GetID())
			regs = append(regs, ri.GetMeta())
			return nil
		})
		if err != nil {
			r.Count("region_storage_read_errors", 1)
			continue
		}
		r.Count("region_storage_reads", 1)
		for k, id := range ids {
			if id != win.Region.GetId() {
				r.Violation("bootstrap:region-storage-holds-refused-region", fmt.Sprintf("region storage of member %d holds region %d; the successful request carried region %d", i, id, win.Region.GetId()), wit(map[string]interface{}{"region_storage": regs}))
				return false
			}
			if !proto.Equal(regs[k], win.Region) {
				r.Violation("bootstrap:region-storage-differs-from-winner", fmt.Sprintf("region storage of member %d holds %v for the first region", i, regs[k]), wit(map[string]interface{}{"region_storage": regs}))
				return false
			}
		}
		if i == w.served && len(ids) == 0 && stage == "after-race" && atomic.LoadInt32(&w.faults) == 0 {
			r.Violation("bootstrap:region-storage-lacks-first-region", fmt.Sprintf("member %d served the successful request but its region storage holds no region", i), wit(nil))
			return false
		}
	}
	return true
}

func keysOf(m map[string]string) []string {
	var out []string
	for k := range m {
		out = append(out, k)
	}
	sort.Strings(out)
	return out
}

func phaseOf(cs []bsCall) string {
	seen := map[string]bool{}
	var ps []string
	for _, c := range cs {
		if !seen[c.Phase] {
			seen[c.Phase] = true
			ps = append(ps, c.Phase)
		}
	}
	sort.Strings(ps)
	return strings.Join(ps, "+")
}

// judgeServed compares what the leader serves with the winner's payload.
func (w *world) judgeServed(stage string, l int) {
	r := w.r
	if w.winner == nil {
		return
	}
	ctx, cancel := context.WithTimeout(context.Background(), 60*time.Second)
	defer cancel()
	hdr := &pdpb.RequestHeader{ClusterId: w.id}
	pd := w.pd(l, 1)
	all, err := pd.GetAllStores(ctx, &pdpb.GetAllStoresRequest{Header: hdr})
	if err != nil || all.GetHeader().GetError() != nil {
		r.Count("served_view_unavailable", 1)
		return
	}
	if len(all.Stores) != 1 || !proto.Equal(all.Stores[0], w.winner.Store) {
		r.Violation("bootstrap:served-stores-differ-from-winner:"+stage, fmt.Sprintf("GetAllStores returns %d stores %v; the successful request carried %v", len(all.Stores), all.Stores, w.winner.Store),
			w.witness(map[string]interface{}{"stage": stage}))
		return
	}
	rr, err := pd.GetRegionByID(ctx, &pdpb.GetRegionByIDRequest{Header: hdr, RegionId: w.winner.Region.GetId()})
	if err == nil && rr.GetHeader().GetError() == nil {
		if rr.Region == nil {
			if stage == "after-race" && w.quiet != "" {
				// no fault, no leader change: the leader that answered the successful request serves
				// the cluster without that request's first region, i.e. something other than the
				// successful request shaped what the cluster is
				r.Violation("bootstrap:first-region-not-served:"+w.quiet, fmt.Sprintf("after the bootstrap race (%s, no fault injected) GetRegionByID(%d) returns no region; the successful request carried %v", w.quiet, w.winner.Region.GetId(), w.winner.Region),
					w.witness(map[string]interface{}{"stage": stage}))
				return
			}
			// The statement is about what is stored. A leader that took over on another member before
			// any region heartbeat serves no region at all (its local region storage is only fed by
			// region sync): counted, not judged here.
			r.Count("served_first_region_absent_not_judged:"+stage, 1)
		} else if !proto.Equal(rr.Region, w.winner.Region) {
			r.Violation("bootstrap:served-region-differs-from-winner:"+stage, fmt.Sprintf("GetRegionByID(%d) returns %v", w.winner.Region.GetId(), rr.Region), w.witness(map[string]interface{}{"stage": stage}))
			return
		}
	}
	if stage == "after-race" && w.quiet != "" {
		// by key, and the number of regions served
		gr, err := pd.GetRegion(ctx, &pdpb.GetRegionRequest{Header: hdr, RegionKey: []byte("any-key")})
		if err == nil && gr.GetHeader().GetError() == nil && (gr.Region == nil || !proto.Equal(gr.Region, w.winner.Region)) {
			r.Violation("bootstrap:first-region-not-served:"+w.quiet, fmt.Sprintf("after the bootstrap race (%s, no fault injected) GetRegion(key) returns %v; the successful request carried %v", w.quiet, gr.Region, w.winner.Region),
				w.witness(map[string]interface{}{"stage": stage}))
			return
		}
		sr, err := pd.ScanRegions(ctx, &pdpb.ScanRegionsRequest{Header: hdr, Limit: 16})
		if err == nil && sr.GetHeader().GetError() == nil && (len(sr.RegionMetas) != 1 || !proto.Equal(sr.RegionMetas[0], w.winner.Region)) {
			r.Violation("bootstrap:first-region-not-served:"+w.quiet, fmt.Sprintf("after the bootstrap race (%s, no fault injected) ScanRegions returns %d regions %v; the successful request carried %v", w.quiet, len(sr.RegionMetas), sr.RegionMetas, w.winner.Region),
				w.witness(map[string]interface{}{"stage": stage}))
			return
		}
		r.Count("first_region_served_checks_judged", 1)
	}
	w.mu.Lock()
	calls := append([]bsCall(nil), w.calls...)
	w.mu.Unlock()
	checked := 0
	for _, c := range calls {
		if c.OK || c.Region == nil || c.Region.GetId() == 0 || c.Region.GetId() == w.winner.Region.GetId() || checked >= 6 {
			continue
		}
		checked++
		rr, err := pd.GetRegionByID(ctx, &pdpb.GetRegionByIDRequest{Header: hdr, RegionId: c.Region.GetId()})
		if err == nil && rr.GetHeader().GetError() == nil && rr.Region != nil {
			r.Violation("bootstrap:served-region-of-refused-request:"+stage, fmt.Sprintf("GetRegionByID(%d) returns %v, a region of refused request #%d", c.Region.GetId(), rr.Region, c.Seq), w.witness(map[string]interface{}{"stage": stage}))
			return
		}
	}
	r.Count("served_view_checks", 1)
}

// restart stops member vi and starts it again on the same data dir.
func (w *world) restart(vi int, why string) bool {
	r := w.r
	w.ms[vi].Stop()
	w.step("member %d stopped (%s)", vi, why)
	m, err := startMember(w.cfgs[vi], w.plan, w.kvx)
	if err != nil {
		w.ms[vi] = nil
		r.Inconclusive("round %d: restart of member %d: %v", w.round, vi, err)
		removeAll(w.cfgs[vi].DataDir)
		return false
	}
	w.ms[vi] = m
	r.Count("member_restarts", 1)
	w.step("member %d restarted, reports cluster id %d", vi, m.Srv.ClusterID())
	if err := w.dial(vi); err != nil {
		r.Inconclusive("round %d: dial after restart: %v", w.round, err)
		return false
	}
	return true
}

func (w *world) rootExists() bool {
	ctx, cancel := context.WithTimeout(context.Background(), 30*time.Second)
	defer cancel()
	resp, err := w.etcd.Get(ctx, w.root)
	return err == nil && len(resp.Kvs) > 0
}

// ---- one round ----

type roundPlan struct {
	Members     int    `json:"members"`
	K           int    `json:"k"`
	Via         string `json:"via"` // direct | grpc | mixed
	IDs         string `json:"ids"` // distinct | shared | mixed | duplicate
	Malformed   int    `json:"malformed_in_race"`
	PreResign   bool   `json:"resign_before_race"`
	PostResign  bool   `json:"resign_after"`
	Restart     bool   `json:"restart"`
	ForeignKind int    `json:"foreign_id_kind"`
	// instrumented rounds
	TxnFault     string `json:"bootstrap_txn_fault,omitempty"` // fail-before | lost-ack | hold-after | hold-before (+ leader change while held)
	TxnN         int    `json:"bootstrap_txn_fault_n,omitempty"`
	StoreFault   int    `json:"storage_write_fault_after_txn,omitempty"`
	KvxStorage   bool   `json:"kvx_storage,omitempty"`
	FaultRestart bool   `json:"restart_after_lost_ack,omitempty"`
	Populate     bool   `json:"populated_key_space,omitempty"`
	Side         bool   `json:"side_traffic_in_race,omitempty"`
	RestartEarly bool   `json:"restart_right_after_bootstrap,omitempty"`
}

func (p roundPlan) key() string {
	return fmt.Sprintf("m%d|k%d|%s|%s|mal%d|pre%v|post%v|rst%v|%s%d|sf%d|kvx%v|fr%v|pop%v|side%v", p.Members, p.K, p.Via, p.IDs, p.Malformed, p.PreResign, p.PostResign, p.Restart,
		p.TxnFault, p.TxnN, p.StoreFault, p.KvxStorage, p.FaultRestart, p.Populate, p.Side) + fmt.Sprintf("|re%v", p.RestartEarly)
}

func via(plan string, j int, rng *rand.Rand) string {
	switch plan {
	case "direct", "grpc":
		return plan
	}
	if rng.Intn(2) == 0 {
		return "direct"
	}
	return "grpc"
}

func bootstrapRound(r *ev.Run, round int, p roundPlan, rng *rand.Rand) {
	w, err := newWorld(r, round, p)
	if err != nil {
		r.Inconclusive("round %d: cluster start: %v", round, err)
		return
	}
	defer w.close()
	w.base = uint64(1000 + rng.Intn(1000000))
	l := w.leader()
	if l < 0 {
		r.Inconclusive("round %d: no leader", round)
		return
	}
	w.id = w.ms[0].Srv.ClusterID()
	w.root = path.Join("/pd", strconv.FormatUint(w.id, 10), "raft")
	if got := w.ms[l].Srv.GetClusterRootPath(); got != w.root {
		r.Inconclusive("round %d: cluster root path is %s, expected %s", round, got, w.root)
		return
	}
	w.step("cluster of %d members started, leader %d, cluster id %d", p.Members, l, w.id)

	if p.Populate {
		n := r.Pick(2500, 4000)
		w.planted, err = plantKeys(w.etcd, w.id, n)
		if err != nil {
			r.Inconclusive("round %d: planting keys: %v", round, err)
			return
		}
		r.Count("planted_unrelated_keys", int64(len(w.planted)))
		w.step("%d unrelated keys planted around the cluster root and the cluster id key", len(w.planted))
	}
	// (1) before anything: not bootstrapped, nothing stored
	for _, v := range []string{"direct", "grpc"} {
		b, err := w.isBootstrapped(v, l)
		if err == nil && b {
			r.Violation("is-bootstrapped:true-before-any-request", "IsBootstrapped answered true on a fresh cluster", w.witness(nil))
			return
		}
	}
	w.tsoSequences(l, "before-bootstrap", round%2 == 0)
	// (2) malformed requests, one after the other
	order := rng.Perm(len(malformations))
	nm := len(order)
	if !r.Thorough() && round%4 != 0 {
		nm = 6
	}
	for _, mi := range order[:nm] {
		kind := malformations[mi]
		c := w.send("malformed-sequential", kind, []string{"direct", "grpc"}[rng.Intn(2)], l, w.request(kind))
		r.Count("malformed_kind_"+kind, 1)
		_ = c
	}
	if !w.judgeBootstrap("after-malformed") {
		return
	}
	// (3) the race
	if p.PreResign {
		w.ms[l].Srv.GetMember().ResetLeader()
		r.Count("leader_resigns", 1)
		w.step("leader %d resigned right before the race", l)
		if rng.Intn(2) == 0 {
			time.Sleep(time.Duration(rng.Intn(60)) * time.Millisecond)
		}
	}
	type job struct {
		kind, via string
		member    int
		req       *pdpb.BootstrapRequest
	}
	var jobs []job
	var dup, ofBase *pdpb.BootstrapRequest
	{
		st, rg := w.payload()
		w.shared = [3]uint64{st.Id, rg.Id, rg.Peers[0].Id}
	}
	for j := 0; j < p.K; j++ {
		m := l
		if p.Members > 1 && rng.Intn(10) < 3 {
			m = rng.Intn(p.Members)
		}
		var req *pdpb.BootstrapRequest
		switch {
		case p.IDs == "shared" || (p.IDs == "mixed" && j%2 == 0):
			// same store / region (/ peer) id as the other contenders of this kind, different content
			st, rg := w.variantOf(w.shared[0], w.shared[1], w.shared[2], p.IDs == "mixed")
			req = &pdpb.BootstrapRequest{Header: &pdpb.RequestHeader{ClusterId: w.id}, Store: st, Region: rg}
			r.Count("bootstrap_requests_same_ids_different_content", 1)
		case p.IDs == "onefield":
			// every contender differs from one base payload in exactly one field
			if ofBase == nil {
				ofBase = w.request("valid")
			}
			f := raceFields[(j+int(w.base))%len(raceFields)]
			if j == 0 {
				req = cloneReq(ofBase)
			} else {
				st, rg := oneField(ofBase.Store, ofBase.Region, f, uint64(j))
				req = &pdpb.BootstrapRequest{Header: &pdpb.RequestHeader{ClusterId: w.id}, Store: st, Region: rg}
				r.Count("one_field_variants_in_race:"+f, 1)
			}
		case p.IDs == "duplicate":
			// byte-identical copies of one request (a true retry)
			if dup == nil {
				dup = w.request("valid")
			}
			req = cloneReq(dup)
			r.Count("bootstrap_requests_identical_payload", 1)
		default:
			req = w.request("valid")
		}
		jobs = append(jobs, job{"valid", via(p.Via, j, rng), m, req})
	}
	for j := 0; j < p.Malformed; j++ {
		kind := malformations[rng.Intn(len(malformations))]
		jobs = append(jobs, job{kind, via(p.Via, j, rng), l, w.request(kind)})
	}
	rng.Shuffle(len(jobs), func(a, b int) { jobs[a], jobs[b] = jobs[b], jobs[a] })
	start := make(chan struct{})
	var wg sync.WaitGroup
	// When the leader has just resigned, contenders behave like clients that keep retrying while the
	// members elect: a refused request is sent again (same payload) until some request succeeded.
	// The first ones to get through arrive while the new leader is still starting up.
	var won int32
	retries := 0
	if p.PreResign {
		retries = 400
	}
	for _, j := range jobs {
		wg.Add(1)
		go func(j job) {
			defer wg.Done()
			<-start
			for n := 0; ; n++ {
				c := w.send("race", j.kind, j.via, j.member, cloneReq(j.req))
				if c.OK {
					atomic.StoreInt32(&won, 1)
				}
				if c.OK || j.kind != "valid" || n >= retries || atomic.LoadInt32(&won) == 1 {
					return
				}
				w.r.Count("race_requests_retried_during_election", 1)
				time.Sleep(time.Millisecond)
			}
		}(j)
	}
	raceDone := make(chan struct{})
	var aux sync.WaitGroup
	if p.Side {
		w.sideTraffic(l, raceDone, &aux)
		time.Sleep(5 * time.Millisecond) // the other RPC kinds are already arriving when the race starts
	}
	if w.plan != nil && p.TxnFault == "hold-after-quiet" {
		// Other requests are issued and answered while the winner sits between its committed
		// transaction and everything it does afterwards (region save, raft cluster start). No fault,
		// no leader change.
		aux.Add(1)
		go func(l int) {
			defer aux.Done()
			defer w.plan.Release()
			select {
			case <-raceDone:
				r.Count("txn_hold_not_reached", 1)
				return
			case <-w.plan.held:
			}
			// the ids the committed transaction carried, read from etcd
			var sid, rid, pid uint64
			var cst *metapb.Store
			var crg *metapb.Region
			if t, err := w.readTruth(); err == nil {
				for _, v := range t.Stores {
					st := &metapb.Store{}
					if st.Unmarshal([]byte(v)) == nil {
						sid, cst = st.Id, st
					}
				}
				for _, v := range t.Regions {
					rg := &metapb.Region{}
					if rg.Unmarshal([]byte(v)) == nil && len(rg.Peers) > 0 {
						rid, pid, crg = rg.Id, rg.Peers[0].Id, rg
					}
				}
			}
			n := 0
			// several parties at once inside the window (released together), then one at a time
			if sid != 0 && rid != 0 && cst != nil && crg != nil {
				var reqs []*pdpb.BootstrapRequest
				for q, f := range []string{"epoch-version", "address", "peer-id", "region-id"} {
					st, rg := oneField(cst, crg, f, uint64(q))
					reqs = append(reqs, &pdpb.BootstrapRequest{Header: &pdpb.RequestHeader{ClusterId: w.id}, Store: st, Region: rg})
				}
				reqs = append(reqs, w.request("valid"), w.request("valid"))
				go3 := make(chan struct{})
				var wg3 sync.WaitGroup
				for q, rq := range reqs {
					wg3.Add(1)
					go func(q int, rq *pdpb.BootstrapRequest) {
						defer wg3.Done()
						<-go3
						w.send("inside-winner-window-concurrent", "valid", []string{"direct", "grpc"}[q%2], l, rq)
					}(q, rq)
				}
				wg3.Add(1)
				go func() { // a reader among them
					defer wg3.Done()
					<-go3
					w.isBootstrapped("grpc", l)
				}()
				close(go3)
				wg3.Wait()
				n += len(reqs)
				r.Count("winner_windows_with_concurrent_parties", 1)
			}
			for _, v := range []string{"direct", "grpc"} {
				w.send("inside-winner-window", "valid", v, l, w.request("valid"))
				n++
				if sid != 0 && rid != 0 {
					st, rg := w.variantOf(sid, rid, pid, false)
					w.send("inside-winner-window-same-ids", "valid", v, l, &pdpb.BootstrapRequest{Header: &pdpb.RequestHeader{ClusterId: w.id}, Store: st, Region: rg})
					r.Count("bootstrap_requests_same_ids_different_content", 1)
					n++
				}
			}
			r.Count("requests_answered_inside_winner_window", int64(n))
			r.Count("winner_windows_with_other_requests", 1)
			w.step("%d other bootstrap requests were answered while the winner's committed transaction was held; released", n)
		}(l)
	}
	if w.plan != nil && (p.TxnFault == "hold-after" || p.TxnFault == "hold-before") {
		// leader change while the bootstrap transaction is in flight: as soon as a transaction is
		// held (before sending / after its commit) the leader resigns; once a leader serves again
		// the held transactions / replies are let go
		aux.Add(1)
		go func(l int) {
			defer aux.Done()
			defer w.plan.Release()
			select {
			case <-raceDone:
				r.Count("txn_hold_not_reached", 1)
				return
			case <-w.plan.held:
			}
			w.ms[l].Srv.GetMember().ResetLeader()
			r.Count("leader_resigns", 1)
			r.Count("leader_change_while_bootstrap_txn_in_flight:"+p.TxnFault, 1)
			w.step("bootstrap transaction held (%s); leader %d resigned meanwhile", p.TxnFault, l)
			nl := w.leader()
			if nl >= 0 && p.TxnFault == "hold-after" {
				// the new term finds the committed record and starts the raft cluster; only then
				// does the old request continue (bounded wait, exploration only)
				for i := 0; i < 500 && w.ms[nl].Srv.GetRaftCluster() == nil; i++ {
					time.Sleep(10 * time.Millisecond)
				}
			}
			w.step("leader %d serves; held bootstrap transaction released", nl)
		}(l)
	}
	close(start)
	wg.Wait()
	close(raceDone)
	if w.plan != nil {
		w.plan.Release()
	}
	aux.Wait()
	if w.plan != nil {
		atomic.StoreInt32(&w.faults, w.plan.Injected())
		r.Count("bootstrap_faults_injected", int64(w.plan.Injected()))
		r.Count("bootstrap_txns_held", int64(atomic.LoadInt32(&w.plan.holds)))
		if p.TxnFault != "" {
			r.Count("bootstrap_txn_fault_rounds:"+p.TxnFault, 1)
		}
	}
	w.step("race of %d requests (%d well-formed) finished", len(jobs), p.K)
	l0 := l
	l = w.leader()
	if l == l0 && !p.PreResign && atomic.LoadInt32(&w.faults) == 0 {
		switch p.TxnFault {
		case "":
			w.quiet = "plain-race"
		case "hold-after-quiet":
			w.quiet = "loser-ran-inside-winner-window"
		}
	}
	if l < 0 {
		r.Inconclusive("round %d: no leader after the race", round)
		return
	}
	// requests refused only because no member was leader at that moment are repeated, one at a time
	// (the statement speaks about repeated requests as well)
	for try := 0; try < 3; try++ {
		w.mu.Lock()
		any := false
		for _, c := range w.calls {
			any = any || c.OK
		}
		w.mu.Unlock()
		if any {
			break
		}
		if atomic.LoadInt32(&w.faults) > 0 && w.rootExists() {
			break // a request took effect but was answered with an error (injected fault)
		}
		if !p.PreResign && p.Members == 1 && atomic.LoadInt32(&w.faults) == 0 {
			break // the leader was stable: no excuse
		}
		l = w.leader()
		if l < 0 {
			r.Inconclusive("round %d: no leader", round)
			return
		}
		w.send("repeat-after-election", "valid", "direct", l, w.request("valid"))
		r.Count("repeats_after_election", 1)
	}
	if !w.judgeBootstrap("after-race") {
		return
	}
	r.Count("bootstrap_races", 1)
	r.Count("bootstrap_race_requests", int64(len(jobs)))
	if p.RestartEarly && !w.silent && p.Members == 1 && atomic.LoadInt32(&w.faults) == 0 && w.winner != nil {
		// pd-server style shutdown right after the acknowledged bootstrap: the server context is
		// cancelled, then Close; restart on the same data dir. What the acknowledged request stored
		// (incl. its first region in the region storage) must be what the restarted server serves.
		if l = w.waitRunning(); l < 0 {
			r.Inconclusive("round %d: bootstrapped cluster does not come up", round)
			return
		}
		w.judgeServed("after-race", l)
		if !w.restart(0, "immediately after the acknowledged bootstrap") {
			return
		}
		l = w.waitRunning()
		if l < 0 {
			r.Inconclusive("round %d: no serving leader after the immediate restart", round)
			return
		}
		w.quiet = "after-immediate-restart"
		r.Count("immediate_restarts_after_acknowledged_bootstrap", 1)
		if !w.judgeBootstrap("after-immediate-restart") {
			return
		}
	}
	if w.silent {
		// The cluster is bootstrapped in etcd but no request was told so. Clients keep asking:
		// a different payload must never be answered with success; then a leader change or a
		// restart of the member (a crash right after the transaction) brings the cluster up.
		w.step("bootstrap took effect but was answered with an error (injected fault)")
		for _, v := range []string{"direct", "grpc"} {
			if b, err := w.isBootstrapped(v, l); err == nil {
				r.Count(fmt.Sprintf("is_bootstrapped_%v_after_unacknowledged_bootstrap_not_judged", b), 1)
			}
			w.send("after-unacknowledged-bootstrap", "valid", v, l, w.request("valid"))
			w.send("after-unacknowledged-bootstrap-same-ids", "valid", v, l, w.sameIDsRequest())
		}
		if p.FaultRestart {
			if !w.restart(l, "crash image: restart right after the bootstrap transaction") {
				return
			}
		} else if w.ms[l].Srv.GetRaftCluster() == nil {
			w.ms[l].Srv.GetMember().ResetLeader()
			r.Count("leader_resigns", 1)
			w.step("leader %d resigned so that a new term loads the cluster", l)
		}
		if !w.judgeBootstrap("after-unacknowledged-bootstrap") {
			return
		}
	}
	// (4) bootstrapped now
	l = w.waitRunning()
	if l < 0 {
		r.Inconclusive("round %d: bootstrapped cluster does not come up", round)
		return
	}
	for _, v := range []string{"direct", "grpc"} {
		b, err := w.isBootstrapped(v, l)
		if err == nil && !b {
			r.Violation("is-bootstrapped:false-after-success", "IsBootstrapped answered false after a bootstrap request had succeeded (leader unchanged, cluster running)", w.witness(nil))
			return
		}
	}
	w.judgeServed("after-race", l)
	// (5) repeats on the bootstrapped cluster: new payload, the winner's payload again, malformed
	w.send("repeat", "valid", "direct", l, w.request("valid"))
	w.send("repeat", "valid", "grpc", l, w.request("valid"))
	if w.winner != nil {
		w.send("repeat-winner-payload", "valid", []string{"direct", "grpc"}[rng.Intn(2)], l,
			&pdpb.BootstrapRequest{Header: &pdpb.RequestHeader{ClusterId: w.id}, Store: proto.Clone(w.winner.Store).(*metapb.Store), Region: proto.Clone(w.winner.Region).(*metapb.Region)})
	}
	w.send("repeat", "two-peers", "grpc", l, w.request("two-peers"))
	w.send("repeat-same-ids", "valid", "direct", l, w.sameIDsRequest())
	w.send("repeat-same-ids", "valid", "grpc", l, w.sameIDsRequest())
	if w.winner != nil {
		// the winner's payload with exactly one field changed, for every field: all refused
		for q, f := range repeatFields {
			st, rg := oneField(w.winner.Store, w.winner.Region, f.name, uint64(q+1))
			if proto.Equal(st, w.winner.Store) && proto.Equal(rg, w.winner.Region) {
				continue // the field already had that value
			}
			kind := "valid"
			if !f.well {
				kind = "onefield-" + f.name
			}
			w.send("repeat-one-field:"+f.name, kind, []string{"direct", "grpc"}[q%2], l, &pdpb.BootstrapRequest{Header: &pdpb.RequestHeader{ClusterId: w.id}, Store: st, Region: rg})
			r.Count("one_field_variants_after_bootstrap", 1)
		}
	}
	// (6) leader resigns and campaigns again; bootstrap requests keep arriving meanwhile
	if p.PostResign {
		stop := make(chan struct{})
		var wg2 sync.WaitGroup
		nw := 2 + rng.Intn(5)
		for k := 0; k < nw; k++ {
			wg2.Add(1)
			v := via(p.Via, k, rng)
			go func(k int, v string) {
				defer wg2.Done()
				for n := 0; n < 40; n++ {
					select {
					case <-stop:
						return
					default:
					}
					m := (k + n) % p.Members
					if (k+n)%2 == 0 {
						w.send("during-election", "valid", v, m, w.request("valid"))
					} else {
						w.send("during-election-same-ids", "valid", v, m, w.sameIDsRequest())
					}
					time.Sleep(2 * time.Millisecond)
				}
			}(k, v)
		}
		time.Sleep(time.Duration(rng.Intn(20)) * time.Millisecond)
		w.ms[l].Srv.GetMember().ResetLeader()
		r.Count("leader_resigns", 1)
		w.step("leader %d resigned on the bootstrapped cluster", l)
		l = w.waitRunning()
		close(stop)
		wg2.Wait()
		if l < 0 {
			r.Inconclusive("round %d: no serving leader after resign", round)
			return
		}
		w.step("leader %d serves again", l)
		w.send("after-election", "valid", "direct", l, w.request("valid"))
		w.send("after-election", "valid", "grpc", l, w.request("valid"))
		w.send("after-election-same-ids", "valid", "direct", l, w.sameIDsRequest())
		if b, err := w.isBootstrapped("grpc", l); err == nil && !b {
			r.Violation("is-bootstrapped:false-after-leader-change", "IsBootstrapped answered false on the new leader although the raft cluster is running", w.witness(nil))
			return
		}
		if !w.judgeBootstrap("after-leader-change") {
			return
		}
		w.judgeServed("after-leader-change", l)
	}
	// (7) restart a member on the same data dir
	if p.Restart {
		vi := rng.Intn(p.Members)
		if rng.Intn(2) == 0 {
			vi = l
		}
		if !w.restart(vi, "restart") {
			return
		}
		l = w.waitRunning()
		if l < 0 {
			r.Inconclusive("round %d: no serving leader after restart", round)
			return
		}
		w.send("after-restart", "valid", "direct", vi, w.request("valid"))
		w.send("after-restart", "valid", "grpc", l, w.request("valid"))
		w.send("after-restart-same-ids", "valid", "grpc", l, w.sameIDsRequest())
		if b, err := w.isBootstrapped("direct", l); err == nil && !b {
			r.Violation("is-bootstrapped:false-after-restart", "IsBootstrapped answered false after a restart although the raft cluster is running", w.witness(nil))
			return
		}
		if !w.judgeBootstrap("after-restart") {
			return
		}
		w.judgeServed("after-restart", l)
	}
	// (8) every metadata RPC kind with a foreign cluster id
	w.foreignSweep(l, p.ForeignKind, rng)
	// (9) final ground truth
	if !w.judgeBootstrap("final") {
		return
	}
	r.Eval(1)
	r.Count("bootstrap_rounds", 1)
	r.Count(fmt.Sprintf("bootstrap_rounds_%d_members", p.Members), 1)
	w.mu.Lock()
	nreq := len(w.calls)
	winVia, winSeq := "", -1
	if w.winner != nil {
		winVia, winSeq = w.winner.Via, w.winner.Seq
	}
	w.mu.Unlock()
	r.Count("bootstrap_requests_total", int64(nreq))
	r.Count("winner_via_"+winVia, 1)
	r.Distinct("bs|" + p.key() + "|" + winVia)
	if round == 1 {
		r.Sample(map[string]interface{}{"part": "bootstrap round", "plan": p, "requests": nreq, "winner_request_seq": winSeq, "winner": w.winner, "steps": w.steps})
	}
}
