// C02 — Granted timestamps stay below the durably stored time window.
//
// Component-level members (real member.Member + tso.AllocatorManager + Global allocator) on one
// embedded etcd, built on a failpoint-enabled scratch copy so that the repository's own clock
// failpoints (+1 h at sync / at update, -1 h) can be toggled. Monitors:
//
//	(i)   the committed history of the timestamp key never decreases (etcd revision order);
//	(ii)  exact mode (sequential histories, gate-scheduled runs): at every grant
//	      physical_ms*1e6 < durable bound read by an un-instrumented observer;
//	(iii) free-running mode: a grant is refuted only if its physical part is >= every bound value
//	      that may have been current during [call, ret];
//	(iv)  crash points: after every operation AND at every committed storage write (hook inside
//	      the client interceptor: durable, ack not yet seen by pd) a successor member (clock normal
//	      or 1 h slow) takes over from a copy of the durable state with the real
//	      campaign/Initialize code; its first timestamp must exceed every timestamp granted so far;
//	(v)   failed extensions (fail-before / lost-ack on the window txn): (ii) keeps holding.
package main

import (
	"context"
	"encoding/json"
	"fmt"
	"math/rand"
	"os"
	"sort"
	"sync"
	"sync/atomic"
	"time"

	"github.com/tikv/pd/pkg/tsoutil"
	"verif/harness/lib/etcdx"
	"verif/harness/lib/ev"
	"verif/harness/lib/hist"
	"verif/harness/lib/sched"
	"verif/harness/lib/srv"
	"verif/harness/lib/tsochk"
	"verif/harness/lib/tsow"
)

type env struct {
	r      *ev.Run
	e      *etcdx.Etcd
	rng    *rand.Rand
	nroot  int
	fpLive bool // clock failpoints effective in this build
	succCl *etcdx.Client
}

func (x *env) root(tag string) string {
	x.nroot++
	return fmt.Sprintf("/c02/%s%02d_%06d_", tag, x.r.Shard, x.nroot)
}

type step struct {
	Op     string       `json:"op"`
	Arg    interface{}  `json:"arg,omitempty"`
	Err    string       `json:"err,omitempty"`
	Bound  int64        `json:"bound_ns_after"`
	Grant  *tsochk.Resp `json:"grant,omitempty"`
	Writes int          `json:"writes,omitempty"`
}

type seqRun struct {
	x         *env
	w         *tsow.World
	serving   *tsow.Member
	steps     []step
	maxGrant  uint64
	maxBy     *tsochk.Resp
	clock     string
	writes    int
	takeovers int
	saveIv    time.Duration
	bad       bool
}

func (s *seqRun) witness(extra map[string]interface{}) map[string]interface{} {
	m := map[string]interface{}{"root": s.w.Root, "save_interval": s.saveIv.String(), "steps": s.steps, "max_granted": s.maxGrant, "max_granted_by": s.maxBy}
	for k, v := range extra {
		m[k] = v
	}
	return m
}

// takeover performs crash point check (iv) against the current durable state.
func (s *seqRun) takeover(at string) {
	if s.bad || s.maxGrant == 0 {
		return
	}
	x := s.x
	ctx := context.Background()
	cur, err := x.e.Observer.Get(ctx, s.w.TimestampKey())
	if err != nil {
		return
	}
	for _, succClock := range []string{tsow.ClockNormal, tsow.ClockSlow} {
		if succClock == tsow.ClockSlow && !x.fpLive {
			continue
		}
		if x.succCl == nil {
			x.succCl, _ = x.e.NewClient(90)
		}
		if succClock == tsow.ClockSlow && x.rng.Intn(3) != 0 {
			continue
		}
		w2, err := tsow.NewWorldWithClients(x.e, x.root("t"), 1, s.saveIv, 50*time.Millisecond, []*etcdx.Client{x.succCl})
		if err != nil {
			x.r.Inconclusive("takeover world: %v", err)
			s.bad = true
			return
		}
		if len(cur.Kvs) > 0 {
			x.e.Observer.Put(ctx, w2.TimestampKey(), string(cur.Kvs[0].Value))
		}
		m := w2.Members[0]
		prev := s.clock
		if err := m.Campaign(false); err != nil {
			w2.Close()
			continue
		}
		tsow.SetClock(succClock)
		ierr := m.Alloc.Initialize(0)
		tsow.SetClock(prev)
		if ierr != nil {
			x.r.Count("takeover_init_errors", 1)
			m.Resign()
			w2.Close()
			continue
		}
		ts, gerr := w2.TSO(99, m, 1, 0)
		m.Resign()
		w2.Close()
		x.r.Count("crash_points_checked", 1)
		s.takeovers++
		if gerr != nil {
			continue
		}
		first := tsochk.Compose(ts.Physical, ts.Logical)
		if first <= s.maxGrant {
			var bound int64
			if len(cur.Kvs) > 0 {
				bound = tsow.DecodeBound(cur.Kvs[0].Value)
			}
			x.r.Violation("successor-not-above-granted:"+classify(s.steps), fmt.Sprintf("after a crash %s, a successor (clock %s) loading the durable window %d ns granted %d/%d which is not above the earlier grant %d", at, succClock, bound, ts.Physical, ts.Logical, s.maxGrant),
				s.witness(map[string]interface{}{"crash_at": at, "successor_clock": succClock, "successor_first": ts, "durable_bound_ns": bound}))
			s.bad = true
			return
		}
	}
}

// classify gives a short stable description of the kind of history (ops used) for violation keys.
func classify(steps []step) string {
	seen := map[string]bool{}
	for _, s := range steps {
		switch s.Op {
		case "set", "upd", "gated", "free":
			seen[s.Op] = true
		}
	}
	k := ""
	for _, o := range []string{"set", "upd", "gated", "free"} {
		if seen[o] {
			k += o + "+"
		}
	}
	if k == "" {
		return "init-only"
	}
	return k[:len(k)-1]
}

func (s *seqRun) bound() int64 {
	b, _ := s.w.DurableBound()
	return b
}

func (s *seqRun) grant(count uint32) {
	ts, err := s.w.TSO(0, s.serving, count, 0)
	st := step{Op: "gen", Arg: count}
	if err != nil {
		st.Err = err.Error()
		st.Bound = s.bound()
		s.steps = append(s.steps, st)
		return
	}
	resp := s.w.Responses()
	g := resp[len(resp)-1]
	st.Grant = &g
	b := s.bound()
	st.Bound = b
	s.steps = append(s.steps, st)
	s.x.r.Count("grants_checked_exact", 1)
	if ts.Physical*int64(time.Millisecond) >= b {
		s.x.r.Violation("grant-not-below-durable-bound:"+classify(s.steps), fmt.Sprintf("granted physical %d ms while the durably stored bound is %d ns", ts.Physical, b), s.witness(nil))
		s.bad = true
		return
	}
	_, hi := g.Range()
	if hi > s.maxGrant {
		s.maxGrant, s.maxBy = hi, &g
	}
}

// ensureInit re-runs Initialize (as the leader loop of pd does after a failed campaign step) until
// the allocator is initialised; UpdateTSO/SetTSO are only ever called on initialised allocators.
func (s *seqRun) ensureInit() {
	for i := 0; i < 3 && !s.serving.Alloc.IsInitialize(); i++ {
		s.serving.Cl.Decide = nil
		err := s.serving.Alloc.Initialize(0)
		s.record("init-retry", s.clock, err)
	}
	if !s.serving.Alloc.IsInitialize() {
		s.bad = true
	}
}

func (s *seqRun) record(op string, arg interface{}, err error) {
	st := step{Op: op, Arg: arg, Bound: s.bound()}
	if err != nil {
		st.Err = err.Error()
	}
	s.steps = append(s.steps, st)
}

func (s *seqRun) hookWrites() {
	for _, m := range s.w.Members {
		m := m
		m.Cl.After = func(rpc *etcdx.RPC) {
			if rpc.Method == "Txn" && rpc.Succ && len(rpc.Keys) > 0 && rpc.Keys[0] == s.w.TimestampKey() {
				s.writes++
				s.x.r.Count("window_writes_committed", 1)
				// crash point: the write is durable, pd has not seen the acknowledgement
				s.takeover(fmt.Sprintf("right after committed window write #%d (inside %s)", s.writes, "op "+fmt.Sprint(len(s.steps))))
			}
		}
	}
}

func (s *seqRun) currentTS() (int64, int64) {
	resp := s.w.Responses()
	for i := len(resp) - 1; i >= 0; i-- {
		if resp[i].Err == "" {
			return resp[i].Physical, resp[i].Logical
		}
	}
	return time.Now().UnixNano() / int64(time.Millisecond), 0
}

func (x *env) seqHistory(h int) {
	r := x.r
	rng := x.rng
	saveIv := []time.Duration{time.Millisecond, 50 * time.Millisecond, 3 * time.Second}[rng.Intn(3)]
	w, err := tsow.NewWorld(x.e, x.root("h"), 2, saveIv, 50*time.Millisecond)
	if err != nil {
		r.Inconclusive("world: %v", err)
		return
	}
	defer w.Close()
	// one history in three runs on a populated root (tens to thousands of unrelated keys around the window key)
	populated := 0
	switch h % 6 {
	case 1:
		populated = 1001 + rng.Intn(1800)
	case 4:
		populated = 20 + rng.Intn(300)
	}
	if populated > 0 {
		if err := w.Populate(populated); err != nil {
			r.Inconclusive("populate: %v", err)
			return
		}
		r.Count("histories_on_populated_root", 1)
		r.Count("populated_keys", int64(populated))
	}
	s := &seqRun{x: x, w: w, saveIv: saveIv, clock: tsow.ClockNormal}
	defer tsow.SetClock(tsow.ClockNormal)
	s.hookWrites()
	clocks := []string{tsow.ClockNormal}
	if x.fpLive {
		clocks = []string{tsow.ClockNormal, tsow.ClockNormal, tsow.ClockFastSync, tsow.ClockFastUpdate, tsow.ClockSlow}
	}
	setClock := func() {
		s.clock = clocks[rng.Intn(len(clocks))]
		tsow.SetClock(s.clock)
	}
	// start: member 0 campaigns and initialises
	s.serving = w.Members[0]
	if err := s.serving.Campaign(true); err != nil {
		r.Inconclusive("campaign: %v", err)
		return
	}
	setClock()
	err = s.serving.Alloc.Initialize(0)
	s.record("init", s.clock, err)
	s.ensureInit()
	s.grant(1)
	s.takeover("after op 1")
	n := 4 + rng.Intn(6)
	shape := ""
	for k := 0; k < n && !s.bad; k++ {
		// optional fault on the next window txn of the serving member
		faultMode := etcdx.NoFault
		if rng.Intn(6) == 0 {
			faultMode = []etcdx.FaultMode{etcdx.FailBefore, etcdx.LostAck}[rng.Intn(2)]
			fired := false
			cl := s.serving.Cl
			cl.Decide = func(rpc *etcdx.RPC) etcdx.FaultMode {
				if !fired && rpc.Method == "Txn" && len(rpc.Keys) > 0 && rpc.Keys[0] == w.TimestampKey() {
					fired = true
					r.Count("window_write_faults_injected", 1)
					return faultMode
				}
				return etcdx.NoFault
			}
		}
		op := rng.Intn(11)
		if op == 10 && saveIv != 50*time.Millisecond {
			op = rng.Intn(10)
		}
		switch {
		case op == 10:
			// lost leadership while the lease is still alive locally: the leader record is replaced
			// behind the serving member's back; its window saves must fail and its in-memory time
			// must not advance beyond the stored window (judged by the bound check of the next grant)
			other := w.Members[1-s.serving.Idx]
			x.e.Observer.Delete(context.Background(), w.LeaderKey())
			cerr := other.Campaign(true)
			if cerr == nil && rng.Intn(2) == 0 {
				other.Alloc.Initialize(0)
			}
			time.Sleep(saveIv + 3*time.Millisecond)
			tsow.SetClock(tsow.ClockNormal)
			s.clock = tsow.ClockNormal
			e1 := s.serving.Alloc.UpdateTSO()
			// soon after: an update that would not need a save if the failed one had been recorded as saved
			time.Sleep(4 * time.Millisecond)
			e2 := s.serving.Alloc.UpdateTSO()
			s.record("usurped-upd-upd", fmt.Sprint(e1 != nil, e2 != nil), e2)
			r.Count("lost_leadership_updates", 2)
			s.grant(1)
			// restore a single owner: the usurper steps down, the serving member re-campaigns
			if cerr == nil {
				other.Resign()
			}
			s.serving.Resign()
			if err := s.serving.Campaign(true); err != nil {
				s.bad = true
				break
			}
			err := s.serving.Alloc.Initialize(0)
			s.record("reinit-after-usurp", s.clock, err)
			shape += "x"
		case op < 3:
			c := []uint32{1, 10, 1000, 1 << 17, 1<<18 - 1}[rng.Intn(5)]
			s.grant(c)
			shape += "g"
		case op < 6:
			time.Sleep(time.Duration(2+rng.Intn(3)) * time.Millisecond)
			setClock()
			err := s.serving.Alloc.UpdateTSO()
			s.record("upd", s.clock, err)
			s.grant(1)
			shape += "u"
		case op < 8:
			p, l := s.currentTS()
			var tp, tl int64
			kind := rng.Intn(8)
			switch kind {
			case 0:
				tp, tl = p-1000, l
			case 1:
				tp, tl = p, l+1
			case 2:
				tp, tl = p+5, 0
			case 3:
				tp, tl = p+1000, 7
			case 4:
				tp, tl = p+3600*1000, 0
			case 5:
				tp, tl = p+int64(23*time.Hour/time.Millisecond), 0
			case 6:
				tp, tl = p+int64(25*time.Hour/time.Millisecond), 0
			default:
				tp, tl = p+int64(saveIv/time.Millisecond)+1, 0
			}
			err := s.serving.Alloc.SetTSO(tsoutil.GenerateTS(tsoutil.GenerateTimestamp(time.Unix(0, tp*int64(time.Millisecond)), uint64(tl))))
			s.record("set", map[string]int64{"physical": tp, "logical": tl, "kind": int64(kind)}, err)
			s.grant(1)
			shape += "s"
		case op == 8:
			s.serving.Alloc.Reset()
			setClock()
			err := s.serving.Alloc.Initialize(0)
			s.record("reinit", s.clock, err)
			s.grant(1)
			shape += "i"
		default:
			// hand-over or restart
			if rng.Intn(2) == 0 {
				old := s.serving
				old.Resign()
				nw := w.Members[1-old.Idx]
				if err := nw.Campaign(true); err != nil {
					s.record("handover-campaign", nw.Idx, err)
					// fall back: old member campaigns again
					nw = old
					if err2 := nw.Campaign(true); err2 != nil {
						s.bad = true
						break
					}
				}
				s.serving = nw
				setClock()
				err := nw.Alloc.Initialize(0)
				s.record("handover", map[string]interface{}{"to": nw.Idx, "clock": s.clock}, err)
				shape += "h"
			} else {
				idx := s.serving.Idx
				m, err := w.Restart(idx)
				if err != nil {
					s.bad = true
					break
				}
				s.hookWrites()
				// the revoke deleted the leader key
				if err := m.Campaign(true); err != nil {
					s.record("restart-campaign", idx, err)
					s.bad = true
					break
				}
				s.serving = m
				setClock()
				err = m.Alloc.Initialize(0)
				s.record("restart", map[string]interface{}{"member": idx, "clock": s.clock}, err)
				shape += "r"
			}
			s.grant(1)
		}
		s.serving.Cl.Decide = nil
		if faultMode != etcdx.NoFault {
			shape += "!"
		}
		s.ensureInit()
		s.takeover(fmt.Sprintf("after op %d", len(s.steps)))
	}
	s.serving.Resign()
	// (i) monotone bound over the committed history
	hs, err := x.e.History(w.TimestampKey(), w.StartRev)
	if err == nil {
		var prev int64
		for _, hv := range hs {
			if hv.Delete {
				continue
			}
			v := tsow.DecodeBound([]byte(hv.Value))
			if v < prev {
				r.Violation("stored-bound-decreases:"+classify(s.steps), fmt.Sprintf("stored time window went from %d to %d ns", prev, v), s.witness(map[string]interface{}{"history": hs}))
				break
			}
			prev = v
		}
		r.Count("bound_history_values", int64(len(hs)))
	}
	r.Eval(1)
	r.Count("seq_histories", 1)
	r.Distinct(fmt.Sprintf("seq|%s|pop%d|%s", saveIv, (populated+999)/1000, shape))
	if h == 2 {
		r.Sample(map[string]interface{}{"mode": "sequential", "save_interval": saveIv.String(), "steps": s.steps, "crash_points": s.takeovers})
	}
}

// directedFaultPhase enumerates (faulted op that moves the window far ahead) x (fault mode) x
// (follow-up op) completely: the window save of the first op is failed before sending or after
// commit, then each kind of follow-up runs; the stored bound must never decrease and every grant
// must stay below it, and every crash point is checked as in the sequential histories.
func (x *env) directedFaultPhase() {
	r := x.r
	type op struct {
		name string
		run  func(s *seqRun)
	}
	setBy := func(d time.Duration) func(s *seqRun) {
		return func(s *seqRun) {
			p, _ := s.currentTS()
			err := s.serving.Alloc.SetTSO(tsoutil.GenerateTS(tsoutil.GenerateTimestamp(time.Unix(0, p*int64(time.Millisecond)).Add(d), 0)))
			s.record("set", d.String(), err)
		}
	}
	updWith := func(clock string) func(s *seqRun) {
		return func(s *seqRun) {
			time.Sleep(3 * time.Millisecond)
			tsow.SetClock(clock)
			s.clock = clock
			err := s.serving.Alloc.UpdateTSO()
			tsow.SetClock(tsow.ClockNormal)
			s.clock = tsow.ClockNormal
			s.record("upd", clock, err)
		}
	}
	reinit := func(clock string) func(s *seqRun) {
		return func(s *seqRun) {
			s.serving.Alloc.Reset()
			tsow.SetClock(clock)
			err := s.serving.Alloc.Initialize(0)
			tsow.SetClock(tsow.ClockNormal)
			s.record("reinit", clock, err)
		}
	}
	firsts := []op{{"set+1h", setBy(time.Hour)}, {"set+10m", setBy(10 * time.Minute)}, {"set+2s", setBy(2 * time.Second)}}
	if x.fpLive {
		firsts = append(firsts, op{"upd(+1h)", updWith(tsow.ClockFastUpdate)}, op{"reinit(+1h)", reinit(tsow.ClockFastSync)})
	}
	seconds := []op{{"upd", updWith(tsow.ClockNormal)}, {"set+5ms", setBy(5 * time.Millisecond)}, {"set+1s", setBy(time.Second)}, {"reinit", reinit(tsow.ClockNormal)},
		{"upd,upd", func(s *seqRun) { updWith(tsow.ClockNormal)(s); updWith(tsow.ClockNormal)(s) }},
		// the clock reaches the window the member believes it has saved: this update has to save
		{"wait-window,upd", func(s *seqRun) {
			if s.saveIv <= 50*time.Millisecond {
				time.Sleep(s.saveIv + 10*time.Millisecond)
			}
			updWith(tsow.ClockNormal)(s)
		}}}
	for _, saveIv := range []time.Duration{50 * time.Millisecond, 3 * time.Second} {
		for _, f := range firsts {
			for _, mode := range []etcdx.FaultMode{etcdx.FailBefore, etcdx.LostAck} {
				for _, g := range seconds {
					// second fault, of another kind: the first read of the window key during the follow-up
					// operation fails (the re-read that decides what an uncertain save has left behind)
					for _, readFault := range []bool{false, true} {
						if readFault && mode != etcdx.LostAck {
							continue
						}
						w, err := tsow.NewWorld(x.e, x.root("d"), 1, saveIv, 50*time.Millisecond)
						if err != nil {
							r.Inconclusive("world: %v", err)
							return
						}
						s := &seqRun{x: x, w: w, saveIv: saveIv, clock: tsow.ClockNormal}
						s.hookWrites()
						s.serving = w.Members[0]
						if s.serving.Campaign(true) != nil || s.serving.Alloc.Initialize(0) != nil {
							w.Close()
							r.Inconclusive("directed setup failed")
							return
						}
						s.record("init", "normal", nil)
						s.grant(1)
						fired := false
						cl := s.serving.Cl
						cl.Decide = func(rpc *etcdx.RPC) etcdx.FaultMode {
							if !fired && rpc.Method == "Txn" && len(rpc.Keys) > 0 && rpc.Keys[0] == w.TimestampKey() {
								fired = true
								r.Count("window_write_faults_injected", 1)
								return mode
							}
							return etcdx.NoFault
						}
						f.run(s)
						cl.Decide = nil
						s.ensureInit()
						if !s.bad {
							s.grant(1)
							s.takeover("after the faulted op")
							if readFault {
								readFired := false
								cl.Decide = func(rpc *etcdx.RPC) etcdx.FaultMode {
									if !readFired && rpc.Method == "Range" && len(rpc.Reads) > 0 && rpc.Reads[0] == w.TimestampKey() {
										readFired = true
										r.Count("window_read_faults_injected", 1)
										return etcdx.FailBeforeFinal
									}
									return etcdx.NoFault
								}
							}
							g.run(s)
							cl.Decide = nil
							s.ensureInit()
						}
						if !s.bad {
							s.grant(1)
							s.takeover("after the follow-up op")
						}
						s.serving.Resign()
						hs, err := x.e.History(w.TimestampKey(), w.StartRev)
						if err == nil {
							var prev int64
							for _, hv := range hs {
								if hv.Delete {
									continue
								}
								v := tsow.DecodeBound([]byte(hv.Value))
								if v < prev {
									r.Violation("stored-bound-decreases:after-failed-save", fmt.Sprintf("stored time window went from %d to %d ns (faulted %s [%v], then %s)", prev, v, f.name, mode, g.name), s.witness(map[string]interface{}{"history": hs}))
									break
								}
								prev = v
							}
						}
						if os.Getenv("VERIF_C02_DEBUG") != "" && readFault {
							b, _ := json.Marshal(map[string]interface{}{"first": f.name, "second": g.name, "saveIv": saveIv.String(), "steps": s.steps, "history": hs, "rpcs": s.serving.Cl.Log()})
							fmt.Println("DEBUG-DIRECTED", string(b))
						}
						w.Close()
						r.Eval(1)
						r.Count("directed_fault_histories", 1)
						r.Distinct(fmt.Sprintf("directed|%s|%s|%d|%s|%v|%v", saveIv, f.name, mode, g.name, fired, readFault))
					}
				}
			}
		}
	}
	tsow.SetClock(tsow.ClockNormal)
}

// gated: UpdateTSO || SetTSO (|| SetTSO) on the serving member; every release order of their
// window transactions.
func (x *env) gatedPhase() {
	r := x.r
	type cfg struct {
		name string
		sets []time.Duration // SetTSO targets relative to now
		upds int
	}
	cfgs := []cfg{
		{"upd||set+10m", []time.Duration{10 * time.Minute}, 1},
		{"upd||set+5ms", []time.Duration{5 * time.Millisecond}, 1},
		{"upd||set+10m||set+20m", []time.Duration{10 * time.Minute, 20 * time.Minute}, 1},
		{"set+10m||set+20m", []time.Duration{10 * time.Minute, 20 * time.Minute}, 0},
	}
	// fault dimension: the k-th window save (in release order) of the concurrent operations fails,
	// either without being applied or applied with the acknowledgement lost
	type gfault struct {
		name string
		k    int32
		mode etcdx.FaultMode
	}
	gfaults := []gfault{{"none", 0, etcdx.NoFault}, {"save1-lost-ack", 1, etcdx.LostAck}, {"save1-fail-before", 1, etcdx.FailBefore},
		{"save2-lost-ack", 2, etcdx.LostAck}, {"save2-fail-before", 2, etcdx.FailBefore}}
	for _, c := range cfgs {
		nw := c.upds + len(c.sets)
		for _, perm := range perms(nw) {
			for _, gf := range gfaults {
				ex := &sched.Explorer{}
				for {
					ch := ex.Next()
					if ch == nil {
						break
					}
					w, err := tsow.NewWorld(x.e, x.root("g"), 1, time.Millisecond, 50*time.Millisecond)
					if err != nil {
						r.Inconclusive("world: %v", err)
						return
					}
					s := &seqRun{x: x, w: w, saveIv: time.Millisecond, clock: tsow.ClockNormal}
					m := w.Members[0]
					s.serving = m
					if err := m.Campaign(true); err != nil {
						r.Inconclusive("campaign: %v", err)
						w.Close()
						return
					}
					if err := m.Alloc.Initialize(0); err != nil {
						r.Inconclusive("init: %v", err)
						w.Close()
						return
					}
					s.record("init", "normal", nil)
					s.grant(1)
					time.Sleep(4 * time.Millisecond) // so that UpdateTSO sees jetLag > guard and needs a save (save interval 1 ms)
					sc := sched.New()
					sc.Stagger = true
					m.Cl.Gate, m.Cl.Done = sc.Gate, sc.Done
					var saves, injected int32
					if gf.k > 0 {
						gf := gf
						tsKey := w.TimestampKey()
						m.Cl.Decide = func(rpc *etcdx.RPC) etcdx.FaultMode {
							if rpc.Method != "Txn" || !rpc.Write {
								return etcdx.NoFault
							}
							hit := false
							for _, k := range rpc.Keys {
								if k == tsKey {
									hit = true
								}
							}
							if hit && atomic.AddInt32(&saves, 1) == gf.k {
								atomic.StoreInt32(&injected, 1)
								return gf.mode
							}
							return etcdx.NoFault
						}
					}
					var ws []func()
					errs := make([]error, c.upds+len(c.sets))
					for i := 0; i < c.upds; i++ {
						i := i
						ws = append(ws, func() { errs[i] = m.Alloc.UpdateTSO() })
					}
					now := time.Now()
					for j, d := range c.sets {
						j, d := j, d
						ws = append(ws, func() {
							errs[c.upds+j] = m.Alloc.SetTSO(tsoutil.GenerateTS(tsoutil.GenerateTimestamp(now.Add(d), 0)))
						})
					}
					// start order = perm (worker numbers in the trace are positions in this order)
					pw := make([]func(), len(ws))
					for i, j := range perm {
						pw[i] = ws[j]
					}
					sc.Run(pw, ch)
					m.Cl.Gate, m.Cl.Done = nil, nil
					m.Cl.Decide = nil
					if atomic.LoadInt32(&injected) == 1 {
						r.Count("gated_faults_injected", 1)
					}
					ex.Advance(sc)
					if sc.Err != nil {
						r.Inconclusive("scheduler: %v", sc.Err)
						w.Close()
						return
					}
					es := make([]string, len(errs))
					for i, e := range errs {
						if e != nil {
							es[i] = e.Error()
						}
					}
					s.steps = append(s.steps, step{Op: "gated", Arg: map[string]interface{}{"config": c.name, "fault": gf.name, "start_order": perm, "schedule": sc.Trace, "errors": es}, Bound: s.bound()})
					r.Count("gated_storage_ops", int64(len(sc.Trace)))
					// quiescent: exact checks
					s.grant(1)
					s.takeover("after the gated concurrent operations")
					hs, err := x.e.History(w.TimestampKey(), w.StartRev)
					if err == nil {
						var prev int64
						for _, hv := range hs {
							v := tsow.DecodeBound([]byte(hv.Value))
							if !hv.Delete && v < prev {
								r.Violation("stored-bound-decreases:"+classify(s.steps), fmt.Sprintf("stored time window went from %d to %d ns", prev, v), s.witness(map[string]interface{}{"history": hs}))
								break
							}
							if !hv.Delete {
								prev = v
							}
						}
					}
					m.Resign()
					w.Close()
					r.Eval(1)
					r.Count("gated_schedules", 1)
					r.Distinct("gated|" + c.name + "|" + gf.name + "|" + fmt.Sprint(perm) + "|" + sc.TraceKey())
					if r.Counter("gated_schedules") == 2 {
						r.Sample(map[string]interface{}{"mode": "gated", "config": c.name, "schedule": sc.Trace, "steps": s.steps})
					}
					if ex.Runs > 400 {
						break
					}
				}
			}
		}
	}
}

func perms(n int) [][]int {
	if n == 1 {
		return [][]int{{0}}
	}
	var out [][]int
	for _, p := range perms(n - 1) {
		for pos := 0; pos <= len(p); pos++ {
			q := append(append(append([]int(nil), p[:pos]...), n-1), p[pos:]...)
			out = append(out, q)
		}
	}
	return out
}

// free-running: requesters + updater + resets concurrently; oracle (iii) + (i).
func (x *env) freePhase(round int) {
	r := x.r
	rng := x.rng
	saveIv := []time.Duration{time.Millisecond, 50 * time.Millisecond}[rng.Intn(2)]
	w, err := tsow.NewWorld(x.e, x.root("f"), 1, saveIv, time.Millisecond)
	if err != nil {
		r.Inconclusive("world: %v", err)
		return
	}
	defer w.Close()
	m := w.Members[0]
	if err := m.Campaign(true); err != nil {
		r.Inconclusive("campaign: %v", err)
		return
	}
	if err := m.Alloc.Initialize(0); err != nil {
		r.Inconclusive("init: %v", err)
		return
	}
	stop := make(chan struct{})
	var wg sync.WaitGroup
	for g := 0; g < 6; g++ {
		wg.Add(1)
		go func(g int) {
			defer wg.Done()
			for {
				select {
				case <-stop:
					return
				default:
				}
				w.TSO(g, m, uint32(1+g*100), 0)
			}
		}(g)
	}
	wg.Add(1)
	go func() {
		defer wg.Done()
		for {
			select {
			case <-stop:
				return
			case <-time.After(time.Millisecond):
				m.Alloc.UpdateTSO()
			}
		}
	}()
	resets := 3 + rng.Intn(5)
	for i := 0; i < resets; i++ {
		time.Sleep(time.Duration(3+rng.Intn(10)) * time.Millisecond)
		d := []time.Duration{time.Second, time.Minute, 10 * time.Minute, 5 * time.Millisecond}[rng.Intn(4)]
		m.Alloc.SetTSO(tsoutil.GenerateTS(tsoutil.GenerateTimestamp(time.Now().Add(time.Duration(i+1)*d), 0)))
	}
	time.Sleep(10 * time.Millisecond)
	close(stop)
	wg.Wait()
	m.Resign()
	// committed window writes with send/ack ticks and revisions
	type wr struct {
		send, ack, rev, val int64
	}
	var wrs []wr
	for _, rpc := range m.Cl.Log() {
		if rpc.Method == "Txn" && rpc.Succ && len(rpc.Keys) > 0 && rpc.Keys[0] == w.TimestampKey() {
			wrs = append(wrs, wr{rpc.Send, rpc.Ack, rpc.Rev, tsow.DecodeBound([]byte(rpc.PutVals[0]))})
		}
	}
	sort.Slice(wrs, func(a, b int) bool { return wrs[a].rev < wrs[b].rev })
	resp := w.Responses()
	checked := 0
	for i := range resp {
		g := resp[i]
		if g.Err != "" {
			continue
		}
		// latest write surely committed before the call
		cur := -1
		for k := range wrs {
			if wrs[k].ack < g.Call {
				cur = k
			}
		}
		var maxPossible int64 = -1
		if cur >= 0 {
			maxPossible = wrs[cur].val
		}
		for k := cur + 1; k < len(wrs); k++ {
			if wrs[k].send < g.Ret && wrs[k].val > maxPossible {
				maxPossible = wrs[k].val
			}
		}
		checked++
		if g.Physical*int64(time.Millisecond) >= maxPossible {
			r.Violation("grant-not-below-durable-bound:free", fmt.Sprintf("granted physical %d ms although every bound that may have been current during the request is <= %d ns", g.Physical, maxPossible),
				map[string]interface{}{"grant": g, "window_writes": wrs, "save_interval": saveIv.String()})
			break
		}
	}
	r.Count("grants_checked_free", int64(checked))
	for k := 1; k < len(wrs); k++ {
		if wrs[k].val < wrs[k-1].val {
			r.Violation("stored-bound-decreases:free", fmt.Sprintf("stored time window went from %d to %d ns", wrs[k-1].val, wrs[k].val), map[string]interface{}{"window_writes": wrs})
			break
		}
	}
	r.Eval(1)
	r.Count("free_rounds", 1)
	r.Distinct(fmt.Sprintf("free|%s|%d|%d", saveIv, resets, len(wrs)))
}

// probeFailpoints finds out whether the clock failpoints are effective in this build.
func (x *env) probeFailpoints() bool {
	w, err := tsow.NewWorld(x.e, x.root("p"), 1, 50*time.Millisecond, 50*time.Millisecond)
	if err != nil {
		return false
	}
	defer w.Close()
	m := w.Members[0]
	if m.Campaign(false) != nil {
		return false
	}
	tsow.SetClock(tsow.ClockFastSync)
	err = m.Alloc.Initialize(0)
	tsow.SetClock(tsow.ClockNormal)
	if err != nil {
		return false
	}
	ts, err := w.TSO(0, m, 1, 0)
	m.Resign()
	if err != nil {
		return false
	}
	ahead := ts.Physical - time.Now().UnixNano()/int64(time.Millisecond)
	return ahead > 30*60*1000
}

func main() {
	r := ev.New("C02", "fault_enumeration")
	r.Rule("sequential histories over {generate n, UpdateTSO (clock normal/+1h/-1h), SetTSO (8 kinds of targets), Reset+Initialize, hand-over, restart, fail-before/lost-ack on the window txn}, save interval in {1ms,50ms,3s}, one history in three on a root populated with 20-2800 unrelated keys; after every op and at every committed window write a successor (clock normal and -1h) takes over from the durable state (crash point enumeration); gated: every release order of the window transactions of UpdateTSO || SetTSO [|| SetTSO], crossed with {no fault, fail-before, lost-ack} on the first or second window save in release order; free-running: 6 requesters + 1 ms updater + resets. distinct = save interval x op shape (sequential), config x schedule (gated), parameters (free)")
	r.Assume("clock offsets are the repository's own failpoints fallBackSync/fallBackUpdate/systemTimeSlow enabled on a scratch copy by failpoint-ctl; the evidence key clock_failpoints_effective says whether they were live")
	r.Assume("a crash of the serving process is emulated by taking over from a copy of the durable timestamp key under a fresh root with the real campaign + Initialize + GenerateTSO code of a new member")
	srv.Quiet()
	e, err := etcdx.Start()
	if err != nil {
		r.Inconclusive("etcd: %v", err)
		r.Finish()
	}
	x := &env{r: r, e: e, rng: rand.New(rand.NewSource(r.ShardSeed()))}
	x.fpLive = x.probeFailpoints()
	r.Set("clock_failpoints_effective", x.fpLive)
	_ = hist.Now
	x.gatedPhase()
	x.directedFaultPhase()
	nh := r.Pick(40, 400)
	for h := 0; h < nh; h++ {
		x.seqHistory(h)
	}
	nf := r.Pick(6, 40)
	for i := 0; i < nf; i++ {
		x.freePhase(i)
	}
	tsow.SetClock(tsow.ClockNormal)
	e.Close()
	r.Floor(40)
	r.Finish()
}
