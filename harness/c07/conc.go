package main

// Concurrent families. A running server overlaps these entry points of the region cache:
//
//   - ONE stream of writes at a time (heartbeat processing holds the RaftCluster lock around
//     PutRegion + the store-record refreshes; the region syncer of a follower is one goroutine) with
//     any number of readers (schedulers, checkers, API handlers, the lock-free first half of other
//     heartbeats = PreCheckPutRegion), which only take BasicCluster's read lock;
//   - several cache drops at once (RaftCluster.DropCacheRegion holds only the read lock of the
//     RaftCluster): GetRegion + RemoveRegion  ||  GetRegion + RemoveRegion  ||  readers.
//
// Every read is ONE call into BasicCluster (one lock section) with logical call / return ticks. The
// writes of a lane are sequential and their effects are known in advance, so the states the cache
// can be in while a read runs are exactly: (writes finished before the read began) .. (writes begun
// before the read returned), per lane. A read is refuted when it matches the linear-scan model in
// none of these states. The race detector watches the same executions.

import (
	"fmt"
	"math/rand"
	"runtime"
	"sync"
	"sync/atomic"

	"github.com/tikv/pd/server/core"
	"verif/harness/lib/ev"
	"verif/harness/lib/hist"
)

type laneOp struct {
	Desc string `json:"op"`
	Call int64  `json:"call"`
	Ret  int64  `json:"ret"`
	do   func()
}

type lane struct {
	ops []*laneOp
}

type readRec struct {
	p         *probe
	a         *answer
	call, ret int64
}

// concRun runs the lanes (one goroutine each) against nReaders reader goroutines and returns the reads.
func concRun(w *world, lanes []*lane, nReaders int, mkProbe func(rng *rand.Rand) *probe, seed int64, maxReads int, pace bool) [][]readRec {
	w.conc = true
	defer func() { w.conc = false }()
	var done int32
	var reads int64
	var wg, rg sync.WaitGroup
	out := make([][]readRec, nReaders)
	start := make(chan struct{})
	for i := 0; i < nReaders; i++ {
		rg.Add(1)
		go func(i int) {
			defer rg.Done()
			rng := rand.New(rand.NewSource(seed + int64(i)*7919))
			<-start
			var recs []readRec
			for len(recs) < maxReads && (atomic.LoadInt32(&done) == 0 || len(recs) < 40) {
				p := mkProbe(rng)
				c := hist.Tick()
				a := w.fetch(p)
				recs = append(recs, readRec{p: p, a: a, call: c, ret: hist.Tick()})
				atomic.AddInt64(&reads, 1)
			}
			out[i] = recs
		}(i)
	}
	for _, l := range lanes {
		wg.Add(1)
		go func(l *lane) {
			defer wg.Done()
			<-start
			for _, o := range l.ops {
				// let the readers get some reads in between two writes (pacing only, no verdict depends on it)
				before := atomic.LoadInt64(&reads)
				for y := 0; pace && y < 200 && atomic.LoadInt64(&reads) < before+int64(nReaders); y++ {
					runtime.Gosched()
				}
				o.Call = hist.Tick()
				o.do()
				o.Ret = hist.Tick()
			}
		}(l)
	}
	close(start)
	wg.Wait()
	atomic.StoreInt32(&done, 1)
	rg.Wait()
	return out
}

// window: how many ops of the lane are certainly / possibly applied while the read ran.
func window(l *lane, rd readRec) (lo, hi int) {
	for _, o := range l.ops {
		if o.Ret != 0 && o.Ret < rd.call {
			lo++
		}
		if o.Call != 0 && o.Call < rd.ret {
			hi++
		}
	}
	return
}

type concCase struct {
	Family  string      `json:"family"`
	Seed    int64       `json:"round_seed"`
	Profile profile     `json:"profile"`
	Read    interface{} `json:"read"`
	Lanes   interface{} `json:"lane_ops_around_the_read"`
	States  interface{} `json:"states_the_cache_could_be_in"`
	Failure *failure    `json:"failure_against_the_first_such_state"`
	Note    string      `json:"note"`
}

// judgeReads checks every read against the candidate states. stateAt(idx) gives the model after
// idx[l] operations of lane l.
func judgeReads(r *ev.Run, w *world, family string, seed int64, prof profile, lanes []*lane, reads [][]readRec, stateAt func(idx []int) *model) bool {
	for _, recs := range reads {
		for _, rd := range recs {
			los, his := make([]int, len(lanes)), make([]int, len(lanes))
			combos := 1
			for i, l := range lanes {
				los[i], his[i] = window(l, rd)
				combos *= his[i] - los[i] + 1
			}
			w.count("conc_reads", 1)
			w.count("conc_reads_"+rd.p.Kind, 1)
			if combos > 1 {
				w.count("conc_reads_overlapping_a_write", 1)
			}
			if combos > 64 {
				w.count("conc_reads_window_too_wide_not_judged", 1)
				continue
			}
			idx := append([]int(nil), los...)
			var first *failure
			ok := false
			var tried []string
			for {
				m := stateAt(idx)
				f := (&judger{m: m, cnt: nil}).judge(rd.p, rd.a)
				if f == nil {
					ok = true
					break
				}
				if first == nil {
					first = f
				}
				tried = append(tried, fmt.Sprint(idx))
				// next combination
				k := 0
				for k < len(idx) {
					if idx[k] < his[k] {
						idx[k]++
						break
					}
					idx[k] = los[k]
					k++
				}
				if k == len(idx) {
					break
				}
			}
			r.Eval(1)
			r.Distinct(fmt.Sprintf("conc|%s|%s|sub%d|states%d", family, rd.p.Kind, rd.p.Sub, minInt(combos, 4)))
			if ok {
				continue
			}
			if first.Class == "harness:unknown-probe" {
				r.Inconclusive("harness problem: %s", first.What)
				return false
			}
			var around []interface{}
			for i, l := range lanes {
				a, b := los[i]-3, his[i]+1
				if a < 0 {
					a = 0
				}
				if b > len(l.ops) {
					b = len(l.ops)
				}
				around = append(around, map[string]interface{}{"lane": i, "first_index": a, "ops": l.ops[a:b]})
			}
			var states []interface{}
			for _, t := range tried {
				states = append(states, t)
			}
			m0 := stateAt(los)
			r.Violation("concurrent-read:"+first.Class,
				fmt.Sprintf("a %s query that ran while writes were in progress matches the cached region set in none of the %d states it could have observed: %s", rd.p.Kind, combos, first.What),
				&concCase{Family: family, Seed: seed, Profile: prof,
					Read:  map[string]interface{}{"probe": rd.p, "call": rd.call, "ret": rd.ret, "regions": descInfos(rd.a.Regs), "numbers": rd.a.Nums, "panic": rd.a.Panic},
					Lanes: around, States: map[string]interface{}{"ops_applied_per_lane_tried": states, "model_at_first": descEntries(m0.sorted()), "store_records_at_first": m0.sinfo},
					Failure: first, Note: "free-running goroutines: re-running seed/tier/shard repeats the operations, not necessarily the interleaving"})
			return false
		}
	}
	return true
}

// readerProbe makes one single-call probe without looking at the model.
func (p *prober) readerProbe(rng *rand.Rand, maxID uint64) *probe {
	key := func() hexkey { return p.keys[rng.Intn(len(p.keys))] }
	pair := func() (hexkey, hexkey) {
		nk := len(p.g.keys) + 1
		i := rng.Intn(nk)
		j := i + 1 + rng.Intn(minInt(nk-i, 6))
		s, e := p.g.bound(i), p.g.bound(j)
		if j > len(p.g.keys) {
			e = ""
		}
		return s, e
	}
	store := func() uint64 { return uint64(1 + rng.Intn(9)) }
	switch x := rng.Intn(100); {
	case x < 12:
		return &probe{Kind: "search", Key: key()}
	case x < 19:
		return &probe{Kind: "searchprev", Key: key()}
	case x < 31:
		s, e := pair()
		return &probe{Kind: "scan", Start: s, End: e, Limit: rng.Intn(4)}
	case x < 38:
		s, e := pair()
		return &probe{Kind: "overlaps", Start: s, End: e}
	case x < 44:
		s, e := pair()
		return &probe{Kind: "adjacent", Start: s, End: e}
	case x < 51:
		return &probe{Kind: "getregion", ID: uint64(1 + rng.Intn(int(maxID)))}
	case x < 54:
		return &probe{Kind: "allregions"}
	case x < 55:
		return &probe{Kind: "metacount"}
	case x < 60:
		return &probe{Kind: "counts", Sub: 1 + rng.Intn(2)}
	case x < 64:
		return &probe{Kind: "avg"}
	case x < 77:
		return &probe{Kind: "store", Store: store(), Sub: []int{1, 2, 3, 4, 5, 7, 10}[rng.Intn(7)]}
	case x < 82:
		return &probe{Kind: "storeset", Store: store()}
	case x < 88:
		return &probe{Kind: "storeinfo", Store: store()}
	case x < 95:
		var ranges [][2]hexkey
		for n := rng.Intn(3); n > 0; n-- {
			s, e := pair()
			ranges = append(ranges, [2]hexkey{s, e})
		}
		return &probe{Kind: "rand", Role: roles[rng.Intn(4)], Store: store(), Ranges: ranges, Draws: 1, Sub: 1 + rng.Intn(3)}
	case x < 98:
		s, e := pair()
		return &probe{Kind: "precheck", ID: uint64(1 + rng.Intn(int(maxID))), Start: s, End: e}
	}
	return &probe{Kind: "scaniter", Start: key()}
}

// quiescent compares everything once nothing runs any more.
func quiescent(r *ev.Run, w *world, p *prober, family string, seed int64, prof profile, lanes []*lane) bool {
	for _, pb := range p.full(w, true) {
		if f := w.eval(pb); f != nil {
			if f.Class == "harness:unknown-probe" {
				r.Inconclusive("harness problem: %s", f.What)
				return false
			}
			var all []interface{}
			for i, l := range lanes {
				all = append(all, map[string]interface{}{"lane": i, "ops": l.ops})
			}
			r.Violation("after-concurrent-writes:"+f.Class, "after all concurrent writes had finished: "+f.What,
				&concCase{Family: family, Seed: seed, Profile: prof, Lanes: all, Failure: f,
					States: map[string]interface{}{"model": descEntries(w.m.sorted()), "store_records": w.m.sinfo},
					Note:   "free-running goroutines: re-running seed/tier/shard repeats the operations, not necessarily the interleaving"})
			return false
		}
	}
	w.count("conc_quiescent_sweeps", 1)
	return true
}

func concRound(r *ev.Run, seed int64, prof profile) bool {
	rng := rand.New(rand.NewSource(seed))
	rand.Seed(seed)
	g := newGen(rng, prof)
	w := newWorld(nil)
	p := newProber(g, rng)
	defer func() {
		for k, v := range w.cnt {
			r.Count(k, v)
		}
		for k, v := range w.probes {
			r.Count("probe_"+k, v)
		}
	}()
	// warm-up: a populated world, built sequentially
	queue := g.prefillOps()
	for n := 0; n < len(queue)+prof.Ops; n++ {
		var o op
		if n < len(queue) {
			o = queue[n]
		} else {
			o = g.nextOps(w.m)[0]
		}
		if a := w.apply(o); a.fail != nil {
			// the sequential histories judge this; here it only means the round cannot start
			r.Count("conc_rounds_aborted_in_warmup", 1)
			return true
		}
	}
	nReaders := 3

	// ---- family 1: one write stream (puts / removals + store-record refreshes) || readers ----
	g.noClone, g.noStale = true, true
	scratch := w.m.snapshot()
	states := []*model{scratch.snapshot()}
	wl := &lane{}
	rejected := int32(0)
	add := func(desc string, do func()) {
		wl.ops = append(wl.ops, &laneOp{Desc: desc, do: do})
		states = append(states, scratch.snapshot())
	}
	for len(wl.ops) < r.Pick(160, 400) {
		for _, o := range g.nextOps(scratch) {
			o := o
			touched := map[uint64]bool{}
			touch := func(sp *regionSpec) {
				for _, q := range sp.Peers {
					touched[q.Store] = true
				}
			}
			switch o.Kind {
			case "set":
				info := o.Spec.build(nil)
				if old := scratch.get(o.Spec.ID); old != nil {
					touch(old.spec)
				}
				for _, d := range scratch.set(&entry{spec: o.Spec, info: info}) {
					touch(d.spec)
				}
				touch(o.Spec)
				api := o.API
				add("put "+o.Spec.String()+" "+api, func() {
					if api == "check" {
						if got := w.bc.CheckAndPutRegion(info); len(got) == 1 && got[0] == info {
							atomic.AddInt32(&rejected, 1)
						}
						return
					}
					w.bc.PutRegion(info)
				})
			case "remove":
				x := scratch.get(o.ID)
				if x == nil {
					continue
				}
				touch(x.spec)
				scratch.remove(o.ID)
				id := o.ID
				add(fmt.Sprintf("remove r%d", id), func() {
					if cur := w.bc.GetRegion(id); cur != nil {
						w.bc.RemoveRegion(cur)
					}
				})
			}
			for s := uint64(1); s <= 8; s++ {
				if touched[s] {
					s := s
					scratch.sinfo[s] = scratch.stat(s)
					add(fmt.Sprintf("refresh store record %d", s), func() {
						bc := w.bc
						bc.UpdateStoreStatus(s, bc.GetStoreLeaderCount(s), bc.GetStoreRegionCount(s), bc.GetStorePendingPeerCount(s),
							bc.GetStoreLeaderRegionSize(s), bc.GetStoreRegionSize(s))
					})
				}
			}
		}
	}
	mk := func(rr *rand.Rand) *probe { return p.readerProbe(rr, prof.MaxID) }
	reads := concRun(w, []*lane{wl}, nReaders, mk, seed, r.Pick(1200, 3000), true)
	if rejected > 0 {
		r.Inconclusive("concurrent round %d: %d puts with a fresh epoch were rejected as stale (harness expectation broken)", seed, rejected)
		return false
	}
	if !judgeReads(r, w, "one-writer-many-readers", seed, prof, []*lane{wl}, reads, func(idx []int) *model { return states[idx[0]] }) {
		return false
	}
	w.m = states[len(states)-1].snapshot()
	if !quiescent(r, w, p, "one-writer-many-readers", seed, prof, []*lane{wl}) {
		return false
	}
	w.count("conc_write_ops", int64(len(wl.ops)))
	r.Count("conc_rounds_one_writer", 1)

	// ---- family 1b: a free-running stream of leader transfers / size changes / re-insertions on few
	// regions || readers that only use the getters which combine several index reads (they must be
	// one lock section: a write landing between two partial reads gives a value no state explains) ----
	if len(w.m.es) > 0 && len(w.m.es) <= 60 {
		scratch = w.m.snapshot()
		states = []*model{scratch.snapshot()}
		hl := &lane{}
		for len(hl.ops) < r.Pick(500, 1500) {
			e := scratch.es[rng.Intn(len(scratch.es))]
			sp := e.spec.clone()
			sp.Via, sp.CloneFrom = "", 0
			g.randLeader(sp, true)
			sp.Size = g.randSize()
			if rng.Intn(4) == 0 {
				g.randPending(sp)
			}
			normalise(sp)
			g.epoch++
			sp.Ver, sp.ConfVer = g.epoch, g.epoch
			info := sp.build(nil)
			gone := rng.Intn(5) == 0 // sometimes the region is dropped first: counts change as well
			if gone {
				id := sp.ID
				scratch.remove(id)
				hl.ops = append(hl.ops, &laneOp{Desc: fmt.Sprintf("remove r%d", id), do: func() {
					if cur := w.bc.GetRegion(id); cur != nil {
						w.bc.RemoveRegion(cur)
					}
				}})
				states = append(states, scratch.snapshot())
			}
			scratch.set(&entry{spec: sp, info: info})
			hl.ops = append(hl.ops, &laneOp{Desc: "put " + sp.String(), do: func() { w.bc.PutRegion(info) }})
			states = append(states, scratch.snapshot())
		}
		mkc := func(rr *rand.Rand) *probe {
			st := uint64(1 + rr.Intn(prof.Stores))
			switch rr.Intn(8) {
			case 0, 1:
				return &probe{Kind: "store", Store: st, Sub: 5} // GetStoreRegionCount
			case 2, 3:
				return &probe{Kind: "store", Store: st, Sub: 10} // GetStoreRegionSize
			case 4:
				return &probe{Kind: "avg"}
			case 5:
				return &probe{Kind: "storeset", Store: st}
			case 6:
				return &probe{Kind: "rand", Role: roles[rr.Intn(4)], Store: st, Draws: 1, Sub: 3}
			}
			return &probe{Kind: "allregions"}
		}
		reads = concRun(w, []*lane{hl}, nReaders, mkc, seed+2, r.Pick(2500, 6000), false)
		if !judgeReads(r, w, "free-running-writer-composite-readers", seed, prof, []*lane{hl}, reads, func(idx []int) *model { return states[idx[0]] }) {
			return false
		}
		last := states[len(states)-1].snapshot()
		last.sinfo = w.m.sinfo // no store record was refreshed in this family
		w.m = last
		if !quiescent(r, w, p, "free-running-writer-composite-readers", seed, prof, []*lane{hl}) {
			return false
		}
		w.count("conc_write_ops", int64(len(hl.ops)))
		r.Count("conc_rounds_free_running_writer", 1)
	}

	// ---- family 3: three parties: a put stream on the lower half of the key space || a stream of cache
	// drops on the upper half || readers. (BasicCluster is shared by the region syncer and the
	// RaftCluster; its own lock is all that orders these writers.) The halves are disjoint in keys
	// and ids, so the state after i puts and j drops is the union of the two halves' states. ----
	if srt := w.m.sorted(); len(srt) >= 8 {
		cut := srt[len(srt)/2].spec.Start
		var lower, upper []*entry
		clean := cut != ""
		for _, e := range srt {
			switch {
			case e.spec.End != "" && e.spec.End <= cut:
				lower = append(lower, e)
			case e.spec.Start >= cut:
				upper = append(upper, e)
			default:
				clean = false
			}
		}
		pos := 0
		for pos < len(g.keys) && g.keys[pos] < cut {
			pos++
		}
		if clean && pos >= 3 && len(upper) >= 3 {
			gA := &gen{rng: rng, prof: prof, keys: g.keys[:pos], endKey: cut, banned: map[uint64]bool{}, noClone: true, noStale: true,
				epoch: g.epoch, peerN: g.peerN + 1<<20}
			gA.prof.MacroEach = 0
			for _, e := range upper {
				gA.banned[e.spec.ID] = true
			}
			scratchA := &model{version: 1, es: append([]*entry(nil), lower...), sinfo: map[uint64]storeStat{}}
			snaps := [][]*entry{append([]*entry(nil), scratchA.es...)}
			la := &lane{}
			for len(la.ops) < r.Pick(120, 300) {
				for _, o := range gA.nextOps(scratchA) {
					o := o
					switch o.Kind {
					case "set":
						info := o.Spec.build(nil)
						scratchA.set(&entry{spec: o.Spec, info: info})
						api := o.API
						la.ops = append(la.ops, &laneOp{Desc: "put " + o.Spec.String() + " " + api, do: func() {
							if api == "check" {
								if got := w.bc.CheckAndPutRegion(info); len(got) == 1 && got[0] == info {
									atomic.AddInt32(&rejected, 1)
								}
								return
							}
							w.bc.PutRegion(info)
						}})
					case "remove":
						if scratchA.get(o.ID) == nil {
							continue
						}
						scratchA.remove(o.ID)
						id := o.ID
						la.ops = append(la.ops, &laneOp{Desc: fmt.Sprintf("remove r%d", id), do: func() {
							if cur := w.bc.GetRegion(id); cur != nil {
								w.bc.RemoveRegion(cur)
							}
						}})
					}
					snaps = append(snaps, append([]*entry(nil), scratchA.es...))
				}
			}
			g.epoch = gA.epoch
			lb := &lane{}
			order := rng.Perm(len(upper))
			var dropped []uint64
			for _, i := range order[:len(order)*4/5] {
				id := upper[i].spec.ID
				dropped = append(dropped, id)
				lb.ops = append(lb.ops, &laneOp{Desc: fmt.Sprintf("drop cache region r%d", id), do: func() {
					if region := w.bc.GetRegion(id); region != nil {
						w.bc.RemoveRegion(region)
					}
				}})
			}
			sinfo := w.m.sinfo
			memo3 := map[[2]int]*model{}
			state3 := func(idx []int) *model {
				k := [2]int{idx[0], idx[1]}
				if m, ok := memo3[k]; ok {
					return m
				}
				gone := map[uint64]bool{}
				for _, id := range dropped[:idx[1]] {
					gone[id] = true
				}
				m := &model{version: 1, sinfo: sinfo, es: append([]*entry(nil), snaps[idx[0]]...)}
				for _, e := range upper {
					if !gone[e.spec.ID] {
						m.es = append(m.es, e)
					}
				}
				memo3[k] = m
				return m
			}
			lanes3 := []*lane{la, lb}
			reads = concRun(w, lanes3, nReaders, mk, seed+3, r.Pick(900, 2500), true)
			if rejected > 0 {
				r.Inconclusive("concurrent round %d: %d puts with a fresh epoch were rejected as stale (harness expectation broken)", seed, rejected)
				return false
			}
			if !judgeReads(r, w, "put-stream-drop-stream-readers", seed, prof, lanes3, reads, state3) {
				return false
			}
			w.m = state3([]int{len(la.ops), len(lb.ops)}).snapshot()
			if !quiescent(r, w, p, "put-stream-drop-stream-readers", seed, prof, lanes3) {
				return false
			}
			w.count("conc_write_ops", int64(len(la.ops)))
			w.count("conc_drop_ops", int64(len(lb.ops)))
			r.Count("conc_rounds_put_drop_readers", 1)
		}
	}

	// ---- family 2: two concurrent streams of cache drops || readers ----
	base := w.m.snapshot()
	ids := make([]uint64, 0, len(base.es))
	for _, e := range base.sorted() {
		ids = append(ids, e.spec.ID)
	}
	rng.Shuffle(len(ids), func(i, j int) { ids[i], ids[j] = ids[j], ids[i] })
	n := len(ids) * 2 / 5
	sets := [][]uint64{ids[:n], ids[n : 2*n]}
	var dl []*lane
	for _, set := range sets {
		l := &lane{}
		for _, id := range set {
			id := id
			l.ops = append(l.ops, &laneOp{Desc: fmt.Sprintf("drop cache region r%d", id), do: func() {
				if region := w.bc.GetRegion(id); region != nil {
					w.bc.RemoveRegion(region)
				}
			}})
		}
		dl = append(dl, l)
	}
	memo := map[[2]int]*model{}
	stateAt := func(idx []int) *model {
		k := [2]int{idx[0], idx[1]}
		if m, ok := memo[k]; ok {
			return m
		}
		gone := map[uint64]bool{}
		for i, set := range sets {
			for _, id := range set[:idx[i]] {
				gone[id] = true
			}
		}
		m := &model{version: 1, sinfo: base.sinfo}
		for _, e := range base.es {
			if !gone[e.spec.ID] {
				m.es = append(m.es, e)
			}
		}
		memo[k] = m
		return m
	}
	reads = concRun(w, dl, nReaders, mk, seed+1, r.Pick(600, 1500), true)
	if !judgeReads(r, w, "two-droppers-many-readers", seed, prof, dl, reads, stateAt) {
		return false
	}
	w.m = stateAt([]int{len(sets[0]), len(sets[1])}).snapshot()
	if !quiescent(r, w, p, "two-droppers-many-readers", seed, prof, dl) {
		return false
	}
	w.count("conc_drop_ops", int64(2*n))
	r.Count("conc_rounds_two_droppers", 1)
	return true
}

func concPhase(r *ev.Run, rng *rand.Rand) bool {
	rounds := r.Pick(16, 30)
	for i := 0; i < rounds; i++ {
		prof := profile{Name: "concurrent", Keys: 14 + rng.Intn(18), MaxID: 60, Ops: 40 + rng.Intn(40), Prefill: true,
			Stores: 3 + rng.Intn(6), Density: 0.7, NearEach: 1, FullEach: 1 << 30, CompleteEach: 1 << 30}
		if i%8 == 7 {
			// a larger world: several hundred regions, few stores
			k := 150 + rng.Intn(150)
			prof.Keys, prof.MaxID, prof.Stores = k, uint64(k+60), 2+rng.Intn(3)
		}
		seed := rng.Int63()
		if r.Shards > 1 && !r.Thorough() && i%r.Shards != r.Shard {
			continue
		}
		if !concRound(r, seed, prof) {
			return false
		}
	}
	return true
}

var _ = core.NewKeyRange
