package main

// Parked writer. The only observable step inside the cache's write lock is the debug log line
// "overlapping region" that regionTree.update emits while it replaces overlapped regions. A log core
// installed by the harness parks the writer exactly there (inside BasicCluster's write lock, the
// index half updated), then a cache drop and several readers are started so that they queue on the
// same RWMutex, then the writer is released and everybody proceeds together. Every read is judged
// against the states it can have observed (before / after the put, before / after the drop); a read
// that saw the half-applied put matches none of them.

import (
	"fmt"
	"math/rand"
	"sync"
	"sync/atomic"
	"time"

	"github.com/pingcap/log"
	"go.uber.org/zap"
	"go.uber.org/zap/zapcore"
	"verif/harness/lib/ev"
	"verif/harness/lib/hist"
)

type parkCore struct {
	armed   int32
	arrived chan struct{}
	release chan struct{}
}

func (c *parkCore) Enabled(zapcore.Level) bool        { return atomic.LoadInt32(&c.armed) == 1 }
func (c *parkCore) With([]zapcore.Field) zapcore.Core { return c }
func (c *parkCore) Sync() error                       { return nil }
func (c *parkCore) Check(e zapcore.Entry, ce *zapcore.CheckedEntry) *zapcore.CheckedEntry {
	if e.Message == "overlapping region" && atomic.LoadInt32(&c.armed) == 1 {
		return ce.AddCore(e, c)
	}
	return ce
}
func (c *parkCore) Write(zapcore.Entry, []zapcore.Field) error {
	if atomic.CompareAndSwapInt32(&c.armed, 1, 0) {
		c.arrived <- struct{}{}
		<-c.release
	}
	return nil
}

func parkedCase(r *ev.Run, core *parkCore, seed int64) bool {
	rng := rand.New(rand.NewSource(seed))
	rand.Seed(seed)
	prof := profile{Name: "parked", Keys: 8 + rng.Intn(8), MaxID: 30, Ops: 10 + rng.Intn(20), Prefill: true, Stores: 3 + rng.Intn(3), Density: 0.8,
		NearEach: 1, FullEach: 1 << 30, CompleteEach: 1 << 30}
	g := newGen(rng, prof)
	w := newWorld(nil)
	p := newProber(g, rng)
	defer func() {
		for k, v := range w.cnt {
			r.Count(k, v)
		}
		for k, v := range w.probes {
			r.Count("probe_"+k, v)
		}
	}()
	queue := g.prefillOps()
	for n := 0; n < len(queue)+prof.Ops; n++ {
		var o op
		if n < len(queue) {
			o = queue[n]
		} else {
			o = g.nextOps(w.m)[0]
		}
		if a := w.apply(o); a.fail != nil {
			return true // judged by the sequential histories
		}
	}
	srt := w.m.sorted()
	if len(srt) < 4 {
		return true
	}
	// the put: an existing or a new id takes the range of 1..3 consecutive regions (it overlaps at least one other id)
	i := rng.Intn(len(srt) - 1)
	k := 1 + rng.Intn(minInt(3, len(srt)-1-i))
	src := srt[i]
	if rng.Intn(2) == 0 {
		src = srt[rng.Intn(len(srt))]
	}
	sp := src.spec.clone()
	sp.Start, sp.End = srt[i].spec.Start, srt[i+k].spec.End
	sp.Via, sp.CloneFrom = "", 0
	sp.Size = g.randSize()
	if rng.Intn(2) == 0 {
		g.randPeers(sp)
	}
	g.epoch += 10
	sp.Ver, sp.ConfVer = g.epoch, g.epoch
	normalise(sp)
	info := sp.build(nil)
	before := w.m.snapshot()
	after := w.m.snapshot()
	displaced := after.set(&entry{spec: sp, info: info})
	others := 0
	gone := map[uint64]bool{sp.ID: true}
	for _, d := range displaced {
		gone[d.spec.ID] = true
		others++
	}
	if others == 0 {
		return true
	}
	// the drop: a region that the put does not touch
	var victim *entry
	for _, e := range after.sorted() {
		if !gone[e.spec.ID] {
			victim = e
		}
	}
	api := []string{"", "check"}[rng.Intn(2)]
	lw := &lane{ops: []*laneOp{{Desc: "put " + sp.String() + " " + api}}}
	ld := &lane{}
	if victim != nil {
		ld.ops = []*laneOp{{Desc: fmt.Sprintf("drop cache region r%d", victim.spec.ID)}}
	}
	stateAt := func(idx []int) *model {
		m := before
		if idx[0] == 1 {
			m = after
		}
		if idx[1] == 1 {
			m = m.snapshot()
			m.remove(victim.spec.ID)
		}
		return m
	}
	// readers: single calls around the touched range and the stores involved
	nReaders := 3
	var probes [][]*probe
	for q := 0; q < nReaders; q++ {
		var ps []*probe
		for n := 0; n < 6; n++ {
			pb := p.readerProbe(rng, prof.MaxID)
			switch rng.Intn(4) {
			case 0:
				pb = &probe{Kind: "scan", Start: predKey(sp.Start), End: sp.End, Limit: rng.Intn(3)}
			case 1:
				pb = &probe{Kind: "store", Store: uint64(1 + rng.Intn(prof.Stores)), Sub: []int{1, 2, 3, 4, 5, 7, 10}[rng.Intn(7)]}
			}
			ps = append(ps, pb)
		}
		probes = append(probes, ps)
	}
	w.conc = true
	atomic.StoreInt32(&core.armed, 1)
	var wg sync.WaitGroup
	wdone := make(chan struct{})
	go func() {
		o := lw.ops[0]
		o.Call = hist.Tick()
		if api == "check" {
			w.bc.CheckAndPutRegion(info)
		} else {
			w.bc.PutRegion(info)
		}
		o.Ret = hist.Tick()
		close(wdone)
	}()
	parked := false
	select {
	case <-core.arrived:
		parked = true
	case <-wdone:
	}
	reads := make([][]readRec, nReaders)
	if victim != nil {
		wg.Add(1)
		go func() {
			defer wg.Done()
			o := ld.ops[0]
			o.Call = hist.Tick()
			if region := w.bc.GetRegion(victim.spec.ID); region != nil {
				w.bc.RemoveRegion(region)
			}
			o.Ret = hist.Tick()
		}()
	}
	for q := 0; q < nReaders; q++ {
		wg.Add(1)
		go func(q int) {
			defer wg.Done()
			for _, pb := range probes[q] {
				c := hist.Tick()
				a := w.fetch(pb)
				reads[q] = append(reads[q], readRec{p: pb, a: a, call: c, ret: hist.Tick()})
			}
		}(q)
	}
	if parked {
		time.Sleep(2 * time.Millisecond) // let the others queue on the lock (settling only; no verdict depends on it)
		core.release <- struct{}{}
		r.Count("parked_writer_cases", 1)
	} else {
		atomic.StoreInt32(&core.armed, 0)
		r.Count("parked_writer_not_reached", 1)
	}
	<-wdone
	wg.Wait()
	w.conc = false
	lanes := []*lane{lw, ld}
	if !judgeReads(r, w, "parked-writer-queued-drop-and-readers", seed, prof, lanes, reads, stateAt) {
		return false
	}
	final := []int{1, 0}
	if victim != nil {
		final[1] = 1
	}
	w.m = stateAt(final).snapshot()
	w.m.sinfo = before.sinfo
	return quiescent(r, w, p, "parked-writer-queued-drop-and-readers", seed, prof, lanes)
}

func parkedPhase(r *ev.Run, rng *rand.Rand) bool {
	core := &parkCore{arrived: make(chan struct{}), release: make(chan struct{})}
	prev := log.L()
	log.ReplaceGlobals(zap.New(core), &log.ZapProperties{Core: core, Level: zap.NewAtomicLevelAt(zap.DebugLevel)})
	defer log.ReplaceGlobals(prev, &log.ZapProperties{Level: zap.NewAtomicLevelAt(zap.InfoLevel)})
	n := r.Pick(120, 400)
	for i := 0; i < n; i++ {
		seed := rng.Int63()
		if r.Shards > 1 && !r.Thorough() && i%r.Shards != r.Shard {
			continue
		}
		if !parkedCase(r, core, seed) {
			return false
		}
	}
	return true
}
