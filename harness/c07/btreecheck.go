package main

// Sub-check on pkg/btree (the rank-augmented B-tree under the region index): every tree is mirrored
// by a sorted slice; GetAt / GetWithIndex / Get / Min / Max / iteration must agree with it after
// insert, replace, delete, delete-min/max, clone (copy-on-write) and clear, for several degrees.

import (
	"fmt"
	"math/rand"
	"sort"

	"github.com/tikv/pd/pkg/btree"
	"verif/harness/lib/ev"
)

type bitem struct {
	k   int
	gen int
}

func (a *bitem) Less(b btree.Item) bool { return a.k < b.(*bitem).k }

type btOp struct {
	Tree int    `json:"tree"`
	Op   string `json:"op"`
	Key  int    `json:"key,omitempty"`
}

type mirrored struct {
	t *btree.BTree
	s []*bitem // sorted by k
}

func (m *mirrored) pos(k int) (int, bool) {
	i := sort.Search(len(m.s), func(i int) bool { return m.s[i].k >= k })
	return i, i < len(m.s) && m.s[i].k == k
}

func itemStr(it btree.Item) string {
	if it == nil {
		return "<nil>"
	}
	b := it.(*bitem)
	return fmt.Sprintf("%d#%d", b.k, b.gen)
}

func bStr(b *bitem) string {
	if b == nil {
		return "<nil>"
	}
	return fmt.Sprintf("%d#%d", b.k, b.gen)
}

// verifyKey checks all point queries for key k. Returns class, what.
func (m *mirrored) verifyKey(k int) (string, string) {
	i, ok := m.pos(k)
	var want *bitem
	if ok {
		want = m.s[i]
	}
	key := &bitem{k: k}
	it, idx := m.t.GetWithIndex(key)
	if idx != i || (want == nil) != (it == nil) || (want != nil && it.(*bitem) != want) {
		return "btree:get-with-index", fmt.Sprintf("GetWithIndex(%d) = (%s, %d), sorted slice says (%s, %d)", k, itemStr(it), idx, bStr(want), i)
	}
	g := m.t.Get(key)
	if (want == nil) != (g == nil) || (want != nil && g.(*bitem) != want) {
		return "btree:get", fmt.Sprintf("Get(%d) = %s, sorted slice says %s", k, itemStr(g), bStr(want))
	}
	if m.t.Has(key) != ok {
		return "btree:get", fmt.Sprintf("Has(%d) = %v, sorted slice says %v", k, !ok, ok)
	}
	return "", ""
}

func (m *mirrored) verifyAt(i int) (string, string) {
	var want *bitem
	if i >= 0 && i < len(m.s) {
		want = m.s[i]
	}
	g := m.t.GetAt(i)
	if (want == nil) != (g == nil) || (want != nil && g.(*bitem) != want) {
		return "btree:get-at", fmt.Sprintf("GetAt(%d) = %s, sorted slice (len %d) says %s", i, itemStr(g), len(m.s), bStr(want))
	}
	return "", ""
}

func (m *mirrored) verifyEnds() (string, string) {
	if m.t.Len() != len(m.s) {
		return "btree:len", fmt.Sprintf("Len() = %d, sorted slice has %d", m.t.Len(), len(m.s))
	}
	var lo, hi *bitem
	if len(m.s) > 0 {
		lo, hi = m.s[0], m.s[len(m.s)-1]
	}
	if g := m.t.Min(); (lo == nil) != (g == nil) || (lo != nil && g.(*bitem) != lo) {
		return "btree:min-max", fmt.Sprintf("Min() = %s, sorted slice says %s", itemStr(g), bStr(lo))
	}
	if g := m.t.Max(); (hi == nil) != (g == nil) || (hi != nil && g.(*bitem) != hi) {
		return "btree:min-max", fmt.Sprintf("Max() = %s, sorted slice says %s", itemStr(g), bStr(hi))
	}
	for _, i := range []int{-1, len(m.s), len(m.s) + 1} {
		if c, w := m.verifyAt(i); c != "" {
			return c, w
		}
	}
	return "", ""
}

func (m *mirrored) verifyIter(rng *rand.Rand, universe int) (string, string) {
	cmp := func(name string, got []*bitem, want []*bitem) (string, string) {
		if len(got) != len(want) {
			return "btree:iterate", fmt.Sprintf("%s visited %d items, sorted slice says %d", name, len(got), len(want))
		}
		for i := range got {
			if got[i] != want[i] {
				return "btree:iterate", fmt.Sprintf("%s item %d is %s, sorted slice says %s", name, i, bStr(got[i]), bStr(want[i]))
			}
		}
		return "", ""
	}
	collect := func(f func(btree.ItemIterator)) []*bitem {
		var out []*bitem
		f(func(i btree.Item) bool { out = append(out, i.(*bitem)); return true })
		return out
	}
	rev := func(s []*bitem) []*bitem {
		out := make([]*bitem, len(s))
		for i := range s {
			out[len(s)-1-i] = s[i]
		}
		return out
	}
	if c, w := cmp("Ascend", collect(m.t.Ascend), m.s); c != "" {
		return c, w
	}
	if c, w := cmp("Descend", collect(m.t.Descend), rev(m.s)); c != "" {
		return c, w
	}
	for n := 0; n < 4; n++ {
		a, b := rng.Intn(universe+2)-1, rng.Intn(universe+2)-1
		if a > b {
			a, b = b, a
		}
		ia, _ := m.pos(a)
		ib, _ := m.pos(b)
		pa, pb := &bitem{k: a}, &bitem{k: b}
		if c, w := cmp(fmt.Sprintf("AscendGreaterOrEqual(%d)", a), collect(func(it btree.ItemIterator) { m.t.AscendGreaterOrEqual(pa, it) }), m.s[ia:]); c != "" {
			return c, w
		}
		if c, w := cmp(fmt.Sprintf("AscendLessThan(%d)", b), collect(func(it btree.ItemIterator) { m.t.AscendLessThan(pb, it) }), m.s[:ib]); c != "" {
			return c, w
		}
		if c, w := cmp(fmt.Sprintf("AscendRange(%d,%d)", a, b), collect(func(it btree.ItemIterator) { m.t.AscendRange(pa, pb, it) }), m.s[ia:ib]); c != "" {
			return c, w
		}
		// DescendLessOrEqual(b): items <= b in descending order
		jb := ib
		if jb < len(m.s) && m.s[jb].k == b {
			jb++
		}
		if c, w := cmp(fmt.Sprintf("DescendLessOrEqual(%d)", b), collect(func(it btree.ItemIterator) { m.t.DescendLessOrEqual(pb, it) }), rev(m.s[:jb])); c != "" {
			return c, w
		}
		// DescendGreaterThan(a): items > a in descending order
		ja := ia
		if ja < len(m.s) && m.s[ja].k == a {
			ja++
		}
		if c, w := cmp(fmt.Sprintf("DescendGreaterThan(%d)", a), collect(func(it btree.ItemIterator) { m.t.DescendGreaterThan(pa, it) }), rev(m.s[ja:])); c != "" {
			return c, w
		}
	}
	return "", ""
}

func (m *mirrored) verifyFull(rng *rand.Rand, universe int) (string, string) {
	if c, w := m.verifyEnds(); c != "" {
		return c, w
	}
	for i := range m.s {
		if c, w := m.verifyAt(i); c != "" {
			return c, w
		}
	}
	for k := -1; k <= universe; k++ {
		if c, w := m.verifyKey(k); c != "" {
			return c, w
		}
	}
	return m.verifyIter(rng, universe)
}

// btreeHistory runs one random history for one degree. Returns false after a violation.
func btreeHistory(r *ev.Run, rng *rand.Rand, degree, universe, nops int) bool {
	gen := 0
	var fl *btree.FreeList
	if rng.Intn(2) == 0 {
		fl = btree.NewFreeList(8)
	}
	mk := func() *btree.BTree {
		if fl != nil {
			return btree.NewWithFreeList(degree, fl)
		}
		return btree.New(degree)
	}
	trees := []*mirrored{{t: mk()}}
	var log []btOp
	fullEach := 64
	if universe <= 64 {
		fullEach = 8
	}
	report := func(class, what string) bool {
		tail := log
		if len(tail) > 400 {
			tail = tail[len(tail)-400:]
		}
		r.Violation(class+fmt.Sprintf(":degree-%d", degree), what, map[string]interface{}{
			"sub_check": "btree", "degree": degree, "universe": universe, "shared_freelist": fl != nil,
			"ops_total": len(log), "last_ops": tail, "note": "replay: same seed/tier/shard regenerates the history"})
		return false
	}
	// phase weights drift so that trees grow to several levels and shrink back to empty
	for n := 0; n < nops; n++ {
		ti := rng.Intn(len(trees))
		m := trees[ti]
		grow := (n/(nops/6+1))%2 == 0
		x := rng.Intn(100)
		var c, w string
		func() {
			defer func() {
				if p := recover(); p != nil {
					c, w = "btree:panic", fmt.Sprintf("panic in pkg/btree: %v", p)
				}
			}()
			switch {
			case x < 3 && len(trees) < 4: // clone
				log = append(log, btOp{ti, "clone", 0})
				cl := &mirrored{t: m.t.Clone(), s: append([]*bitem(nil), m.s...)}
				trees = append(trees, cl)
				r.Count("btree_clone", 1)
			case x < 4 && len(trees) > 1: // drop a tree
				log = append(log, btOp{ti, "drop", 0})
				trees = append(trees[:ti], trees[ti+1:]...)
				m = trees[0]
			case x < 5 && !grow: // clear
				log = append(log, btOp{ti, "clear", 0})
				m.t.Clear(rng.Intn(2) == 0)
				m.s = nil
				r.Count("btree_clear", 1)
			case x == 8 && n%7 == 0: // burst: one long-lived tree shrinks to (almost) nothing and grows again
				// (freed nodes of all shapes are recycled from the free list into other positions)
				log = append(log, btOp{ti, "burst-drain", len(m.s)})
				keep := rng.Intn(3)
				for len(m.s) > keep && c == "" {
					var got btree.Item
					var want *bitem
					switch rng.Intn(3) {
					case 0:
						got = m.t.DeleteMin()
						want, m.s = m.s[0], append([]*bitem(nil), m.s[1:]...)
					case 1:
						got = m.t.DeleteMax()
						want, m.s = m.s[len(m.s)-1], append([]*bitem(nil), m.s[:len(m.s)-1]...)
					default:
						i := rng.Intn(len(m.s))
						want = m.s[i]
						got = m.t.Delete(&bitem{k: want.k})
						m.s = append(append([]*bitem(nil), m.s[:i]...), m.s[i+1:]...)
					}
					if got == nil || got.(*bitem) != want {
						c, w = "btree:delete", fmt.Sprintf("delete during a drain returned %s, sorted slice says %s", itemStr(got), bStr(want))
					}
				}
				if c == "" {
					c, w = m.verifyFull(rng, universe)
				}
				target := 2*degree*2 + rng.Intn(universe/2+1)
				log = append(log, btOp{ti, "burst-fill", target})
				for tries := 0; len(m.s) < target && tries < 4*universe && c == ""; tries++ {
					k := rng.Intn(universe)
					i, ok := m.pos(k)
					if ok {
						continue
					}
					gen++
					it := &bitem{k: k, gen: gen}
					ns := make([]*bitem, 0, len(m.s)+1)
					ns = append(append(append(ns, m.s[:i]...), it), m.s[i:]...)
					m.s = ns
					if got := m.t.ReplaceOrInsert(it); got != nil {
						c, w = "btree:replace-or-insert", fmt.Sprintf("ReplaceOrInsert(%d) of an absent key returned %s", k, itemStr(got))
					}
					if c == "" && tries%5 == 0 {
						if c, w = m.verifyKey(k); c == "" && len(m.s) > 0 {
							c, w = m.verifyAt(rng.Intn(len(m.s)))
						}
					}
				}
				if c == "" {
					c, w = m.verifyFull(rng, universe)
				}
				r.Count("btree_drain_refill_bursts", 1)
			case x < 8: // delete min / max
				var got btree.Item
				var want *bitem
				if rng.Intn(2) == 0 {
					log = append(log, btOp{ti, "delmin", 0})
					got = m.t.DeleteMin()
					if len(m.s) > 0 {
						want, m.s = m.s[0], append([]*bitem(nil), m.s[1:]...)
					}
				} else {
					log = append(log, btOp{ti, "delmax", 0})
					got = m.t.DeleteMax()
					if len(m.s) > 0 {
						want, m.s = m.s[len(m.s)-1], m.s[:len(m.s)-1:len(m.s)-1]
					}
				}
				if (want == nil) != (got == nil) || (want != nil && got.(*bitem) != want) {
					c, w = "btree:delete", fmt.Sprintf("DeleteMin/Max returned %s, sorted slice says %s", itemStr(got), bStr(want))
				}
				r.Count("btree_delete_minmax", 1)
			case (grow && x < 75) || (!grow && x < 35): // insert / replace
				k := rng.Intn(universe)
				log = append(log, btOp{ti, "put", k})
				gen++
				it := &bitem{k: k, gen: gen}
				i, ok := m.pos(k)
				var want *bitem
				if ok {
					want = m.s[i]
					ns := append([]*bitem(nil), m.s...)
					ns[i] = it
					m.s = ns
					r.Count("btree_replace", 1)
				} else {
					ns := make([]*bitem, 0, len(m.s)+1)
					ns = append(ns, m.s[:i]...)
					ns = append(ns, it)
					ns = append(ns, m.s[i:]...)
					m.s = ns
					r.Count("btree_insert", 1)
				}
				got := m.t.ReplaceOrInsert(it)
				if (want == nil) != (got == nil) || (want != nil && got.(*bitem) != want) {
					c, w = "btree:replace-or-insert", fmt.Sprintf("ReplaceOrInsert(%d) returned %s, sorted slice says %s", k, itemStr(got), bStr(want))
				}
			default: // delete
				k := rng.Intn(universe)
				if len(m.s) > 0 && rng.Intn(3) != 0 {
					k = m.s[rng.Intn(len(m.s))].k
				}
				log = append(log, btOp{ti, "del", k})
				i, ok := m.pos(k)
				var want *bitem
				if ok {
					want = m.s[i]
					ns := make([]*bitem, 0, len(m.s))
					ns = append(ns, m.s[:i]...)
					ns = append(ns, m.s[i+1:]...)
					m.s = ns
					r.Count("btree_delete_hit", 1)
				} else {
					r.Count("btree_delete_miss", 1)
				}
				got := m.t.Delete(&bitem{k: k})
				if (want == nil) != (got == nil) || (want != nil && got.(*bitem) != want) {
					c, w = "btree:delete", fmt.Sprintf("Delete(%d) returned %s, sorted slice says %s", k, itemStr(got), bStr(want))
				}
			}
			if c != "" {
				return
			}
			// after every operation: ends, a few ranks and keys on every live tree (clones included)
			for _, t := range trees {
				if c, w = t.verifyEnds(); c != "" {
					return
				}
				for q := 0; q < 6; q++ {
					if len(t.s) > 0 {
						if c, w = t.verifyAt(rng.Intn(len(t.s))); c != "" {
							return
						}
					}
					if c, w = t.verifyKey(rng.Intn(universe+2) - 1); c != "" {
						return
					}
				}
			}
			if len(log) > 0 {
				last := log[len(log)-1]
				for d := -1; d <= 1; d++ {
					if c, w = m.verifyKey(last.Key + d); c != "" {
						return
					}
				}
			}
			if n%fullEach == 0 || n == nops-1 {
				for _, t := range trees {
					if c, w = t.verifyFull(rng, universe); c != "" {
						return
					}
				}
				r.Count("btree_full_verifications", int64(len(trees)))
			}
		}()
		if c != "" {
			return report(c, w)
		}
		r.Eval(1)
		r.Count("btree_ops", 1)
		if m := trees[0]; n%16 == 0 {
			lvl := 0
			for s, full := len(m.s), 2*degree-1; s > full; s /= degree {
				lvl++
			}
			r.Distinct(fmt.Sprintf("btree|d%d|trees%d|size-bucket%d|levels>=%d|%s", degree, len(trees), bucket(len(m.s)), lvl, log[len(log)-1].Op))
		}
	}
	return true
}

func bucket(n int) int {
	b := 0
	for n > 0 {
		n /= 2
		b++
	}
	return b
}

func btreePhase(r *ev.Run, rng *rand.Rand) bool {
	degrees := []int{2, 3, 4, 5, 8, 16, 32, 64}
	if r.Thorough() {
		degrees = []int{2, 3, 4, 5, 6, 7, 8, 11, 16, 24, 32, 48, 64}
	}
	for _, d := range degrees {
		rounds := r.Pick(2, 4)
		for i := 0; i < rounds; i++ {
			universe := d * (8 + rng.Intn(40))
			if i == 0 {
				universe = d * d * 6 // at least three levels for small degrees
				if universe > 4000 {
					universe = 4000
				}
				if universe < 24 {
					universe = 24
				}
			}
			nops := r.Pick(2500, 12000)
			if !btreeHistory(r, rng, d, universe, nops) {
				return false
			}
			r.Count("btree_histories", 1)
		}
	}
	return true
}
