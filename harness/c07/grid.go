package main

// One-field grid. A fixed small world on ONE cache; a base region is put and then put again with
// exactly one field changed, for every field the statistics / lookups depend on (and for fields they
// must not depend on), through both entry points and all three ways of making the object (fresh,
// heartbeat, get-edit-set clone). After the update everything is compared (complete sweep). The world
// uses prefix-related keys with 0x00 / 0xff tails, an unbounded last region, a hole, store ids 0 and
// 2^64-1, region id 2^64-1, regions without leader. Also: queries on a brand-new empty cache, and on a
// cache emptied completely and populated again.

import (
	"fmt"
	"math"
	"math/rand"

	"verif/harness/lib/ev"
)

const maxU = uint64(math.MaxUint64)

var gridStores = []uint64{0, 1, 2, 3, maxU}

func gridKeys() []hexkey { return []hexkey{"a", "a\x00", "ab", "b", "b\xff", "c"} }

func gridPeers(id uint64) []peerSpec {
	return []peerSpec{{ID: id*16 + 1, Store: 1}, {ID: id*16 + 2, Store: 2}, {ID: id*16 + 3, Store: 3, Learner: true},
		{ID: id*16 + 4, Store: 0}, {ID: id*16 + 5, Store: maxU}}
}

type gridEdit struct {
	name string
	f    func(sp *regionSpec) // changes exactly one field
}

func without(ids []uint64, id uint64) []uint64 {
	var out []uint64
	for _, x := range ids {
		if x != id {
			out = append(out, x)
		}
	}
	return out
}

func gridEdits() []gridEdit {
	const b = 3 // id of the base region
	p := func(n uint64) uint64 { return b*16 + n }
	return []gridEdit{
		{"nothing", func(sp *regionSpec) {}},
		{"epoch-only", func(sp *regionSpec) { sp.Ver += 5; sp.ConfVer += 5 }},
		{"size-up", func(sp *regionSpec) { sp.Size += 17 }},
		{"size-down", func(sp *regionSpec) { sp.Size -= 9 }},
		{"size-to-1", func(sp *regionSpec) { sp.Size = 1 }},
		{"size-huge", func(sp *regionSpec) { sp.Size = 1<<40 + 3 }},
		{"keys-only", func(sp *regionSpec) { sp.AKeys += 1000 }},
		{"flow-only", func(sp *regionSpec) { sp.Flow += 4096 }},
		{"leader-to-other-voter", func(sp *regionSpec) {
			if sp.Leader == p(2) {
				sp.Leader = p(1)
			} else {
				sp.Leader = p(2)
			}
		}},
		{"leader-to-store-0", func(sp *regionSpec) { sp.Leader = p(4) }},
		{"leader-to-store-max", func(sp *regionSpec) { sp.Leader = p(5) }},
		{"leader-none", func(sp *regionSpec) { sp.Leader = 0 }},
		{"leader-appears", func(sp *regionSpec) { sp.Leader = p(2) }},
		{"follower-becomes-learner", func(sp *regionSpec) {
			for i := range sp.Peers {
				if sp.Peers[i].ID == p(4) {
					sp.Peers[i].Learner = true
				}
			}
		}},
		{"learner-becomes-voter", func(sp *regionSpec) {
			for i := range sp.Peers {
				if sp.Peers[i].ID == p(3) {
					sp.Peers[i].Learner = false
				}
			}
		}},
		{"pending-add", func(sp *regionSpec) { sp.Pending = append(without(sp.Pending, p(5)), p(5)) }},
		{"pending-add-learner", func(sp *regionSpec) { sp.Pending = append(without(sp.Pending, p(3)), p(3)) }},
		{"pending-remove", func(sp *regionSpec) { sp.Pending = without(sp.Pending, p(2)) }},
		{"pending-swap", func(sp *regionSpec) { sp.Pending = append(without(sp.Pending, p(2)), p(4)) }},
		{"down-add", func(sp *regionSpec) { sp.Down = append(without(sp.Down, p(1)), p(1)) }},
		{"down-remove", func(sp *regionSpec) { sp.Down = nil }},
		{"peer-add-voter", func(sp *regionSpec) { sp.Peers = append(sp.Peers, peerSpec{ID: p(9), Store: 7}) }},
		{"peer-add-learner", func(sp *regionSpec) { sp.Peers = append(sp.Peers, peerSpec{ID: p(9), Store: 7, Learner: true}) }},
		{"peer-remove-follower", func(sp *regionSpec) {
			for i := range sp.Peers {
				if sp.Peers[i].ID == p(4) {
					sp.Peers = append(sp.Peers[:i:i], sp.Peers[i+1:]...)
					break
				}
			}
		}},
		{"peer-remove-learner", func(sp *regionSpec) {
			for i := range sp.Peers {
				if sp.Peers[i].ID == p(3) {
					sp.Peers = append(sp.Peers[:i:i], sp.Peers[i+1:]...)
					break
				}
			}
			sp.Down = without(sp.Down, p(3))
		}},
		{"peer-store-changes", func(sp *regionSpec) {
			for i := range sp.Peers {
				if sp.Peers[i].ID == p(5) {
					sp.Peers[i].Store = 7
				}
			}
		}},
		{"peer-id-changes", func(sp *regionSpec) {
			for i := range sp.Peers {
				if sp.Peers[i].ID == p(4) {
					sp.Peers[i].ID = p(8)
				}
			}
		}},
		{"peers-reordered", func(sp *regionSpec) {
			for i, j := 0, len(sp.Peers)-1; i < j; i, j = i+1, j-1 {
				sp.Peers[i], sp.Peers[j] = sp.Peers[j], sp.Peers[i]
			}
		}},
		{"start-swallows-left", func(sp *regionSpec) { sp.Start = "a" }},
		{"start-to-unbounded", func(sp *regionSpec) { sp.Start = "" }},
		{"start-shrinks", func(sp *regionSpec) { sp.Start = "ab" }},
		{"end-swallows-right", func(sp *regionSpec) { sp.End = "b\xff" }},
		{"end-fills-hole", func(sp *regionSpec) { sp.End = "c" }},
		{"end-to-unbounded", func(sp *regionSpec) { sp.End = "" }},
		{"end-shrinks", func(sp *regionSpec) { sp.End = "ab" }},
		{"spelling-of-empty-keys", func(sp *regionSpec) { sp.NilKeys = !sp.NilKeys }},
	}
}

// gridWorld: the neighbours and the base region (variant v).
func gridWorld(v int) []op {
	mk := func(id uint64, s, e hexkey, size int64, via string, nilKeys bool) *regionSpec {
		sp := &regionSpec{ID: id, Start: s, End: e, Size: size, Via: via, NilKeys: nilKeys, Peers: gridPeers(id), Leader: id*16 + 1,
			Ver: 10, ConfVer: 10, AKeys: 100 * int64(id%100), Flow: 7}
		return sp
	}
	r1 := mk(1, "", "a", 11, "", true)
	r2 := mk(2, "a", "a\x00", 22, "hb", false)
	base := mk(3, "a\x00", "b", 333, "", false)
	r4 := mk(4, "b", "b\xff", 44, "hb", false)
	r5 := mk(maxU, "c", "", 55, "", true) // hole ["b\xff","c"); region id 2^64-1
	r5.Peers = []peerSpec{{ID: 901, Store: maxU}, {ID: 902, Store: 0, Learner: true}, {ID: 903, Store: 2}}
	r5.Leader, r5.Pending = 901, []uint64{902}
	r1.Leader = 0 // a neighbour without leader
	base.Pending, base.Down = []uint64{base.ID*16 + 2}, []uint64{base.ID*16 + 3}
	switch v {
	case 1:
		base.Leader = 0
	case 2:
		base.Pending, base.Down = nil, nil
	case 3:
		base.Leader = base.ID*16 + 5 // leader on store 2^64-1
		base.Pending = []uint64{base.ID*16 + 4, base.ID*16 + 3}
	}
	var ops []op
	for _, sp := range []*regionSpec{r2, r5, r1, r4, base} {
		ops = append(ops, op{Kind: "set", Spec: sp, Note: "grid-world"})
	}
	return ops
}

func gridProfile() profile {
	return profile{Name: "grid", Keys: 6, MaxID: 8, Ops: 6, Stores: 8, StoreIDs: gridStores, NearEach: 1, FullEach: 1, CompleteEach: 1}
}

func gridSweep(w *world, p *prober) *failure {
	ps := p.full(w, true)
	ps = append(ps, &probe{Kind: "getregion", ID: maxU}, &probe{Kind: "overlaps", ID: maxU}, &probe{Kind: "adjacent", ID: maxU},
		&probe{Kind: "store", Store: 7}, &probe{Kind: "storeset", Store: 7})
	for _, st := range gridStores {
		for _, role := range roles {
			ps = append(ps, &probe{Kind: "randcover", Role: role, Store: st}, &probe{Kind: "randcover", Role: role, Store: st, Ranges: [][2]hexkey{{"a", "c"}}},
				&probe{Kind: "randcover", Role: role, Store: st, Ranges: [][2]hexkey{{"", "b"}, {"b", ""}}})
		}
	}
	for _, pb := range ps {
		if f := w.eval(pb); f != nil {
			return f
		}
	}
	return nil
}

func gridPhase(r *ev.Run, rng *rand.Rand) bool {
	prof := gridProfile()
	g := &gen{rng: rng, prof: prof, keys: gridKeys()}
	seed := rng.Int63()
	flush := func(w *world) {
		for k, v := range w.cnt {
			r.Count(k, v)
		}
		for k, v := range w.probes {
			r.Count("probe_"+k, v)
		}
	}
	fail := func(w *world, ops []op, f *failure) bool {
		flush(w)
		if f.Class == "harness:unknown-probe" || (len(f.What) > 8 && f.What[:8] == "harness:") {
			r.Inconclusive("harness problem in the one-field grid: %s", f.What)
			return false
		}
		report(r, prof, seed, ops, f)
		return false
	}
	// lifecycle: a brand-new empty cache answers every query; so does a cache emptied completely and
	// populated again
	{
		w := newWorld(gridStores)
		rand.Seed(seed)
		p := newProber(g, rng)
		if f := gridSweep(w, p); f != nil {
			return fail(w, nil, f)
		}
		var ops []op
		for round := 0; round < 3; round++ {
			for _, o := range gridWorld(round) {
				ops = append(ops, o)
				if a := w.apply(o); a.fail != nil {
					return fail(w, ops, a.fail)
				}
			}
			if f := gridSweep(w, p); f != nil {
				return fail(w, ops, f)
			}
			for _, id := range []uint64{3, maxU, 1, 4, 2} {
				o := op{Kind: "remove", ID: id, Note: "remove"}
				ops = append(ops, o)
				if a := w.apply(o); a.fail != nil {
					return fail(w, ops, a.fail)
				}
			}
			if f := gridSweep(w, p); f != nil {
				return fail(w, ops, f)
			}
			r.Eval(1)
			r.Distinct(fmt.Sprintf("grid|empty-and-repopulate|%d", round))
		}
		r.Count("grid_empty_cache_sweeps", 4)
		flush(w)
	}
	edits := gridEdits()
	n := 0
	for v := 0; v < 4; v++ {
		for ei, e := range edits {
			for _, api := range []string{"", "check"} {
				for _, via := range []string{"", "hb", "clone"} {
					n++
					if r.Shards > 1 && !r.Thorough() && n%r.Shards != r.Shard {
						continue
					}
					w := newWorld(gridStores)
					rand.Seed(seed + int64(n))
					p := newProber(g, rng)
					ops := gridWorld(v)
					for _, o := range ops {
						if a := w.apply(o); a.fail != nil {
							return fail(w, ops, a.fail)
						}
					}
					base := w.m.get(3)
					sp := base.spec.clone()
					sp.Ver, sp.ConfVer = sp.Ver+1, sp.ConfVer+1 // a newer report (never stale), unless the edit says otherwise
					e.f(sp)
					sp.Via, sp.CloneFrom = via, 0
					if via == "clone" {
						sp.CloneFrom = 3
					}
					if via == "hb" && sp.Size < 1 {
						sp.Size = 1
					}
					normalise(sp)
					o := op{Kind: "set", Spec: sp, API: api, Note: "grid:" + e.name}
					ops = append(ops, o)
					a := w.apply(o)
					f := a.fail
					if f == nil && a.shape == "rejected-stale" {
						r.Count("grid_rejected_not_judged", 1) // admission belongs to C06: counted, not judged; nothing may have changed
					}
					if f == nil {
						f = gridSweep(w, p)
					}
					if f != nil {
						return fail(w, ops, f)
					}
					r.Eval(1)
					r.Distinct(fmt.Sprintf("grid|v%d|%s|%s|%s", v, e.name, api, via))
					r.Count("grid_cases", 1)
					if ei == 3 && v == 0 && api == "" && via == "" {
						r.Sample(map[string]interface{}{"family": "one-field grid", "variant": v, "edit": e.name, "ops": ops})
					}
					flush(w)
				}
			}
		}
	}
	return true
}
