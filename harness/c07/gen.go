package main

// Generators: key alphabets, peers / roles / sizes, and the operation mix of a history.

import (
	"fmt"
	"math/rand"
	"sort"
	"strings"
)

type profile struct {
	Name         string   `json:"name"`
	Keys         int      `json:"keys"`                 // number of real boundary keys
	MaxID        uint64   `json:"max_id"`               // region ids 1..MaxID
	Ops          int      `json:"ops"`                  // operations per history
	Prefill      bool     `json:"prefill"`              // start from a fully covered key space
	Stores       int      `json:"stores"`               // peers live on stores 1..Stores (at most 8)
	Density      float64  `json:"density"`              // target: live regions / boundary intervals
	StoreIDs     []uint64 `json:"store_ids,omitempty"`  // stores with a store record (default 1..8)
	Quiet        int      `json:"quiet,omitempty"`      // the first n operations load the world the way a start-up does: no store-record refresh, sparse comparisons
	MacroEach    int      `json:"macro_each,omitempty"` // a store-wide burst (evacuate / return) about every n-th operation (0 = never)
	NearEach     int      `json:"near_each"`            // lookups around the touched range every n-th operation
	FullEach     int      `json:"full_each"`            // sampled broad comparison every n-th operation
	CompleteEach int      `json:"complete_each"`        // complete comparison every n-th operation (and after the last)
}

// op is one recorded operation of a history (self-contained: can be re-applied to any state).
type op struct {
	Kind string      `json:"kind"` // "set" | "remove"
	Spec *regionSpec `json:"spec,omitempty"`
	ID   uint64      `json:"id,omitempty"`
	Note string      `json:"note,omitempty"` // generator's intent (evidence / distinctness only)
	API  string      `json:"api,omitempty"`  // "" = PutRegion, "check" = CheckAndPutRegion (may reject a stale epoch)
}

type gen struct {
	rng   *rand.Rand
	prof  profile
	keys  []hexkey // sorted real boundary keys; start index 0 means "", end index len(keys) means ""
	peerN uint64
	epoch uint64 // region epochs handed out so far (monotone unless a stale one is generated on purpose)
	// noClone / noStale: used for pre-computed writer lanes of the concurrent phase
	noClone, noStale bool
	endKey           hexkey          // the world of this generator ends here ("" = unbounded)
	banned           map[uint64]bool // region ids this generator must not use
}

func predKey(k hexkey) hexkey {
	if k == "" {
		return ""
	}
	b := []byte(k)
	last := b[len(b)-1]
	if last == 0 {
		return hexkey(b[:len(b)-1])
	}
	b[len(b)-1] = last - 1
	return hexkey(string(b) + "\xff\xff")
}

func succKey(k hexkey) hexkey { return k + "\x00" }

func newGen(rng *rand.Rand, prof profile) *gen {
	g := &gen{rng: rng, prof: prof}
	set := map[hexkey]bool{}
	if prof.Keys <= 40 {
		// short keys over a tiny byte alphabet: many prefix relations, 0x00 / 0xff edge bytes
		alpha := []byte{0x00, 0x01, 'a', 'b', 'm', 'z', 0xff}
		for len(set) < prof.Keys {
			n := 1 + rng.Intn(3)
			b := make([]byte, n)
			for i := range b {
				b[i] = alpha[rng.Intn(len(alpha))]
			}
			set[hexkey(b)] = true
		}
	} else {
		for len(set) < prof.Keys {
			switch rng.Intn(5) {
			case 4:
				// names that are prefixes of each other (k1, k10, k100, k1000): their byte order is not numeric
				set[hexkey(fmt.Sprintf("k%d", rng.Intn(4*prof.Keys)))] = true
			case 0:
				set[hexkey(fmt.Sprintf("t%05d", rng.Intn(100000)))] = true
			case 1:
				set[hexkey(fmt.Sprintf("t%03d_r", rng.Intn(1000)))] = true
			default:
				b := make([]byte, 1+rng.Intn(4))
				rng.Read(b)
				set[hexkey(b)] = true
			}
		}
	}
	for k := range set {
		g.keys = append(g.keys, k)
	}
	sort.Slice(g.keys, func(i, j int) bool { return g.keys[i] < g.keys[j] })
	return g
}

// start(i): i in 0..len(keys)-1 ... wait: index 0 is "", index i>0 is keys[i-1].
func (g *gen) bound(i int) hexkey {
	if i <= 0 {
		return "" // 0 = -inf as a start
	}
	if i > len(g.keys) {
		return g.endKey // len+1 = the end of the world (+inf unless restricted)
	}
	return g.keys[i-1]
}

// boundIndex finds the index of a start key (0 for "").
func (g *gen) startIndex(k hexkey) int {
	if k == "" {
		return 0
	}
	return 1 + sort.Search(len(g.keys), func(i int) bool { return g.keys[i] >= k })
}

func (g *gen) endIndex(k hexkey) int {
	if k == "" || k == g.endKey {
		return len(g.keys) + 1
	}
	return 1 + sort.Search(len(g.keys), func(i int) bool { return g.keys[i] >= k })
}

// randRange returns boundary indices i<j; j == len(keys)+1 means unbounded. Mostly short ranges.
func (g *gen) randRange() (int, int) {
	n := len(g.keys) + 1 // indices 0..n
	i := g.rng.Intn(n)
	span := 1
	switch g.rng.Intn(10) {
	case 0, 1:
		span = 2
	case 2:
		span = 3
	case 3:
		if g.rng.Intn(4) == 0 {
			span = 1 + g.rng.Intn(n/3+1)
		}
	}
	j := i + span
	if j > n {
		j = n
	}
	return i, j
}

func (g *gen) randSize() int64 {
	switch g.rng.Intn(10) {
	case 0:
		return 0
	case 1:
		return 1
	case 2:
		return 1000
	}
	return int64(g.rng.Intn(1001))
}

// peerID returns a peer id that is unique inside the region.
func (g *gen) peerID(sp *regionSpec, store uint64) uint64 {
	id := sp.ID*16 + store
	if g.rng.Intn(8) == 0 || sp.peer(id) != nil {
		g.peerN++
		return 1<<24 + g.peerN
	}
	return id
}

func (g *gen) randPeers(sp *regionSpec) {
	n := 1 + g.rng.Intn(5)
	if g.rng.Intn(3) == 0 {
		n = 3
	}
	if n > g.prof.Stores {
		n = g.prof.Stores
	}
	perm := g.rng.Perm(g.prof.Stores)
	sp.Peers = nil
	for i := 0; i < n; i++ {
		st := uint64(perm[i] + 1)
		sp.Peers = append(sp.Peers, peerSpec{ID: g.peerID(sp, st), Store: st, Learner: g.rng.Intn(5) == 0})
	}
	g.randLeader(sp, false)
	g.randPending(sp)
	g.randDown(sp)
}

func (g *gen) randLeader(sp *regionSpec, change bool) {
	var voters []uint64
	for _, p := range sp.Peers {
		if !p.Learner && !(change && p.ID == sp.Leader) {
			voters = append(voters, p.ID)
		}
	}
	if len(voters) == 0 || g.rng.Intn(14) == 0 {
		sp.Leader = 0
		return
	}
	sp.Leader = voters[g.rng.Intn(len(voters))]
}

func (g *gen) randPending(sp *regionSpec) {
	sp.Pending = nil
	pr := 6
	if g.rng.Intn(2) == 0 {
		pr = 2
	}
	for _, p := range sp.Peers {
		if g.rng.Intn(pr) == 0 {
			sp.Pending = append(sp.Pending, p.ID)
		}
	}
	g.rng.Shuffle(len(sp.Pending), func(i, j int) { sp.Pending[i], sp.Pending[j] = sp.Pending[j], sp.Pending[i] })
}

func (g *gen) randDown(sp *regionSpec) {
	sp.Down = nil
	for _, p := range sp.Peers {
		if g.rng.Intn(8) == 0 {
			sp.Down = append(sp.Down, p.ID)
		}
	}
}

// normalise keeps the spec inside the zone the statement speaks about: leader is a voter of the
// region (or none), pending and down peers are peers of the region.
func normalise(sp *regionSpec) {
	if p := sp.peer(sp.Leader); p == nil || p.Learner {
		sp.Leader = 0
	}
	keep := func(ids []uint64) []uint64 {
		var out []uint64
		for _, id := range ids {
			if sp.peer(id) != nil {
				out = append(out, id)
			}
		}
		return out
	}
	sp.Pending, sp.Down = keep(sp.Pending), keep(sp.Down)
	if sp.Via == "hb" && sp.Size < 1 {
		sp.Size = 1 // a heartbeat never reports less than 1 MB
	}
}

func (g *gen) via(sp *regionSpec) {
	sp.Via = ""
	if g.rng.Intn(4) == 0 {
		sp.Via = "hb"
	}
}

// mutateSame changes something other than the range; returns the sub-kind.
func (g *gen) mutateSame(sp *regionSpec) string {
	sub := g.mutateSame0(sp)
	if p := sp.peer(sp.Leader); (p == nil || p.Learner) && sub != "leader" && g.rng.Intn(4) != 0 {
		g.randLeader(sp, false) // the leader went away with its peer: usually another voter takes over
	}
	return sub
}

func (g *gen) mutateSame0(sp *regionSpec) string {
	used := map[uint64]bool{}
	for _, p := range sp.Peers {
		used[p.Store] = true
	}
	freeStore := func() uint64 {
		var fs []uint64
		for s := uint64(1); s <= uint64(g.prof.Stores); s++ {
			if !used[s] {
				fs = append(fs, s)
			}
		}
		if len(fs) == 0 {
			return 0
		}
		return fs[g.rng.Intn(len(fs))]
	}
	switch k := g.rng.Intn(17); k {
	case 14:
		sp.AKeys += 1 + int64(g.rng.Intn(1000))
		return "keys-only"
	case 15:
		sp.Flow += 1 + uint64(g.rng.Intn(1000))
		return "flow-only"
	case 16:
		sp.Size = 1<<33 + int64(g.rng.Intn(1<<20)) // far beyond 32 bits
		return "size-huge"
	case 0, 1, 2:
		old := sp.Size
		sp.Size = g.randSize()
		if sp.Size == old {
			sp.Size = old + 7
		}
		return "size"
	case 3, 4:
		g.randLeader(sp, true)
		return "leader"
	case 5, 6:
		g.randPending(sp)
		return "pending"
	case 7:
		g.randDown(sp)
		return "down"
	case 8:
		if st := freeStore(); st != 0 && len(sp.Peers) < 6 {
			sp.Peers = append(sp.Peers, peerSpec{ID: g.peerID(sp, st), Store: st, Learner: g.rng.Intn(2) == 0})
			if g.rng.Intn(2) == 0 {
				sp.Pending = append(sp.Pending, sp.Peers[len(sp.Peers)-1].ID)
			}
			return "add-peer"
		}
		fallthrough
	case 9:
		if len(sp.Peers) > 1 {
			i := g.rng.Intn(len(sp.Peers))
			sp.Peers = append(sp.Peers[:i:i], sp.Peers[i+1:]...)
			return "remove-peer"
		}
		fallthrough
	case 10:
		i := g.rng.Intn(len(sp.Peers))
		if st := freeStore(); st != 0 && g.rng.Intn(2) == 0 {
			// peer moves to another store (same or new peer id)
			wasLeader := sp.Peers[i].ID == sp.Leader
			if g.rng.Intn(2) == 0 {
				oldID := sp.Peers[i].ID
				sp.Peers[i].ID = g.peerID(sp, st)
				if wasLeader && g.rng.Intn(2) == 0 {
					sp.Leader = sp.Peers[i].ID
				}
				for j, q := range sp.Pending {
					if q == oldID && g.rng.Intn(2) == 0 {
						sp.Pending[j] = sp.Peers[i].ID
					}
				}
			}
			sp.Peers[i].Store = st
			return "replace-peer-store"
		}
		sp.Peers[i].Learner = !sp.Peers[i].Learner
		return "flip-role"
	case 12:
		// same peers, reported in another order: nothing changed as far as the statement goes
		g.rng.Shuffle(len(sp.Peers), func(i, j int) { sp.Peers[i], sp.Peers[j] = sp.Peers[j], sp.Peers[i] })
		g.rng.Shuffle(len(sp.Pending), func(i, j int) { sp.Pending[i], sp.Pending[j] = sp.Pending[j], sp.Pending[i] })
		if g.rng.Intn(2) == 0 {
			sp.Size = g.randSize()
		}
		return "reorder"
	case 11:
		if sp.Size == 0 {
			sp.Size = 3
		}
		sp.Size *= 2
		g.randLeader(sp, true)
		g.randPending(sp)
		return "size+leader+pending"
	}
	return "identical"
}

// nextOps produces the next operation(s) for the current model state and decides how each region
// object is made (fresh, from a heartbeat, or by cloning the cached object with options) and
// through which entry point it is put.
func (g *gen) nextOps(m *model) []op {
	var ops []op
	if g.prof.MacroEach > 0 && len(m.es) >= 8 && g.rng.Intn(g.prof.MacroEach) == 0 {
		ops = g.macroOps(m)
	}
	if len(ops) == 0 {
		ops = g.nextOps0(m)
	}
	for i := range ops {
		o := &ops[i]
		if o.Kind != "set" {
			continue
		}
		g.finish(m, ops, o)
	}
	return ops
}

// finish assigns epoch, construction path and entry point of a put.
func (g *gen) finish(m *model, batch []op, o *op) {
	sp := o.Spec
	g.epoch++
	sp.Ver, sp.ConfVer = g.epoch, g.epoch
	sp.NilKeys = g.rng.Intn(2) == 0
	if !strings.HasPrefix(o.Note, "same-range:") {
		sp.AKeys, sp.Flow = int64(g.rng.Intn(100000)), uint64(g.rng.Intn(1<<20))
	}
	if g.rng.Intn(10) < 3 {
		o.API = "check"
		if !g.noStale && g.rng.Intn(12) == 0 {
			sp.Ver = 1 + uint64(g.rng.Intn(int(g.epoch))) // an old epoch: rejected if something newer is in the way
			if g.rng.Intn(2) == 0 {
				sp.ConfVer = sp.Ver
			}
		}
	}
	if g.noClone {
		return
	}
	switch {
	case m.get(sp.ID) != nil && g.rng.Intn(3) == 0:
		sp.Via, sp.CloneFrom = "clone", sp.ID // get - edit - set on the cached object
	case o.Note == "split-right" && g.rng.Intn(2) == 0:
		for _, x := range batch {
			if x.Note == "split-left" {
				sp.Via, sp.CloneFrom = "clone", x.Spec.ID // the new region is derived from the object of the old one
			}
		}
	}
}

// macroOps: store-wide bursts as they happen when a store is evicted / goes down and comes back:
// every region leaves one per-store sub-index and (immediately afterwards) returns to it, so that
// this sub-index shrinks to (almost) nothing and grows again inside one long-lived cache.
func (g *gen) macroOps(m *model) []op {
	rng := g.rng
	s := uint64(1 + rng.Intn(g.prof.Stores))
	kind := rng.Intn(3)
	var out, back []op
	for _, e := range m.sorted() {
		if len(out) >= 400 {
			break
		}
		sp := e.spec
		var on *peerSpec
		for i := range sp.Peers {
			if sp.Peers[i].Store == s {
				on = &sp.Peers[i]
			}
		}
		if on == nil {
			continue
		}
		switch kind {
		case 0: // leaders leave the store and come back
			if on.Learner || sp.Leader != on.ID {
				continue
			}
			a := sp.clone()
			a.Leader = 0
			for _, p := range a.Peers {
				if !p.Learner && p.ID != on.ID {
					a.Leader = p.ID
					break
				}
			}
			b := a.clone()
			b.Leader = on.ID
			if rng.Intn(2) == 0 {
				b.Size = g.randSize()
			}
			out = append(out, op{Kind: "set", Spec: a, Note: "evacuate-leader"})
			back = append(back, op{Kind: "set", Spec: b, Note: "return-leader"})
		case 1: // the peers on the store are removed and added again
			if len(sp.Peers) < 2 {
				continue
			}
			a := sp.clone()
			for i := range a.Peers {
				if a.Peers[i].Store == s {
					a.Peers = append(a.Peers[:i:i], a.Peers[i+1:]...)
					break
				}
			}
			normalise(a)
			if a.Leader == 0 {
				g.randLeader(a, false)
			}
			b := a.clone()
			b.Peers = append(b.Peers, peerSpec{ID: g.peerID(b, s), Store: s, Learner: rng.Intn(3) == 0})
			if rng.Intn(2) == 0 {
				b.Pending = append(b.Pending, b.Peers[len(b.Peers)-1].ID)
			}
			out = append(out, op{Kind: "set", Spec: a, Note: "evacuate-peer"})
			back = append(back, op{Kind: "set", Spec: b, Note: "return-peer"})
		default: // every peer on the store becomes pending, then healthy again
			a := sp.clone()
			has := false
			for _, q := range a.Pending {
				has = has || q == on.ID
			}
			if has {
				continue
			}
			a.Pending = append(a.Pending, on.ID)
			b := sp.clone()
			out = append(out, op{Kind: "set", Spec: b, Note: "clear-pending"})
			back = append(back, op{Kind: "set", Spec: a, Note: "mark-pending"})
		}
	}
	if kind == 2 {
		// pending: first everything on the store becomes pending (sub-index grows), then clears (shrinks), then again
		out, back = back, out
		third := make([]op, 0, len(out))
		for _, o := range out {
			third = append(third, op{Kind: "set", Spec: o.Spec.clone(), Note: "mark-pending"})
		}
		back = append(back, third...)
	}
	for i := range out {
		normalise(out[i].Spec)
	}
	for i := range back {
		normalise(back[i].Spec)
	}
	return append(out, back...)
}

func (g *gen) nextOps0(m *model) []op {
	rng := g.rng
	pickExisting := func() *entry {
		if len(m.es) == 0 {
			return nil
		}
		return m.es[rng.Intn(len(m.es))]
	}
	freshID := func() uint64 {
		for try := 0; try < 20; try++ {
			id := uint64(1 + rng.Intn(int(g.prof.MaxID)))
			if m.get(id) == nil && !g.banned[id] {
				return id
			}
		}
		return 0
	}
	newSpec := func(id uint64, i, j int) *regionSpec {
		sp := &regionSpec{ID: id, Start: g.bound(i), End: g.bound(j), Size: g.randSize()}
		if j > len(g.keys) {
			sp.End = g.endKey
		}
		g.randPeers(sp)
		g.via(sp)
		normalise(sp)
		return sp
	}
	// derived from an existing region: keeps peers etc. unless told otherwise
	derive := func(e *entry, i, j int, fresh bool) *regionSpec {
		sp := e.spec.clone()
		sp.Start, sp.End = g.bound(i), g.bound(j)
		if j > len(g.keys) {
			sp.End = g.endKey
		}
		if fresh {
			g.randPeers(sp)
			sp.Size = g.randSize()
		} else if rng.Intn(3) == 0 {
			sp.Size = g.randSize()
		}
		g.via(sp)
		normalise(sp)
		return sp
	}
	set := func(sp *regionSpec, note string) []op { return []op{{Kind: "set", Spec: sp, Note: note}} }

	// op mix: weights sum to 100. While the world is below the history's target density, growth
	// operations (fill a hole, split) are forced two times out of three, so that histories spend
	// their time in populated worlds (sparse, half-full or dense, depending on the target).
	const (
		wNew      = 8
		wHole     = wNew + 14
		wSame     = wHole + 26
		wSwallow  = wSame + 8
		wMove     = wSwallow + 5
		wResize   = wMove + 8
		wSplit    = wResize + 14
		wSameOth  = wSplit + 4
		wChain    = wSameOth + 5
		wRemoveTo = 100
	)
	for {
		k := rng.Intn(100)
		if float64(len(m.es)) < g.prof.Density*float64(len(g.keys)+1) && rng.Intn(3) != 0 {
			if rng.Intn(2) == 0 {
				k = wNew // fill-hole
			} else {
				k = wResize // split
			}
		}
		switch {
		case k < wNew: // new id, random (mostly short) range
			id := freshID()
			if id == 0 {
				continue
			}
			i, j := g.randRange()
			return set(newSpec(id, i, j), "new")
		case k < wHole: // new id filling a hole (or a short piece at one of its edges)
			id := freshID()
			if id == 0 {
				continue
			}
			s := m.sorted()
			type hole struct{ i, j int }
			var holes []hole
			prevEnd := 0
			open := true
			for _, e := range s {
				si := g.startIndex(e.spec.Start)
				if open && si > prevEnd {
					holes = append(holes, hole{prevEnd, si})
				}
				if e.spec.End == "" {
					open = false
				} else {
					prevEnd = g.endIndex(e.spec.End)
				}
			}
			if open && prevEnd <= len(g.keys) {
				holes = append(holes, hole{prevEnd, len(g.keys) + 1})
			}
			if len(holes) == 0 {
				continue
			}
			h := holes[rng.Intn(len(holes))]
			i, j := h.i, h.j
			if j-i > 1 && rng.Intn(10) < 7 { // only a short piece at the left / right edge of the hole
				w := 1 + rng.Intn(minInt(2, j-i-1))
				if rng.Intn(2) == 0 {
					j = i + w
				} else {
					i = j - w
				}
			}
			return set(newSpec(id, i, j), "fill-hole")
		case k < wSame: // same id, same range, something else changed
			e := pickExisting()
			if e == nil {
				continue
			}
			sp := e.spec.clone()
			sub := g.mutateSame(sp)
			g.via(sp)
			normalise(sp)
			return set(sp, "same-range:"+sub)
		case k < wSwallow: // range that swallows k consecutive neighbours (existing or new id)
			s := m.sorted()
			if len(s) == 0 {
				continue
			}
			kk := []int{1, 1, 1, 1, 2, 2, 2, 3, 3, 4}[rng.Intn(10)]
			a := rng.Intn(len(s))
			b := a + kk - 1
			if b >= len(s) {
				b = len(s) - 1
			}
			i, j := g.startIndex(s[a].spec.Start), g.endIndex(s[b].spec.End)
			// sometimes reach one boundary into / beyond the outer neighbours
			if rng.Intn(3) == 0 && i > 0 {
				i--
			}
			if rng.Intn(3) == 0 && j <= len(g.keys) {
				j++
			}
			if rng.Intn(4) == 0 && j-i > 1 {
				i++ // starts inside the first swallowed region
			}
			note := fmt.Sprintf("swallow-%d", b-a+1)
			if rng.Intn(10) < 6 {
				e := pickExisting()
				if rng.Intn(2) == 0 {
					e = s[a+rng.Intn(b-a+1)] // one of the swallowed regions grows (merge)
				}
				return set(derive(e, i, j, rng.Intn(3) == 0), note+":existing-id")
			}
			id := freshID()
			if id == 0 {
				continue
			}
			return set(newSpec(id, i, j), note+":new-id")
		case k < wMove: // same id moved elsewhere
			e := pickExisting()
			if e == nil {
				continue
			}
			i, j := g.randRange()
			return set(derive(e, i, j, rng.Intn(2) == 0), "move")
		case k < wResize: // same id, one side moved by one boundary (grow / shrink)
			e := pickExisting()
			if e == nil {
				continue
			}
			i, j := g.startIndex(e.spec.Start), g.endIndex(e.spec.End)
			switch rng.Intn(4) {
			case 0:
				i--
			case 1:
				i++
			case 2:
				j--
			case 3:
				j++
			}
			if i < 0 || j > len(g.keys)+1 || i >= j {
				continue
			}
			return set(derive(e, i, j, false), "resize")
		case k < wSplit: // split: left part keeps the id, right part gets a new id
			e := pickExisting()
			if e == nil {
				continue
			}
			i, j := g.startIndex(e.spec.Start), g.endIndex(e.spec.End)
			if j-i < 2 {
				continue
			}
			id := freshID()
			if id == 0 {
				continue
			}
			mid := i + 1 + rng.Intn(j-i-1)
			left := derive(e, i, mid, false)
			right := derive(e, mid, j, false)
			right.ID = id
			for x := range right.Peers {
				old := right.Peers[x].ID
				right.Peers[x].ID = id*16 + right.Peers[x].Store
				if right.Leader == old {
					right.Leader = right.Peers[x].ID
				}
				for y := range right.Pending {
					if right.Pending[y] == old {
						right.Pending[y] = right.Peers[x].ID
					}
				}
				for y := range right.Down {
					if right.Down[y] == old {
						right.Down[y] = right.Peers[x].ID
					}
				}
			}
			normalise(right)
			ops := []op{{Kind: "set", Spec: left, Note: "split-left"}, {Kind: "set", Spec: right, Note: "split-right"}}
			if rng.Intn(2) == 0 { // the new region is often reported first
				ops[0], ops[1] = ops[1], ops[0]
			}
			return ops
		case k < wSameOth: // another id takes exactly the range of an existing region
			e := pickExisting()
			id := freshID()
			if e == nil || id == 0 {
				continue
			}
			i, j := g.startIndex(e.spec.Start), g.endIndex(e.spec.End)
			return set(newSpec(id, i, j), "same-range-other-id")
		case k < wChain: // new region chained to the end / start of an existing one
			e := pickExisting()
			id := freshID()
			if e == nil || id == 0 {
				continue
			}
			if rng.Intn(2) == 0 {
				i := g.endIndex(e.spec.End)
				if i > len(g.keys) {
					continue
				}
				return set(newSpec(id, i, i+1+rng.Intn(2)), "chain-after")
			}
			j := g.startIndex(e.spec.Start)
			if j == 0 {
				continue
			}
			i := j - 1 - rng.Intn(2)
			if i < 0 {
				i = 0
			}
			return set(newSpec(id, i, j), "chain-before")
		default: // removal with the current information
			e := pickExisting()
			if e == nil {
				continue
			}
			return []op{{Kind: "remove", ID: e.spec.ID, Note: "remove"}}
		}
	}
}

// prefillOps covers the whole key space with consecutive regions.
func (g *gen) prefillOps() []op {
	var ops []op
	id := uint64(1)
	n := len(g.keys) + 1
	for i := 0; i < n && id <= g.prof.MaxID; {
		j := i + 1
		if g.rng.Intn(6) == 0 {
			j = i + 2
		}
		if j > n {
			j = n
		}
		sp := &regionSpec{ID: id, Start: g.bound(i), End: g.bound(j), Size: g.randSize()}
		if j > len(g.keys) {
			sp.End = g.endKey
		}
		g.randPeers(sp)
		g.via(sp)
		normalise(sp)
		sp.NilKeys = g.rng.Intn(2) == 0
		ops = append(ops, op{Kind: "set", Spec: sp, Note: "prefill"})
		id++
		i = j
	}
	g.rng.Shuffle(len(ops), func(a, b int) { ops[a], ops[b] = ops[b], ops[a] })
	return ops
}
