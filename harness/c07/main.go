// C07 — Region lookups and per-store statistics match the cached region set.
//
// core.BasicCluster / core.RegionsInfo are driven directly with long random histories of region
// puts (new id, same range with changed peers / leader / pending / size, changed range, ranges that
// swallow several neighbours, same id moved elsewhere, unbounded end keys) and removals. A reference
// model (plain slice of regions, every query answered by a linear scan, written from the property
// statement) is compared with pd after every operation: lookup by key, previous-region lookup,
// range scans with limits, overlap and adjacent-region queries, region counts, per-store leader /
// follower / learner / pending counts and sizes, store region sets, average size, and random picks
// (soundness of every draw, coverage of small candidate sets). pkg/btree is checked separately
// against a sorted slice (btreecheck.go).
package main

import (
	"encoding/json"
	"fmt"
	"io/ioutil"
	"math/rand"
	"os"
	"runtime/debug"
	"runtime/pprof"
	"sort"
	"strings"

	"github.com/tikv/pd/server/core"
	"verif/harness/lib/ev"
)

var roles = []string{"leader", "follower", "learner", "pending"}

// ---- applying one operation to pd and to the model ----

type applied struct {
	fail      *failure
	displaced int
	shape     string
	stores    map[uint64]bool
	start     hexkey
	end       hexkey
	id        uint64
}

func (w *world) apply(o op) (a applied) {
	a.stores = map[uint64]bool{}
	defer func() {
		if x := recover(); x != nil {
			a.fail = &failure{Class: "panic:" + o.Kind + "-region", What: fmt.Sprintf("pd panicked in %s: %v", o.Kind, x), Got: tailStack()}
		}
	}()
	touch := func(sp *regionSpec) {
		for _, p := range sp.Peers {
			a.stores[p.Store] = true
		}
	}
	switch o.Kind {
	case "set":
		sp := o.Spec
		var cur *core.RegionInfo
		if sp.Via == "clone" {
			// get - edit - set: the object comes out of the cache through a getter
			if cur = w.bc.GetRegion(sp.CloneFrom); cur != nil && len(w.m.es)%2 == 0 {
				if r := w.bc.SearchRegion(cur.GetStartKey()); r != nil && r.GetID() == sp.CloneFrom {
					cur = r
				}
			}
		}
		info := sp.build(cur)
		if !infoMatchesSpec(info, sp) {
			g, x := canonInfo(info), canonSpec(sp)
			if cur == nil {
				panic(fmt.Sprintf("harness: built region %s, spec says %s", g, x))
			}
			a.fail = &failure{Class: "derived-region-object-differs", What: "a region derived from a cached object with Clone(options) does not say what the options ask for", Got: g, Want: x}
			return
		}
		old := w.m.get(sp.ID)
		var got []*core.RegionInfo
		if o.API == "check" {
			got = w.bc.CheckAndPutRegion(info)
			if len(got) == 1 && got[0] == info {
				// rejected as stale: nothing may have changed (the following comparisons tell)
				a.shape = "rejected-stale"
				a.start, a.end = sp.Start, sp.End
				w.count("puts_rejected_stale", 1)
				return
			}
			w.count("puts_through_check", 1)
		} else {
			got = w.bc.PutRegion(info)
		}
		n := &entry{spec: sp, info: info}
		displaced := w.m.set(n)
		a.displaced, a.start, a.end, a.id = len(displaced), sp.Start, sp.End, sp.ID
		touch(sp)
		for _, d := range displaced {
			touch(d.spec)
			w.hold(d)
		}
		if cur != nil {
			w.count("puts_of_cloned_objects", 1)
		}
		if !(&judger{m: w.m, cnt: w.cnt}).sameSet(got, displaced) {
			a.fail = &failure{Class: "put-region-returned-overlaps", What: fmt.Sprintf("PutRegion(%s) returned a set of overlapped regions that differs from the other regions intersecting its range", sp),
				Got: descInfos(got), Want: descEntries(displaced)}
		}
		// abstract shape of the case (distinctness key)
		sh := []string{strings.SplitN(o.Note, ":", 2)[0], fmt.Sprintf("disp%d", minInt(len(displaced), 5)), "via" + sp.Via, "api" + o.API}
		if old == nil {
			sh = append(sh, "new-id")
		} else {
			os := old.spec
			touch(os)
			w.hold(old)
			if os.Start != sp.Start || os.End != sp.End {
				sh = append(sh, "range-changed")
				if overlap(os.Start, os.End, sp.Start, sp.End) {
					sh = append(sh, "self-overlap")
				}
			}
			if !samePeers(os.Peers, sp.Peers) {
				sh = append(sh, "peers-changed")
			}
			if os.Leader != sp.Leader {
				sh = append(sh, "leader-changed")
			}
			if !sameIDs(os.Pending, sp.Pending) {
				sh = append(sh, "pending-changed")
			}
			switch {
			case sp.Size > os.Size:
				sh = append(sh, "size-up")
			case sp.Size < os.Size:
				sh = append(sh, "size-down")
			}
		}
		if sp.End == "" {
			sh = append(sh, "unbounded")
		}
		if sp.Leader == 0 {
			sh = append(sh, "no-leader")
		}
		if len(sp.Pending) > 0 {
			sh = append(sh, "has-pending")
		}
		a.shape = strings.Join(sh, ",")
	case "remove":
		x := w.m.get(o.ID)
		if x == nil {
			a.shape = "remove-absent"
			return
		}
		cur := w.bc.GetRegion(o.ID)
		a.start, a.end, a.id = x.spec.Start, x.spec.End, 0
		touch(x.spec)
		w.m.remove(o.ID)
		w.hold(x)
		if !(&judger{m: w.m, cnt: w.cnt}).same(cur, x) {
			a.fail = &failure{Class: "lookup-by-id", What: fmt.Sprintf("GetRegion(%d) differs from the model before removal", o.ID), Got: descInfo(cur), Want: descEntry(x)}
			if cur == nil {
				return
			}
		}
		w.bc.RemoveRegion(cur) // removal with the current information, as the code base does
		a.shape = fmt.Sprintf("remove,peers%d,pending%d", len(x.spec.Peers), minInt(len(x.spec.Pending), 1))
	}
	// the server refreshes the statistics in the store records of the stores involved
	for _, s := range w.stores {
		if a.stores[s] && !w.noRefresh {
			w.refresh(s)
		}
	}
	return
}

// refresh publishes a store's current statistics into its store record, the way the server does
// after a region change (RaftCluster.updateStoreStatusLocked).
func (w *world) refresh(s uint64) {
	bc := w.bc
	bc.UpdateStoreStatus(s, bc.GetStoreLeaderCount(s), bc.GetStoreRegionCount(s), bc.GetStorePendingPeerCount(s),
		bc.GetStoreLeaderRegionSize(s), bc.GetStoreRegionSize(s))
	w.m.sinfo[s] = w.m.stat(s)
}

func tailStack() string {
	st := string(debug.Stack())
	if len(st) > 3000 {
		st = st[:3000]
	}
	return st
}

func sizeClass(n int) string {
	switch {
	case n > 16383:
		return "16384+"
	case n > 2000:
		return "02001-16383"
	case n <= 2:
		return "000-002"
	case n <= 7:
		return "003-007"
	case n <= 15:
		return "008-015"
	case n <= 40:
		return "016-040"
	case n <= 127:
		return "041-127"
	case n <= 400:
		return "128-400"
	}
	return "401+"
}

func samePeers(a, b []peerSpec) bool {
	if len(a) != len(b) {
		return false
	}
	for i := range a {
		if a[i] != b[i] {
			return false
		}
	}
	return true
}

func sameIDs(a, b []uint64) bool {
	if len(a) != len(b) {
		return false
	}
	for i := range a {
		if a[i] != b[i] {
			return false
		}
	}
	return true
}

func minInt(a, b int) int {
	if a < b {
		return a
	}
	return b
}

// ---- probe lists ----

type prober struct {
	g    *gen
	rng  *rand.Rand
	keys []hexkey // probe keys: every boundary key, its predecessor / successor byte strings, ""
}

func newProber(g *gen, rng *rand.Rand) *prober {
	p := &prober{g: g, rng: rng}
	set := map[hexkey]bool{"": true}
	for _, k := range g.keys {
		set[k], set[predKey(k)], set[succKey(k)] = true, true, true
	}
	for k := range set {
		p.keys = append(p.keys, k)
	}
	sort.Slice(p.keys, func(i, j int) bool { return p.keys[i] < p.keys[j] })
	return p
}

func (p *prober) randRanges() [][2]hexkey {
	n := 0
	switch x := p.rng.Intn(10); {
	case x < 3:
		return nil
	case x < 7:
		n = 1
	default:
		n = 2 + p.rng.Intn(2)
	}
	var out [][2]hexkey
	for len(out) < n {
		nk := len(p.g.keys) + 1
		i := p.rng.Intn(nk)
		j := i + 1 + p.rng.Intn(nk-i)
		if p.rng.Intn(3) == 0 {
			j = i + 1 + p.rng.Intn(minInt(4, nk-i))
		}
		s, e := p.g.bound(i), p.g.bound(j)
		if j > len(p.g.keys) {
			e = ""
		}
		// sometimes off-boundary edges
		switch p.rng.Intn(8) {
		case 0:
			s = succKey(s)
		case 1:
			if e != "" {
				e = predKey(e)
			}
		}
		if e != "" && s >= e {
			continue // inverted ranges are outside the statement (pd logs an error for them)
		}
		out = append(out, [2]hexkey{s, e})
	}
	return out
}

func (p *prober) randPair() (hexkey, hexkey) {
	nk := len(p.g.keys) + 1
	i := p.rng.Intn(nk)
	j := i + 1 + p.rng.Intn(nk-i)
	s, e := p.g.bound(i), p.g.bound(j)
	if j > len(p.g.keys) {
		e = ""
	}
	return s, e
}

// cheap: after every operation. Everything maintained incrementally (region counts, per-store
// counters and sizes of the touched stores, average size) is compared.
func (p *prober) cheap(w *world, a applied) []*probe {
	ps := []*probe{{Kind: "counts"}, {Kind: "avg"}}
	for _, s := range w.stores {
		if a.stores[s] || p.rng.Intn(4) == 0 {
			ps = append(ps, &probe{Kind: "store", Store: s}, &probe{Kind: "storeinfo", Store: s})
		}
	}
	if a.id != 0 {
		ps = append(ps, &probe{Kind: "content", ID: a.id})
	}
	return ps
}

// near: lookups around the touched range and one random-pick probe (quick: every 4th operation).
func (p *prober) near(w *world, a applied) []*probe {
	var ps []*probe
	for _, k := range []hexkey{a.start, a.end, predKey(a.start), predKey(a.end), succKey(a.start)} {
		ps = append(ps, &probe{Kind: "search", Key: k}, &probe{Kind: "searchprev", Key: k})
	}
	if a.id != 0 {
		ps = append(ps, &probe{Kind: "overlaps", ID: a.id}, &probe{Kind: "adjacent", ID: a.id})
		if x := w.m.endingAt(a.start); x != nil {
			ps = append(ps, &probe{Kind: "adjacent", ID: x.spec.ID})
		}
	}
	if a.end == "" || a.start < a.end {
		ps = append(ps, &probe{Kind: "scan", Start: a.start, End: a.end}, &probe{Kind: "overlaps", Start: a.start, End: a.end},
			&probe{Kind: "adjacent", Start: a.start, End: a.end})
	}
	// scans that start exactly at / just before / just after the end key of the touched region
	if a.end != "" {
		ps = append(ps, &probe{Kind: "scan", Start: a.end, Limit: 1}, &probe{Kind: "scan", Start: predKey(a.end), Limit: -1},
			&probe{Kind: "scan", Start: a.start, End: succKey(a.end), Limit: 2}, &probe{Kind: "scan", Start: a.end, End: succKey(a.end)})
	}
	s, e := p.randPair()
	ps = append(ps, &probe{Kind: "scan", Start: s, End: e, Limit: p.rng.Intn(4) - 1})
	k := 0
	for _, st := range w.stores {
		if a.stores[st] && (k < 2 || len(w.m.es) < 100) { // large worlds: two of the touched stores
			ps = append(ps, &probe{Kind: "storeset", Store: st})
			k++
		}
	}
	role, store, ranges := p.randTarget(w)
	ps = append(ps, &probe{Kind: "rand", Role: role, Store: store, Ranges: ranges, Draws: 2})
	return ps
}

// randTarget chooses role / store / ranges of a random-pick probe: mostly aimed at a peer of a
// cached region (so that candidate sets are usually non-empty), sometimes blind.
func (p *prober) randTarget(w *world) (string, uint64, [][2]hexkey) {
	if len(w.m.es) == 0 || p.rng.Intn(5) == 0 {
		return roles[p.rng.Intn(4)], uint64(1 + p.rng.Intn(8)), p.randRanges()
	}
	e := w.m.es[p.rng.Intn(len(w.m.es))]
	pe := e.spec.Peers[p.rng.Intn(len(e.spec.Peers))]
	role := "follower"
	switch {
	case pe.Learner:
		role = "learner"
	case pe.ID == e.spec.Leader:
		role = "leader"
	}
	if len(e.spec.Pending) > 0 && p.rng.Intn(3) == 0 {
		if q := e.spec.peer(e.spec.Pending[p.rng.Intn(len(e.spec.Pending))]); q != nil {
			role, pe = "pending", *q
		}
	}
	if p.rng.Intn(3) == 0 {
		return role, pe.Store, nil
	}
	// a range around the region: from 0..3 boundaries before its start to 0..3 after its end
	i, j := p.g.startIndex(e.spec.Start)-p.rng.Intn(4), p.g.endIndex(e.spec.End)+p.rng.Intn(4)
	if p.rng.Intn(6) == 0 {
		i += 1 + p.rng.Intn(2) // cuts the region: it is then no candidate
	}
	if i < 0 {
		i = 0
	}
	if j > len(p.g.keys)+1 {
		j = len(p.g.keys) + 1
	}
	var out [][2]hexkey
	if i < j {
		s, en := p.g.bound(i), p.g.bound(j)
		if j > len(p.g.keys) {
			en = ""
		}
		out = append(out, [2]hexkey{s, en})
	}
	if p.rng.Intn(3) == 0 {
		out = append(out, p.randRanges()...)
		p.rng.Shuffle(len(out), func(a, b int) { out[a], out[b] = out[b], out[a] })
	}
	if len(out) == 0 {
		return role, pe.Store, nil
	}
	return role, pe.Store, out
}

// full: the broad comparison. complete = every probe key and (for alphabets up to 25 keys) every
// boundary pair; otherwise a seeded sample of them.
func (p *prober) full(w *world, complete bool) []*probe {
	ps := []*probe{{Kind: "counts"}, {Kind: "avg"}}
	if p.g.prof.MaxID <= 1500 {
		ps = append(ps, &probe{Kind: "ids", MaxID: p.g.prof.MaxID})
	} else {
		// big worlds: a sample of ids, the whole set once, and the content of all objects
		for i := 0; i < 200; i++ {
			ps = append(ps, &probe{Kind: "getregion", ID: uint64(1 + p.rng.Intn(int(p.g.prof.MaxID)))})
		}
		ps = append(ps, &probe{Kind: "allregions"}, &probe{Kind: "metacount"}, &probe{Kind: "content"})
	}
	for _, s := range append(append([]uint64(nil), w.stores...), 9) { // 9: a store that never has peers
		ps = append(ps, &probe{Kind: "store", Store: s}, &probe{Kind: "storeset", Store: s}, &probe{Kind: "storeinfo", Store: s})
	}
	keys := p.keys
	if maxk := map[bool]int{true: 200, false: 30}[complete]; len(keys) > maxk {
		keys = nil
		for i := 0; i < maxk; i++ {
			keys = append(keys, p.keys[p.rng.Intn(len(p.keys))])
		}
	}
	for _, k := range keys {
		ps = append(ps, &probe{Kind: "search", Key: k}, &probe{Kind: "searchprev", Key: k})
	}
	for i := 0; i < 3; i++ {
		ps = append(ps, &probe{Kind: "scaniter", Start: p.keys[p.rng.Intn(len(p.keys))]})
	}
	n := len(w.m.es)
	nk := len(p.g.keys) + 1
	type pair struct{ s, e hexkey }
	var pairs []pair
	if complete && nk <= 26 {
		for i := 0; i < nk; i++ {
			for j := i + 1; j <= nk; j++ {
				s, e := p.g.bound(i), p.g.bound(j)
				if j > len(p.g.keys) {
					e = ""
				}
				pairs = append(pairs, pair{s, e})
			}
		}
	} else {
		for i := map[bool]int{true: 300, false: 40}[complete]; i > 0; i-- {
			s, e := p.randPair()
			pairs = append(pairs, pair{s, e})
		}
	}
	for i := 0; i < 8; i++ { // off-boundary pairs
		s, e := p.keys[p.rng.Intn(len(p.keys))], p.keys[p.rng.Intn(len(p.keys))]
		if e != "" && s >= e {
			s, e = e, s
		}
		if s == e {
			e = ""
		}
		pairs = append(pairs, pair{s, e})
	}
	lims := []int{0, 1, 2, n, -1, n + 1}
	if n > 90 {
		lims = append(lims, 16, 99, 100, 101, 127, 128, 129) // around page sizes and the index node capacity
	}
	if n > 900 {
		lims = append(lims, 1000, 1023, 1024, 1025)
	}
	for _, pr := range pairs {
		lim := lims[p.rng.Intn(len(lims))]
		ps = append(ps, &probe{Kind: "scan", Start: pr.s, End: pr.e, Limit: 0})
		if lim != 0 {
			ps = append(ps, &probe{Kind: "scan", Start: pr.s, End: pr.e, Limit: lim})
		}
		ps = append(ps, &probe{Kind: "overlaps", Start: pr.s, End: pr.e}, &probe{Kind: "adjacent", Start: pr.s, End: pr.e})
	}
	ps = append(ps, &probe{Kind: "scan", Limit: -1}, &probe{Kind: "scan", Limit: 3})
	es := w.m.es
	if maxe := map[bool]int{true: 150, false: 30}[complete]; len(es) > maxe {
		es = nil
		for i := 0; i < maxe; i++ {
			es = append(es, w.m.es[p.rng.Intn(len(w.m.es))])
		}
	}
	for _, e := range es {
		ps = append(ps, &probe{Kind: "overlaps", ID: e.spec.ID}, &probe{Kind: "adjacent", ID: e.spec.ID})
	}
	if complete {
		for _, s := range w.stores {
			for _, role := range roles {
				ps = append(ps, &probe{Kind: "rand", Role: role, Store: s, Draws: 2})
			}
		}
	}
	for i := 0; i < 12; i++ {
		role, store, ranges := p.randTarget(w)
		ps = append(ps, &probe{Kind: "rand", Role: role, Store: store, Ranges: ranges, Draws: 2})
	}
	// coverage of small candidate sets: up to 4 (role, store, ranges) combinations with 1..8 candidates,
	// preferring the larger sets
	var cover []*probe
	for try := 0; try < 24; try++ {
		role, store, ranges := p.randTarget(w)
		c := &probe{Kind: "randcover", Role: role, Store: store, Ranges: ranges}
		if nc := len(w.m.candidates(c.Role, c.Store, c.Ranges)); nc >= 1 && nc <= 8 {
			c.Draws = nc
			cover = append(cover, c)
		}
	}
	sort.SliceStable(cover, func(i, j int) bool { return cover[i].Draws > cover[j].Draws })
	if len(cover) > 4 {
		cover = cover[:4]
	}
	for _, c := range cover {
		c.Draws = 0
		ps = append(ps, c)
	}
	return ps
}

// ---- one history ----

type histReport struct {
	Profile  profile  `json:"profile"`
	HistSeed int64    `json:"hist_seed"`
	OpIndex  int      `json:"failing_op_index"`
	OpsTotal int      `json:"ops_before_shrinking"`
	Ops      []op     `json:"ops"`
	Failure  *failure `json:"failure"`
	Model    []string `json:"model_after_ops"`
	Note     string   `json:"note,omitempty"`
}

func runHistory(r *ev.Run, prof profile, seed int64, sample bool) bool {
	rng := rand.New(rand.NewSource(seed))
	rand.Seed(seed) // pd's random picks use the global source
	g := newGen(rng, prof)
	w := newWorld(prof.StoreIDs)
	p := newProber(g, rng)
	var ops []op
	var queue []op
	if prof.Prefill {
		queue = g.prefillOps()
	}
	maxRegions := 0
	defer func() {
		for k, v := range w.cnt {
			r.Count(k, v)
		}
		for k, v := range w.probes {
			r.Count("probe_"+k, v)
		}
		r.Count("histories_"+prof.Name, 1)
		r.Count("histories_peak_live_regions_"+sizeClass(maxRegions), 1)
	}()
	for n := 0; n < prof.Ops; n++ {
		if len(queue) == 0 {
			queue = g.nextOps(w.m)
		}
		o := queue[0]
		queue = queue[1:]
		ops = append(ops, o)
		quiet := n < prof.Quiet
		w.noRefresh = quiet
		a := w.apply(o)
		w.noRefresh = false
		f := a.fail
		if quiet && f == nil && n%32 != 31 {
			r.Eval(1)
			w.count("ops_loaded_quietly", 1)
			if len(w.m.es) > maxRegions {
				maxRegions = len(w.m.es)
			}
			continue
		}
		run := func(ps []*probe) {
			for _, pb := range ps {
				if f != nil {
					return
				}
				f = w.eval(pb)
			}
		}
		if f == nil {
			run(p.cheap(w, a))
		}
		if f == nil && n%prof.NearEach == prof.NearEach-1 {
			run(p.near(w, a))
			w.count("near_comparisons", 1)
		}
		last := n == prof.Ops-1
		if f == nil && (last || n%prof.CompleteEach == prof.CompleteEach-1) {
			run(p.full(w, true))
			w.count("complete_comparisons", 1)
		} else if f == nil && n%prof.FullEach == prof.FullEach-1 {
			run(p.full(w, false))
			w.count("sampled_comparisons", 1)
		}
		if f != nil {
			if strings.HasPrefix(f.Class, "harness:") || strings.Contains(f.What, "harness:") {
				r.Inconclusive("harness problem in history seed %d: %s", seed, f.What)
				return false
			}
			report(r, prof, seed, ops, f)
			return false
		}
		r.Eval(1)
		w.count("ops_"+strings.SplitN(o.Note, ":", 2)[0], 1)
		if a.displaced > 0 {
			w.count(fmt.Sprintf("puts_displacing_%d", minInt(a.displaced, 5)), 1)
		}
		if len(w.m.es) > maxRegions {
			maxRegions = len(w.m.es)
		}
		w.count("ops_at_live_regions_"+sizeClass(len(w.m.es)), 1)
		r.Distinct(prof.Name + "|" + a.shape + "|n" + fmt.Sprint(bucket(len(w.m.es))))
	}
	if sample {
		k := len(ops)
		if k > 6 {
			k = 6
		}
		r.Sample(map[string]interface{}{"profile": prof, "hist_seed": seed, "boundary_keys": len(g.keys),
			"first_ops": ops[:k], "final_regions": len(w.m.es), "max_live_regions": maxRegions})
	}
	return true
}

// reproduces re-applies ops to a fresh world and tells whether the same class of failure shows.
func reproduces(prof profile, ops []op, f *failure, seed int64) (bool, *failure, *world) {
	w := newWorld(prof.StoreIDs)
	rand.Seed(seed)
	var last *failure
	for _, o := range ops {
		last = w.apply(o).fail
	}
	if f.Probe == nil {
		return last != nil && last.Class == f.Class, last, w
	}
	g := w.eval(f.Probe)
	return g != nil && g.Class == f.Class, g, w
}

func shrink(prof profile, ops []op, f *failure, seed int64) []op {
	cur := append([]op(nil), ops...)
	budget := 4000000 // op applications (weighted by the size of the world: the model is linear)
	weight := 1
	for _, o := range ops {
		if o.Note == "prefill" {
			weight++
		}
	}
	weight = 1 + weight/100
	try := func(cand []op) bool {
		if budget <= 0 {
			return false
		}
		budget -= (len(cand) + 50) * weight
		ok, _, _ := reproduces(prof, cand, f, seed)
		return ok
	}
	if !try(cur) {
		return cur // not reproducible without the intermediate queries: keep the full history
	}
	for chunk := (len(cur) + 1) / 2; chunk >= 1; {
		removed := false
		for i := 0; i+chunk <= len(cur); {
			cand := append(append([]op(nil), cur[:i]...), cur[i+chunk:]...)
			if try(cand) {
				cur, removed = cand, true
			} else {
				i += chunk
			}
		}
		if chunk == 1 {
			if !removed || budget <= 0 {
				break
			}
			continue
		}
		chunk = (chunk + 1) / 2
	}
	return cur
}

func report(r *ev.Run, prof profile, seed int64, ops []op, f *failure) {
	small := shrink(prof, ops, f, seed)
	hr := &histReport{Profile: prof, HistSeed: seed, OpIndex: len(ops) - 1, OpsTotal: len(ops), Ops: small, Failure: f}
	if ok, g, w := reproduces(prof, small, f, seed); ok {
		hr.Failure = g
		hr.Model = descEntries(w.m.sorted())
	} else {
		hr.Note = "failure needs the queries issued between the operations; ops is the unshrunk history"
	}
	r.Violation(f.Class, hr.Failure.What, hr)
}

func replay(r *ev.Run, path string) {
	b, err := ioutil.ReadFile(path)
	if err != nil {
		r.Inconclusive("replay: %v", err)
		return
	}
	var doc struct {
		Witness histReport `json:"witness"`
	}
	if err := json.Unmarshal(b, &doc); err != nil || doc.Witness.Failure == nil {
		r.Inconclusive("replay: cannot parse witness of %s (btree witnesses are replayed by seed/tier/shard): %v", path, err)
		return
	}
	hr := doc.Witness
	ok, g, w := reproduces(hr.Profile, hr.Ops, hr.Failure, hr.HistSeed)
	r.Eval(int64(len(hr.Ops)))
	r.Distinct("replay|" + hr.Failure.Class)
	r.Distinct("replay|ops")
	if !ok {
		// the recorded operations and the recorded query were evaluated faithfully: the oracle held
		fmt.Printf("REPLAY property=C07 %s: %s not reproduced on this tree (oracle held on the recorded history)\n", path, hr.Failure.Class)
		r.Count("replay_not_reproduced", 1)
		return
	}
	hr.Failure, hr.Model = g, descEntries(w.m.sorted())
	r.Violation(g.Class, g.What, hr)
}

func profiles(r *ev.Run, rng *rand.Rand) []profile {
	var out []profile
	add := func(n int, f func() profile) {
		for i := 0; i < n; i++ {
			out = append(out, f())
		}
	}
	density := func() float64 { return []float64{0.15, 0.4, 0.6, 0.8}[rng.Intn(4)] }
	near := r.Pick(4, 1) // lookups around the touched range: quick every 4th operation, thorough every one
	small := func(ops, full, complete int) func() profile {
		return func() profile {
			return profile{Name: "small", Keys: 6 + rng.Intn(19), MaxID: 40, Ops: ops, Prefill: rng.Intn(3) == 0, Stores: 8, Density: density(), MacroEach: 300,
				NearEach: near, FullEach: full, CompleteEach: complete}
		}
	}
	medium := func(ops, full, complete int) func() profile {
		return func() profile {
			k := 40 + rng.Intn(80)
			return profile{Name: "medium", Keys: k, MaxID: uint64(k + 30), Ops: ops, Prefill: rng.Intn(2) == 0, Stores: 4 + rng.Intn(5), Density: density(), MacroEach: 400,
				NearEach: near, FullEach: full, CompleteEach: complete}
		}
	}
	large := func(ops, full, complete int) func() profile {
		return func() profile {
			// few stores: the per-store sub-indexes then hold hundreds of regions (multi-level btree)
			k := 300 + rng.Intn(400)
			return profile{Name: "large", Keys: k, MaxID: uint64(k + 100), Ops: ops, Prefill: true, Stores: 2 + rng.Intn(3), Density: 0.6, MacroEach: 500,
				NearEach: near, FullEach: full, CompleteEach: complete}
		}
	}
	huge := func(keys, spread, ops, full int) func() profile {
		return func() profile {
			// thousands of regions: the main index and the per-store sub-indexes have two (quick) or
			// three (thorough) levels; loaded like a start-up does, then a history on the populated cache
			k := keys + rng.Intn(spread)
			return profile{Name: "huge", Keys: k, MaxID: uint64(k + 100), Ops: k + ops, Quiet: k, Prefill: true, Stores: 2 + rng.Intn(2), Density: 0.9, MacroEach: 150,
				NearEach: near, FullEach: full, CompleteEach: 1 << 30}
		}
	}
	if r.Thorough() {
		add(16, small(20000, 100, 2000))
		add(4, medium(20000, 200, 4000))
		add(2, large(20000, 400, 5000))
	} else {
		add(100, small(2000, 50, 500))
		add(16, medium(2000, 100, 1000))
		add(4, large(2000, 250, 1000))
	}
	rng.Shuffle(len(out), func(i, j int) { out[i], out[j] = out[j], out[i] })
	// exactly one huge world per run (quick: on the last shard), in front
	if r.Thorough() {
		out = append([]profile{huge(16600, 3000, 300, 150)()}, out...)
	} else {
		out = append([]profile{huge(2600, 800, 600, 200)()}, out...)
	}
	return out
}

func main() {
	r := ev.New("C07", "exploration")
	r.Rule("SEQUENTIAL: one case = one operation of a seeded random history applied to ONE long-lived core.BasicCluster and to the slice model, followed by the comparison of pd's answers with linear scans. Every operation: region counts, average size, per-store counters/sizes and the statistics published into the store records (UpdateStoreStatus, refreshed for every touched store the way the server does), content of the cached object; every operation (thorough) or every 4th (quick): lookups, overlap/adjacent/scan queries around the touched range, store region sets, one random-pick probe; periodically: sampled and complete sweeps (every probe key, every boundary pair for alphabets up to 25 keys, scan limits around 16/99-101/127-129/1000-1025 in big worlds, every store, every cached region, every object handed out earlier must be unchanged, random-pick soundness and coverage). Region objects are built by NewRegionInfo, RegionFromHeartbeat, or get-edit-set: Clone(options) of the object obtained from the cache (targeted options for single conf changes); puts go through PutRegion or CheckAndPutRegion (stale epochs are generated on purpose; a rejected put must change nothing). Store-wide bursts (all leaders / peers / pending marks of a store leave and return) make single sub-indexes shrink to nothing and grow again. Worlds: ids 1..40 over 6-24 boundary keys on 8 stores (small), 40-120 keys (medium), 300-700 keys fully covered on 2-4 stores (large), one world of ~3000 (quick) / ~17000-20000 (thorough) regions loaded like a start-up with prefix-related key names (huge: two / three index levels). distinct = profile x operation kind x displaced regions x construction path x entry point x which of {range, peers, leader, pending, size} changed x flags x log2(live regions). CONCURRENT (free-running goroutines, race detector on): (1) one write stream (puts, removals, store-record refreshes) || 3 readers issuing single-call queries of every kind incl. PreCheckPutRegion, (1b) a free-running stream of leader transfers / size changes / re-insertions || readers of the getters that combine several index reads, (2) two concurrent streams of cache drops (GetRegion+RemoveRegion, as DropCacheRegion does under the cluster read lock) || readers; one case = one read, judged against every state it can have observed (writes finished before its call .. writes begun before its return, by logical ticks); distinct = family x query kind x sub-call x number of candidate states; a complete sweep follows at quiescence. ONE-FIELD GRID: on a fixed world (prefix-related keys with 0x00/0xff tails, a hole, unbounded ends, store ids 0 and 2^64-1, region id 2^64-1, a leaderless neighbour) a base region (4 variants) is put again with exactly one of 36 fields/aspects changed (size, keys, flow, epoch, leader to each kind of store / none, each peer role, pending, down, peer add/remove/move/re-id, reorder, each range edge, spelling of empty keys as nil) x {PutRegion, CheckAndPutRegion} x {fresh, heartbeat, clone}, complete sweep after each; plus sweeps of a brand-new empty cache and of a cache emptied and repopulated; distinct = variant x field x entry point x construction. Empty keys alternate between nil and empty slices in regions and in query arguments. THREE PARTIES: put stream on the lower half || drop stream on the upper half || readers (states = product of the halves); PARKED WRITER: a log core parks the put inside the write lock (at regionTree.update's debug line), a cache drop and 3 readers queue on the lock, all released together. BTREE sub-check: random insert/replace/delete/delete-min/max/clone/clear and drain-to-empty/refill bursts for degrees 2..64 against a sorted slice; distinct = degree x live trees x size bucket x levels x operation.")
	r.Assume("core.BasicCluster and its RegionsInfo are driven directly (PutRegion / RemoveRegion with the region's current information, the only way the code base removes); no heartbeat admission logic is involved (that is C06)")
	r.Assume("generated regions stay inside the zone the statement defines: start < end or unbounded end, at most one peer per store, the leader is a voter of the region or absent, pending and down peers are peers of the region; inverted query ranges and 'adjacent' probes that partially overlap cached regions are not judged (skipped_ambiguous)")
	r.Assume("a random pick 'within key ranges' means a region lying completely inside one of the ranges (the documented behaviour, asserted by the repository's own tests); a pick may return nothing; coverage: every member of a candidate set of size 1..8 must be drawn within 400*|set| draws (for a uniform pick over the index range a miss has probability < 1e-13 per set)")
	r.Assume("concurrency respects what a server can do: at most one goroutine writes regions at a time except for cache drops (RemoveRegion), which may overlap each other; readers use BasicCluster methods only (RegionsInfo-only getters under the exported cluster read lock); interleavings are whatever the Go scheduler produces, no verdict depends on timing; a read whose window spans more than 64 state combinations is not judged")
	r.Assume("the statistics in a store record (GetStore(id).GetLeaderCount() ...) are judged against what was published at the last refresh of that store, never against the live counters (the server refreshes only the stores of the new and the old peers, so records of other stores may lag by design)")
	r.Assume("pd's random picks use math/rand's global source, re-seeded by the harness per history; the reference model, its key order (bytewise) and the sorted-slice mirror of the btree are trusted")
	if r.Replay != "" {
		replay(r, r.Replay)
		r.Finish()
	}
	if p := os.Getenv("VERIF_CPUPROFILE"); p != "" { // harness tuning aid only
		if f, err := os.Create(p); err == nil {
			pprof.StartCPUProfile(f)
			defer pprof.StopCPUProfile()
		}
	}
	rng := rand.New(rand.NewSource(r.ShardSeed()))
	profs := profiles(r, rng)
	seeds := make([]int64, len(profs))
	for i := range seeds {
		seeds[i] = rng.Int63()
	}
	btSeed := rng.Int63()
	concSeed := btSeed ^ 0x5bd1e995
	ok := true
	only := os.Getenv("VERIF_C07_ONLY") // validation aid: run a single family (btree|hist|grid|conc|parked)
	want := func(f string) bool { return only == "" || only == f }
	if want("btree") && (r.Thorough() || r.Shard == 0) {
		// first, so that a broken index structure is named as such before region histories trip over it
		ok = btreePhase(r, rand.New(rand.NewSource(btSeed)))
	}
	for i, prof := range profs {
		if !ok || !want("hist") {
			break
		}
		if !r.Thorough() && r.Shards > 1 {
			// quick tier split over processes (shards_quick): each takes a share of its own list;
			// the huge world (index 0) runs on the last shard only
			if (i == 0 && r.Shard != r.Shards-1) || (i > 0 && i%r.Shards != r.Shard) {
				continue
			}
		}
		if !runHistory(r, prof, seeds[i], i < 3) {
			ok = false
			break // one witness per run is enough; the state of that history has diverged
		}
		r.Count("histories", 1)
	}
	if ok && want("grid") {
		// every single-field update of a cached region, through every entry point (grid.go)
		ok = gridPhase(r, rand.New(rand.NewSource(concSeed^0x77)))
	}
	if ok && want("conc") {
		// readers against one write stream / against concurrent cache drops (see conc.go); after the
		// sequential histories, whose witnesses are shrunk and more specific
		ok = concPhase(r, rand.New(rand.NewSource(concSeed)))
	}
	if ok && want("parked") {
		// a writer parked inside the write lock, a drop and readers queued behind it (park.go)
		ok = parkedPhase(r, rand.New(rand.NewSource(concSeed^0x1234)))
	}
	if only == "" {
		r.Floor(int64(r.Pick(20000, 200000)))
	}
	pprof.StopCPUProfile()
	r.Finish()
}
