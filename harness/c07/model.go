package main

// Reference model for C07, written from the property statement only:
// the cached region set is a plain slice; every query is answered by a linear scan over it.

import (
	"encoding/hex"
	"encoding/json"
	"fmt"
	"sort"
	"strings"

	"github.com/pingcap/kvproto/pkg/metapb"
	"github.com/pingcap/kvproto/pkg/pdpb"
	"github.com/tikv/pd/server/core"
)

// hexkey is a region key (arbitrary bytes) that is written as hex in witnesses.
type hexkey string

func (k hexkey) MarshalJSON() ([]byte, error) { return json.Marshal(hex.EncodeToString([]byte(k))) }
func (k *hexkey) UnmarshalJSON(b []byte) error {
	var s string
	if err := json.Unmarshal(b, &s); err != nil {
		return err
	}
	raw, err := hex.DecodeString(s)
	if err != nil {
		return err
	}
	*k = hexkey(raw)
	return nil
}

type peerSpec struct {
	ID      uint64 `json:"id"`
	Store   uint64 `json:"store"`
	Learner bool   `json:"learner,omitempty"`
}

// regionSpec is the harness-side description of one region; the RegionInfo handed to pd is built
// from it and the oracle reads roles / sizes from it (never from pd's own classification).
type regionSpec struct {
	ID      uint64     `json:"id"`
	Start   hexkey     `json:"start"`
	End     hexkey     `json:"end"` // "" = unbounded
	Peers   []peerSpec `json:"peers"`
	Leader  uint64     `json:"leader"` // peer id, 0 = none
	Pending []uint64   `json:"pending,omitempty"`
	Down    []uint64   `json:"down,omitempty"`
	Size    int64      `json:"size"`
	Via     string     `json:"via,omitempty"` // "" = NewRegionInfo, "hb" = RegionFromHeartbeat, "clone" = cached object .Clone(options)
	// CloneFrom: id of the cached region whose object is cloned (Via "clone")
	CloneFrom uint64 `json:"clone_from,omitempty"`
	Ver       uint64 `json:"ver,omitempty"`
	ConfVer   uint64 `json:"conf_ver,omitempty"`
	// fields the statement does not speak of (a put that differs only in them must disturb nothing)
	AKeys   int64  `json:"approx_keys,omitempty"`
	Flow    uint64 `json:"written_bytes,omitempty"`
	Term    uint64 `json:"term,omitempty"`     // only heartbeats carry a term
	NilKeys bool   `json:"nil_keys,omitempty"` // empty start / end keys are spelled nil (as decoded from the wire)
}

func (s *regionSpec) key(k hexkey) []byte {
	if k == "" && s.NilKeys {
		return nil
	}
	return []byte(k)
}

func (s *regionSpec) clone() *regionSpec {
	c := *s
	c.Peers = append([]peerSpec(nil), s.Peers...)
	c.Pending = append([]uint64(nil), s.Pending...)
	c.Down = append([]uint64(nil), s.Down...)
	return &c
}

func (s *regionSpec) peer(id uint64) *peerSpec {
	for i := range s.Peers {
		if s.Peers[i].ID == id {
			return &s.Peers[i]
		}
	}
	return nil
}

func (s *regionSpec) String() string {
	var ps []string
	for _, p := range s.Peers {
		t := fmt.Sprintf("p%d@s%d", p.ID, p.Store)
		if p.Learner {
			t += "L"
		}
		if p.ID == s.Leader {
			t += "*"
		}
		for _, q := range s.Pending {
			if q == p.ID {
				t += "?"
			}
		}
		ps = append(ps, t)
	}
	return fmt.Sprintf("r%d[%x,%x) size=%d {%s}", s.ID, string(s.Start), string(s.End), s.Size, strings.Join(ps, " "))
}

func mkPeer(p peerSpec) *metapb.Peer {
	q := &metapb.Peer{Id: p.ID, StoreId: p.Store}
	if p.Learner {
		q.Role = metapb.PeerRole_Learner
	}
	return q
}

func (s *regionSpec) epoch() *metapb.RegionEpoch {
	e := &metapb.RegionEpoch{ConfVer: s.ConfVer, Version: s.Ver}
	if e.ConfVer == 0 {
		e.ConfVer = 1
	}
	if e.Version == 0 {
		e.Version = 1
	}
	return e
}

func (s *regionSpec) parts() (leader *metapb.Peer, pending []*metapb.Peer, down []*pdpb.PeerStats) {
	if p := s.peer(s.Leader); p != nil {
		leader = mkPeer(*p)
	}
	for _, id := range s.Pending {
		if p := s.peer(id); p != nil {
			pending = append(pending, mkPeer(*p))
		}
	}
	for _, id := range s.Down {
		if p := s.peer(id); p != nil {
			down = append(down, &pdpb.PeerStats{Peer: mkPeer(*p), DownSeconds: 300})
		}
	}
	return
}

// build creates the RegionInfo the way the code base does: from a heartbeat, NewRegionInfo with
// options, or (cur != nil) get - edit - set: Clone of an object obtained from the cache plus options.
func (s *regionSpec) build(cur *core.RegionInfo) *core.RegionInfo {
	leader, pending, down := s.parts()
	if s.Via == "clone" && cur != nil {
		return cur.Clone(s.cloneOptions(cur, leader, pending, down)...)
	}
	meta := &metapb.Region{Id: s.ID, StartKey: s.key(s.Start), EndKey: s.key(s.End), RegionEpoch: s.epoch()}
	for _, p := range s.Peers {
		meta.Peers = append(meta.Peers, mkPeer(p))
	}
	if s.Via == "hb" {
		return core.RegionFromHeartbeat(&pdpb.RegionHeartbeatRequest{Region: meta, Leader: leader,
			PendingPeers: pending, DownPeers: down, ApproximateSize: uint64(s.Size) << 20,
			ApproximateKeys: uint64(s.AKeys), BytesWritten: s.Flow, Term: s.Term})
	}
	return core.NewRegionInfo(meta, leader, core.SetApproximateSize(s.Size), core.SetApproximateKeys(s.AKeys), core.SetWrittenBytes(s.Flow),
		core.WithPendingPeers(pending), core.WithDownPeers(down))
}

// cloneOptions expresses the difference between the cached object and the spec with the options
// the code base uses (targeted ones where the difference is a single conf change).
func (s *regionSpec) cloneOptions(cur *core.RegionInfo, leader *metapb.Peer, pending []*metapb.Peer, down []*pdpb.PeerStats) []core.RegionCreateOption {
	var opts []core.RegionCreateOption
	if cur.GetID() != s.ID {
		opts = append(opts, core.WithNewRegionID(s.ID))
	}
	if string(cur.GetStartKey()) != string(s.Start) {
		opts = append(opts, core.WithStartKey(s.key(s.Start)))
	}
	if string(cur.GetEndKey()) != string(s.End) {
		opts = append(opts, core.WithEndKey(s.key(s.End)))
	}
	// peers
	old := map[uint64]*metapb.Peer{}
	for _, p := range cur.GetPeers() {
		old[p.GetId()] = p
	}
	var added []peerSpec
	var promoted, moved []peerSpec
	common := 0
	otherDiff := false
	for _, p := range s.Peers {
		o, ok := old[p.ID]
		if !ok {
			added = append(added, p)
			continue
		}
		common++
		wasLearner := o.GetRole() == metapb.PeerRole_Learner
		switch {
		case o.GetStoreId() == p.Store && wasLearner == p.Learner:
		case o.GetStoreId() == p.Store && wasLearner && !p.Learner:
			promoted = append(promoted, p)
		case o.GetStoreId() != p.Store && wasLearner == p.Learner:
			moved = append(moved, p)
		default:
			otherDiff = true
		}
	}
	removed := len(old) - common
	switch {
	case cur.GetID() != s.ID:
		opts = append(opts, core.SetPeers(s.metaPeers()))
	case otherDiff || len(added)+removed+len(promoted)+len(moved) > 1:
		opts = append(opts, core.SetPeers(s.metaPeers()))
	case len(added) == 1:
		opts = append(opts, core.WithAddPeer(mkPeer(added[0])))
	case removed == 1:
		for id, o := range old {
			if s.peer(id) == nil {
				opts = append(opts, core.WithRemoveStorePeer(o.GetStoreId()))
			}
		}
	case len(promoted) == 1:
		opts = append(opts, core.WithPromoteLearner(promoted[0].ID))
	case len(moved) == 1:
		opts = append(opts, core.WithReplacePeerStore(old[moved[0].ID].GetStoreId(), moved[0].Store))
	}
	e := s.epoch()
	opts = append(opts, core.WithLeader(leader), core.WithPendingPeers(pending), core.WithDownPeers(down),
		core.SetApproximateSize(s.Size), core.SetApproximateKeys(s.AKeys), core.SetWrittenBytes(s.Flow),
		core.SetRegionVersion(e.Version), core.SetRegionConfVer(e.ConfVer))
	return opts
}

func (s *regionSpec) metaPeers() []*metapb.Peer {
	var out []*metapb.Peer
	for _, p := range s.Peers {
		out = append(out, mkPeer(p))
	}
	return out
}

type entry struct {
	spec *regionSpec
	info *core.RegionInfo
}

// ---- key order: "" as an end key means +infinity; as a start key it is the smallest key ----

// beforeEnd reports k < end where end == "" is +infinity.
func beforeEnd(k, end hexkey) bool { return end == "" || k < end }

// overlap: [s1,e1) and [s2,e2) intersect  <=>  s1 < e2  and  s2 < e1.
func overlap(s1, e1, s2, e2 hexkey) bool { return beforeEnd(s1, e2) && beforeEnd(s2, e1) }

func (e *entry) contains(k hexkey) bool { return e.spec.Start <= k && beforeEnd(k, e.spec.End) }

// within: the region lies completely inside [s,e).
func (e *entry) within(s, e2 hexkey) bool {
	return e.spec.Start >= s && (e2 == "" || (e.spec.End != "" && e.spec.End <= e2))
}

type storeStat struct {
	LeaderCount, FollowerCount, LearnerCount, PendingCount int
	LeaderSize, FollowerSize, LearnerSize                  int64
}

// model is the current cached region set as the statement describes it.
type model struct {
	es      []*entry
	version int
	// caches (derived by linear scans, invalidated on every change)
	sortedV int
	sortedC []*entry
	// sinfo: the per-store statistics that were last published into the store records
	// (BasicCluster.UpdateStoreStatus), i.e. the model of what GetStore(id) reports
	sinfo map[uint64]storeStat
}

func newModel() *model { return &model{version: 1, sinfo: map[uint64]storeStat{}} }

// snapshot returns an independent copy of the state (entries are immutable and shared).
func (m *model) snapshot() *model {
	c := &model{version: 1, es: append([]*entry(nil), m.es...), sinfo: make(map[uint64]storeStat, len(m.sinfo))}
	for k, v := range m.sinfo {
		c.sinfo[k] = v
	}
	return c
}

func (m *model) get(id uint64) *entry {
	for _, e := range m.es {
		if e.spec.ID == id {
			return e
		}
	}
	return nil
}

// set: drop the same id and every other region whose range intersects, then add.
// Returns the displaced regions of other ids.
func (m *model) set(n *entry) (displaced []*entry) {
	keep := make([]*entry, 0, len(m.es)+1)
	for _, e := range m.es {
		switch {
		case e.spec.ID == n.spec.ID:
		case overlap(e.spec.Start, e.spec.End, n.spec.Start, n.spec.End):
			displaced = append(displaced, e)
		default:
			keep = append(keep, e)
		}
	}
	m.es = append(keep, n)
	m.version++
	return displaced
}

func (m *model) remove(id uint64) {
	keep := make([]*entry, 0, len(m.es))
	for _, e := range m.es {
		if e.spec.ID != id {
			keep = append(keep, e)
		}
	}
	m.es = keep
	m.version++
}

// sorted returns the regions ordered by start key (they never intersect, so this is key order).
func (m *model) sorted() []*entry {
	if m.sortedV != m.version {
		c := append([]*entry(nil), m.es...)
		sort.Slice(c, func(i, j int) bool { return c[i].spec.Start < c[j].spec.Start })
		m.sortedC, m.sortedV = c, m.version
	}
	return m.sortedC
}

func (m *model) search(k hexkey) *entry {
	for _, e := range m.es {
		if e.contains(k) {
			return e
		}
	}
	return nil
}

// searchPrev: the region that ends exactly where the region holding k starts.
func (m *model) searchPrev(k hexkey) *entry {
	cur := m.search(k)
	if cur == nil {
		return nil
	}
	return m.endingAt(cur.spec.Start)
}

func (m *model) endingAt(k hexkey) *entry {
	if k == "" {
		return nil
	}
	for _, e := range m.es {
		if e.spec.End != "" && e.spec.End == k {
			return e
		}
	}
	return nil
}

func (m *model) startingAt(k hexkey) *entry {
	for _, e := range m.es {
		if e.spec.Start == k {
			return e
		}
	}
	return nil
}

// adjacent: prev ends at s, next starts at e (an unbounded end has no next).
func (m *model) adjacent(s, e hexkey) (*entry, *entry) {
	var next *entry
	if e != "" {
		next = m.startingAt(e)
	}
	return m.endingAt(s), next
}

// overlaps: all regions intersecting [s,e), in key order.
func (m *model) overlaps(s, e hexkey) []*entry {
	var out []*entry
	for _, x := range m.sorted() {
		if overlap(x.spec.Start, x.spec.End, s, e) {
			out = append(out, x)
		}
	}
	return out
}

// scan: regions intersecting [s,e) in key order, at most limit of them (limit <= 0: all).
func (m *model) scan(s, e hexkey, limit int) []*entry {
	out := m.overlaps(s, e)
	if limit > 0 && len(out) > limit {
		out = out[:limit]
	}
	return out
}

func (m *model) totalSize() int64 {
	var t int64
	for _, e := range m.es {
		t += e.spec.Size
	}
	return t
}

const (
	roleLeader = iota
	roleFollower
	roleLearner
	rolePending
)

// hasRole: the region has a peer of that role on the store.
func (sp *regionSpec) hasRole(role int, store uint64) bool {
	for _, p := range sp.Peers {
		if p.Store != store {
			continue
		}
		switch role {
		case roleLeader:
			if !p.Learner && p.ID == sp.Leader {
				return true
			}
		case roleFollower:
			if !p.Learner && p.ID != sp.Leader {
				return true
			}
		case roleLearner:
			if p.Learner {
				return true
			}
		case rolePending:
			for _, q := range sp.Pending {
				if q == p.ID {
					return true
				}
			}
		}
	}
	return false
}

// stat: counters and sizes of one store implied by peers, roles, leader, pending peers and sizes
// of the current regions (one linear scan).
func (m *model) stat(store uint64) storeStat {
	var st storeStat
	for _, e := range m.es {
		sp := e.spec
		if sp.hasRole(roleLeader, store) {
			st.LeaderCount++
			st.LeaderSize += sp.Size
		}
		if sp.hasRole(roleFollower, store) {
			st.FollowerCount++
			st.FollowerSize += sp.Size
		}
		if sp.hasRole(roleLearner, store) {
			st.LearnerCount++
			st.LearnerSize += sp.Size
		}
		if sp.hasRole(rolePending, store) {
			st.PendingCount++
		}
	}
	return st
}

// storeRegions: the regions with a leader, follower or learner peer on the store.
func (m *model) storeRegions(store uint64) []*entry {
	var out []*entry
	for _, e := range m.es {
		for _, p := range e.spec.Peers {
			if p.Store == store {
				out = append(out, e)
				break
			}
		}
	}
	return out
}

var roleIndex = map[string]int{"leader": roleLeader, "follower": roleFollower, "learner": roleLearner, "pending": rolePending}

// roleSet: the regions that have a peer of the given role on the store, in key order.
func (m *model) roleSet(role string, store uint64) []*entry {
	var out []*entry
	ri := roleIndex[role]
	for _, e := range m.sorted() {
		if e.spec.hasRole(ri, store) {
			out = append(out, e)
		}
	}
	return out
}

// candidates of a random pick: role set of the store, restricted to regions lying within one of
// the ranges (no ranges = whole key space).
func (m *model) candidates(role string, store uint64, ranges [][2]hexkey) []*entry {
	set := m.roleSet(role, store)
	if len(ranges) == 0 {
		return set
	}
	var out []*entry
	for _, e := range set {
		for _, rg := range ranges {
			if e.within(rg[0], rg[1]) {
				out = append(out, e)
				break
			}
		}
	}
	return out
}
