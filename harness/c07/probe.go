package main

// Probes: every comparison between pd (core.BasicCluster / core.RegionsInfo) and the model is one
// probe value that can be evaluated again later (witness shrinking, replay).
//
// A probe is answered in two steps: fetch (calls pd only, safe to run from reader goroutines while
// a writer is active) and judge (compares the recorded answer with a model state, single-threaded).

import (
	"fmt"
	"sort"
	"strings"
	"sync/atomic"

	"github.com/pingcap/kvproto/pkg/metapb"
	"github.com/tikv/pd/server/core"
)

type probe struct {
	Kind   string      `json:"kind"`
	Key    hexkey      `json:"key,omitempty"`
	Start  hexkey      `json:"start,omitempty"`
	End    hexkey      `json:"end,omitempty"`
	Limit  int         `json:"limit,omitempty"`
	Store  uint64      `json:"store,omitempty"`
	Role   string      `json:"role,omitempty"`
	Ranges [][2]hexkey `json:"ranges,omitempty"`
	ID     uint64      `json:"id,omitempty"`
	Draws  int         `json:"draws,omitempty"`
	MaxID  uint64      `json:"max_id,omitempty"`
	Sub    int         `json:"sub,omitempty"` // selects one single call of a composite probe (1-based; 0 = all)
}

type failure struct {
	Class string      `json:"class"` // stable classifier of the failing query kind
	What  string      `json:"what"`
	Probe *probe      `json:"probe,omitempty"`
	Got   interface{} `json:"got,omitempty"`
	Want  interface{} `json:"want,omitempty"`
}

// answer is what pd returned for one probe.
type answer struct {
	Regs  []*core.RegionInfo
	Nums  []int64
	Start hexkey // resolved range of an id-based probe
	End   hexkey
	Skip  bool   // probe not issued (inverted range, id not cached)
	Err   string // error text (precheck)
	Panic string
	Stack string
}

type counter map[string]int64

func (c counter) add(k string, n int64) {
	if c != nil {
		c[k] += n
	}
}

type held struct {
	info *core.RegionInfo
	spec *regionSpec
	sig  uint64
}

// sigInfo / sigSpec: cheap order-independent signatures of the same content canonInfo / canonSpec
// spell out (the strings are only built for witnesses).
func mix(h, x uint64) uint64 {
	h ^= x + 0x9e3779b97f4a7c15 + (h << 6) + (h >> 2)
	return h * 0x100000001b3
}

func sigBytes(h uint64, b string) uint64 {
	for i := 0; i < len(b); i++ {
		h = (h ^ uint64(b[i])) * 0x100000001b3
	}
	return mix(h, uint64(len(b)))
}

func sigPeer(tag, id, store uint64) uint64 { return mix(mix(mix(0xcbf29ce484222325, tag), id), store) }

func sigInfo(r *core.RegionInfo) uint64 {
	h := mix(0xcbf29ce484222325, r.GetID())
	h = sigBytes(h, string(r.GetStartKey()))
	h = sigBytes(h, string(r.GetEndKey()))
	h = mix(h, uint64(r.GetApproximateSize()))
	var sum uint64
	for _, p := range r.GetPeers() {
		tag := uint64(1)
		if p.GetRole() == metapb.PeerRole_Learner {
			tag = 7
		}
		sum += sigPeer(tag, p.GetId(), p.GetStoreId())
	}
	for _, p := range r.GetVoters() {
		sum += sigPeer(2, p.GetId(), p.GetStoreId())
	}
	for _, p := range r.GetLearners() {
		sum += sigPeer(3, p.GetId(), p.GetStoreId())
	}
	for _, p := range r.GetPendingPeers() {
		sum += sigPeer(4, p.GetId(), p.GetStoreId())
	}
	for _, p := range r.GetDownPeers() {
		sum += sigPeer(5, p.GetPeer().GetId(), p.GetPeer().GetStoreId())
	}
	if l := r.GetLeader(); l != nil {
		sum += sigPeer(6, l.GetId(), l.GetStoreId())
	}
	return mix(h, sum)
}

func sigSpec(sp *regionSpec) uint64 {
	h := mix(0xcbf29ce484222325, sp.ID)
	h = sigBytes(h, string(sp.Start))
	h = sigBytes(h, string(sp.End))
	h = mix(h, uint64(sp.Size))
	var sum uint64
	for _, p := range sp.Peers {
		if p.Learner {
			sum += sigPeer(7, p.ID, p.Store) + sigPeer(3, p.ID, p.Store)
		} else {
			sum += sigPeer(1, p.ID, p.Store) + sigPeer(2, p.ID, p.Store)
		}
	}
	for _, id := range sp.Pending {
		if p := sp.peer(id); p != nil {
			sum += sigPeer(4, p.ID, p.Store)
		}
	}
	for _, id := range sp.Down {
		if p := sp.peer(id); p != nil {
			sum += sigPeer(5, p.ID, p.Store)
		}
	}
	if p := sp.peer(sp.Leader); p != nil {
		sum += sigPeer(6, p.ID, p.Store)
	}
	return mix(h, sum)
}

// world = pd objects under test + the model + observation counters.
type world struct {
	bc      *core.BasicCluster
	ri      *core.RegionsInfo
	m       *model
	cnt     counter
	probes  counter
	probeID uint64 // id used for synthetic probe regions (never a cached id)
	conc    bool   // other goroutines are using bc: RegionsInfo-only getters are called under bc.RLock
	held    []held // objects handed out earlier (replaced or removed since): must never change
	heldN   int
	// noRefresh: regions are being loaded the way a start-up does (no store-record refresh)
	noRefresh bool
	stores    []uint64 // stores with a store record
	spell     int32
}

var defaultStores = []uint64{1, 2, 3, 4, 5, 6, 7, 8}

// newWorld: stores = ids of the stores that have a store record (nil = 1..8).
func newWorld(stores []uint64) *world {
	if len(stores) == 0 {
		stores = defaultStores
	}
	bc := core.NewBasicCluster()
	for _, s := range stores {
		bc.PutStore(core.NewStoreInfo(&metapb.Store{Id: s}))
	}
	return &world{bc: bc, ri: bc.Regions, m: newModel(), cnt: counter{}, probes: counter{}, probeID: 1 << 40, stores: stores}
}

// kb spells a key for pd: the empty key alternates between nil and an empty slice (equal by convention).
func (w *world) kb(k hexkey) []byte {
	if k == "" && atomic.AddInt32(&w.spell, 1)%2 == 0 {
		return nil
	}
	return []byte(k)
}

// infoMatchesSpec compares the object pd holds with the spec element by element (no serialisation).
func infoMatchesSpec(r *core.RegionInfo, sp *regionSpec) bool {
	if r == nil || r.GetID() != sp.ID || string(r.GetStartKey()) != string(sp.Start) || string(r.GetEndKey()) != string(sp.End) ||
		r.GetApproximateSize() != sp.Size || len(r.GetPeers()) != len(sp.Peers) {
		return false
	}
	nv, nl := 0, 0
	for _, p := range r.GetPeers() {
		q := sp.peer(p.GetId())
		if q == nil || q.Store != p.GetStoreId() || q.Learner != (p.GetRole() == metapb.PeerRole_Learner) {
			return false
		}
	}
	for _, q := range sp.Peers {
		if q.Learner {
			nl++
		} else {
			nv++
		}
	}
	if len(r.GetVoters()) != nv || len(r.GetLearners()) != nl {
		return false
	}
	for _, p := range r.GetVoters() {
		if q := sp.peer(p.GetId()); q == nil || q.Learner || q.Store != p.GetStoreId() {
			return false
		}
	}
	for _, p := range r.GetLearners() {
		if q := sp.peer(p.GetId()); q == nil || !q.Learner || q.Store != p.GetStoreId() {
			return false
		}
	}
	if l, q := r.GetLeader(), sp.peer(sp.Leader); (l == nil) != (q == nil) || (l != nil && (l.GetId() != q.ID || l.GetStoreId() != q.Store)) {
		return false
	}
	inIDs := func(ids []uint64, id uint64) bool {
		for _, x := range ids {
			if x == id {
				return true
			}
		}
		return false
	}
	if len(r.GetPendingPeers()) != len(sp.Pending) || len(r.GetDownPeers()) != len(sp.Down) {
		return false
	}
	for _, p := range r.GetPendingPeers() {
		if q := sp.peer(p.GetId()); q == nil || !inIDs(sp.Pending, p.GetId()) || q.Store != p.GetStoreId() {
			return false
		}
	}
	for _, d := range r.GetDownPeers() {
		if q := sp.peer(d.GetPeer().GetId()); q == nil || !inIDs(sp.Down, q.ID) || q.Store != d.GetPeer().GetStoreId() {
			return false
		}
	}
	return r.GetApproximateKeys() == sp.AKeys && r.GetBytesWritten() == sp.Flow
}

// equalInfo: two region objects say the same about everything the statement speaks of (element-wise).
func equalInfo(a, b *core.RegionInfo) bool {
	if a == nil || b == nil {
		return a == b
	}
	if a.GetID() != b.GetID() || string(a.GetStartKey()) != string(b.GetStartKey()) || string(a.GetEndKey()) != string(b.GetEndKey()) ||
		a.GetApproximateSize() != b.GetApproximateSize() || a.GetLeader().GetId() != b.GetLeader().GetId() ||
		a.GetLeader().GetStoreId() != b.GetLeader().GetStoreId() || (a.GetLeader() == nil) != (b.GetLeader() == nil) ||
		len(a.GetPeers()) != len(b.GetPeers()) || len(a.GetPendingPeers()) != len(b.GetPendingPeers()) {
		return false
	}
	for _, p := range a.GetPeers() {
		q := b.GetPeer(p.GetId())
		if q == nil || q.GetStoreId() != p.GetStoreId() || q.GetRole() != p.GetRole() {
			return false
		}
	}
	for _, p := range a.GetPendingPeers() {
		if q := b.GetPendingPeer(p.GetId()); q == nil || q.GetStoreId() != p.GetStoreId() {
			return false
		}
	}
	return true
}

func (w *world) count(k string, n int64) { w.cnt[k] += n }

// locked runs f with the cluster read lock held when other goroutines are active (the way code
// outside package core reads RegionsInfo-only getters).
func (w *world) locked(f func()) {
	if w.conc {
		w.bc.RLock()
		defer w.bc.RUnlock()
	}
	f()
}

func descInfo(r *core.RegionInfo) string {
	if r == nil {
		return "<nil>"
	}
	s := fmt.Sprintf("r%d[%x,%x) size=%d leader=p%d {", r.GetID(), r.GetStartKey(), r.GetEndKey(), r.GetApproximateSize(), r.GetLeader().GetId())
	for _, p := range r.GetPeers() {
		s += fmt.Sprintf("p%d@s%d", p.GetId(), p.GetStoreId())
		if p.GetRole() == metapb.PeerRole_Learner {
			s += "L"
		}
		s += " "
	}
	s += "} pending="
	for _, p := range r.GetPendingPeers() {
		s += fmt.Sprintf("p%d ", p.GetId())
	}
	return s
}

// canonInfo / canonSpec: order-independent content of a region as pd's object / the harness' spec
// describe it (range, size, leader, peers with store and role, pending and down peers).
func canonInfo(r *core.RegionInfo) string {
	if r == nil {
		return "<nil>"
	}
	var ps, pend, down, vs, ls []string
	for _, p := range r.GetPeers() {
		t := fmt.Sprintf("p%d@s%d", p.GetId(), p.GetStoreId())
		if p.GetRole() == metapb.PeerRole_Learner {
			t += "L"
		}
		ps = append(ps, t)
	}
	for _, p := range r.GetVoters() {
		vs = append(vs, fmt.Sprintf("p%d@s%d", p.GetId(), p.GetStoreId()))
	}
	for _, p := range r.GetLearners() {
		ls = append(ls, fmt.Sprintf("p%d@s%d", p.GetId(), p.GetStoreId()))
	}
	for _, p := range r.GetPendingPeers() {
		pend = append(pend, fmt.Sprintf("p%d@s%d", p.GetId(), p.GetStoreId()))
	}
	for _, p := range r.GetDownPeers() {
		down = append(down, fmt.Sprintf("p%d@s%d", p.GetPeer().GetId(), p.GetPeer().GetStoreId()))
	}
	sort.Strings(ps)
	sort.Strings(vs)
	sort.Strings(ls)
	sort.Strings(pend)
	sort.Strings(down)
	lead := "-"
	if l := r.GetLeader(); l != nil {
		lead = fmt.Sprintf("p%d@s%d", l.GetId(), l.GetStoreId())
	}
	return fmt.Sprintf("r%d[%x,%x) size=%d leader=%s peers=%s voters=%s learners=%s pending=%s down=%s", r.GetID(), r.GetStartKey(), r.GetEndKey(),
		r.GetApproximateSize(), lead, strings.Join(ps, ","), strings.Join(vs, ","), strings.Join(ls, ","), strings.Join(pend, ","), strings.Join(down, ","))
}

func canonSpec(sp *regionSpec) string {
	var ps, pend, down, vs, ls []string
	at := func(id uint64) string {
		if p := sp.peer(id); p != nil {
			return fmt.Sprintf("p%d@s%d", p.ID, p.Store)
		}
		return fmt.Sprintf("p%d@?", id)
	}
	for _, p := range sp.Peers {
		t := fmt.Sprintf("p%d@s%d", p.ID, p.Store)
		if p.Learner {
			ls = append(ls, t)
			t += "L"
		} else {
			vs = append(vs, t)
		}
		ps = append(ps, t)
	}
	for _, id := range sp.Pending {
		pend = append(pend, at(id))
	}
	for _, id := range sp.Down {
		down = append(down, at(id))
	}
	sort.Strings(ps)
	sort.Strings(vs)
	sort.Strings(ls)
	sort.Strings(pend)
	sort.Strings(down)
	lead := "-"
	if sp.peer(sp.Leader) != nil {
		lead = at(sp.Leader)
	}
	return fmt.Sprintf("r%d[%x,%x) size=%d leader=%s peers=%s voters=%s learners=%s pending=%s down=%s", sp.ID, string(sp.Start), string(sp.End),
		sp.Size, lead, strings.Join(ps, ","), strings.Join(vs, ","), strings.Join(ls, ","), strings.Join(pend, ","), strings.Join(down, ","))
}

func descInfos(rs []*core.RegionInfo) []string {
	out := make([]string, 0, len(rs))
	for _, r := range rs {
		out = append(out, descInfo(r))
	}
	return out
}

func descEntry(e *entry) string {
	if e == nil {
		return "<nil>"
	}
	return e.spec.String()
}

func descEntries(es []*entry) []string {
	out := make([]string, 0, len(es))
	for _, e := range es {
		out = append(out, descEntry(e))
	}
	return out
}

// judger compares answers with one model state.
type judger struct {
	m   *model
	cnt counter
}

// same: pd returned exactly the current information of the model's region (or both nothing).
// A different object with identical content is indistinguishable for the statement and accepted.
func (j *judger) same(got *core.RegionInfo, want *entry) bool {
	if want == nil {
		return got == nil
	}
	if got == nil {
		return false
	}
	if got == want.info {
		return true
	}
	if got.GetID() == want.spec.ID && equalInfo(got, want.info) {
		j.cnt.add("same_content_other_object", 1)
		return true
	}
	return false
}

func (j *judger) sameSeq(got []*core.RegionInfo, want []*entry) bool {
	if len(got) != len(want) {
		return false
	}
	for i := range got {
		if !j.same(got[i], want[i]) {
			return false
		}
	}
	return true
}

// sameSet compares as multisets (ordered by region id).
func (j *judger) sameSet(got []*core.RegionInfo, want []*entry) bool {
	if len(got) != len(want) {
		return false
	}
	for _, g := range got {
		if g == nil {
			return false
		}
	}
	g := append([]*core.RegionInfo(nil), got...)
	x := append([]*entry(nil), want...)
	sort.SliceStable(g, func(a, b int) bool { return g[a].GetID() < g[b].GetID() })
	sort.SliceStable(x, func(a, b int) bool { return x[a].spec.ID < x[b].spec.ID })
	return j.sameSeq(g, x)
}

func (j *judger) inCands(got *core.RegionInfo, cands []*entry) int {
	for i, c := range cands {
		if got == c.info {
			return i
		}
	}
	for i, c := range cands {
		if c.spec.ID == got.GetID() && j.same(got, c) {
			return i
		}
	}
	return -1
}

func (w *world) probeRegion(id uint64, s, e hexkey) *core.RegionInfo {
	return core.NewRegionInfo(&metapb.Region{Id: id, StartKey: w.kb(s), EndKey: w.kb(e),
		RegionEpoch: &metapb.RegionEpoch{ConfVer: 1 << 50, Version: 1 << 50}}, nil)
}

func keyRanges(rs [][2]hexkey) []core.KeyRange {
	if rs == nil {
		return nil
	}
	out := make([]core.KeyRange, 0, len(rs))
	for i, r := range rs {
		kr := core.NewKeyRange(string(r[0]), string(r[1]))
		if i%2 == 1 { // every other range spells empty keys as nil
			if len(kr.StartKey) == 0 {
				kr.StartKey = nil
			}
			if len(kr.EndKey) == 0 {
				kr.EndKey = nil
			}
		}
		out = append(out, kr)
	}
	return out
}

func (w *world) randOne(role string, store uint64, ranges []core.KeyRange) (r *core.RegionInfo) {
	w.locked(func() {
		switch role {
		case "leader":
			r = w.ri.RandLeaderRegion(store, ranges)
		case "follower":
			r = w.ri.RandFollowerRegion(store, ranges)
		case "learner":
			r = w.ri.RandLearnerRegion(store, ranges)
		default:
			r = w.ri.RandPendingRegion(store, ranges)
		}
	})
	return
}

func (w *world) randMany(role string, store uint64, ranges []core.KeyRange, n int) (r []*core.RegionInfo) {
	w.locked(func() {
		switch role {
		case "leader":
			r = w.ri.RandLeaderRegions(store, ranges, n)
		case "follower":
			r = w.ri.RandFollowerRegions(store, ranges, n)
		case "learner":
			r = w.ri.RandLearnerRegions(store, ranges, n)
		default:
			r = w.ri.RandPendingRegions(store, ranges, n)
		}
	})
	return
}

func (w *world) randCluster(role string, store uint64, ranges []core.KeyRange) *core.RegionInfo {
	switch role {
	case "leader":
		return w.bc.RandLeaderRegion(store, ranges)
	case "follower":
		return w.bc.RandFollowerRegion(store, ranges)
	case "learner":
		return w.bc.RandLearnerRegion(store, ranges)
	}
	return w.bc.RandPendingRegion(store, ranges)
}

func inverted(s, e hexkey) bool { return e != "" && s >= e }

// fetch asks pd. It touches neither the model nor any counter, so readers may call it while a
// writer goroutine is active (w.conc set): everything then goes through BasicCluster's own locking.
func (w *world) fetch(p *probe) (a *answer) {
	a = &answer{}
	defer func() {
		if x := recover(); x != nil {
			a.Panic, a.Stack = fmt.Sprint(x), tailStack()
		}
	}()
	bc, ri := w.bc, w.ri
	resolve := func() *core.RegionInfo {
		if p.ID != 0 {
			r := bc.GetRegion(p.ID)
			if r == nil {
				a.Skip = true
				return nil
			}
			a.Start, a.End = hexkey(r.GetStartKey()), hexkey(r.GetEndKey())
			return r
		}
		a.Start, a.End = p.Start, p.End
		if inverted(p.Start, p.End) {
			a.Skip = true
			return nil
		}
		return w.probeRegion(w.probeID, p.Start, p.End)
	}
	switch p.Kind {
	case "counts":
		a.Nums = []int64{-1, -1, -1}
		if p.Sub == 0 || p.Sub == 1 {
			a.Nums[0] = int64(bc.GetRegionCount())
		}
		if p.Sub == 0 || p.Sub == 2 {
			w.locked(func() { a.Nums[1], a.Nums[2] = int64(ri.Len()), int64(ri.TreeLen()) })
		}
	case "metacount":
		a.Nums = []int64{int64(len(bc.GetMetaRegions()))}
	case "getregion":
		a.Regs = []*core.RegionInfo{bc.GetRegion(p.ID)}
	case "allregions":
		a.Regs = bc.GetRegions()
	case "search":
		a.Regs = []*core.RegionInfo{bc.SearchRegion(w.kb(p.Key))}
	case "searchprev":
		a.Regs = []*core.RegionInfo{bc.SearchPrevRegion(w.kb(p.Key))}
	case "scan":
		if inverted(p.Start, p.End) {
			a.Skip = true
			return
		}
		a.Regs = bc.ScanRange(w.kb(p.Start), w.kb(p.End), p.Limit)
	case "scaniter":
		w.locked(func() {
			ri.ScanRangeWithIterator(w.kb(p.Start), func(r *core.RegionInfo) bool { a.Regs = append(a.Regs, r); return true })
		})
	case "overlaps":
		if pr := resolve(); pr != nil {
			a.Regs = bc.GetOverlaps(pr)
		}
	case "adjacent":
		if pr := resolve(); pr != nil {
			x, y := bc.GetAdjacentRegions(pr)
			a.Regs = []*core.RegionInfo{x, y}
		}
	case "precheck":
		// the read-only half of heartbeat processing, with an epoch that is never stale
		origin, err := bc.PreCheckPutRegion(w.probeRegion(p.ID, p.Start, p.End))
		a.Regs = []*core.RegionInfo{origin}
		if err != nil {
			a.Err = err.Error()
		}
	case "avg":
		a.Nums = []int64{bc.GetAverageRegionSize()}
	case "store":
		s := p.Store
		a.Nums = []int64{-1, -1, -1, -1, -1, -1, -1, -1, -1, -1, -1}
		get := []func() int64{
			func() int64 { return int64(bc.GetStoreLeaderCount(s)) },
			func() int64 { return int64(bc.GetStoreFollowerCount(s)) },
			nil,
			func() int64 { return int64(bc.GetStorePendingPeerCount(s)) },
			func() int64 { return int64(bc.GetStoreRegionCount(s)) },
			nil,
			func() int64 { return bc.GetStoreLeaderRegionSize(s) },
			nil, nil,
			func() int64 { return bc.GetStoreRegionSize(s) },
			nil,
		}
		for i, f := range get {
			if f != nil && (p.Sub == 0 || p.Sub == i+1) {
				a.Nums[i] = f()
			}
		}
		if p.Sub == 0 || p.Sub == 3 {
			// one lock section: the RegionsInfo-only readers are mutually consistent
			w.locked(func() {
				a.Nums[2] = int64(ri.GetStoreLearnerCount(s))
				a.Nums[5] = int64(ri.GetStoreRegionCount(s))
				a.Nums[7] = ri.GetStoreFollowerRegionSize(s)
				a.Nums[8] = ri.GetStoreLearnerRegionSize(s)
				a.Nums[10] = ri.GetStoreRegionSize(s)
			})
		}
	case "storeset":
		a.Regs = bc.GetStoreRegions(p.Store)
	case "storeinfo":
		st := bc.GetStore(p.Store)
		if st == nil {
			a.Nums = []int64{0}
			return
		}
		a.Nums = []int64{1, int64(st.GetLeaderCount()), int64(st.GetRegionCount()), int64(st.GetPendingPeerCount()), st.GetLeaderSize(), st.GetRegionSize()}
	case "rand":
		kr := keyRanges(p.Ranges)
		a.Nums = []int64{0, 0} // number of single draws, number of elements of Rand*Regions
		if p.Sub == 0 || p.Sub == 1 {
			for i := 0; i < p.Draws; i++ {
				a.Regs = append(a.Regs, w.randOne(p.Role, p.Store, kr))
			}
			a.Nums[0] = int64(p.Draws)
		}
		if p.Sub == 0 || p.Sub == 2 {
			many := w.randMany(p.Role, p.Store, kr, 4)
			a.Nums[1] = int64(len(many))
			a.Regs = append(a.Regs, many...)
		}
		if p.Sub == 0 || p.Sub == 3 {
			a.Regs = append(a.Regs, w.randCluster(p.Role, p.Store, kr))
		}
	default:
		panic("harness: unknown probe kind " + p.Kind)
	}
	return
}

func storeRowNames() []string {
	return []string{"store-leader-count", "store-follower-count", "store-learner-count", "store-pending-count", "store-region-count",
		"store-region-count", "store-leader-size", "store-follower-size", "store-learner-size", "store-region-size", "store-region-size"}
}

// judge compares an answer with the model state j.m. nil = agreement (or probe not judged).
func (j *judger) judge(p *probe, a *answer) *failure {
	m := j.m
	fail := func(class, what string, got, want interface{}) *failure {
		return &failure{Class: class, What: what, Probe: p, Got: got, Want: want}
	}
	if a.Panic != "" {
		return fail("panic:"+p.Kind, fmt.Sprintf("pd panicked while answering a %s query: %s", p.Kind, a.Panic), a.Stack, nil)
	}
	if a.Skip {
		if p.ID == 0 {
			j.cnt.add("skipped_ambiguous", 1) // empty / inverted interval: not defined by the statement
		} else if m.get(p.ID) != nil {
			return fail("lookup-by-id", fmt.Sprintf("GetRegion(%d) returned nothing, the model holds the region", p.ID), nil, descEntry(m.get(p.ID)))
		}
		return nil
	}
	one := func() *core.RegionInfo {
		if len(a.Regs) == 0 {
			return nil
		}
		return a.Regs[0]
	}
	switch p.Kind {
	case "counts":
		n := int64(len(m.es))
		if a.Nums[0] != n && a.Nums[0] >= 0 {
			return fail("count:cached-regions", fmt.Sprintf("GetRegionCount=%d, model holds %d regions", a.Nums[0], n), a.Nums[0], n)
		}
		if a.Nums[1] != n && a.Nums[1] >= 0 {
			return fail("count:cached-regions", fmt.Sprintf("RegionsInfo.Len=%d, model holds %d regions", a.Nums[1], n), a.Nums[1], n)
		}
		if a.Nums[2] != n && a.Nums[2] >= 0 {
			return fail("count:indexed-regions", fmt.Sprintf("TreeLen (indexed regions)=%d, cached regions=%d", a.Nums[2], n), a.Nums[2], n)
		}
	case "metacount":
		if n := int64(len(m.es)); a.Nums[0] != n {
			return fail("count:cached-regions", fmt.Sprintf("len(GetMetaRegions)=%d, model holds %d regions", a.Nums[0], n), a.Nums[0], n)
		}
	case "getregion":
		if g, x := one(), m.get(p.ID); !j.same(g, x) {
			return fail("lookup-by-id", fmt.Sprintf("GetRegion(%d) differs from the model", p.ID), descInfo(g), descEntry(x))
		}
	case "allregions":
		if !j.sameSet(a.Regs, m.es) {
			return fail("lookup-by-id", "GetRegions differs from the model's region set", descInfos(a.Regs), descEntries(m.es))
		}
	case "search":
		g, x := one(), m.search(p.Key)
		if !j.same(g, x) {
			return fail("search-region", fmt.Sprintf("SearchRegion(%x) differs from a linear scan", string(p.Key)), descInfo(g), descEntry(x))
		}
		if x == nil {
			j.cnt.add("search_in_hole", 1)
		}
	case "searchprev":
		g, x := one(), m.searchPrev(p.Key)
		if !j.same(g, x) {
			return fail("search-prev-region", fmt.Sprintf("SearchPrevRegion(%x) differs from a linear scan", string(p.Key)), descInfo(g), descEntry(x))
		}
		if x != nil {
			j.cnt.add("searchprev_nonnil", 1)
		}
	case "scan":
		x := m.scan(p.Start, p.End, p.Limit)
		if !j.sameSeq(a.Regs, x) {
			cl := "scan-range:unlimited"
			if p.Limit > 0 {
				cl = "scan-range:limited"
			}
			return fail(cl, fmt.Sprintf("ScanRange(%x,%x,%d) differs from a linear scan", string(p.Start), string(p.End), p.Limit), descInfos(a.Regs), descEntries(x))
		}
		if p.Limit > 0 && len(x) == p.Limit {
			j.cnt.add("scan_limit_reached", 1)
		}
	case "scaniter":
		x := m.scan(p.Start, "", 0)
		if !j.sameSeq(a.Regs, x) {
			return fail("scan-range:iterator", fmt.Sprintf("ScanRangeWithIterator(%x) differs from a linear scan", string(p.Start)), descInfos(a.Regs), descEntries(x))
		}
	case "overlaps":
		s, e := a.Start, a.End
		if p.ID != 0 {
			// the argument was the cached region of that id at fetch time: it must be the model's one
			if x := m.get(p.ID); x == nil || x.spec.Start != s || x.spec.End != e {
				return fail("lookup-by-id", fmt.Sprintf("GetRegion(%d) returned range [%x,%x), the model differs", p.ID, string(s), string(e)), nil, descEntry(x))
			}
		}
		x := m.overlaps(s, e)
		if !j.sameSet(a.Regs, x) {
			return fail("get-overlaps", fmt.Sprintf("GetOverlaps([%x,%x)) differs from a linear scan", string(s), string(e)), descInfos(a.Regs), descEntries(x))
		}
		if len(x) > 1 {
			j.cnt.add("overlaps_multi", 1)
		}
	case "adjacent":
		s, e := a.Start, a.End
		if p.ID != 0 {
			if x := m.get(p.ID); x == nil || x.spec.Start != s || x.spec.End != e {
				return fail("lookup-by-id", fmt.Sprintf("GetRegion(%d) returned range [%x,%x), the model differs", p.ID, string(s), string(e)), nil, descEntry(x))
			}
		} else {
			// "adjacent" is only well defined for a probe that is a cached range or lies in a hole
			ov := m.overlaps(s, e)
			exact := len(ov) == 1 && ov[0].spec.Start == s && ov[0].spec.End == e
			if len(ov) > 0 && !exact {
				j.cnt.add("skipped_ambiguous", 1)
				return nil
			}
		}
		gp, gn := a.Regs[0], a.Regs[1]
		xp, xn := m.adjacent(s, e)
		if !j.same(gp, xp) || !j.same(gn, xn) {
			return fail("adjacent-regions", fmt.Sprintf("GetAdjacentRegions([%x,%x)) differs from a linear scan", string(s), string(e)),
				[]string{descInfo(gp), descInfo(gn)}, []string{descEntry(xp), descEntry(xn)})
		}
		if xp != nil || xn != nil {
			j.cnt.add("adjacent_nonnil", 1)
		}
	case "precheck":
		if a.Err != "" {
			j.cnt.add("precheck_errors_not_judged", 1) // admission decisions belong to C06
			return nil
		}
		if g, x := one(), m.get(p.ID); !j.same(g, x) {
			return fail("lookup-by-id", fmt.Sprintf("PreCheckPutRegion(id %d) returned an origin that differs from the model's region", p.ID), descInfo(g), descEntry(x))
		}
	case "avg":
		var want int64
		if len(m.es) > 0 {
			want = m.totalSize() / int64(len(m.es))
		}
		if g := a.Nums[0]; g != want {
			return fail("average-region-size", fmt.Sprintf("GetAverageRegionSize=%d, sum of sizes / regions = %d/%d = %d", g, m.totalSize(), len(m.es), want), g, want)
		}
	case "store":
		st := m.stat(p.Store)
		rc, rs := int64(st.LeaderCount+st.FollowerCount+st.LearnerCount), st.LeaderSize+st.FollowerSize+st.LearnerSize
		want := []int64{int64(st.LeaderCount), int64(st.FollowerCount), int64(st.LearnerCount), int64(st.PendingCount), rc, rc,
			st.LeaderSize, st.FollowerSize, st.LearnerSize, rs, rs}
		names := storeRowNames()
		for i := range want {
			if a.Nums[i] != want[i] && a.Nums[i] >= 0 {
				return fail(names[i], fmt.Sprintf("store %d: %s is %d, the current regions imply %d", p.Store, names[i], a.Nums[i], want[i]), a.Nums[i], want[i])
			}
		}
		if st.PendingCount > 0 {
			j.cnt.add("store_with_pending", 1)
		}
	case "storeset":
		want := m.storeRegions(p.Store)
		if !j.sameSet(a.Regs, want) {
			return fail("store-regions-set", fmt.Sprintf("GetStoreRegions(%d) differs from the regions with a peer on the store", p.Store), descInfos(a.Regs), descEntries(want))
		}
	case "storeinfo":
		// the statistics published into the store record (what schedulers read) after the last
		// status refresh of that store
		pub, ok := m.sinfo[p.Store]
		if a.Nums[0] == 0 {
			if ok {
				return fail("store-record-statistics", fmt.Sprintf("store %d has published statistics but GetStore returns nothing", p.Store), nil, pub)
			}
			return nil
		}
		want := []int64{1, int64(pub.LeaderCount), int64(pub.LeaderCount + pub.FollowerCount + pub.LearnerCount), int64(pub.PendingCount),
			pub.LeaderSize, pub.LeaderSize + pub.FollowerSize + pub.LearnerSize}
		names := []string{"", "leader count", "region count", "pending peer count", "leader size", "region size"}
		for i := 1; i < len(want); i++ {
			if a.Nums[i] != want[i] {
				return fail("store-record-statistics", fmt.Sprintf("store %d: %s in the store record is %d, the statistics published at the last refresh were %d", p.Store, names[i], a.Nums[i], want[i]), a.Nums, want)
			}
		}
		if ok {
			j.cnt.add("storeinfo_published_checked", 1)
		}
	case "rand":
		cands := m.candidates(p.Role, p.Store, p.Ranges)
		ndraws, nmany := int(a.Nums[0]), int(a.Nums[1])
		if nmany > 4 {
			return fail("rand-pick-outside-candidates:"+p.Role, "Rand*Regions(n=4) returned more than 4 regions", nmany, 4)
		}
		for i, g := range a.Regs {
			via := "Rand*Region"
			inMany := i >= ndraws && i < ndraws+nmany
			if inMany {
				via = "Rand*Regions"
			} else if i >= ndraws+nmany {
				via = "BasicCluster.Rand*Region"
			}
			j.cnt.add("rand_draws", 1)
			if g == nil {
				if inMany {
					return fail("rand-pick-outside-candidates:"+p.Role, "Rand*Regions returned a nil element", nil, nil)
				}
				j.cnt.add("rand_draws_nil", 1)
				continue
			}
			if j.inCands(g, cands) < 0 {
				return fail("rand-pick-outside-candidates:"+p.Role, fmt.Sprintf("%s for store %d returned a region that is not a %s candidate within the ranges", via, p.Store, p.Role), descInfo(g), descEntries(cands))
			}
		}
		if len(cands) == 0 {
			j.cnt.add("rand_empty_candidate_sets", 1)
		}
	default:
		return fail("harness:unknown-probe", "harness: unknown probe kind "+p.Kind, nil, nil)
	}
	return nil
}

// eval runs one probe against pd and the current model (sequential use).
func (w *world) eval(p *probe) *failure {
	w.probes[p.Kind]++
	j := &judger{m: w.m, cnt: w.cnt}
	fail := func(class, what string, got, want interface{}) *failure {
		return &failure{Class: class, What: what, Probe: p, Got: got, Want: want}
	}
	switch p.Kind {
	case "ids":
		// composite: lookup of every id, the whole set, the cloned metas, and the content of every
		// cached object and of every object handed out earlier (read-only once created)
		for id := uint64(1); id <= p.MaxID; id++ {
			q := &probe{Kind: "getregion", ID: id}
			if f := j.judge(q, w.fetch(q)); f != nil {
				return f
			}
		}
		for _, k := range []string{"allregions", "metacount"} {
			q := &probe{Kind: k}
			if f := j.judge(q, w.fetch(q)); f != nil {
				return f
			}
		}
		fallthrough
	case "content":
		for _, e := range w.m.es {
			if p.ID != 0 && e.spec.ID != p.ID {
				continue
			}
			if !infoMatchesSpec(e.info, e.spec) {
				return fail("cached-region-object-changed", fmt.Sprintf("the cached object of region %d no longer says what was put", e.spec.ID), canonInfo(e.info), canonSpec(e.spec))
			}
		}
		for i, h := range w.held {
			if h.info == nil || (p.ID != 0 && i%12 != int(w.probes["content"])%12) {
				continue // per operation: a rotating twelfth of the objects; in sweeps: all
			}
			if !infoMatchesSpec(h.info, h.spec) {
				return fail("returned-region-object-changed", "a region object obtained earlier from the cache was modified afterwards (regions are read-only once created)", canonInfo(h.info), canonSpec(h.spec))
			}
		}
		w.cnt.add("content_checks", 1)
		return nil
	case "randcover":
		return w.randcover(p)
	}
	return j.judge(p, w.fetch(p))
}

func (w *world) hold(e *entry) {
	if e == nil || e.info == nil {
		return
	}
	h := held{info: e.info, spec: e.spec, sig: sigSpec(e.spec)}
	if len(w.held) < 48 {
		w.held = append(w.held, h)
		return
	}
	w.held[w.heldN%48] = h
	w.heldN++
}

func (w *world) randcover(p *probe) (f *failure) {
	defer func() {
		if x := recover(); x != nil {
			f = &failure{Class: "panic:rand", What: fmt.Sprintf("pd panicked while answering a rand query: %v", x), Probe: p, Got: tailStack()}
		}
	}()
	j := &judger{m: w.m, cnt: w.cnt}
	cands := w.m.candidates(p.Role, p.Store, p.Ranges)
	if len(cands) == 0 || len(cands) > 8 {
		return nil
	}
	kr := keyRanges(p.Ranges)
	seen := make([]bool, len(cands))
	left := len(cands)
	max := 400 * len(cands)
	draws := 0
	for draws < max && left > 0 {
		draws++
		g := w.randOne(p.Role, p.Store, kr)
		if g == nil {
			continue
		}
		i := j.inCands(g, cands)
		if i < 0 {
			return &failure{Class: "rand-pick-outside-candidates:" + p.Role, What: fmt.Sprintf("Rand*Region for store %d returned a region that is not a %s candidate within the ranges", p.Store, p.Role), Probe: p, Got: descInfo(g), Want: descEntries(cands)}
		}
		if !seen[i] {
			seen[i] = true
			left--
		}
	}
	w.count("rand_draws", int64(draws))
	w.count("rand_coverage_sets", 1)
	w.count(fmt.Sprintf("rand_coverage_sets_size_%d", len(cands)), 1)
	if left > 0 {
		var missing []*entry
		for i, s := range seen {
			if !s {
				missing = append(missing, cands[i])
			}
		}
		return &failure{Class: "rand-pick-candidate-never-picked:" + p.Role, What: fmt.Sprintf("%d of %d %s candidates of store %d were never picked in %d draws", left, len(cands), p.Role, p.Store, draws), Probe: p, Got: descEntries(missing), Want: descEntries(cands)}
	}
	return nil
}
