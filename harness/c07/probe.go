package main

// Probes: every comparison between pd (core.BasicCluster / core.RegionsInfo) and the model is one
// probe value that can be evaluated again later (witness shrinking, replay).

import (
	"fmt"
	"sort"

	"github.com/pingcap/kvproto/pkg/metapb"
	"github.com/tikv/pd/server/core"
)

type probe struct {
	Kind   string      `json:"kind"`
	Key    hexkey      `json:"key,omitempty"`
	Start  hexkey      `json:"start,omitempty"`
	End    hexkey      `json:"end,omitempty"`
	Limit  int         `json:"limit,omitempty"`
	Store  uint64      `json:"store,omitempty"`
	Role   string      `json:"role,omitempty"`
	Ranges [][2]hexkey `json:"ranges,omitempty"`
	ID     uint64      `json:"id,omitempty"`
	Draws  int         `json:"draws,omitempty"`
	MaxID  uint64      `json:"max_id,omitempty"`
}

type failure struct {
	Class string      `json:"class"` // stable classifier of the failing query kind
	What  string      `json:"what"`
	Probe *probe      `json:"probe,omitempty"`
	Got   interface{} `json:"got,omitempty"`
	Want  interface{} `json:"want,omitempty"`
}

// world = pd objects under test + the model + observation counters.
type world struct {
	bc      *core.BasicCluster
	ri      *core.RegionsInfo
	m       *model
	cnt     map[string]int64
	probes  map[string]int64
	probeID uint64 // id used for synthetic probe regions (never a cached id)
}

func newWorld() *world {
	bc := core.NewBasicCluster()
	return &world{bc: bc, ri: bc.Regions, m: newModel(), cnt: map[string]int64{}, probes: map[string]int64{}, probeID: 1 << 40}
}

func (w *world) count(k string, n int64) { w.cnt[k] += n }

func descInfo(r *core.RegionInfo) string {
	if r == nil {
		return "<nil>"
	}
	s := fmt.Sprintf("r%d[%x,%x) size=%d leader=p%d {", r.GetID(), r.GetStartKey(), r.GetEndKey(), r.GetApproximateSize(), r.GetLeader().GetId())
	for _, p := range r.GetPeers() {
		s += fmt.Sprintf("p%d@s%d", p.GetId(), p.GetStoreId())
		if p.GetRole() == metapb.PeerRole_Learner {
			s += "L"
		}
		s += " "
	}
	s += "} pending="
	for _, p := range r.GetPendingPeers() {
		s += fmt.Sprintf("p%d ", p.GetId())
	}
	return s
}

func descInfos(rs []*core.RegionInfo) []string {
	out := make([]string, 0, len(rs))
	for _, r := range rs {
		out = append(out, descInfo(r))
	}
	return out
}

func descEntry(e *entry) string {
	if e == nil {
		return "<nil>"
	}
	return e.spec.String()
}

func descEntries(es []*entry) []string {
	out := make([]string, 0, len(es))
	for _, e := range es {
		out = append(out, descEntry(e))
	}
	return out
}

// same: pd returned exactly the current information of the model's region (or both nothing).
// A different object with identical content is indistinguishable for the statement and accepted.
func (w *world) same(got *core.RegionInfo, want *entry) bool {
	if want == nil {
		return got == nil
	}
	if got == nil {
		return false
	}
	if got == want.info {
		return true
	}
	if descInfo(got) == descInfo(want.info) {
		w.count("same_content_other_object", 1)
		return true
	}
	return false
}

func (w *world) sameSeq(got []*core.RegionInfo, want []*entry) bool {
	if len(got) != len(want) {
		return false
	}
	for i := range got {
		if !w.same(got[i], want[i]) {
			return false
		}
	}
	return true
}

// sameSet compares as multisets (ordered by region id).
func (w *world) sameSet(got []*core.RegionInfo, want []*entry) bool {
	if len(got) != len(want) {
		return false
	}
	for _, g := range got {
		if g == nil {
			return false
		}
	}
	g := append([]*core.RegionInfo(nil), got...)
	x := append([]*entry(nil), want...)
	sort.SliceStable(g, func(i, j int) bool { return g[i].GetID() < g[j].GetID() })
	sort.SliceStable(x, func(i, j int) bool { return x[i].spec.ID < x[j].spec.ID })
	return w.sameSeq(g, x)
}

func (w *world) probeRegion(s, e hexkey) *core.RegionInfo {
	return core.NewRegionInfo(&metapb.Region{Id: w.probeID, StartKey: []byte(s), EndKey: []byte(e)}, nil)
}

func keyRanges(rs [][2]hexkey) []core.KeyRange {
	if rs == nil {
		return nil
	}
	out := make([]core.KeyRange, 0, len(rs))
	for _, r := range rs {
		out = append(out, core.NewKeyRange(string(r[0]), string(r[1])))
	}
	return out
}

func (w *world) randOne(role string, store uint64, ranges []core.KeyRange) *core.RegionInfo {
	switch role {
	case "leader":
		return w.ri.RandLeaderRegion(store, ranges)
	case "follower":
		return w.ri.RandFollowerRegion(store, ranges)
	case "learner":
		return w.ri.RandLearnerRegion(store, ranges)
	}
	return w.ri.RandPendingRegion(store, ranges)
}

func (w *world) randMany(role string, store uint64, ranges []core.KeyRange, n int) []*core.RegionInfo {
	switch role {
	case "leader":
		return w.ri.RandLeaderRegions(store, ranges, n)
	case "follower":
		return w.ri.RandFollowerRegions(store, ranges, n)
	case "learner":
		return w.ri.RandLearnerRegions(store, ranges, n)
	}
	return w.ri.RandPendingRegions(store, ranges, n)
}

func (w *world) randCluster(role string, store uint64, ranges []core.KeyRange) *core.RegionInfo {
	switch role {
	case "leader":
		return w.bc.RandLeaderRegion(store, ranges)
	case "follower":
		return w.bc.RandFollowerRegion(store, ranges)
	case "learner":
		return w.bc.RandLearnerRegion(store, ranges)
	}
	return w.bc.RandPendingRegion(store, ranges)
}

func inCands(w *world, got *core.RegionInfo, cands []*entry) int {
	for i, c := range cands {
		if got == c.info {
			return i
		}
	}
	for i, c := range cands {
		if c.spec.ID == got.GetID() && w.same(got, c) {
			return i
		}
	}
	return -1
}

// eval runs one probe against pd and the model. nil = agreement (or probe not judged).
func (w *world) eval(p *probe) (f *failure) {
	defer func() {
		if x := recover(); x != nil {
			f = &failure{Class: "panic:" + p.Kind, What: fmt.Sprintf("pd panicked while answering a %s query: %v", p.Kind, x), Probe: p, Got: tailStack()}
		}
	}()
	w.probes[p.Kind]++
	m := w.m
	fail := func(class, what string, got, want interface{}) *failure {
		return &failure{Class: class, What: what, Probe: p, Got: got, Want: want}
	}
	switch p.Kind {
	case "counts":
		n := len(m.es)
		if g := w.bc.GetRegionCount(); g != n {
			return fail("count:cached-regions", fmt.Sprintf("GetRegionCount=%d, model holds %d regions", g, n), g, n)
		}
		if g := w.ri.Len(); g != n {
			return fail("count:cached-regions", fmt.Sprintf("RegionsInfo.Len=%d, model holds %d regions", g, n), g, n)
		}
		if g := w.ri.TreeLen(); g != n {
			return fail("count:indexed-regions", fmt.Sprintf("TreeLen (indexed regions)=%d, cached regions=%d", g, n), g, n)
		}
	case "ids":
		if g, n := len(w.bc.GetMetaRegions()), len(m.es); g != n {
			return fail("count:cached-regions", fmt.Sprintf("len(GetMetaRegions)=%d, model holds %d regions", g, n), g, n)
		}
		for id := uint64(1); id <= p.MaxID; id++ {
			if g, x := w.bc.GetRegion(id), m.get(id); !w.same(g, x) {
				return fail("lookup-by-id", fmt.Sprintf("GetRegion(%d) differs from the model", id), descInfo(g), descEntry(x))
			}
		}
		if g := w.bc.GetRegions(); !w.sameSet(g, m.es) {
			return fail("lookup-by-id", "GetRegions differs from the model's region set", descInfos(g), descEntries(m.es))
		}
	case "search":
		g, x := w.bc.SearchRegion([]byte(p.Key)), m.search(p.Key)
		if !w.same(g, x) {
			return fail("search-region", fmt.Sprintf("SearchRegion(%x) differs from a linear scan", string(p.Key)), descInfo(g), descEntry(x))
		}
		if x == nil {
			w.count("search_in_hole", 1)
		}
	case "searchprev":
		g, x := w.bc.SearchPrevRegion([]byte(p.Key)), m.searchPrev(p.Key)
		if !w.same(g, x) {
			return fail("search-prev-region", fmt.Sprintf("SearchPrevRegion(%x) differs from a linear scan", string(p.Key)), descInfo(g), descEntry(x))
		}
		if x != nil {
			w.count("searchprev_nonnil", 1)
		}
	case "scan":
		if p.End != "" && p.Start >= p.End {
			w.count("skipped_ambiguous", 1) // empty / inverted interval: not defined by the statement
			return nil
		}
		g, x := w.bc.ScanRange([]byte(p.Start), []byte(p.End), p.Limit), m.scan(p.Start, p.End, p.Limit)
		if !w.sameSeq(g, x) {
			cl := "scan-range:unlimited"
			if p.Limit > 0 {
				cl = "scan-range:limited"
			}
			return fail(cl, fmt.Sprintf("ScanRange(%x,%x,%d) differs from a linear scan", string(p.Start), string(p.End), p.Limit), descInfos(g), descEntries(x))
		}
		if p.Limit > 0 && len(x) == p.Limit {
			w.count("scan_limit_reached", 1)
		}
	case "scaniter":
		var g []*core.RegionInfo
		w.ri.ScanRangeWithIterator([]byte(p.Start), func(r *core.RegionInfo) bool { g = append(g, r); return true })
		x := m.scan(p.Start, "", 0)
		if !w.sameSeq(g, x) {
			return fail("scan-range:iterator", fmt.Sprintf("ScanRangeWithIterator(%x) differs from a linear scan", string(p.Start)), descInfos(g), descEntries(x))
		}
	case "overlaps":
		var pr *core.RegionInfo
		s, e := p.Start, p.End
		if p.ID != 0 {
			x := m.get(p.ID)
			if x == nil {
				return nil
			}
			pr, s, e = x.info, x.spec.Start, x.spec.End
		} else {
			if e != "" && s >= e {
				w.count("skipped_ambiguous", 1)
				return nil
			}
			pr = w.probeRegion(s, e)
		}
		g, x := w.bc.GetOverlaps(pr), m.overlaps(s, e)
		if !w.sameSet(g, x) {
			return fail("get-overlaps", fmt.Sprintf("GetOverlaps([%x,%x)) differs from a linear scan", string(s), string(e)), descInfos(g), descEntries(x))
		}
		if len(x) > 1 {
			w.count("overlaps_multi", 1)
		}
	case "adjacent":
		var pr *core.RegionInfo
		s, e := p.Start, p.End
		if p.ID != 0 {
			x := m.get(p.ID)
			if x == nil {
				return nil
			}
			pr, s, e = x.info, x.spec.Start, x.spec.End
		} else {
			if e != "" && s >= e {
				w.count("skipped_ambiguous", 1)
				return nil
			}
			// "adjacent" is only well defined for a probe that is a cached range or lies in a hole
			ov := m.overlaps(s, e)
			exact := len(ov) == 1 && ov[0].spec.Start == s && ov[0].spec.End == e
			if len(ov) > 0 && !exact {
				w.count("skipped_ambiguous", 1)
				return nil
			}
			pr = w.probeRegion(s, e)
		}
		gp, gn := w.bc.GetAdjacentRegions(pr)
		xp, xn := m.adjacent(s, e)
		if !w.same(gp, xp) || !w.same(gn, xn) {
			return fail("adjacent-regions", fmt.Sprintf("GetAdjacentRegions([%x,%x)) differs from a linear scan", string(s), string(e)),
				[]string{descInfo(gp), descInfo(gn)}, []string{descEntry(xp), descEntry(xn)})
		}
		if xp != nil || xn != nil {
			w.count("adjacent_nonnil", 1)
		}
	case "avg":
		var want int64
		if len(m.es) > 0 {
			want = m.totalSize() / int64(len(m.es))
		}
		if g := w.bc.GetAverageRegionSize(); g != want {
			return fail("average-region-size", fmt.Sprintf("GetAverageRegionSize=%d, sum of sizes / regions = %d/%d = %d", g, m.totalSize(), len(m.es), want), g, want)
		}
	case "store":
		st := m.stat(p.Store)
		s := p.Store
		type row struct {
			class string
			got   int64
			want  int64
		}
		rows := []row{
			{"store-leader-count", int64(w.bc.GetStoreLeaderCount(s)), int64(st.LeaderCount)},
			{"store-follower-count", int64(w.bc.GetStoreFollowerCount(s)), int64(st.FollowerCount)},
			{"store-learner-count", int64(w.ri.GetStoreLearnerCount(s)), int64(st.LearnerCount)},
			{"store-pending-count", int64(w.bc.GetStorePendingPeerCount(s)), int64(st.PendingCount)},
			{"store-region-count", int64(w.bc.GetStoreRegionCount(s)), int64(st.LeaderCount + st.FollowerCount + st.LearnerCount)},
			{"store-region-count", int64(w.ri.GetStoreRegionCount(s)), int64(st.LeaderCount + st.FollowerCount + st.LearnerCount)},
			{"store-leader-size", w.bc.GetStoreLeaderRegionSize(s), st.LeaderSize},
			{"store-follower-size", w.ri.GetStoreFollowerRegionSize(s), st.FollowerSize},
			{"store-learner-size", w.ri.GetStoreLearnerRegionSize(s), st.LearnerSize},
			{"store-region-size", w.bc.GetStoreRegionSize(s), st.LeaderSize + st.FollowerSize + st.LearnerSize},
			{"store-region-size", w.ri.GetStoreRegionSize(s), st.LeaderSize + st.FollowerSize + st.LearnerSize},
		}
		for _, r := range rows {
			if r.got != r.want {
				return fail(r.class, fmt.Sprintf("store %d: %s is %d, the current regions imply %d", s, r.class, r.got, r.want), r.got, r.want)
			}
		}
		if st.PendingCount > 0 {
			w.count("store_with_pending", 1)
		}
	case "storeset":
		want := m.storeRegions(p.Store)
		if g := w.bc.GetStoreRegions(p.Store); !w.sameSet(g, want) {
			return fail("store-regions-set", fmt.Sprintf("GetStoreRegions(%d) differs from the regions with a peer on the store", p.Store), descInfos(g), descEntries(want))
		}
	case "rand":
		cands := m.candidates(p.Role, p.Store, p.Ranges)
		kr := keyRanges(p.Ranges)
		judge := func(g *core.RegionInfo, via string) *failure {
			w.count("rand_draws", 1)
			if g == nil {
				w.count("rand_draws_nil", 1)
				return nil
			}
			if inCands(w, g, cands) < 0 {
				return fail("rand-pick-outside-candidates:"+p.Role, fmt.Sprintf("%s for store %d returned a region that is not a %s candidate within the ranges", via, p.Store, p.Role), descInfo(g), descEntries(cands))
			}
			return nil
		}
		for i := 0; i < p.Draws; i++ {
			if f := judge(w.randOne(p.Role, p.Store, kr), "Rand*Region"); f != nil {
				return f
			}
		}
		many := w.randMany(p.Role, p.Store, kr, 4)
		if len(many) > 4 {
			return fail("rand-pick-outside-candidates:"+p.Role, "Rand*Regions(n=4) returned more than 4 regions", len(many), 4)
		}
		for _, g := range many {
			if g == nil {
				return fail("rand-pick-outside-candidates:"+p.Role, "Rand*Regions returned a nil element", nil, nil)
			}
			if f := judge(g, "Rand*Regions"); f != nil {
				return f
			}
		}
		if f := judge(w.randCluster(p.Role, p.Store, kr), "BasicCluster.Rand*Region"); f != nil {
			return f
		}
		if len(cands) == 0 {
			w.count("rand_empty_candidate_sets", 1)
		}
	case "randcover":
		cands := m.candidates(p.Role, p.Store, p.Ranges)
		if len(cands) == 0 || len(cands) > 8 {
			return nil
		}
		kr := keyRanges(p.Ranges)
		seen := make([]bool, len(cands))
		left := len(cands)
		max := 400 * len(cands)
		draws := 0
		for draws < max && left > 0 {
			draws++
			g := w.randOne(p.Role, p.Store, kr)
			if g == nil {
				continue
			}
			i := inCands(w, g, cands)
			if i < 0 {
				return fail("rand-pick-outside-candidates:"+p.Role, fmt.Sprintf("Rand*Region for store %d returned a region that is not a %s candidate within the ranges", p.Store, p.Role), descInfo(g), descEntries(cands))
			}
			if !seen[i] {
				seen[i] = true
				left--
			}
		}
		w.count("rand_draws", int64(draws))
		w.count("rand_coverage_sets", 1)
		w.count(fmt.Sprintf("rand_coverage_sets_size_%d", len(cands)), 1)
		if left > 0 {
			var missing []*entry
			for i, s := range seen {
				if !s {
					missing = append(missing, cands[i])
				}
			}
			return fail("rand-pick-candidate-never-picked:"+p.Role, fmt.Sprintf("%d of %d %s candidates of store %d were never picked in %d draws", left, len(cands), p.Role, p.Store, draws), descEntries(missing), descEntries(cands))
		}
	default:
		panic("harness: unknown probe kind " + p.Kind)
	}
	return nil
}
