package main

import (
	"fmt"
	"math/rand"
	"os"
	"sync"
	"sync/atomic"
	"time"

	"github.com/pingcap/kvproto/pkg/metapb"
	"github.com/tikv/pd/server/core"
	"verif/harness/lib/hist"
	"verif/harness/lib/kvx"
	"verif/harness/lib/sched"
)

// Gated two-worker phases. Every storage operation of the two workers parks at a gate (kvx
// Gate/Done + lib/sched, Stagger); both start orders and, depth-first, all release orders are
// executed. Each worker observes the served stores right after each of its operations is
// acknowledged; the chain of observations (before, after each acknowledgement in clock order,
// after both workers finished) is judged pairwise by the oracles of the sequential histories; a
// pair of observations that is overlapped by two operations may differ by two allowed moves.
//
//	heartbeat-race : gRPC StoreHeartbeat of store X that flushes (first heartbeat after a reload)
//	                 against one lifecycle operation (sequence) on X; additionally what the
//	                 lifecycle worker saw at its last acknowledgement is final (a heartbeat never
//	                 changes state, flags, address, labels, weights)
//	lifecycle-race : two lifecycle operations of different kinds on the same store, on two stores
//	                 competing for one address, a leader-change style reload against an operation,
//	                 and the background check working on a snapshot of several offline stores
//	                 against an operation on one of them
//
// Fault variants put a fail-before / lost-ack on the n-th store-record write of one chosen worker
// inside the race.
const raceTag = "heartbeat-race"
const lifeTag = "lifecycle-race"

// address-race: three workers. W = some operation on a third store, parked inside its storage
// write while it holds the cluster lock; P1, P2 = two registrations that want the same address,
// started while W is parked so that both queue behind it and are let go together when W is
// released; then all remaining release orders.
const addrTag = "address-race"

type raceWorker struct {
	Name string  `json:"name"`
	Ops  []*step `json:"ops"`
}

type raceFault struct {
	Worker int `json:"worker"`
	Mode   int `json:"mode"` // 1 fail-before, 2 lost-ack
	N      int `json:"nth_store_record_write_of_that_worker"`
}

type raceObs struct {
	Tick    int64  `json:"tick"`
	Worker  string `json:"worker"`
	AfterOp string `json:"after_op"`
	Served  snap   `json:"served"`
}

type raceInfo struct {
	Family   string        `json:"family"`
	Case     string        `json:"case"`
	Order    string        `json:"start_order"`
	Workers  []*raceWorker `json:"workers"`
	Fault    *raceFault    `json:"fault,omitempty"`
	Schedule []sched.Info  `json:"released_storage_ops"`
	Obs      []raceObs     `json:"observations"`
	Flushed  bool          `json:"heartbeat_flushed,omitempty"`
	Blocked  int           `json:"quiescence_by_settle_rule"`
}

type raceCase struct {
	name  string
	setup func() []*step   // sequential, fault-free, judged as usual
	w     func() [][]*step // operations of worker 0, 1 (, 2)
	names []string
}

const rX = uint64(2)
const rXAddr = "tikv-a:20160"

func lbl(k, v string) []*metapb.StoreLabel { return []*metapb.StoreLabel{{Key: k, Value: v}} }

func putX() *step {
	return &step{Cmd: "put", Via: "grpc", ID: rX, Addr: rXAddr, Version: "5.0.0", Labels: lbl("zone", "z1")}
}
func putN(id uint64, addr string) *step {
	return &step{Cmd: "put", Via: "grpc", ID: id, Addr: addr, Version: "5.0.0"}
}
func one(st *step) []*step { return []*step{st} }

func heartbeatCases() []raceCase {
	up := func() []*step { return []*step{putX(), {Cmd: "reload"}} }
	off := func() []*step { return []*step{putX(), {Cmd: "remove", ID: rX}, {Cmd: "reload"}} }
	hb := func() []*step { return one(&step{Cmd: "storehb", ID: rX}) }
	mk := func(name string, setup func() []*step, l func() []*step) raceCase {
		return raceCase{name: name, setup: setup, names: []string{"heartbeat", "lifecycle"}, w: func() [][]*step { return [][]*step{hb(), l()} }}
	}
	return []raceCase{
		mk("remove", up, func() []*step { return one(&step{Cmd: "remove", ID: rX}) }),
		mk("remove-destroyed", up, func() []*step { return one(&step{Cmd: "remove", ID: rX, Destroyed: true}) }),
		mk("remove-destroyed+replacement", up, func() []*step {
			return []*step{{Cmd: "remove", ID: rX, Destroyed: true}, putN(3, rXAddr)}
		}),
		mk("up", off, func() []*step { return one(&step{Cmd: "up", ID: rX}) }),
		mk("destroy-offline", off, func() []*step { return one(&step{Cmd: "remove", ID: rX, Destroyed: true}) }),
		mk("bury", off, func() []*step { return one(&step{Cmd: "bury", ID: rX}) }),
		mk("checkstores", off, func() []*step { return one(&step{Cmd: "checkstores"}) }),
		mk("bury+cleanup", off, func() []*step { return []*step{{Cmd: "bury", ID: rX}, {Cmd: "rmtomb"}} }),
		mk("bury+replacement", off, func() []*step { return []*step{{Cmd: "bury", ID: rX}, putN(3, rXAddr)} }),
		mk("put-same-id", up, func() []*step {
			return one(&step{Cmd: "put", Via: "grpc", ID: rX, Addr: "tikv-b:20160", Version: "5.0.1", Labels: lbl("zone", "z2")})
		}),
		mk("labels", up, func() []*step { return one(&step{Cmd: "labels", ID: rX, Labels: lbl("rack", "r1"), Force: true}) }),
		mk("weight", up, func() []*step { return one(&step{Cmd: "weight", ID: rX, LW: 2, RW: 0.5}) }),
		mk("reload-leader-change", up, func() []*step { return one(&step{Cmd: "reloadlc"}) }),
		// the first heartbeat after the registration (no reload in between) flushes as well
		mk("remove/first-heartbeat-after-registration", func() []*step { return []*step{putX()} }, func() []*step { return one(&step{Cmd: "remove", ID: rX, Destroyed: true}) }),
		mk("bury/first-heartbeat-after-registration", func() []*step { return []*step{putX(), {Cmd: "remove", ID: rX}} }, func() []*step { return one(&step{Cmd: "bury", ID: rX}) }),
		mk("put-same-id/first-heartbeat-after-registration", func() []*step { return []*step{putX()} }, func() []*step {
			return one(&step{Cmd: "put", Via: "grpc", ID: rX, Addr: "tikv-b:20160", Version: "5.0.1", Labels: lbl("zone", "z2")})
		}),
	}
}

func lifecycleCases() []raceCase {
	up := func() []*step { return []*step{putX()} }
	off := func() []*step { return []*step{putX(), {Cmd: "remove", ID: rX}} }
	tomb := func() []*step { return []*step{putX(), {Cmd: "remove", ID: rX}, {Cmd: "checkstores"}} }
	moveX := func(via string) *step {
		return &step{Cmd: "put", Via: via, ID: rX, Addr: "tikv-b:20160", Version: "5.0.1", Labels: lbl("zone", "z2")}
	}
	mk := func(name string, setup func() []*step, a, b func() *step) raceCase {
		return raceCase{name: name, setup: setup, names: []string{"A", "B"}, w: func() [][]*step { return [][]*step{one(a()), one(b())} }}
	}
	rm := func(d bool) func() *step { return func() *step { return &step{Cmd: "remove", ID: rX, Destroyed: d} } }
	upX := func() *step { return &step{Cmd: "up", ID: rX} }
	bury := func() *step { return &step{Cmd: "bury", ID: rX} }
	check := func() *step { return &step{Cmd: "checkstores"} }
	rmtomb := func() *step { return &step{Cmd: "rmtomb"} }
	relc := func() *step { return &step{Cmd: "reloadlc"} }
	return []raceCase{
		// same store
		mk("put-same-id|remove", up, func() *step { return moveX("grpc") }, rm(false)),
		mk("put-same-id|remove-destroyed", up, func() *step { return moveX("cluster") }, rm(true)),
		mk("put-same-id|bury", off, func() *step { return moveX("grpc") }, bury),
		mk("up|bury", off, upX, bury),
		mk("up|checkstores", off, upX, check),
		mk("remove|checkstores", up, rm(false), check),
		mk("remove-destroyed|up", off, rm(true), upX),
		mk("remove|remove-destroyed", up, rm(false), rm(true)),
		mk("cleanup|cluster-put-same-id", tomb, rmtomb, func() *step { return moveX("cluster") }),
		mk("cleanup|grpc-put-same-id", tomb, rmtomb, func() *step { return moveX("grpc") }),
		mk("labels|put-same-id", up, func() *step { return &step{Cmd: "labels", ID: rX, Labels: lbl("rack", "r1")} }, func() *step { return moveX("grpc") }),
		mk("weight|remove", up, func() *step { return &step{Cmd: "weight", ID: rX, LW: 2, RW: 0.5} }, rm(false)),
		mk("reload-leader-change|remove", up, relc, rm(true)),
		mk("reload-leader-change|bury", off, relc, bury),
		// two stores and one address
		mk("put-new|put-new-same-address", up, func() *step { return putN(3, "tikv-c:20160") }, func() *step { return putN(4, "tikv-c:20160") }),
		mk("put-new-on-address|remove-destroyed-its-holder", up, func() *step { return putN(3, rXAddr) }, rm(true)),
		mk("put-new-on-address|bury-its-holder", off, func() *step { return putN(3, rXAddr) }, bury),
		mk("put-new-on-address|up-its-holder", off, func() *step { return putN(3, rXAddr) }, upX),
		mk("move-to-address|put-new-on-it", up, func() *step { return moveX("grpc") }, func() *step { return putN(3, "tikv-b:20160") }),
		mk("move-to-address|move-other-to-it", func() []*step { return []*step{putX(), putN(3, "tikv-c:20160")} },
			func() *step { return moveX("grpc") }, func() *step { return &step{Cmd: "put", Via: "grpc", ID: 3, Addr: "tikv-b:20160", Version: "5.0.0"} }),
		// the background check works on a snapshot of several offline empty stores
		mk("checkstores-snapshot|up-one-of-them", func() []*step {
			return []*step{putX(), putN(3, "tikv-c:20160"), putN(4, "tikv-d:20160"), putN(5, "tikv-e:20160"),
				{Cmd: "remove", ID: rX}, {Cmd: "remove", ID: 3}, {Cmd: "remove", ID: 4}, {Cmd: "remove", ID: 5}}
		}, check, upX),
		mk("checkstores-snapshot|destroy-one-of-them", func() []*step {
			return []*step{putX(), putN(3, "tikv-c:20160"), putN(4, "tikv-d:20160"),
				{Cmd: "remove", ID: rX}, {Cmd: "remove", ID: 3}, {Cmd: "remove", ID: 4}}
		}, check, rm(true)),
	}
}

func addressCases(thorough bool) []raceCase {
	// The registrations enter at RaftCluster.PutStore - what the gRPC handler calls after its own
	// checks - so that both queue on the first cluster lock a registration takes, not on the
	// read-locked IsRunning test of the handler (after which they would run free and race in real
	// time). thorough also runs them through the handler.
	putN := func(id uint64, addr string) *step {
		return &step{Cmd: "put", Via: "cluster", ID: id, Addr: addr, Version: "5.0.0"}
	}
	moveX := func() *step {
		return &step{Cmd: "put", Via: "cluster", ID: rX, Addr: "tikv-b:20160", Version: "5.0.1", Labels: lbl("zone", "z2")}
	}
	type holder struct {
		name  string
		setup func() []*step // after the common setup
		op    func() *step
	}
	holders := []holder{
		{"weight", nil, func() *step { return &step{Cmd: "weight", ID: 1, LW: 2, RW: 0.5} }},
		{"heartbeat-flush", func() []*step { return []*step{{Cmd: "reload"}} }, func() *step { return &step{Cmd: "storehb", ID: 1} }},
		{"remove", func() []*step { return []*step{putN(6, "tikv-f:20160")} }, func() *step { return &step{Cmd: "remove", ID: 6} }},
		{"bury", func() []*step { return []*step{putN(6, "tikv-f:20160"), {Cmd: "remove", ID: 6}} }, func() *step { return &step{Cmd: "bury", ID: 6} }},
	}
	type pair struct {
		name  string
		setup func() []*step
		a, b  func() *step
	}
	up := func() []*step { return []*step{putX()} }
	pairs := []pair{
		{"put-new|put-new-same-address", up, func() *step { return putN(3, "tikv-c:20160") }, func() *step { return putN(4, "tikv-c:20160") }},
		{"move-to-address|put-new-on-it", up, moveX, func() *step { return putN(3, "tikv-b:20160") }},
		{"move-to-address|move-other-to-it", func() []*step { return []*step{putX(), putN(3, "tikv-c:20160")} }, moveX,
			func() *step { return &step{Cmd: "put", Via: "cluster", ID: 3, Addr: "tikv-b:20160", Version: "5.0.0"} }},
		{"up-offline-holder|put-new-on-address", func() []*step { return []*step{putX(), {Cmd: "remove", ID: rX}} },
			func() *step { return &step{Cmd: "up", ID: rX} }, func() *step { return putN(3, rXAddr) }},
		{"up-destroyed-holder|put-new-on-address", func() []*step { return []*step{putX(), {Cmd: "remove", ID: rX, Destroyed: true}} },
			func() *step { return &step{Cmd: "up", ID: rX} }, func() *step { return putN(3, rXAddr) }},
	}
	var out []raceCase
	for pi, p := range pairs {
		for hi, h := range holders {
			if !thorough && pi > 0 && hi > 0 {
				continue // quick: every holder with the first pair, every pair with the first holder
			}
			p, h := p, h
			out = append(out, raceCase{name: h.name + "-holds-lock|" + p.name, names: []string{"W", "P1", "P2"},
				setup: func() []*step {
					l := p.setup()
					if h.setup != nil {
						l = append(l, h.setup()...)
					}
					return l
				},
				w: func() [][]*step { return [][]*step{one(h.op()), one(p.a()), one(p.b())} }})
			if thorough && hi == 0 {
				out = append(out, raceCase{name: h.name + "-holds-lock|" + p.name + "|through-grpc", names: []string{"W", "P1", "P2"},
					setup: out[len(out)-1].setup,
					w: func() [][]*step {
						a, b := p.a(), p.b()
						for _, st := range []*step{a, b} {
							if st.Cmd == "put" {
								st.Via = "grpc"
							}
						}
						return [][]*step{one(h.op()), one(a), one(b)}
					}})
			}
		}
	}
	return out
}

// store-writer-race: the store writers that do NOT take the cluster lock (AttachAvailableFunc from
// the operator controller / RemoveStoreLimit, PauseLeaderTransfer / ResumeLeaderTransfer from the
// evict-/grant-leader schedulers; they read-modify-write a StoreInfo under the BasicCluster lock
// only) against each lifecycle operation on the same store. These writers have no storage
// operation to park them at, so the window is widened the only way the program offers: the store
// carries a large generated label set (copying it takes long), the lifecycle operation is parked
// at its storage write, the writer starts, and the scheduler's settle rule releases the write while
// the writer is still copying. Judged like heartbeat-race (the writer never changes state, flags,
// address, labels, weights), then once more after a further store heartbeat.
const writerTag = "store-writer-race"

func writerCases(thorough bool, nLabels int) []raceCase {
	big := func() *step {
		st := putX()
		st.BigLabels = nLabels
		return st
	}
	up := func() []*step { return []*step{big()} }
	off := func() []*step { return []*step{big(), {Cmd: "remove", ID: rX}} }
	tomb := func() []*step { return []*step{big(), {Cmd: "remove", ID: rX}, {Cmd: "checkstores"}} }
	type life struct {
		name  string
		setup func() []*step
		op    func() *step
	}
	lifes := []life{
		{"remove-destroyed", up, func() *step { return &step{Cmd: "remove", ID: rX, Destroyed: true} }},
		{"remove", up, func() *step { return &step{Cmd: "remove", ID: rX} }},
		{"up", off, func() *step { return &step{Cmd: "up", ID: rX} }},
		{"bury", off, func() *step { return &step{Cmd: "bury", ID: rX} }},
		{"put-same-id", up, func() *step {
			return &step{Cmd: "put", Via: "cluster", ID: rX, Addr: "tikv-b:20160", Version: "5.0.1", BigLabels: nLabels}
		}},
		{"labels", up, func() *step { return &step{Cmd: "labels", ID: rX, Labels: lbl("rack", "r1"), Force: true} }},
		{"weight", up, func() *step { return &step{Cmd: "weight", ID: rX, LW: 2, RW: 0.5} }},
		{"cleanup", tomb, func() *step { return &step{Cmd: "rmtomb"} }},
	}
	writers := []string{"attach", "pause", "resume", "rmlimit"}
	var out []raceCase
	for li, l := range lifes {
		for wi, w := range writers {
			if !thorough && (li > 0 && wi > 0 || wi == 0 && (l.name == "remove" || l.name == "labels" || l.name == "weight") || w == "rmlimit") {
				continue // quick: attach with five lifecycle operations, pause / resume with the first one
			}
			l, w := l, w
			out = append(out, raceCase{name: w + "|" + l.name, names: []string{"store-writer", "lifecycle"},
				setup: func() []*step {
					st := l.setup()
					if w == "resume" {
						st = append(st, &step{Cmd: "pause", ID: rX})
					}
					return st
				},
				w: func() [][]*step { return [][]*step{one(&step{Cmd: w, ID: rX}), one(l.op())} }})
		}
	}
	return out
}

// calibrateLabels picks the size of the generated label set so that copying the store takes about
// a hundred milliseconds on this machine (exploration only: it widens a window, no verdict depends on it).
func calibrateLabels() int {
	const probe = 20000
	m := &metapb.Store{Id: 1}
	for i := 0; i < probe; i++ {
		m.Labels = append(m.Labels, &metapb.StoreLabel{Key: fmt.Sprintf("k%06d", i), Value: "v"})
	}
	si := core.NewStoreInfo(m)
	si.Clone() // warm-up: the first copy pays for the type information
	d := time.Duration(1 << 62)
	for i := 0; i < 3; i++ {
		t := time.Now()
		si.Clone()
		if x := time.Since(t); x < d {
			d = x
		}
	}
	if d <= 0 {
		d = time.Microsecond
	}
	n := int(float64(probe) * float64(90*time.Millisecond) / float64(d))
	if n < 4000 {
		n = 4000
	}
	if n > 400000 {
		n = 400000
	}
	return n
}

func (e *env) racePhase(md *model, rng *rand.Rand) {
	r := e.r
	n := 0
	run := func(tag string, c raceCase, order []int, fault *raceFault, ackFinal bool) bool {
		ex := &sched.Explorer{}
		for {
			ch := ex.Next()
			if ch == nil {
				return true
			}
			n++
			if err := e.resetWorld(md); err != nil {
				r.Inconclusive("%s %s/%v: %v", tag, c.name, order, err)
				return false
			}
			hs := &historyState{H: -1000 - n, Backend: e.backend, Script: fmt.Sprintf("%s/%s/start-order-%v", tag, c.name, order)}
			for _, st := range c.setup() {
				e.runStep(hs, st, nil, md)
				if e.lost != "" {
					return false
				}
				if st.Err != "" || st.PbErr != "" || st.Panic != "" {
					r.Inconclusive("%s setup %s/%s: %s%s%s", tag, c.name, st.Cmd, st.Err, st.PbErr, st.Panic)
					return false
				}
			}
			s := e.raceExec(tag, hs, md, c, order, fault, ackFinal, ch)
			if s == nil {
				return false
			}
			if tag == writerTag {
				// a stale served record would now be flushed to the storage
				e.runStep(hs, &step{Cmd: "storehb", ID: rX}, nil, md)
				if e.lost != "" {
					return false
				}
			}
			ex.Advance(s)
			if ex.Runs > 40 {
				r.Count("race_dfs_cut", 1)
				return true
			}
			if ex.Diverged > 0 {
				r.Count("race_dfs_diverged_prefixes", int64(ex.Diverged))
				ex.Diverged = 0
			}
		}
	}
	orders := [][]int{{0, 1}, {1, 0}}
	nLabels := calibrateLabels()
	r.Set("store_writer_race_generated_labels", nLabels)
	variants := []raceFault{{0, 1, 1}, {0, 2, 1}, {1, 1, 1}, {1, 2, 1}}
	for _, fam := range []struct {
		tag      string
		cases    []raceCase
		ackFinal bool
	}{{raceTag, heartbeatCases(), true}, {lifeTag, lifecycleCases(), false}, {addrTag, addressCases(r.Thorough()), false},
		{writerTag, writerCases(r.Thorough(), nLabels), true}} {
		for _, c := range fam.cases {
			orders := orders
			if fam.tag == addrTag {
				orders = [][]int{{0, 1, 2}, {0, 2, 1}} // the lock holder always first
			}
			if fam.tag == writerTag {
				orders = [][]int{{1, 0}} // the lifecycle operation parks at its write, then the writer starts
				if r.Thorough() {
					orders = [][]int{{1, 0}, {0, 1}}
				}
			}
			for _, order := range orders {
				if !run(fam.tag, c, order, nil, fam.ackFinal) {
					return
				}
			}
			// a storage fault inside the race: quick = one variant and one start order per case,
			// thorough = every variant x both start orders
			if fam.tag == addrTag || fam.tag == writerTag {
				continue
			}
			if r.Thorough() {
				for i := range variants {
					for _, order := range orders {
						f := variants[i]
						if !run(fam.tag, c, order, &f, fam.ackFinal) {
							return
						}
					}
				}
			} else {
				f := variants[rng.Intn(len(variants))]
				if !run(fam.tag, c, orders[rng.Intn(2)], &f, fam.ackFinal) {
					return
				}
			}
		}
	}
}

// raceExec runs one gated execution and judges it; nil = no verdict possible (reported).
func (e *env) raceExec(tag string, hs *historyState, md *model, c raceCase, order []int, fault *raceFault, ackFinal bool,
	ch func(int, []sched.Info) int) *sched.Sched {
	r := e.r
	ops := c.w()
	info := &raceInfo{Family: tag, Case: c.name, Order: fmt.Sprint(order), Fault: fault}
	for i := range ops {
		info.Workers = append(info.Workers, &raceWorker{Name: c.names[i], Ops: ops[i]})
	}
	ps := &step{Cmd: tag, ID: rX, Race: info, N: len(hs.Steps)}
	hs.Steps = append(hs.Steps, ps)
	prev := e.served()
	ps.Before = stateName(prev[rX])
	preRegions := map[uint64]int{}
	ps.pdRegionCount = map[uint64]int{}
	for _, id := range append(sortedIDs(prev), idPool...) {
		preRegions[id] = md.regionCount(id)
		ps.pdRegionCount[id] = e.rc.GetStoreRegionCount(id)
	}
	e.kv.ResetLog()
	e.kv.ResetFaults()
	var mu sync.Mutex
	goids := map[int64]int{}
	if fault != nil {
		nth := 0
		fw, fn := fault.Worker, fault.N
		e.kv.FailAllWrites(kvx.FaultMode(fault.Mode), func(kind, key string) bool {
			if !isStoreKey(key) {
				return false
			}
			mu.Lock()
			w, ok := goids[hist.Goid()]
			mu.Unlock()
			if !ok || w != fw {
				return false
			}
			nth++
			return nth == fn
		})
	}
	t0 := hist.Tick()
	mkWorker := func(i int) func() {
		return func() {
			g := hist.Goid()
			mu.Lock()
			goids[g] = i
			mu.Unlock()
			e.guard.allow(g, true)
			defer e.guard.allow(g, false)
			w := info.Workers[i]
			for _, op := range w.Ops {
				if tag == writerTag && i == 0 && order[0] == 1 {
					// the writer has no storage operation of its own to be parked at: it starts once
					// the lifecycle operation is parked at its write (exploration order only)
					for dl := time.Now().Add(10 * time.Second); atomic.LoadInt64(&e.parkedWrites) == 0 && time.Now().Before(dl); {
						time.Sleep(time.Millisecond)
					}
					if atomic.LoadInt64(&e.parkedWrites) == 0 {
						r.Count("store_writer_started_without_parked_write", 1)
					}
				}
				op.Call = hist.Tick()
				t := time.Now()
				e.exec(op)
				op.Ack = hist.Tick()
				if os.Getenv("VERIF_DEBUG") != "" && tag == writerTag {
					fmt.Printf("DEBUGT %s %s took %v\n", w.Name, op.Cmd, time.Since(t))
				}
				sv := e.served()
				mu.Lock()
				info.Obs = append(info.Obs, raceObs{Tick: hist.Tick(), Worker: w.Name, AfterOp: op.Cmd, Served: sv})
				mu.Unlock()
			}
		}
	}
	var workers []func()
	for _, i := range order {
		workers = append(workers, mkWorker(i))
	}
	s := sched.New()
	s.Stagger = true
	e.gate.Store(s)
	s.Run(workers, ch)
	e.gate.Store((*sched.Sched)(nil))
	e.kv.ResetFaults()
	info.Schedule, info.Blocked = s.Trace, s.Blocked
	if s.Err != nil {
		r.Inconclusive("%s scheduler: %v", tag, s.Err)
		return nil
	}
	if !e.healthy() {
		return nil
	}
	hbGoid := int64(-1)
	if tag == raceTag {
		for g, i := range goids {
			if i == 0 {
				hbGoid = g
			}
		}
	}
	var writes []kvx.Event
	for _, evn := range e.kv.Log() {
		if evn.Kind != "Save" && evn.Kind != "Remove" {
			continue
		}
		writes = append(writes, evn)
		if evn.Goid == hbGoid && evn.Key == fmt.Sprintf("%s%020d", storeKeyPrefix, rX) {
			info.Flushed = true
		}
		if evn.Fault != "" {
			cp := evn
			if len(cp.Value) > 0 {
				cp.Value = fmt.Sprintf("(%d bytes)", len(cp.Value))
			}
			ps.Injected = &cp
		}
	}
	if os.Getenv("VERIF_DEBUG") != "" && (tag == addrTag || tag == writerTag) {
		fmt.Printf("DEBUG %s %s order=%v blocked=%d trace=%v\n", tag, c.name, order, s.Blocked, s.Trace)
		for _, w := range info.Workers {
			for _, op := range w.Ops {
				fmt.Printf("   %s %s id=%d addr=%s err=%q pb=%q call=%d ack=%d\n", w.Name, op.Cmd, op.ID, op.Addr, op.Err, op.PbErr, op.Call, op.Ack)
			}
		}
	}
	r.Eval(1)
	r.Count("race_executions", 1)
	r.Count("race_executions_"+tag, 1)
	r.Count("race_gated_storage_ops", int64(len(s.Trace)))
	r.Count("race_quiescence_by_settle_rule", int64(s.Blocked))
	if tag == raceTag {
		if info.Flushed {
			r.Count("race_heartbeat_flushes", 1)
		} else {
			r.Count("race_heartbeat_without_flush", 1)
		}
	}
	fkey := ""
	if fault != nil {
		fkey = fmt.Sprintf("|f%d.%d", fault.Worker, fault.Mode)
		if ps.Injected != nil {
			r.Count("race_faults_injected", 1)
		} else {
			r.Count("race_fault_planned_but_no_such_write", 1)
		}
	}
	if tag == writerTag {
		wop, lop := info.Workers[0].Ops[0], info.Workers[1].Ops[0]
		if wop.Call != 0 && lop.Ack != 0 && wop.Call < lop.Ack && (wop.Ack == 0 || wop.Ack > lop.Call) {
			r.Count("store_writer_overlapped_lifecycle_op", 1)
		}
	}
	r.Distinct("race|" + tag + "|" + c.name + "|" + info.Order + fkey + "|" + s.TraceKey())
	var all []*step
	for _, w := range info.Workers {
		all = append(all, w.Ops...)
	}
	for _, w := range all {
		if w.Panic != "" {
			r.Violation("panic-in-store-command:"+w.Cmd+":"+panicSite(w.Panic)+":"+tag, "pd panicked: "+w.Panic, e.witness(hs, prev, nil, nil))
		}
	}
	cur := e.served()
	tEnd := hist.Tick()
	stored, orphanW, serr := e.stored()
	if serr != nil {
		r.Violation("stored-record-unreadable", serr.Error(), e.witness(hs, prev, cur, nil))
		return s
	}
	// how the injected fault may be judged
	inj := ps.Injected
	if inj != nil {
		switch {
		case tag == raceTag && fault.Worker == 0:
			// a failed heartbeat flush: the record it would have written is the served one, so
			// stored == served still has to hold; the lifecycle worker changes the record
			ps.noDirty, ps.skipS6 = true, true
		case tag == raceTag:
			// the lifecycle operation failed; the heartbeat never changes the record
			ps.s6Base = prev
		default:
			ps.skipS6 = true
		}
	}
	// the chain of observations, judged pairwise by the oracles of the sequential histories
	type ob struct {
		t int64
		s snap
	}
	chain := []ob{{t0, prev}}
	for _, o := range info.Obs {
		chain = append(chain, ob{o.Tick, o.Served})
	}
	chain = append(chain, ob{tEnd, cur})
	for i := 0; i+1 < len(chain); i++ {
		ps.edges = 0
		for _, op := range all {
			if op.Call != 0 && op.Call < chain[i+1].t && (op.Ack == 0 || op.Ack > chain[i].t) {
				ps.edges++
			}
		}
		if i+2 == len(chain) {
			ps.Injected = inj
			e.judge(hs, ps, nil, md, chain[i].s, chain[i+1].s, stored, orphanW, preRegions, writes)
		} else {
			ps.Injected = nil
			e.judge(hs, ps, nil, md, chain[i].s, chain[i+1].s, nil, nil, preRegions, nil)
		}
	}
	ps.Injected = inj
	// heartbeat-race: what the last acknowledgement of the lifecycle worker showed is final
	if ackFinal {
		var last snap
		for _, o := range info.Obs {
			if o.Worker == info.Workers[1].Name {
				last = o.Served
			}
		}
		ids := map[uint64]bool{}
		for id := range last {
			ids[id] = true
		}
		for id := range cur {
			ids[id] = true
		}
		for id := range ids {
			if last == nil {
				break
			}
			a, b := last[id], cur[id]
			what := ""
			switch {
			case (a == nil) != (b == nil):
				what = "existence"
			case a != nil:
				what = diffClass(a, b)
			}
			if what != "" {
				r.Violation("acknowledged-change-lost:"+what+":"+tag, fmt.Sprintf("store %d: after %s was acknowledged the served record was {%s}, after the overlapping heartbeat finished it is {%s}", id, c.name, recStr(a), recStr(b)), e.witness(hs, last, cur, stored))
			}
		}
	}
	return s
}

// writerStress: the same pairs free-running (no gates, small store), many rounds, for the race
// detector and for windows the gates cannot reach; judged after both sides returned.
func (e *env) writerStress(md *model) {
	r := e.r
	if err := e.resetWorld(md); err != nil {
		r.Inconclusive("%s free-running: %v", writerTag, err)
		return
	}
	hs := &historyState{H: -1900, Backend: e.backend, Script: writerTag + "/free-running"}
	e.runStep(hs, putX(), nil, md)
	rounds := r.Pick(60, 600)
	for i := 0; i < rounds && e.lost == ""; i++ {
		var l *step
		switch i % 4 {
		case 0:
			l = &step{Cmd: "remove", ID: rX}
		case 1:
			l = &step{Cmd: "up", ID: rX}
		case 2:
			l = &step{Cmd: "put", Via: "grpc", ID: rX, Addr: fmt.Sprintf("tikv-%c:20160", 'b'+rune(i%5)), Version: "5.0.0", Labels: lbl("zone", fmt.Sprint("z", i))}
		default:
			l = &step{Cmd: "weight", ID: rX, LW: float64(i % 3), RW: 1}
		}
		ps := &step{Cmd: writerTag, ID: rX, N: len(hs.Steps), Variation: "free-running against " + l.Cmd}
		hs.Steps = append(hs.Steps, l, ps)
		prev := e.served()
		ps.Before = stateName(prev[rX])
		preRegions := map[uint64]int{}
		ps.pdRegionCount = map[uint64]int{}
		for id := range prev {
			preRegions[id] = md.regionCount(id)
			ps.pdRegionCount[id] = e.rc.GetStoreRegionCount(id)
		}
		e.kv.ResetLog()
		var wg sync.WaitGroup
		start := make(chan struct{})
		wg.Add(1)
		go func() {
			defer wg.Done()
			<-start
			for k := 0; k < 20; k++ {
				for _, c := range []string{"attach", "pause", "resume"} {
					e.exec(&step{Cmd: c, ID: rX})
				}
			}
		}()
		close(start)
		e.exec(l)
		wg.Wait()
		if !e.healthy() {
			return
		}
		var writes []kvx.Event
		for _, evn := range e.kv.Log() {
			if evn.Kind == "Save" || evn.Kind == "Remove" {
				writes = append(writes, evn)
			}
		}
		cur := e.served()
		stored, orphanW, serr := e.stored()
		if serr != nil {
			r.Violation("stored-record-unreadable", serr.Error(), e.witness(hs, prev, cur, nil))
			return
		}
		e.judge(hs, ps, nil, md, prev, cur, stored, orphanW, preRegions, writes)
		r.Count("store_writer_free_running_rounds", 1)
	}
	r.Eval(1)
	r.Distinct("race|" + writerTag + "|free-running")
}
