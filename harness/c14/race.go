package main

import (
	"fmt"

	"github.com/pingcap/kvproto/pkg/metapb"
	"verif/harness/lib/hist"
	"verif/harness/lib/kvx"
	"verif/harness/lib/sched"
)

// Gated two-worker phase: worker H = gRPC StoreHeartbeat of store X, sent right after a reload so
// that it flushes the store record (its own storage write is the window); worker L = one short
// lifecycle operation (sequence) on the same store. Every storage operation of the two workers
// parks at a gate (kvx Gate/Done + lib/sched); both start orders and, depth-first, all release
// orders are executed. L observes the served stores right after each of its operations is
// acknowledged; the chain of observations before -> after each acknowledgement -> after both
// workers finished is judged by the same oracles as the sequential histories (tag
// "heartbeat-race"), plus: what L's last acknowledgement showed is final, because a heartbeat
// never changes state, flags, address, labels or weights.
const raceTag = "heartbeat-race"

type raceInfo struct {
	Case     string       `json:"case"`
	Order    string       `json:"start_order"`
	X        uint64       `json:"store"`
	H        *step        `json:"heartbeat"`
	L        []*step      `json:"lifecycle_ops"`
	Schedule []sched.Info `json:"released_storage_ops"`
	Mids     []snap       `json:"served_after_each_acknowledged_op"`
	Flushed  bool         `json:"heartbeat_flushed"`
	Blocked  int          `json:"quiescence_by_settle_rule"`
}

type raceCase struct {
	name    string
	offline bool // X is Offline (and empty) when the two workers start, else Up
	ops     func() []*step
}

func (e *env) racePhase(md *model) {
	r := e.r
	const X = uint64(2)
	const xAddr = "tikv-a:20160"
	lbl := func(k, v string) []*metapb.StoreLabel { return []*metapb.StoreLabel{{Key: k, Value: v}} }
	cases := []raceCase{
		{"remove", false, func() []*step { return []*step{{Cmd: "remove", ID: X}} }},
		{"remove-destroyed", false, func() []*step { return []*step{{Cmd: "remove", ID: X, Destroyed: true}} }},
		{"remove-destroyed+replacement", false, func() []*step {
			return []*step{{Cmd: "remove", ID: X, Destroyed: true}, {Cmd: "put", Via: "grpc", ID: 3, Addr: xAddr, Version: "5.0.0"}}
		}},
		{"up", true, func() []*step { return []*step{{Cmd: "up", ID: X}} }},
		{"destroy-offline", true, func() []*step { return []*step{{Cmd: "remove", ID: X, Destroyed: true}} }},
		{"bury", true, func() []*step { return []*step{{Cmd: "bury", ID: X}} }},
		{"checkstores", true, func() []*step { return []*step{{Cmd: "checkstores"}} }},
		{"bury+cleanup", true, func() []*step { return []*step{{Cmd: "bury", ID: X}, {Cmd: "rmtomb"}} }},
		{"bury+replacement", true, func() []*step {
			return []*step{{Cmd: "bury", ID: X}, {Cmd: "put", Via: "grpc", ID: 3, Addr: xAddr, Version: "5.0.0"}}
		}},
		{"put-same-id", false, func() []*step {
			return []*step{{Cmd: "put", Via: "grpc", ID: X, Addr: "tikv-b:20160", Version: "5.0.1", Labels: lbl("zone", "z2")}}
		}},
		{"labels", false, func() []*step { return []*step{{Cmd: "labels", ID: X, Labels: lbl("rack", "r1"), Force: true}} }},
		{"weight", false, func() []*step { return []*step{{Cmd: "weight", ID: X, LW: 2, RW: 0.5}} }},
	}
	n := 0
	for _, c := range cases {
		for _, order := range []string{"H-first", "L-first"} {
			ex := &sched.Explorer{}
			for {
				ch := ex.Next()
				if ch == nil {
					break
				}
				n++
				// ---- world: store 1 Up with all regions, store X registered, maybe removed; reloaded
				if err := e.resetWorld(md); err != nil {
					r.Inconclusive("%s %s/%s: %v", raceTag, c.name, order, err)
					return
				}
				hs := &historyState{H: -1000 - n, Backend: e.backend, Script: raceTag + "/" + c.name + "/" + order}
				setup := []*step{{Cmd: "put", Via: "grpc", ID: X, Addr: xAddr, Version: "5.0.0", Labels: lbl("zone", "z1")}}
				if c.offline {
					setup = append(setup, &step{Cmd: "remove", ID: X})
				}
				setup = append(setup, &step{Cmd: "reload"})
				for _, st := range setup {
					e.runStep(hs, st, nil, md)
					if e.lost != "" {
						return
					}
					if st.Err != "" || st.PbErr != "" || st.Panic != "" {
						r.Inconclusive("%s setup %s: %s%s%s", raceTag, st.Cmd, st.Err, st.PbErr, st.Panic)
						return
					}
				}
				s := e.raceExec(hs, md, c, order, X, ch)
				if s == nil {
					return
				}
				ex.Advance(s)
				if ex.Runs > 40 {
					r.Count("race_dfs_cut", 1)
					break
				}
			}
			if ex.Diverged > 0 {
				r.Count("race_dfs_diverged_prefixes", int64(ex.Diverged))
			}
		}
	}
}

// raceExec runs one gated execution and judges it; nil = no verdict possible (reported).
func (e *env) raceExec(hs *historyState, md *model, c raceCase, order string, X uint64, ch func(int, []sched.Info) int) *sched.Sched {
	r := e.r
	info := &raceInfo{Case: c.name, Order: order, X: X, H: &step{Cmd: "storehb", ID: X}, L: c.ops()}
	ps := &step{Cmd: raceTag, ID: X, Race: info, N: len(hs.Steps)}
	hs.Steps = append(hs.Steps, ps)
	prev := e.served()
	ps.Before = stateName(prev[X])
	preRegions := map[uint64]int{}
	ps.pdRegionCount = map[uint64]int{}
	for id := range prev {
		preRegions[id] = md.regionCount(id)
		ps.pdRegionCount[id] = e.rc.GetStoreRegionCount(id)
	}
	e.kv.ResetLog()
	e.kv.ResetFaults()
	var hGoid int64
	H := func() {
		hGoid = hist.Goid()
		e.guard.allow(hGoid, true)
		defer e.guard.allow(hGoid, false)
		e.exec(info.H)
	}
	L := func() {
		g := hist.Goid()
		e.guard.allow(g, true)
		defer e.guard.allow(g, false)
		for _, op := range info.L {
			e.exec(op)
			info.Mids = append(info.Mids, e.served())
		}
	}
	workers := []func(){H, L}
	if order == "L-first" {
		workers = []func(){L, H}
	}
	s := sched.New()
	s.Stagger = true
	e.gate.Store(s)
	s.Run(workers, ch)
	e.gate.Store((*sched.Sched)(nil))
	info.Schedule, info.Blocked = s.Trace, s.Blocked
	if s.Err != nil {
		r.Inconclusive("%s scheduler: %v", raceTag, s.Err)
		return nil
	}
	if !e.healthy() {
		return nil
	}
	var writes []kvx.Event
	for _, evn := range e.kv.Log() {
		if evn.Kind == "Save" || evn.Kind == "Remove" {
			writes = append(writes, evn)
			if evn.Goid == hGoid && evn.Key == fmt.Sprintf("%s%020d", storeKeyPrefix, X) {
				info.Flushed = true
			}
		}
	}
	r.Eval(1)
	r.Count("race_executions", 1)
	r.Count("race_gated_storage_ops", int64(len(s.Trace)))
	r.Count("race_quiescence_by_settle_rule", int64(s.Blocked))
	if info.Flushed {
		r.Count("race_heartbeat_flushes", 1)
	} else {
		r.Count("race_heartbeat_without_flush", 1)
	}
	r.Distinct("race|" + c.name + "|" + order + "|" + s.TraceKey())
	for _, w := range append([]*step{info.H}, info.L...) {
		if w.Panic != "" {
			r.Violation("panic-in-store-command:"+w.Cmd+":"+panicSite(w.Panic)+":"+raceTag, "pd panicked: "+w.Panic, e.witness(hs, prev, nil, nil))
		}
	}
	cur := e.served()
	stored, orphanW, serr := e.stored()
	if serr != nil {
		r.Violation("stored-record-unreadable", serr.Error(), e.witness(hs, prev, cur, nil))
		return s
	}
	// the chain of observations, judged pairwise by the oracles of the sequential histories
	obs := append(append([]snap{prev}, info.Mids...), cur)
	for i := 0; i+1 < len(obs); i++ {
		if i+2 == len(obs) {
			e.judge(hs, ps, nil, md, obs[i], obs[i+1], stored, orphanW, preRegions, writes)
		} else {
			e.judge(hs, ps, nil, md, obs[i], obs[i+1], nil, nil, preRegions, nil)
		}
	}
	// what the last acknowledgement showed is final
	if len(info.Mids) == len(info.L) && len(info.Mids) > 0 {
		last := info.Mids[len(info.Mids)-1]
		ids := map[uint64]bool{}
		for id := range last {
			ids[id] = true
		}
		for id := range cur {
			ids[id] = true
		}
		for id := range ids {
			a, b := last[id], cur[id]
			what := ""
			switch {
			case (a == nil) != (b == nil):
				what = "existence"
			case a != nil:
				what = diffClass(a, b)
			}
			if what != "" {
				r.Violation("acknowledged-change-lost:"+what+":"+raceTag, fmt.Sprintf("store %d: after %s was acknowledged the served record was {%s}, after the overlapping heartbeat finished it is {%s}", id, c.name, recStr(a), recStr(b)), e.witness(hs, last, cur, stored))
			}
		}
	}
	return s
}
