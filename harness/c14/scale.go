package main

import (
	"fmt"
	"math"
	"math/rand"
	"sort"

	"github.com/pingcap/kvproto/pkg/metapb"
	"github.com/tikv/pd/server/core"
)

// Populated worlds: hundreds to thousands of store records (around and beyond the page size of the
// store loader: 99/100/101, 199..201, 1000+, 2000+), with adjacent and huge ids (2^32±1, 2^63±1,
// 2^64-3..2^64-1), in every state, some with weights, written to the storage the way an earlier
// leader left them; the cluster is reloaded from it (served must equal stored, record by record),
// then a judged sequential history works on the stores at the page boundaries and on the huge
// ids (refused address collisions against a store far away in the list, remove / up / weight /
// labels, the background check burying every empty offline store, tombstone cleanup) and the
// cluster is reloaded again.
func (e *env) scalePhase(md *model, rng *rand.Rand) {
	r := e.r
	sizes := []int{100, 230}
	if r.Thorough() {
		all := [][]int{{99, 1000}, {100, 1025}, {101, 2100}, {199, 301}, {200, 1999}, {201, 2001}, {99, 100, 101}, {100, 201}}
		sizes = all[r.Shard%len(all)]
	}
	for _, n := range sizes {
		if !e.scaleWorld(md, rng, n) {
			return
		}
	}
}

func (e *env) scaleWorld(md *model, rng *rand.Rand, n int) bool {
	r := e.r
	if err := e.resetWorld(md); err != nil {
		r.Inconclusive("scale %d: %v", n, err)
		return false
	}
	hs := &historyState{H: -5000 - n, Backend: e.backend, Script: fmt.Sprintf("populated-%d", n)}
	special := []uint64{1<<32 - 1, 1 << 32, 1<<32 + 1, 1<<63 - 1, 1 << 63, 1<<63 + 1, math.MaxUint64 - 2, math.MaxUint64 - 1, math.MaxUint64}
	ids := append([]uint64(nil), special...)
	for id := uint64(10); len(ids) < n-1; id++ { // store 1 exists already: n records in total
		ids = append(ids, id)
		if rng.Intn(7) == 0 {
			id += uint64(rng.Intn(3)) // a few gaps, most ids adjacent
		}
	}
	sort.Slice(ids, func(i, j int) bool { return ids[i] < ids[j] })
	raw := core.NewStorage(e.kv.Inner)
	for i, id := range ids {
		m := &metapb.Store{Id: id, Address: fmt.Sprintf("s-%d:20160", id), Version: "5.0.0"}
		switch rng.Intn(8) {
		case 0:
			m.State = metapb.StoreState_Offline
		case 1:
			m.State, m.PhysicallyDestroyed = metapb.StoreState_Offline, true
			m.Address = fmt.Sprintf("s-%d:20160", ids[(i+1)%len(ids)]) // a destroyed store may share an address
		case 2:
			m.State = metapb.StoreState_Tombstone
			m.Address = fmt.Sprintf("s-%d:20160", ids[(i+2)%len(ids)])
		}
		if rng.Intn(3) == 0 {
			m.Labels = genLabels(rng)
		}
		if err := raw.SaveStore(m); err != nil {
			r.Inconclusive("scale populate: %v", err)
			return false
		}
		if rng.Intn(5) == 0 {
			if err := raw.SaveStoreWeight(id, float64(rng.Intn(4)), 0.5+float64(rng.Intn(3))); err != nil {
				r.Inconclusive("scale populate: %v", err)
				return false
			}
		}
	}
	r.Count("scale_records_populated", int64(len(ids)+1))
	do := func(st *step) bool {
		e.runStep(hs, st, nil, md)
		return e.lost == ""
	}
	// the records become served by a reload; everything stored must be served and equal
	md.dirtyMeta = map[uint64]bool{}
	if !do(&step{Cmd: "reload"}) {
		return false
	}
	sv := e.served()
	if len(sv) != n {
		// the stored-vs-served oracle has reported the details; make sure it cannot go unnoticed
		r.Count("scale_served_count_differs", 1)
	}
	r.Count("scale_reloads", 1)
	// targets: the stores at the page boundaries of a 100-records-per-page scan, and the huge ids
	sorted := sortedIDs(sv)
	var targets []uint64
	for _, pos := range []int{0, 98, 99, 100, 101, 198, 199, 200, 201, 999, 1000, 1001, 1023, 1024, len(sorted) - 2, len(sorted) - 1} {
		if pos >= 0 && pos < len(sorted) {
			targets = append(targets, sorted[pos])
		}
	}
	targets = append(targets, special...)
	far := sorted[len(sorted)/2]
	for _, id := range targets {
		c := sv[id]
		if c == nil {
			continue
		}
		ops := []*step{
			{Cmd: "weight", ID: id, LW: 0.5, RW: 2},
			{Cmd: "labels", ID: id, Labels: genLabels(rng), Force: rng.Intn(2) == 0},
			{Cmd: "remove", ID: id, Destroyed: rng.Intn(4) == 0},
			{Cmd: "up", ID: id},
			{Cmd: "put", Via: "grpc", ID: id, Addr: c.Addr, Version: "5.0.0", Labels: genLabels(rng)},
			{Cmd: "storehb", ID: id},
		}
		if live := sv[far]; live != nil && far != id {
			// the address of a store far away in the list: refused unless that one is tombstone / destroyed
			ops = append(ops, &step{Cmd: "put", Via: "cluster", ID: id, Addr: live.Addr, Version: "5.0.0"})
		}
		rng.Shuffle(len(ops), func(i, j int) { ops[i], ops[j] = ops[j], ops[i] })
		for _, op := range ops[:3] {
			if !do(op) {
				return false
			}
		}
	}
	// a new store whose id sits between two adjacent ids / beyond the page end, colliding address first
	for _, st := range []*step{
		{Cmd: "put", Via: "grpc", ID: 5, Addr: sv[sorted[len(sorted)/3]].Addr, Version: "5.0.0"},
		{Cmd: "put", Via: "grpc", ID: 5, Addr: "tikv-new:20160", Version: "5.0.0"},
		{Cmd: "remove", ID: special[4]},
		{Cmd: "remove", ID: special[8], Destroyed: true},
		{Cmd: "checkstores"}, // buries every empty offline store of the world (store 1 holds the regions)
		{Cmd: "up", ID: special[4]},
		{Cmd: "storehb", ID: special[8]},
		{Cmd: "reload"},
		{Cmd: "rmtomb"},
		{Cmd: "checkstores"},
		{Cmd: "reload"},
		{Cmd: "put", Via: "grpc", ID: special[8], Addr: "tikv-again:20160", Version: "5.0.0"},
	} {
		if !do(st) {
			return false
		}
	}
	r.Eval(1)
	r.Count("scale_worlds", 1)
	r.Distinct(fmt.Sprintf("scale|%d|%d", n, len(hs.Steps)))
	return true
}
