package main

import (
	"bytes"
	"fmt"
	"strconv"
	"strings"

	"github.com/pingcap/kvproto/pkg/metapb"
	"github.com/pingcap/kvproto/pkg/pdpb"
	"verif/harness/lib/kvx"
)

const (
	regionKeyPrefix = "raft/r/"
	storeKeyPrefix  = "raft/s/"
	weightKeyPrefix = "schedule/store_weight/"
)

// rec is one store record as observed (served or stored); Meta is the text form of a deep copy of
// the metapb.Store with last_heartbeat cleared.
type rec struct {
	ID        uint64            `json:"id"`
	State     metapb.StoreState `json:"state"`
	Destroyed bool              `json:"destroyed,omitempty"`
	Addr      string            `json:"addr"`
	Meta      string            `json:"meta"`
	Labels    string            `json:"-"`
	LastHB    int64             `json:"last_heartbeat,omitempty"`
	pb        *metapb.Store
	raw       []byte
	LW        float64 `json:"leader_weight"`
	RW        float64 `json:"region_weight"`
}

type snap map[uint64]*rec

func mkRec(meta *metapb.Store, lw, rw float64) *rec {
	b, _ := meta.Marshal()
	cp := &metapb.Store{}
	_ = cp.Unmarshal(b)
	hb := cp.LastHeartbeat
	cp.LastHeartbeat = 0
	raw, _ := cp.Marshal()
	text, ltext := "", ""
	if n := len(cp.GetLabels()); n > 64 {
		// a record with a generated label set: rendered in short (comparisons use pb / raw)
		ltext = fmt.Sprintf("<%d labels, first %v>", n, cp.GetLabels()[0])
		text = fmt.Sprintf("id:%d address:%q state:%s physically_destroyed:%v version:%q labels:%s", cp.GetId(), cp.GetAddress(), cp.GetState(), cp.GetPhysicallyDestroyed(), cp.GetVersion(), ltext)
	} else {
		text, ltext = cp.String(), fmt.Sprint(cp.GetLabels())
	}
	return &rec{ID: cp.GetId(), State: cp.GetState(), Destroyed: cp.GetPhysicallyDestroyed(), Addr: cp.GetAddress(), Meta: text,
		Labels: ltext, LW: lw, RW: rw, LastHB: hb, pb: cp, raw: raw}
}

func labelsEqual(a, b []*metapb.StoreLabel) bool {
	if len(a) != len(b) {
		return false
	}
	for i := range a {
		if a[i].GetKey() != b[i].GetKey() || a[i].GetValue() != b[i].GetValue() {
			return false
		}
	}
	return true
}

// diffClass names the first field in which two records differ. The comparison is element-wise on
// the decoded records (plus the encoded form as a safety net for fields not listed), never through
// a rendering in which two different values could look alike; weights are compared numerically.
func diffClass(a, b *rec) string {
	x, y := a.pb, b.pb
	switch {
	case x.GetState() != y.GetState():
		return "state"
	case x.GetPhysicallyDestroyed() != y.GetPhysicallyDestroyed():
		return "physically-destroyed"
	case x.GetAddress() != y.GetAddress():
		return "address"
	case x.GetStatusAddress() != y.GetStatusAddress():
		return "status-address"
	case x.GetPeerAddress() != y.GetPeerAddress():
		return "peer-address"
	case !labelsEqual(x.GetLabels(), y.GetLabels()):
		return "labels"
	case x.GetVersion() != y.GetVersion():
		return "version"
	case x.GetGitHash() != y.GetGitHash():
		return "git-hash"
	case x.GetStartTimestamp() != y.GetStartTimestamp():
		return "start-timestamp"
	case x.GetDeployPath() != y.GetDeployPath():
		return "deploy-path"
	case x.GetId() != y.GetId():
		return "id"
	case !bytes.Equal(a.raw, b.raw):
		return "other-meta"
	case !a.sameWeight(b):
		return "weight"
	}
	return ""
}

func (a *rec) sameMeta(b *rec) bool {
	return bytes.Equal(a.raw, b.raw) && labelsEqual(a.pb.GetLabels(), b.pb.GetLabels())
}
func (a *rec) sameWeight(b *rec) bool { return a.LW == b.LW && a.RW == b.RW }

// served = what the cluster serves.
func (e *env) served() snap {
	out := snap{}
	for _, s := range e.rc.GetStores() {
		out[s.GetID()] = mkRec(s.GetMeta(), s.GetLeaderWeight(), s.GetRegionWeight())
	}
	return out
}

func idFromKey(key, prefix string) (uint64, string, bool) {
	if !strings.HasPrefix(key, prefix) {
		return 0, "", false
	}
	rest := key[len(prefix):]
	tail := ""
	if i := strings.IndexByte(rest, '/'); i >= 0 {
		rest, tail = rest[:i], rest[i+1:]
	}
	id, err := strconv.ParseUint(rest, 10, 64)
	if err != nil {
		return 0, "", false
	}
	return id, tail, true
}

// stored = raw scan of the store records (independent of pd's loader).
func (e *env) stored() (snap, map[uint64]bool, error) {
	dump := e.kv.Dump()
	out := snap{}
	lw, rw := map[uint64]float64{}, map[uint64]float64{}
	orphanWeights := map[uint64]bool{}
	for k, v := range dump {
		if id, tail, ok := idFromKey(k, storeKeyPrefix); ok && tail == "" {
			m := &metapb.Store{}
			if err := m.Unmarshal([]byte(v)); err != nil {
				return nil, nil, fmt.Errorf("stored record %s does not parse: %v", k, err)
			}
			if m.GetId() != id {
				return nil, nil, fmt.Errorf("stored record %s carries id %d", k, m.GetId())
			}
			out[id] = mkRec(m, 1, 1)
		} else if id, tail, ok := idFromKey(k, weightKeyPrefix); ok {
			f, err := strconv.ParseFloat(v, 64)
			if err != nil {
				return nil, nil, fmt.Errorf("stored weight %s=%q does not parse", k, v)
			}
			switch tail {
			case "leader":
				lw[id] = f
			case "region":
				rw[id] = f
			}
		}
	}
	for id, f := range lw {
		if out[id] != nil {
			out[id].LW = f
		} else {
			orphanWeights[id] = true
		}
	}
	for id, f := range rw {
		if out[id] != nil {
			out[id].RW = f
		}
	}
	return out, orphanWeights, nil
}

// storedRegions = raw scan of the region records: region id -> stores holding a peer.
func (e *env) storedRegions() (map[uint64]map[uint64]bool, error) {
	out := map[uint64]map[uint64]bool{}
	for k, v := range e.kv.Dump() {
		id, tail, ok := idFromKey(k, regionKeyPrefix)
		if !ok || tail != "" {
			continue
		}
		rg := &metapb.Region{}
		if err := rg.Unmarshal([]byte(v)); err != nil {
			return nil, fmt.Errorf("stored region %s does not parse: %v", k, err)
		}
		ps := map[uint64]bool{}
		for _, p := range rg.GetPeers() {
			ps[p.GetStoreId()] = true
		}
		out[id] = ps
	}
	return out, nil
}

// model: what the statement needs to be remembered across steps.
type model struct {
	declared    map[uint64]bool            // id was declared physically destroyed (sticky while the record exists)
	regions     map[uint64]map[uint64]bool // region -> stores holding a peer (placements acknowledged by pd)
	conf        map[uint64]uint64          // region -> last conf_ver used
	dirtyMeta   map[uint64]bool            // stored meta may differ from served because of an injected fault
	dirtyWeight map[uint64]bool
	// classification of a wrong burial only (kind of history): store not touched by an acknowledged
	// region heartbeat since the last reload / since it was registered with peers already reported
	afterReload map[uint64]bool
	lateReg     map[uint64]bool
	// bookkeeping of requested values (counted, never judged)
	addr   map[uint64]string
	weight map[uint64][2]float64
}

func newModel() *model { m := &model{}; m.reset(); return m }

func (m *model) reset() {
	*m = model{declared: map[uint64]bool{}, regions: map[uint64]map[uint64]bool{}, conf: map[uint64]uint64{},
		dirtyMeta: map[uint64]bool{}, dirtyWeight: map[uint64]bool{}, afterReload: map[uint64]bool{}, lateReg: map[uint64]bool{}, addr: map[uint64]string{}, weight: map[uint64][2]float64{}}
}

func (m *model) regionCount(store uint64) int {
	n := 0
	for _, ps := range m.regions {
		if ps[store] {
			n++
		}
	}
	return n
}

type historyState struct {
	H       int     `json:"history"`
	Seed    int64   `json:"history_seed"`
	Backend string  `json:"backend"`
	Script  string  `json:"script,omitempty"`
	Steps   []*step `json:"steps"`
}

type faultPlan struct {
	Mode   int  `json:"mode"` // 1 fail-before, 2 lost-ack
	N      int  `json:"n"`    // n-th matching write of the step
	AnyKey bool `json:"any_key"`
}

func isStoreKey(key string) bool {
	return strings.HasPrefix(key, storeKeyPrefix) || strings.HasPrefix(key, weightKeyPrefix)
}

func stateName(r *rec) string {
	if r == nil {
		return "absent"
	}
	s := r.State.String()
	if r.Destroyed {
		s += "+destroyed"
	}
	return s
}

// runStep executes one command under the monitor and returns its shape token.
func (e *env) runStep(hs *historyState, st *step, f *faultPlan, md *model) string {
	r := e.r
	st.N = len(hs.Steps)
	hs.Steps = append(hs.Steps, st)
	prev := e.served()
	preRegions := map[uint64]int{}
	for id := range prev {
		preRegions[id] = md.regionCount(id)
	}
	st.Before = stateName(prev[st.ID])
	if isReload(st.Cmd) {
		f = nil // a reload only reads the store records
	}
	st.Fault = f
	e.kv.ResetLog()
	e.kv.ResetFaults()
	if f != nil {
		n := 0
		plan := *f
		e.kv.FailAllWrites(kvx.FaultMode(plan.Mode), func(kind, key string) bool {
			if !plan.AnyKey && !isStoreKey(key) {
				return false
			}
			n++
			return n == plan.N
		})
	}
	if !e.healthy() {
		return "lost"
	}
	e.exec(st)
	e.kv.ResetFaults()
	if !e.healthy() {
		return "lost"
	}
	var writes []kvx.Event
	for _, evn := range e.kv.Log() {
		if evn.Goid == e.owner && (evn.Kind == "Save" || evn.Kind == "Remove") {
			writes = append(writes, evn)
			if evn.Fault != "" {
				c := evn
				if len(c.Value) > 0 {
					c.Value = fmt.Sprintf("(%d bytes)", len(c.Value))
				}
				st.Injected = &c
			}
		}
	}
	r.Count("steps", 1)
	r.Count("cmd_"+st.Cmd, 1)
	r.Count("storage_writes_seen", int64(len(writes)))
	cur := e.served()
	stored, orphanW, serr := e.stored()
	if serr != nil {
		r.Violation("stored-record-unreadable", serr.Error(), e.witness(hs, prev, cur, nil))
		return "x"
	}
	return e.judge(hs, st, f, md, prev, cur, stored, orphanW, preRegions, writes)
}

// judge evaluates the oracles on two successive observations prev -> cur around the command st.
// stored == nil means "an intermediate observation": the stored-vs-served comparison is left to
// the final one.
func (e *env) judge(hs *historyState, st *step, f *faultPlan, md *model, prev, cur, stored snap, orphanW map[uint64]bool,
	preRegions map[uint64]int, writes []kvx.Event) string {
	r := e.r
	ok := st.Err == "" && st.PbErr == "" && st.Panic == ""
	wit := func() interface{} { return e.witness(hs, prev, cur, stored) }

	if st.Panic != "" {
		r.Violation("panic-in-store-command:"+st.Cmd+":"+panicSite(st.Panic), "pd panicked inside a store lifecycle command: "+st.Panic, wit())
	}

	// a reload serves what is stored: records whose stored form differs from the served one because
	// of an injected fault legitimately change here (not judged); the model's placements become
	// what the stored region records say (a region save may have been failed by a fault)
	adopted := map[uint64]bool{}
	if isReload(st.Cmd) {
		if !ok {
			return "lost"
		}
		for id := range md.dirtyMeta {
			adopted[id] = true
		}
		md.dirtyMeta, md.dirtyWeight = map[uint64]bool{}, map[uint64]bool{}
		for id := range orphanW {
			if cur[id] == nil {
				md.dirtyWeight[id] = true // kept weights of a deleted record stay out of the comparison (id re-use)
			}
		}
		sr, rerr := e.storedRegions()
		if rerr != nil {
			r.Violation("stored-record-unreadable", rerr.Error(), wit())
			return "x"
		}
		for _, rid := range regionIDs {
			if fmt.Sprint(sortedKeys(sr[rid])) != fmt.Sprint(sortedKeys(md.regions[rid])) {
				r.Count("reload_model_placement_reset_to_stored", 1)
			}
			if sr[rid] == nil {
				delete(md.regions, rid)
			} else {
				md.regions[rid] = sr[rid]
			}
		}
		md.afterReload = map[uint64]bool{}
		for id := range cur {
			md.afterReload[id] = true
		}
		for id := range cur {
			if n, m := e.rc.GetStoreRegionCount(id), md.regionCount(id); n != m {
				r.Count("reload_region_count_differs_from_stored_counted_only", 1)
			}
		}
	}

	// region placement bookkeeping (acknowledged placements only)
	if st.Cmd == "region" && ok {
		ps := map[uint64]bool{}
		for _, p := range st.Peers {
			ps[p] = true
		}
		for id := range md.regions[st.Region] {
			delete(md.afterReload, id)
			delete(md.lateReg, id)
		}
		for id := range ps {
			delete(md.afterReload, id)
			delete(md.lateReg, id)
		}
		md.regions[st.Region] = ps
		r.Count("region_placements_acknowledged", 1)
	}

	// ---- (1) one-way state machine, (3) buried only when empty -------------------------------
	ids := map[uint64]bool{}
	for id := range prev {
		ids[id] = true
	}
	for id := range cur {
		ids[id] = true
	}
	for id := range ids {
		p, c := prev[id], cur[id]
		if adopted[id] {
			r.Count("reload_adopted_stored_record_after_fault", 1)
			if c == nil {
				delete(md.declared, id)
			} else if c.Destroyed {
				md.declared[id] = true
			}
			continue
		}
		switch {
		case p == nil && c != nil:
			r.Count("record_created", 1)
			if md.regionCount(id) > 0 {
				md.lateReg[id] = true
				r.Count("store_registered_after_its_peers_were_reported", 1)
			}
			if c.Destroyed {
				md.declared[id] = true
			}
		case p != nil && c == nil:
			r.Count("record_deleted", 1)
			if p.State != metapb.StoreState_Tombstone {
				r.Violation("record-vanished:"+p.State.String()+":"+st.Cmd, fmt.Sprintf("store %d in state %s is no longer served after %s", id, p.State, st.Cmd), wit())
			}
			delete(md.declared, id)
			if orphanW[id] {
				// pd keeps schedule/store_weight/<id>/* of a deleted record; a later store with the
				// same id would inherit them after a restart. pd never hands out an id twice, so
				// this is outside the realistic zone: weights of a re-used id are not compared
				// until they are set again.
				md.dirtyWeight[id] = true
				r.Count("skipped_ambiguous_weight_of_deleted_record_kept", 1)
			}
		default:
			tr := p.State.String() + "->" + c.State.String()
			if p.State != c.State {
				r.Count("transition_"+tr, 1)
			}
			switch {
			case p.State == c.State:
			case p.State == metapb.StoreState_Up && c.State == metapb.StoreState_Offline:
			case p.State == metapb.StoreState_Offline && c.State == metapb.StoreState_Up:
				if p.Destroyed || md.declared[id] {
					r.Violation("up-after-physically-destroyed:"+st.Cmd, fmt.Sprintf("store %d was declared physically destroyed and went Offline->Up by %s", id, st.Cmd), wit())
				}
			case p.State == metapb.StoreState_Offline && c.State == metapb.StoreState_Tombstone:
			case p.State == metapb.StoreState_Up && c.State == metapb.StoreState_Tombstone && st.edges >= 2:
				// two operations overlapped the two observations: Up->Offline->Tombstone
			case p.State == metapb.StoreState_Tombstone:
				r.Violation("tombstone-left:"+c.State.String()+":"+st.Cmd, fmt.Sprintf("tombstone store %d became %s by %s", id, c.State, st.Cmd), wit())
			default:
				r.Violation("illegal-transition:"+tr+":"+st.Cmd, fmt.Sprintf("store %d moved %s by %s", id, tr, st.Cmd), wit())
			}
			if c.State == metapb.StoreState_Tombstone && p.State != metapb.StoreState_Tombstone {
				pdCount := st.pdRegionCount[id]
				if n := preRegions[id]; n > 0 {
					if pdCount != n {
						// pd's own count disagrees with the placements it acknowledged: region cache
						// territory (C07), not judged here
						r.Count("skipped_ambiguous_region_count", 1)
					} else {
						kind := "steady"
						if md.afterReload[id] {
							kind = "after-reload"
						} else if md.lateReg[id] {
							kind = "peers-reported-before-registration"
						}
						r.Violation("buried-with-regions:"+st.Cmd+":"+kind, fmt.Sprintf("store %d became tombstone by %s while %d regions have a peer on it (%s)", id, st.Cmd, n, kind), wit())
					}
				} else {
					r.Count("buried_while_empty", 1)
				}
			}
			if c.Destroyed {
				md.declared[id] = true
			} else if md.declared[id] {
				r.Count("destroyed_mark_cleared_counted_only", 1)
			}
		}
	}

	// ---- (2) tombstone stores are refused at the gRPC boundary ---------------------------------
	if (st.Cmd == "put" && st.Via == "grpc") || st.Cmd == "storehb" {
		if p := prev[st.ID]; p != nil && p.State == metapb.StoreState_Tombstone {
			r.Count("tombstone_grpc_requests", 1)
			if st.PbErr != pdpb.ErrorType_STORE_TOMBSTONE.String() {
				kind := "accepted"
				if !ok {
					kind = "refused-without-STORE_TOMBSTONE"
				}
				r.Violation("tombstone-request-"+kind+":"+st.Cmd, fmt.Sprintf("gRPC %s for tombstone store %d was answered err=%q header_error=%q", st.Cmd, st.ID, st.Err, st.PbErr), wit())
			} else {
				r.Count("tombstone_grpc_refused", 1)
			}
		} else if st.PbErr == pdpb.ErrorType_STORE_TOMBSTONE.String() {
			r.Count("store_tombstone_for_non_tombstone_counted_only", 1)
		}
	}

	// ---- (4) live stores never share an address --------------------------------------------------
	liveByAddr := func(sn snap) map[string][]uint64 {
		m := map[string][]uint64{}
		for _, id := range sortedIDs(sn) {
			if c := sn[id]; c.State != metapb.StoreState_Tombstone && !c.Destroyed {
				m[c.Addr] = append(m[c.Addr], id)
			}
		}
		return m
	}
	before := liveByAddr(prev)
	for a, l := range liveByAddr(cur) {
		if len(l) < 2 {
			continue
		}
		if fmt.Sprint(before[a]) == fmt.Sprint(l) {
			r.Count("address_sharing_persists", 1) // reported at the step that created it
			continue
		}
		amb := false
		for _, id := range l {
			amb = amb || adopted[id]
		}
		if amb {
			// an address written by a lost-ack put became served by the reload
			r.Count("skipped_ambiguous_address_after_lost_ack_reload", 1)
			continue
		}
		states := ""
		for _, id := range l {
			states += cur[id].State.String() + "/"
		}
		r.Violation("live-stores-share-address:"+states+":"+st.Cmd, fmt.Sprintf("stores %v are neither tombstone nor physically destroyed and all have address %q after %s", l, a, st.Cmd), wit())
	}

	// ---- (6) a failed storage write leaves the served state unchanged --------------------------
	faultClass := "-"
	if st.Injected != nil {
		r.Count("faults_injected", 1)
		r.Count("faults_"+st.Injected.Fault, 1)
		faultClass = st.Injected.Fault
		fid, _, isMeta := idFromKey(st.Injected.Key, storeKeyPrefix)
		if !isMeta {
			var isW bool
			fid, _, isW = idFromKey(st.Injected.Key, weightKeyPrefix)
			if !isW {
				fid = 0
			}
		}
		if isStoreKey(st.Injected.Key) && st.skipS6 {
			r.Count("faults_on_store_record_write", 1)
			r.Count("failed_write_in_race_other_worker_may_change_record", 1)
		} else if isStoreKey(st.Injected.Key) {
			r.Count("faults_on_store_record_write", 1)
			p, c := prev[fid], cur[fid]
			if st.s6Base != nil {
				p = st.s6Base[fid]
			}
			changed := ""
			switch {
			case (p == nil) != (c == nil):
				changed = "existence"
			case p == nil:
			default:
				changed = diffClass(p, c)
			}
			if changed != "" {
				r.Violation("served-changed-after-failed-write:"+st.Cmd+":"+changed, fmt.Sprintf("the write of %s failed (%s, injected) during %s of store %d, yet the served %s of store %d changed: before {%s lw=%v rw=%v} after {%s lw=%v rw=%v}", st.Injected.Key, st.Injected.Fault, st.Cmd, st.ID, changed, fid, recStr(p), recLW(p), recRW(p), recStr(c), recLW(c), recRW(c)), wit())
			} else {
				r.Count("failed_write_served_unchanged", 1)
			}
		} else {
			faultClass += "/other-key"
			r.Count("faults_on_other_key_write", 1)
		}
		// what this step wrote may now differ from what is served
		for _, w := range writes {
			if st.noDirty {
				break
			}
			if id, tail, isM := idFromKey(w.Key, storeKeyPrefix); isM && tail == "" {
				md.dirtyMeta[id] = true
			} else if id, _, isW := idFromKey(w.Key, weightKeyPrefix); isW {
				md.dirtyWeight[id] = true
			}
		}
	} else {
		if f != nil {
			r.Count("fault_planned_but_no_such_write", 1)
		}
		wsaved := map[uint64]int{}
		for _, w := range writes {
			if w.Err != "" {
				continue
			}
			if id, tail, isM := idFromKey(w.Key, storeKeyPrefix); isM && tail == "" {
				delete(md.dirtyMeta, id)
			} else if id, _, isW := idFromKey(w.Key, weightKeyPrefix); isW {
				wsaved[id]++
			}
		}
		for id, n := range wsaved {
			if n >= 2 {
				delete(md.dirtyWeight, id)
			}
		}
	}

	// ---- (5) stored record == served record ------------------------------------------------------
	after := "after-successful-" + st.Cmd
	if !ok {
		after = "after-refused-" + st.Cmd
	}
	if st.Injected != nil {
		after = "bystander-of-faulted-" + st.Cmd
	}
	if st.Race != nil {
		after = st.Cmd
	}
	for id, c := range cur {
		if stored == nil {
			break
		}
		s := stored[id]
		if md.dirtyMeta[id] {
			r.Count("compare_skipped_after_fault", 1)
			continue
		}
		if s == nil {
			r.Violation("served-record-not-stored:"+after, fmt.Sprintf("store %d is served (%s) but has no stored record %s", id, c.State, after), wit())
			md.dirtyMeta[id] = true // reported once, at the step where it appeared
			continue
		}
		if !s.sameMeta(c) {
			r.Violation("stored-differs-from-served:"+diffClass(s, c)+":"+after, fmt.Sprintf("store %d %s: stored {%s} served {%s}", id, after, s.Meta, c.Meta), wit())
			md.dirtyMeta[id] = true
			continue
		}
		if !md.dirtyWeight[id] && !s.sameWeight(c) {
			r.Violation("stored-differs-from-served:weight:"+after, fmt.Sprintf("store %d %s: stored weights %v/%v served %v/%v", id, after, s.LW, s.RW, c.LW, c.RW), wit())
			md.dirtyWeight[id] = true
			continue
		}
		if s.LastHB > c.LastHB {
			r.Count("stored_last_heartbeat_ahead_of_served_counted_only", 1)
		}
		r.Count("compare_stored_equals_served", 1)
	}
	for id, s := range stored {
		if cur[id] == nil && !md.dirtyMeta[id] {
			r.Violation("stored-record-not-served:"+after, fmt.Sprintf("store %d has a stored record (%s) but is not served %s", id, s.State, after), wit())
			md.dirtyMeta[id] = true
		}
	}
	for id := range orphanW {
		if cur[id] == nil {
			r.Count("stored_weight_without_record_counted_only", 1)
		}
	}

	// ---- bookkeeping of requested values (counted only; the statement does not speak of them) ---
	if ok && st.Injected == nil {
		switch st.Cmd {
		case "put":
			if c := cur[st.ID]; c != nil && c.Addr != st.Addr {
				r.Count("put_ok_but_address_differs_counted_only", 1)
			}
		case "weight":
			if c := cur[st.ID]; c != nil && (c.LW != st.LW || c.RW != st.RW) {
				r.Count("weight_ok_but_differs_counted_only", 1)
			}
		case "remove":
			if c := cur[st.ID]; c != nil && c.State == metapb.StoreState_Up {
				r.Count("remove_ok_but_still_up_counted_only", 1)
			}
		}
	}
	if ok {
		r.Count("ok_"+st.Cmd, 1)
	} else {
		r.Count("refused_"+st.Cmd+"_on_"+strings.SplitN(st.Before, "+", 2)[0], 1)
	}
	res := "ok"
	if !ok {
		res = "no"
	}
	return st.Cmd + "/" + st.Before + "/" + res + "/" + faultClass
}

func recStr(r *rec) string {
	if r == nil {
		return "absent"
	}
	return r.Meta
}
func recLW(r *rec) float64 {
	if r == nil {
		return 0
	}
	return r.LW
}
func recRW(r *rec) float64 {
	if r == nil {
		return 0
	}
	return r.RW
}

func (e *env) witness(hs *historyState, prev, cur, stored snap) interface{} {
	steps := hs.Steps
	return map[string]interface{}{
		"seed": e.r.Seed, "shard": e.r.Shard, "tier": e.r.Tier, "history": hs.H, "script": hs.Script, "history_seed": hs.Seed, "backend": hs.Backend,
		"initial_state":          "store 1 Up at mock://tikv-1 version 5.0.0; regions 2,20,21 each with one peer on store 1",
		"steps":                  steps,
		"failing_step":           len(steps) - 1,
		"served_before_step":     prev,
		"served_after_step":      cur,
		"stored_after_step":      stored,
		"region_placement_model": regionsOf(e, hs),
	}
}

func regionsOf(e *env, hs *historyState) interface{} {
	out := map[string][]uint64{}
	for _, st := range hs.Steps {
		if st.Cmd == "region" && st.Err == "" && st.Panic == "" {
			out[strconv.FormatUint(st.Region, 10)] = st.Peers
		}
	}
	return out
}

// panicSite returns the innermost pd function on the stack of a recovered panic.
func panicSite(stack string) string {
	lines := strings.Split(stack, "\n")
	seenPanic := false
	for _, l := range lines {
		if strings.HasPrefix(l, "panic(") {
			seenPanic = true
			continue
		}
		if seenPanic && strings.HasPrefix(l, "github.com/tikv/pd/") && !strings.HasSuffix(l, "(...)") {
			l = strings.TrimPrefix(l, "github.com/tikv/pd/")
			if i := strings.LastIndex(l, "("); i > 0 {
				l = l[:i]
			}
			if i := strings.LastIndex(l, "/"); i >= 0 {
				l = l[i+1:]
			}
			return l
		}
	}
	return "unknown-site"
}

// isReload: commands after which pd serves what the storage holds.
func isReload(cmd string) bool { return cmd == "reload" || cmd == "restart" }
