package main

import (
	"fmt"
	"math/rand"
	"runtime/debug"
	"sort"

	"github.com/pingcap/kvproto/pkg/metapb"
	"github.com/pingcap/kvproto/pkg/pdpb"
	"github.com/tikv/pd/server/core"
	"github.com/tikv/pd/server/core/storelimit"
	"verif/harness/lib/kvx"
)

var regionIDs = []uint64{2, 20, 21}

var regionRange = map[uint64][2]string{2: {"", "m"}, 20: {"m", "t"}, 21: {"t", ""}}

var idPool = []uint64{1, 2, 3, 4, 5, 6}

var addrPool = []string{"mock://tikv-1", "tikv-a:20160", "tikv-b:20160", "tikv-c:20160", "tikv-d:20160", "tikv-e:20160", "tikv-f:20160"}

// step is one command of a history (and what came back).
type step struct {
	N   int    `json:"n"`
	Cmd string `json:"cmd"` // put remove up bury checkstores weight labels rmtomb storehb region
	Via string `json:"via,omitempty"`
	ID  uint64 `json:"id,omitempty"`

	Addr         string               `json:"addr,omitempty"`
	Version      string               `json:"version,omitempty"`
	ReqState     metapb.StoreState    `json:"req_state,omitempty"`
	ReqDestroyed bool                 `json:"req_physically_destroyed,omitempty"`
	StatusAddr   string               `json:"status_addr,omitempty"`
	PeerAddr     string               `json:"peer_addr,omitempty"`
	GitHash      string               `json:"git_hash,omitempty"`
	StartTS      int64                `json:"start_ts,omitempty"`
	DeployPath   string               `json:"deploy_path,omitempty"`
	Variation    string               `json:"variation,omitempty"`
	BigLabels    int                  `json:"generated_labels,omitempty"` // n labels k000000=v ... generated at execution
	Labels       []*metapb.StoreLabel `json:"labels,omitempty"`
	Force        bool                 `json:"force,omitempty"`
	Destroyed    bool                 `json:"physically_destroyed,omitempty"`
	LW           float64              `json:"lw,omitempty"`
	RW           float64              `json:"rw,omitempty"`
	Region       uint64               `json:"region,omitempty"`
	Peers        []uint64             `json:"peers,omitempty"`
	ConfVer      uint64               `json:"conf_ver,omitempty"`

	Before   string     `json:"target_before"`
	Fault    *faultPlan `json:"fault_plan,omitempty"`
	Injected *kvx.Event `json:"injected,omitempty"`
	Err      string     `json:"err,omitempty"`
	PbErr    string     `json:"header_error,omitempty"`
	Panic    string     `json:"panic,omitempty"`

	Race *raceInfo `json:"race,omitempty"`
	Call int64     `json:"call_tick,omitempty"`
	Ack  int64     `json:"ack_tick,omitempty"`

	pdRegionCount map[uint64]int
	edges         int  // operations overlapping the two observations being judged (0 = 1)
	skipS6        bool // failed write inside a race in which another worker may change the same record
	noDirty       bool // the failed write cannot leave stored != served (heartbeat flush)
	s6Base        snap // observation before the race, for the "served unchanged" clause
}

func sortedIDs(s snap) []uint64 {
	var ids []uint64
	for id := range s {
		ids = append(ids, id)
	}
	sort.Slice(ids, func(i, j int) bool { return ids[i] < ids[j] })
	return ids
}

func genLabels(rng *rand.Rand) []*metapb.StoreLabel {
	keys := []string{"zone", "rack", "host", "Zone", "disk"}
	vals := []string{"z1", "z2", "r1", "h1", "", "ssd"}
	n := rng.Intn(4)
	var out []*metapb.StoreLabel
	for i := 0; i < n; i++ {
		out = append(out, &metapb.StoreLabel{Key: keys[rng.Intn(len(keys))], Value: vals[rng.Intn(len(vals))]})
	}
	return out
}

func genVersion(rng *rand.Rand) string {
	switch rng.Intn(20) {
	case 0:
		return "3.0.0" // incompatible with a 5.0 cluster
	case 1:
		return "not-a-version"
	case 2, 3, 4:
		return "5.0.1"
	case 5:
		return "5.0.3"
	}
	return "5.0.0"
}

// pickTarget chooses a store id: mostly an existing one (any state), sometimes an absent one.
func pickTarget(rng *rand.Rand, ids []uint64) uint64 {
	if len(ids) > 0 && rng.Intn(100) < 88 {
		return ids[rng.Intn(len(ids))]
	}
	if rng.Intn(4) == 0 {
		return 99
	}
	return idPool[rng.Intn(len(idPool))]
}

func pickWhere(rng *rand.Rand, prev snap, ids []uint64, pred func(*rec) bool) (uint64, bool) {
	var l []uint64
	for _, id := range ids {
		if pred(prev[id]) {
			l = append(l, id)
		}
	}
	if len(l) == 0 {
		return 0, false
	}
	return l[rng.Intn(len(l))], true
}

func (e *env) genAddr(rng *rand.Rand, prev snap, ids []uint64, collide bool) string {
	if collide && len(ids) > 0 {
		return prev[ids[rng.Intn(len(ids))]].Addr
	}
	used := map[string]bool{}
	for _, r := range prev {
		used[r.Addr] = true
	}
	var free []string
	for _, a := range addrPool {
		if !used[a] {
			free = append(free, a)
		}
	}
	if len(free) == 0 {
		return addrPool[rng.Intn(len(addrPool))]
	}
	return free[rng.Intn(len(free))]
}

// generator state for one draw.
type genCtx struct {
	e    *env
	rng  *rand.Rand
	prev snap
	md   *model
	ids  []uint64
}

// hosts = stores that may receive a peer: Up or Offline.
func (g *genCtx) hosts() []uint64 {
	var l []uint64
	for _, id := range g.ids {
		if g.prev[id].State != metapb.StoreState_Tombstone {
			l = append(l, id)
		}
	}
	return l
}

func (g *genCtx) where(pred func(uint64, *rec) bool) []uint64 {
	var l []uint64
	for _, id := range g.ids {
		if pred(id, g.prev[id]) {
			l = append(l, id)
		}
	}
	return l
}

func (g *genCtx) one(l []uint64) uint64 { return l[g.rng.Intn(len(l))] }

func (g *genCtx) via() string {
	if g.rng.Intn(2) == 0 {
		return "grpc"
	}
	return "cluster"
}

func (g *genCtx) putNew(collide bool) *step {
	rng := g.rng
	var free []uint64
	for _, id := range idPool {
		if g.prev[id] == nil {
			free = append(free, id)
		}
	}
	st := &step{Cmd: "put", Via: g.via(), Version: genVersion(rng), Labels: genLabels(rng)}
	if rng.Intn(25) == 0 {
		st.ID = 0
	} else if len(free) > 0 {
		st.ID = free[rng.Intn(len(free))]
	} else {
		st.ID = g.one(g.ids)
	}
	st.Addr = g.e.genAddr(rng, g.prev, g.ids, collide)
	return st
}

func (g *genCtx) putSame(id uint64) *step {
	rng := g.rng
	st := &step{Cmd: "put", Via: g.via(), ID: id, Version: genVersion(rng), Labels: genLabels(rng)}
	switch rng.Intn(3) {
	case 0:
		st.Addr = g.prev[id].Addr
	case 1:
		st.Addr = g.e.genAddr(rng, g.prev, g.ids, true)
	default:
		st.Addr = g.e.genAddr(rng, g.prev, g.ids, false)
	}
	if rng.Intn(8) == 0 { // a request state must not matter for a known store
		st.ReqState = metapb.StoreState(rng.Intn(3))
	}
	return st
}

func (g *genCtx) bury(id uint64) *step {
	if p := g.prev[id]; p != nil && p.State == metapb.StoreState_Offline && g.md.regionCount(id) > 0 {
		// buryStore documents "the store should be empty before calling this func"
		g.e.r.Count("skipped_bury_precondition", 1)
		return &step{Cmd: "checkstores"}
	}
	return &step{Cmd: "bury", ID: id}
}

func (g *genCtx) place() *step {
	rng := g.rng
	hs := g.hosts()
	rid := regionIDs[rng.Intn(len(regionIDs))]
	if len(hs) == 0 {
		return &step{Cmd: "checkstores"}
	}
	rng.Shuffle(len(hs), func(i, j int) { hs[i], hs[j] = hs[j], hs[i] })
	n := 1 + rng.Intn(3)
	if n > len(hs) {
		n = len(hs)
	}
	peers := append([]uint64(nil), hs[:n]...)
	if rng.Intn(5) == 0 {
		// a follower peer on a store id that is not registered (yet): TiKV reports regions of a
		// store whose PutStore has not reached pd; the id may be registered later in the history
		var unreg []uint64
		for _, id := range idPool {
			if g.prev[id] == nil {
				unreg = append(unreg, id)
			}
		}
		if len(unreg) > 0 {
			peers = append(peers, g.one(unreg))
			g.e.r.Count("placements_on_unregistered_store_id", 1)
		}
	}
	g.md.conf[rid]++
	return &step{Cmd: "region", Region: rid, Peers: peers, ConfVer: g.md.conf[rid]}
}

// evacuate takes one peer off store x (moving it to another host when it was the only one).
func (g *genCtx) evacuate(x uint64) *step {
	var rid uint64
	for _, r := range regionIDs {
		if g.md.regions[r][x] {
			rid = r
			break
		}
	}
	if rid == 0 {
		return &step{Cmd: "checkstores"}
	}
	var peers []uint64
	for _, s := range sortedKeys(g.md.regions[rid]) {
		if s != x {
			peers = append(peers, s)
		}
	}
	if len(peers) == 0 {
		var others []uint64
		for _, h := range g.hosts() {
			if h != x {
				others = append(others, h)
			}
		}
		if len(others) == 0 {
			return &step{Cmd: "checkstores"}
		}
		peers = []uint64{g.one(others)}
		for _, o := range others { // prefer an Up store as the new home
			if g.prev[o].State == metapb.StoreState_Up {
				peers = []uint64{o}
				break
			}
		}
	}
	g.md.conf[rid]++
	return &step{Cmd: "region", Region: rid, Peers: peers, ConfVer: g.md.conf[rid]}
}

// anyCommandOn draws a command aimed at one given store (used to pester tombstone / destroyed stores).
func (g *genCtx) anyCommandOn(id uint64) *step {
	rng := g.rng
	ws := []float64{0, 0.5, 1, 2, 3.5}
	switch rng.Intn(8) {
	case 0:
		return &step{Cmd: "up", ID: id}
	case 1:
		return &step{Cmd: "remove", ID: id, Destroyed: rng.Intn(2) == 0}
	case 2:
		st := g.putSame(id)
		st.Via = "grpc"
		return st
	case 3:
		return &step{Cmd: "storehb", ID: id}
	case 4:
		return g.putSame(id)
	case 5:
		return &step{Cmd: "weight", ID: id, LW: ws[rng.Intn(len(ws))], RW: ws[rng.Intn(len(ws))]}
	case 6:
		return &step{Cmd: "labels", ID: id, Labels: genLabels(rng), Force: rng.Intn(2) == 0}
	}
	return g.bury(id)
}

// progress draws a command that drives the lifecycle forward, so that histories reach tombstones,
// cleanups and re-registrations within 40 steps.
func (g *genCtx) progress() *step {
	rng := g.rng
	tomb := g.where(func(id uint64, r *rec) bool { return r.State == metapb.StoreState_Tombstone })
	offEmpty := g.where(func(id uint64, r *rec) bool { return r.State == metapb.StoreState_Offline && g.md.regionCount(id) == 0 })
	offFull := g.where(func(id uint64, r *rec) bool { return r.State == metapb.StoreState_Offline && g.md.regionCount(id) > 0 })
	up := g.where(func(id uint64, r *rec) bool { return r.State == metapb.StoreState_Up })
	destroyed := g.where(func(id uint64, r *rec) bool { return r.Destroyed && r.State == metapb.StoreState_Offline })
	switch {
	case len(tomb) > 0 && rng.Intn(3) == 0:
		if rng.Intn(3) == 0 {
			return &step{Cmd: "rmtomb"}
		}
		return g.anyCommandOn(g.one(tomb))
	case len(destroyed) > 0 && rng.Intn(4) == 0:
		return g.anyCommandOn(g.one(destroyed))
	case len(offEmpty) > 0 && rng.Intn(2) == 0:
		if rng.Intn(3) == 0 {
			return g.bury(g.one(offEmpty))
		}
		return &step{Cmd: "checkstores"}
	case len(offFull) > 0 && rng.Intn(3) != 0:
		if rng.Intn(8) == 0 {
			return &step{Cmd: "reload"} // the background check after a reload must still see the peers
		}
		if rng.Intn(4) == 0 {
			return &step{Cmd: "checkstores"} // must not bury
		}
		return g.evacuate(g.one(offFull))
	case len(up) >= 2 && rng.Intn(2) == 0:
		return &step{Cmd: "remove", ID: g.one(up), Destroyed: rng.Intn(3) == 0}
	case len(up) < 3:
		return g.putNew(rng.Intn(4) == 0)
	}
	return g.place()
}

// gen draws the next command. It looks at the served stores only to aim at interesting targets.
func (e *env) gen(rng *rand.Rand, prev snap, md *model) *step {
	ids := sortedIDs(prev)
	g := &genCtx{e: e, rng: rng, prev: prev, md: md, ids: ids}
	if rng.Intn(10) < 4 {
		return g.progress()
	}
	w := rng.Intn(100)
	switch {
	case w < 12:
		return g.putNew(rng.Intn(3) == 0)
	case w < 24:
		if len(ids) == 0 {
			return g.putNew(false)
		}
		return g.putSame(g.one(ids))
	case w < 38:
		return &step{Cmd: "remove", ID: pickTarget(rng, ids), Destroyed: rng.Intn(3) == 0}
	case w < 47:
		if id, ok := pickWhere(rng, prev, ids, func(r *rec) bool { return r.State != metapb.StoreState_Up }); ok && rng.Intn(3) != 0 {
			return &step{Cmd: "up", ID: id}
		}
		return &step{Cmd: "up", ID: pickTarget(rng, ids)}
	case w < 53:
		return g.bury(pickTarget(rng, ids))
	case w < 60:
		return &step{Cmd: "checkstores"}
	case w < 63:
		return &step{Cmd: "reload"}
	case w < 68:
		ws := []float64{0, 0.5, 1, 2, 3.5}
		return &step{Cmd: "weight", ID: pickTarget(rng, ids), LW: ws[rng.Intn(len(ws))], RW: ws[rng.Intn(len(ws))]}
	case w < 75:
		return &step{Cmd: "labels", ID: pickTarget(rng, ids), Labels: genLabels(rng), Force: rng.Intn(2) == 0}
	case w < 79:
		return &step{Cmd: "rmtomb"}
	case w < 85:
		if id, ok := pickWhere(rng, prev, ids, func(r *rec) bool { return r.State == metapb.StoreState_Tombstone }); ok && rng.Intn(2) == 0 {
			return &step{Cmd: "storehb", ID: id}
		}
		return &step{Cmd: "storehb", ID: pickTarget(rng, ids)}
	case w < 92:
		return g.place()
	default:
		cands := g.where(func(id uint64, r *rec) bool { return md.regionCount(id) > 0 })
		if len(cands) == 0 {
			return &step{Cmd: "checkstores"}
		}
		return g.evacuate(g.one(cands))
	}
}

func sortedKeys(m map[uint64]bool) []uint64 {
	var l []uint64
	for k := range m {
		l = append(l, k)
	}
	sort.Slice(l, func(i, j int) bool { return l[i] < l[j] })
	return l
}

// exec performs the command on the real server. A panic inside pd is recorded, not propagated.
func (e *env) exec(st *step) {
	st.pdRegionCount = map[uint64]int{}
	for _, s := range e.rc.GetStores() {
		st.pdRegionCount[s.GetID()] = e.rc.GetStoreRegionCount(s.GetID())
	}
	defer func() {
		if p := recover(); p != nil {
			st.Panic = fmt.Sprintf("%v\n%s", p, debug.Stack())
		}
	}()
	var err error
	var hdr *pdpb.ResponseHeader
	switch st.Cmd {
	case "put":
		labels := cloneLabels(st.Labels)
		for i := 0; i < st.BigLabels; i++ {
			labels = append(labels, &metapb.StoreLabel{Key: fmt.Sprintf("k%06d", i), Value: "v"})
		}
		store := &metapb.Store{Id: st.ID, Address: st.Addr, Version: st.Version, Labels: labels, State: st.ReqState,
			PhysicallyDestroyed: st.ReqDestroyed, StatusAddress: st.StatusAddr, PeerAddress: st.PeerAddr, GitHash: st.GitHash,
			StartTimestamp: st.StartTS, DeployPath: st.DeployPath}
		if st.Via == "grpc" {
			var resp *pdpb.PutStoreResponse
			resp, err = e.s.PutStore(e.ctx, &pdpb.PutStoreRequest{Header: e.m.Header(), Store: store})
			hdr = resp.GetHeader()
		} else {
			err = e.rc.PutStore(store)
		}
	case "remove":
		err = e.rc.RemoveStore(st.ID, st.Destroyed)
	case "up":
		err = e.rc.UpStore(st.ID)
	case "bury":
		e.r.Count("hook_VerifBuryStore", 1)
		err = e.rc.VerifBuryStore(st.ID)
	case "checkstores":
		e.r.Count("hook_VerifCheckStores", 1)
		e.rc.VerifCheckStores()
	case "weight":
		err = e.rc.SetStoreWeight(st.ID, st.LW, st.RW)
	case "labels":
		err = e.rc.UpdateStoreLabels(st.ID, cloneLabels(st.Labels), st.Force)
	case "rmtomb":
		err = e.rc.RemoveTombStoneRecords()
	case "attach": // operator controller / store limit path: a store writer that does not take the cluster lock
		e.rc.AttachAvailableFunc(st.ID, storelimit.AddPeer, func() bool { return true })
	case "pause": // evict-leader / grant-leader schedulers
		err = e.rc.PauseLeaderTransfer(st.ID)
	case "resume":
		e.rc.ResumeLeaderTransfer(st.ID)
	case "rmlimit":
		e.rc.RemoveStoreLimit(st.ID)
	case "reload":
		err = e.reload()
	case "reloadlc":
		// the same server is re-elected: the cluster is stopped and started again on the cache it has
		e.r.Count("reloads_leader_change_style", 1)
		e.rc.Stop()
		if err = e.rc.Start(e.s); err != nil || !e.rc.IsRunning() {
			e.lost = fmt.Sprintf("reloadlc: RaftCluster.Start failed: %v", err)
		}
	case "storehb":
		var resp *pdpb.StoreHeartbeatResponse
		resp, err = e.s.StoreHeartbeat(e.ctx, &pdpb.StoreHeartbeatRequest{Header: e.m.Header(),
			Stats: &pdpb.StoreStats{StoreId: st.ID, Capacity: 1 << 40, Available: 1 << 39, RegionCount: uint32(st.pdRegionCount[st.ID])}})
		hdr = resp.GetHeader()
	case "region":
		e.r.Count("hook_VerifProcessRegionHeartbeat", 1)
		var peers []*metapb.Peer
		for _, s := range st.Peers {
			peers = append(peers, &metapb.Peer{Id: st.Region*1000 + s, StoreId: s})
		}
		rr := regionRange[st.Region]
		meta := &metapb.Region{Id: st.Region, StartKey: []byte(rr[0]), EndKey: []byte(rr[1]),
			RegionEpoch: &metapb.RegionEpoch{ConfVer: st.ConfVer, Version: 1}, Peers: peers}
		err = e.rc.VerifProcessRegionHeartbeat(core.NewRegionInfo(meta, peers[0]))
	default:
		panic("harness: unknown command " + st.Cmd)
	}
	if err != nil {
		st.Err = err.Error()
	}
	if hdr.GetError() != nil {
		st.PbErr = hdr.GetError().GetType().String()
	}
}

func cloneLabels(in []*metapb.StoreLabel) []*metapb.StoreLabel {
	var out []*metapb.StoreLabel
	for _, l := range in {
		out = append(out, &metapb.StoreLabel{Key: l.Key, Value: l.Value})
	}
	return out
}

// reload rebuilds the cluster from the (instrumented) storage the way a pd restart / a change of
// the pd leader does: the RaftCluster is stopped, the cache is emptied and RaftCluster.Start loads
// meta, stores and regions back (LoadClusterInfo) and restarts coordinator and background jobs.
func (e *env) reload() error {
	e.r.Count("reloads", 1)
	e.rc.Stop()
	bc := e.s.GetBasicCluster()
	for _, rg := range bc.GetRegions() {
		bc.RemoveRegion(rg)
	}
	for _, s := range bc.GetStores() {
		bc.DeleteStore(s)
	}
	if err := e.rc.Start(e.s); err != nil {
		e.lost = "reload: RaftCluster.Start failed: " + err.Error()
		return err
	}
	if !e.rc.IsRunning() {
		e.lost = "reload: cluster not running after RaftCluster.Start"
		return fmt.Errorf("%s", e.lost)
	}
	return nil
}
