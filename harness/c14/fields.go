package main

import (
	"math"
	"math/rand"

	"github.com/pingcap/kvproto/pkg/metapb"
)

// One-field grid: a store registered with every field set receives, through RaftCluster.PutStore
// and through the gRPC handler, requests that differ from the record pd serves at that moment in
// exactly one field (every field, incl. differently spelled addresses, label order / key case /
// empty and separator-laden keys and values, client-supplied state and physically-destroyed
// mark), each first with a failing store-record write and then without; label variations also
// through UpdateStoreLabels (merge and force). Only the property's clauses are judged: address
// sharing by exact string equality (the empty address included), transitions, stored == served
// element-wise, served unchanged after the failed write. What pd does with the varied field is
// not judged.
func (e *env) fieldPhase(md *model, rng *rand.Rand) {
	r := e.r
	if err := e.resetWorld(md); err != nil {
		r.Inconclusive("one-field grid: %v", err)
		return
	}
	hs := &historyState{H: -7000, Backend: e.backend, Script: "one-field-grid"}
	do := func(st *step, f *faultPlan) bool {
		e.runStep(hs, st, f, md)
		return e.lost == ""
	}
	const X = uint64(2)
	base := &step{Cmd: "put", Via: "grpc", ID: X, Addr: "tikv-a:20160", StatusAddr: "tikv-a:20180", PeerAddr: "tikv-a:20161",
		Version: "5.0.0", GitHash: "0a1b2c", StartTS: 1000, DeployPath: "/deploy/a",
		Labels: []*metapb.StoreLabel{{Key: "zone", Value: "z1"}, {Key: "rack", Value: "r1"}}}
	for _, st := range []*step{base,
		{Cmd: "put", Via: "grpc", ID: 3, Addr: "tikv-b:20160", Version: "5.0.0"},
		{Cmd: "put", Via: "grpc", ID: 4, Addr: "tikv-d:20160", Version: "5.0.0"}, {Cmd: "remove", ID: 4}} {
		if !do(st, nil) {
			return
		}
	}
	// request = what is served now, one field changed
	fromServed := func(id uint64) *step {
		s := e.rc.GetStore(id)
		if s == nil {
			return nil
		}
		m := s.GetMeta()
		return &step{Cmd: "put", ID: id, Addr: m.GetAddress(), StatusAddr: m.GetStatusAddress(), PeerAddr: m.GetPeerAddress(),
			Version: m.GetVersion(), GitHash: m.GetGitHash(), StartTS: m.GetStartTimestamp(), DeployPath: m.GetDeployPath(),
			Labels: cloneLabels(m.GetLabels()), ReqState: m.GetState(), ReqDestroyed: m.GetPhysicallyDestroyed()}
	}
	type variation struct {
		name string
		f    func(st *step)
	}
	lab := func(kv ...string) []*metapb.StoreLabel {
		var l []*metapb.StoreLabel
		for i := 0; i+1 < len(kv); i += 2 {
			l = append(l, &metapb.StoreLabel{Key: kv[i], Value: kv[i+1]})
		}
		return l
	}
	labelVars := []variation{
		{"labels-order", func(st *step) {
			for i, j := 0, len(st.Labels)-1; i < j; i, j = i+1, j-1 {
				st.Labels[i], st.Labels[j] = st.Labels[j], st.Labels[i]
			}
		}},
		{"label-key-case", func(st *step) { st.Labels = append(lab("ZONE", "z9"), st.Labels...) }},
		{"label-value", func(st *step) { st.Labels = lab("zone", "z2", "rack", "r1") }},
		{"label-value-case", func(st *step) { st.Labels = lab("zone", "Z2", "rack", "r1") }},
		{"label-empty-value", func(st *step) { st.Labels = lab("zone", "", "rack", "r1") }},
		{"label-empty-key", func(st *step) { st.Labels = append(st.Labels, lab("", "v")...) }},
		{"label-separators", func(st *step) { st.Labels = append(st.Labels, lab("a/b,c", "x,y/z", "..", "../")...) }},
		{"label-duplicate-keys", func(st *step) { st.Labels = append(st.Labels, lab("host", "h1", "host", "h2", "Host", "h3")...) }},
		{"labels-none", func(st *step) { st.Labels = nil }},
	}
	vars := append([]variation{
		{"identical", func(st *step) {}},
		{"address", func(st *step) { st.Addr = "tikv-c:20160" }},
		{"address-host-case", func(st *step) { st.Addr = "TiKV-C:20160" }},
		{"address-trailing-dot", func(st *step) { st.Addr = "tikv-c.:20160" }},
		{"address-spaces", func(st *step) { st.Addr = " tikv-c:20160 " }},
		{"address-of-live-store", func(st *step) { st.Addr = "tikv-b:20160" }},           // must not end up shared
		{"address-of-live-store-host-case", func(st *step) { st.Addr = "TIKV-B:20160" }}, // a different address for pd
		{"address-of-offline-store", func(st *step) { st.Addr = "tikv-d:20160" }},        // must not end up shared
		{"address-empty", func(st *step) { st.Addr = "" }},
		{"address-back", func(st *step) { st.Addr = "tikv-a:20160" }},
		{"status-address", func(st *step) { st.StatusAddr = "tikv-a:29999" }},
		{"status-address-of-other-store", func(st *step) { st.StatusAddr = "tikv-b:20160" }},
		{"peer-address", func(st *step) { st.PeerAddr = "tikv-a:29998" }},
		{"peer-address-empty", func(st *step) { st.PeerAddr = "" }},
		{"version", func(st *step) { st.Version = "5.0.1" }},
		{"version-invalid", func(st *step) { st.Version = "v5" }},
		{"version-incompatible", func(st *step) { st.Version = "3.0.0" }},
		{"git-hash", func(st *step) { st.GitHash = "ffffff" }},
		{"start-timestamp", func(st *step) { st.StartTS = 2000 }},
		{"start-timestamp-negative", func(st *step) { st.StartTS = -1 }},
		{"start-timestamp-huge", func(st *step) { st.StartTS = math.MaxInt64 }},
		{"deploy-path", func(st *step) { st.DeployPath = "/deploy/b" }},
		{"deploy-path-pathlike", func(st *step) { st.DeployPath = "../x/" }},
		{"physically-destroyed-by-client", func(st *step) { st.ReqDestroyed = true }},
		{"state-offline-by-client", func(st *step) { st.ReqState = metapb.StoreState_Offline }},
		{"state-tombstone-by-client", func(st *step) { st.ReqState = metapb.StoreState_Tombstone }},
	}, labelVars...)
	n := 0
	adopted := func(before snap, st *step) {
		c := e.served()[st.ID]
		p := before[st.ID]
		if c != nil && p != nil && (c.State != p.State || c.Destroyed != p.Destroyed) {
			r.Count("client_supplied_state_or_mark_adopted_counted_only", 1)
		}
	}
	for _, target := range []uint64{X, 4} { // an Up store and an Offline store
		for _, via := range []string{"cluster", "grpc"} {
			for _, v := range vars {
				for _, faulted := range []bool{true, false} {
					st := fromServed(target)
					if st == nil {
						r.Inconclusive("one-field grid: store %d is gone", target)
						return
					}
					st.Via, st.Variation = via, v.name
					v.f(st)
					var f *faultPlan
					if faulted {
						n++
						f = &faultPlan{Mode: 1 + n%2, N: 1}
					}
					before := e.served()
					if !do(st, f) {
						return
					}
					adopted(before, st)
					r.Count("one_field_requests", 1)
				}
			}
		}
		// label updates through the HTTP entry point, merged and forced
		for _, force := range []bool{false, true} {
			for _, v := range labelVars {
				for _, faulted := range []bool{true, false} {
					st := fromServed(target)
					v.f(st)
					up := &step{Cmd: "labels", ID: target, Labels: st.Labels, Force: force, Variation: v.name}
					var f *faultPlan
					if faulted {
						n++
						f = &faultPlan{Mode: 1 + n%2, N: 1}
					}
					if !do(up, f) {
						return
					}
					r.Count("one_field_requests", 1)
				}
			}
		}
	}
	// the empty address is an address like any other: two live stores must not share it
	huge := uint64(math.MaxUint64)
	tail := []*step{
		{Cmd: "put", Via: "grpc", ID: X, Addr: "", Version: "5.0.0"},
		{Cmd: "put", Via: "grpc", ID: 5, Addr: "", Version: "5.0.0"},
		{Cmd: "put", Via: "cluster", ID: 5, Addr: "", Version: "5.0.0"},
		{Cmd: "put", Via: "grpc", ID: 5, Addr: " ", Version: "5.0.0"},
		// ids at the ends of the range
		{Cmd: "put", Via: "grpc", ID: 0, Addr: "tikv-zero:20160", Version: "5.0.0"},
		{Cmd: "put", Via: "grpc", ID: huge, Addr: "tikv-max:20160", Version: "5.0.0"},
		{Cmd: "put", Via: "cluster", ID: huge - 1, Addr: "tikv-max:20160", Version: "5.0.0"}, // refused: shared
		{Cmd: "weight", ID: huge, LW: 0.5, RW: 2},
		{Cmd: "storehb", ID: huge},
		{Cmd: "remove", ID: huge, Destroyed: true},
		{Cmd: "put", Via: "cluster", ID: huge - 1, Addr: "tikv-max:20160", Version: "5.0.0"}, // now allowed
		{Cmd: "up", ID: huge},
		{Cmd: "reload"},
		{Cmd: "checkstores"},
		{Cmd: "put", Via: "grpc", ID: huge, Addr: "tikv-max2:20160", Version: "5.0.0"}, // STORE_TOMBSTONE
		{Cmd: "rmtomb"},
		{Cmd: "reload"},
	}
	for _, st := range tail {
		if !do(st, nil) {
			return
		}
	}
	r.Eval(1)
	r.Count("one_field_grids", 1)
	r.Distinct("one-field-grid")
}
