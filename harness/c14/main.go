// C14 — Store lifecycle is a one-way state machine and stays durable.
//
// A real bootstrapped single-member pd server. After bootstrap the cluster's records are copied into
// an instrumented in-memory kv.Base (lib/kvx) and both the server and its RaftCluster are switched
// to core.NewStorage(kvx) (RaftCluster.SetStorage), so that every store write of the cluster is
// seen and can be failed. Sequential PRNG histories over all store commands (including ones that
// must be rejected), region placements through region heartbeats, the background check
// (VerifCheckStores / VerifBuryStore) and a storage write fault (fail-before / lost-ack) at a
// random write of a step (thorough: at each store-record write of each step).
//
// The monitor observes, around every single command, the served stores (RaftCluster.GetStores) and
// the stored records (raft/s/<id>, schedule/store_weight/<id>/...), and judges them against the
// property statement only — see judge() in monitor.go.
package main

import (
	"context"
	"encoding/json"
	"fmt"
	"io/ioutil"
	"math/rand"
	"strings"
	"sync"
	"sync/atomic"
	"time"

	"github.com/pingcap/kvproto/pkg/metapb"
	"github.com/tikv/pd/server"
	"github.com/tikv/pd/server/cluster"
	"github.com/tikv/pd/server/config"
	"github.com/tikv/pd/server/core"
	"github.com/tikv/pd/server/kv"
	"verif/harness/lib/ev"
	"verif/harness/lib/hist"
	"verif/harness/lib/kvx"
	"verif/harness/lib/sched"
	"verif/harness/lib/srv"
)

// guardKV lets only the harness goroutine write. The server's own background goroutines
// (runBackgroundJobs -> checkStores every 10 s, coordinator, schedulers) get a storage error for
// their writes, so that the histories stay sequential and an injected fault is never consumed by
// somebody else. The same code (checkStores) is driven explicitly through VerifCheckStores.
type guardKV struct {
	*kvx.KV
	mu       sync.Mutex
	allowed  map[int64]bool // the harness goroutine and, in the gated phase, its two workers
	rejected int64
}

var errForeign = fmt.Errorf("c14: storage write from a background goroutine refused by the harness")

func (g *guardKV) allow(goid int64, on bool) {
	g.mu.Lock()
	if on {
		g.allowed[goid] = true
	} else {
		delete(g.allowed, goid)
	}
	g.mu.Unlock()
}

func (g *guardKV) mine() bool {
	id := hist.Goid()
	g.mu.Lock()
	defer g.mu.Unlock()
	return g.allowed[id]
}

func (g *guardKV) Save(key, value string) error {
	if !g.mine() {
		atomic.AddInt64(&g.rejected, 1)
		return errForeign
	}
	return g.KV.Save(key, value)
}

func (g *guardKV) Remove(key string) error {
	if !g.mine() {
		atomic.AddInt64(&g.rejected, 1)
		return errForeign
	}
	return g.KV.Remove(key)
}

type env struct {
	r     *ev.Run
	m     *srv.Member
	s     *server.Server
	rc    *cluster.RaftCluster
	kv    *kvx.KV
	guard *guardKV
	ctx   context.Context
	base  map[string]string // storage content right after bootstrap
	owner int64

	gate atomic.Value // *sched.Sched of the running gated execution, or (*sched.Sched)(nil)

	origStorage  *core.Storage
	parkedWrites int64 // storage writes of gated workers that are at (or passing) the gate

	backend string
	lost    string // set when the server lost its leadership / restarted its cluster: no verdict
}

// healthy reports whether the server still is the leader running the same RaftCluster with the
// harness' storage.
func (e *env) healthy() bool {
	if e.lost != "" {
		return false
	}
	switch {
	case e.s.IsClosed():
		e.lost = "server closed"
	case !e.s.GetMember().IsLeader():
		e.lost = "server lost its leadership"
	case e.s.GetRaftCluster() != e.rc:
		e.lost = "raft cluster stopped or restarted"
	case e.rc.GetStorage().Base != kv.Base(e.guard):
		e.lost = "cluster storage was replaced"
	}
	return e.lost == ""
}

// setupStorage copies the bootstrapped cluster into a fresh instrumented kv and switches the
// server and the running RaftCluster to it.
func (e *env) setupStorage(base kv.Base) error {
	e.kv = kvx.New(base)
	e.guard = &guardKV{KV: e.kv, allowed: map[int64]bool{e.owner: true}}
	// the gate hooks are installed once; they only do something while a gated execution is on
	// only storage writes are gated: reads (e.g. the scheduler-config scan of Server.GetConfig in the
	// gRPC PutStore handler) run through, so that a worker reaches the cluster lock it has to
	// queue on instead of parking in front of it
	e.kv.Gate = func(kind, key string) {
		if kind != "Save" && kind != "Remove" {
			return
		}
		if s, _ := e.gate.Load().(*sched.Sched); s != nil {
			atomic.AddInt64(&e.parkedWrites, 1)
			s.Gate(kind, key)
			atomic.AddInt64(&e.parkedWrites, -1)
		}
	}
	e.kv.Done = func(kind, key string) {
		if kind != "Save" && kind != "Remove" {
			return
		}
		if s, _ := e.gate.Load().(*sched.Sched); s != nil {
			s.Done(kind, key)
		}
	}
	st := core.NewStorage(e.guard)
	if err := st.SaveMeta(e.rc.GetConfig()); err != nil {
		return err
	}
	for _, s := range e.rc.GetMetaStores() {
		if err := st.SaveStore(s); err != nil {
			return err
		}
	}
	for _, rg := range e.rc.GetMetaRegions() {
		if err := st.SaveRegion(rg); err != nil {
			return err
		}
	}
	if err := e.s.GetPersistOptions().Persist(st); err != nil {
		return err
	}
	if e.origStorage == nil {
		e.origStorage = e.s.GetStorage() // the server's own storage (owns the region leveldb); Close must get it back
	}
	e.rc.SetStorage(st)
	e.s.SetStorage(st)
	if e.rc.GetStorage() != st {
		return fmt.Errorf("RaftCluster.SetStorage did not take effect")
	}
	e.base = e.kv.Dump()
	e.kv.ResetLog()
	return nil
}

// resetWorld brings cache and storage back to the state right after bootstrap (one Up store, id 1)
// and places the harness' regions on store 1. It is harness surgery between histories, not judged.
func (e *env) resetWorld(md *model) error {
	if !e.healthy() {
		return fmt.Errorf("%s (harness/machine problem, not a verdict)", e.lost)
	}
	e.kv.ResetFaults()
	bc := e.s.GetBasicCluster()
	for _, rg := range bc.GetRegions() {
		bc.RemoveRegion(rg)
	}
	for _, s := range bc.GetStores() {
		bc.DeleteStore(s)
		e.rc.GetStoresStats().RemoveRollingStoreStats(s.GetID())
	}
	for _, id := range append([]uint64{0, 99}, idPool...) {
		// per-store statistics of the previous history (pd keeps them by id); LoadClusterInfo
		// re-creates them for the loaded stores
		e.rc.GetStoresStats().RemoveRollingStoreStats(id)
	}
	e.kv.Restore(e.base)
	// forget store limits of the previous history (they only decide how many config writes a put has)
	opt := e.s.GetPersistOptions()
	cfg := opt.GetScheduleConfig().Clone()
	cfg.StoreLimit = map[uint64]config.StoreLimitConfig{}
	opt.SetScheduleConfig(cfg)
	// load the stores back exactly as a start of the cluster does
	if err := core.NewStorage(e.kv.Inner).LoadStores(bc.PutStore); err != nil {
		return err
	}
	for _, s := range bc.GetStores() {
		e.rc.GetStoresStats().GetOrCreateRollingStoreStats(s.GetID())
	}
	md.reset()
	for _, rid := range regionIDs {
		st := &step{Cmd: "region", Region: rid, Peers: []uint64{1}}
		md.conf[rid]++
		st.ConfVer = md.conf[rid]
		e.exec(st)
		if st.Err != "" || st.Panic != "" {
			return fmt.Errorf("initial region heartbeat: %s%s", st.Err, st.Panic)
		}
		md.regions[rid] = map[uint64]bool{1: true}
	}
	e.kv.ResetLog()
	sv := e.served()
	if len(sv) != 1 || sv[1] == nil || sv[1].State != metapb.StoreState_Up {
		return fmt.Errorf("reset did not yield exactly one Up store 1: %v", sv)
	}
	if n := e.rc.GetStoreRegionCount(1); n != len(regionIDs) {
		return fmt.Errorf("reset: store 1 holds %d regions, want %d", n, len(regionIDs))
	}
	return nil
}

func main() {
	r := ev.New("C14", "exploration")
	r.Rule("one case = one sequential history of 40 single commands on a freshly reset cluster (store 1 Up, 3 regions on it): put-store new / same id / same address / id 0 / bad version (RaftCluster.PutStore and gRPC PutStore), RemoveStore with and without physically-destroyed, UpStore, VerifBuryStore, VerifCheckStores, SetStoreWeight, UpdateStoreLabels (merge and force), RemoveTombStoneRecords, gRPC StoreHeartbeat, region placements / evacuations by region heartbeats (sometimes with a peer on a store id that is registered only later), reload of the cluster from storage (RaftCluster.Stop, empty cache, RaftCluster.Start = LoadClusterInfo); targets are drawn from ids 1..6 in every state (incl. tombstone, destroyed, absent); quick: one fail-before/lost-ack fault at a random write of ~1/3 of the steps; thorough: every step is re-issued with a fault at its 1st, 2nd, ... store-record write until no write is left (1/8 of the steps: at every write of any key). distinct = sequence of (command, state of the target before, outcome class, fault class) of the history. Gated phases (lib/sched, every storage operation of two workers parked, both start orders, all release orders depth-first; distinct = family x case x start order x fault x released (worker,op) sequence): heartbeat-race = a flushing gRPC StoreHeartbeat of store 2 (first heartbeat after a reload) against 13 lifecycle operations on store 2 (remove, remove physically-destroyed (+replacement on its address), up, bury, check-stores, bury+cleanup, bury+replacement, put same id, labels, weight, leader-change style reload); lifecycle-race = 22 pairs of lifecycle operations of different kinds on the same store (put same id | remove / bury, up | bury / check-stores, remove | check-stores, cleanup | put same id, labels | put, weight | remove, reload | remove / bury ...), on two stores competing for one address, and the background check working on a snapshot of several offline stores against an operation on one of them; address-race = three workers: an operation on a third store (weight, flushing heartbeat, remove, bury) parked inside its storage write while it holds the cluster lock, and two registrations wanting the same address (put-new | put-new, move | put-new, move | move, up of the holder | put-new) started while it is parked, then all release orders; store-writer-race = the store writers that do not take the cluster lock (AttachAvailableFunc, PauseLeaderTransfer, ResumeLeaderTransfer, RemoveStoreLimit) against each lifecycle operation on the same store carrying a large generated label set, the writer started once the lifecycle write is parked and the write released by the settle rule while the writer is still copying, judged again after one more store heartbeat, plus free-running rounds of the same pairs on a small store; each heartbeat-/lifecycle-race case also with a fail-before / lost-ack at the first store-record write of one worker (quick: one variant, thorough: all four x both orders). Populated worlds: 100 and 230 (thorough: 99..2100) store records incl. ids 2^32+-1, 2^63+-1, 2^64-3..2^64-1 in every state left in storage, reloaded (served == stored record by record), then a judged history on the stores at the 100-record page boundaries and the huge ids, mass burial, cleanup, reload. One-field grid: an Up and an Offline store registered with every field receive, via RaftCluster.PutStore, the gRPC handler and UpdateStoreLabels (merge/force), requests differing from the served record in exactly one field (address incl. host case / trailing dot / spaces / empty / the address of a live or offline store, status and peer address, labels order / key case / empty key or value / separators / duplicates / none, version, git hash, start timestamp, deploy path, client-supplied state and physically-destroyed mark), each first with a failing store-record write; empty-address sharing; ids 0, 2^64-2, 2^64-1 through the lifecycle. Server restart: history on an instrumented kv on the server own etcd root, server context cancelled then Close, new server on the same data directory, served after == served/stored before record by record, history continued on the new server")
	r.Assume("commands are invoked on the RaftCluster object / the gRPC handler methods of a real bootstrapped single-member server; the cluster and the server use core.NewStorage over an instrumented in-memory kv.Base installed with RaftCluster.SetStorage after bootstrap (thorough, last shard: the etcd-backed kv.Base)")
	r.Assume("storage writes of the server's own background goroutines (10 s checkStores tick, coordinator) are refused by the harness wrapper so that histories are sequential; the same code is driven through VerifCheckStores")
	r.Assume("region counts of the model are the placements the harness delivered through VerifProcessRegionHeartbeat and pd acknowledged; VerifBuryStore is only called when its documented precondition (store empty) holds in the model; new stores are registered in state Up; peers are never placed on tombstone stores; after a reload the model's placements are what the stored region records (raw scan of raft/r/<id>) say")
	r.Assume("addresses are judged by exact string equality (pd does not normalise host case, trailing dots or spaces); what pd does with a varied label / version / client-supplied state is not judged, only the property clauses; records are compared element-wise on the decoded store (labels in order, every field) plus the encoded form, weights numerically, last_heartbeat excluded")
	r.Assume("stored record = what a raw scan of raft/s/<id> and schedule/store_weight/<id>/{leader,region} (absent weight = 1) yields; comparisons ignore last_heartbeat")
	r.Assume("gated phase: quiescence with a worker blocked on the cluster lock is declared by the scheduler's settle interval (affects exploration order only); the lifecycle worker observes the served stores right after each acknowledgement; a heartbeat is assumed never to change state, flags, address, labels or weights; two observations overlapped by two operations may differ by two allowed moves (Up->Offline->Tombstone); a failed write inside a lifecycle-race is not judged by the served-unchanged clause because the other worker may legitimately change the same record")
	rng := rand.New(rand.NewSource(r.ShardSeed()))

	// a long leader lease: the run must not lose leadership when the machine is busy (a lost
	// leadership restarts the RaftCluster and gives no verdict)
	cfgs := srv.NewConfigs(1, func(i int, cfg *config.Config) { cfg.LeaderLease = 120 })
	m, err := srv.Start(cfgs[0])
	if err != nil {
		r.Inconclusive("server start: %v", err)
		r.Finish()
	}
	if srv.WaitLeader([]*srv.Member{m}, 30*time.Second) == nil {
		r.Inconclusive("no leader")
		m.Close()
		r.Finish()
	}
	if err := m.Bootstrap(); err != nil {
		r.Inconclusive("bootstrap: %v", err)
		m.Close()
		r.Finish()
	}
	rc := m.Srv.GetRaftCluster()
	if rc == nil {
		r.Inconclusive("cluster not running after bootstrap")
		m.Close()
		r.Finish()
	}
	e := &env{r: r, m: m, s: m.Srv, rc: rc, ctx: context.Background(), owner: hist.Goid(), backend: "mem"}
	var base kv.Base = kv.NewMemoryKV()
	histories := r.Pick(300, 1200)
	if r.Thorough() && r.Shards > 1 && r.Shard == r.Shards-1 {
		e.backend = "etcd"
		base = kv.NewEtcdKVBase(m.Srv.GetClient(), "/verif-c14")
		histories = 150
	}
	if err := e.setupStorage(base); err != nil {
		r.Inconclusive("storage setup: %v", err)
		m.Close()
		r.Finish()
	}
	for _, b := range []string{"mem", "etcd"} {
		n := 0
		if b == e.backend {
			n = 1
		}
		r.Set("backend_"+b, n)
	}

	md := newModel()
	e.scripted(md)
	e.racePhase(md, rng)
	if e.lost == "" {
		e.writerStress(md)
	}
	e.scalePhase(md, rng)
	e.fieldPhase(md, rng)
	replaySeed, replaying := int64(0), false
	if r.Replay != "" {
		// replay = the scripted histories plus the one random history named by the witness file
		var doc struct {
			Witness struct {
				HistorySeed int64 `json:"history_seed"`
			} `json:"witness"`
		}
		b, err := ioutil.ReadFile(r.Replay)
		if err != nil || json.Unmarshal(b, &doc) != nil {
			r.Inconclusive("cannot read replay file %s", r.Replay)
			histories = 0
		} else if doc.Witness.HistorySeed != 0 {
			replaySeed, replaying, histories = doc.Witness.HistorySeed, true, 1
		} else {
			histories = 0
		}
	}
	for h := 0; h < histories && e.lost == ""; h++ {
		hseed := rng.Int63()
		if replaying {
			hseed = replaySeed
		}
		if err := e.resetWorld(md); err != nil {
			r.Inconclusive("history %d: %v", h, err)
			break
		}
		e.history(h, hseed, md)
		if e.lost != "" {
			r.Inconclusive("history %d: %s (harness/machine problem, not a verdict)", h, e.lost)
			break
		}
		if r.Violations() > 20000 {
			break
		}
	}
	if e.lost == "" && r.Replay == "" {
		e.restartPhase(md)
	}
	m = e.m
	r.Count("background_writes_refused", atomic.LoadInt64(&e.guard.rejected))
	r.Floor(int64(histories))
	// hooks that must have been reached for the verdict to mean anything
	if r.Replay != "" {
		m.Close()
		r.Finish()
	}
	for _, c := range []string{"hook_VerifCheckStores", "hook_VerifBuryStore", "hook_VerifProcessRegionHeartbeat", "faults_injected", "race_executions_heartbeat-race", "race_executions_lifecycle-race", "race_executions_address-race", "race_executions_store-writer-race", "store_writer_overlapped_lifecycle_op", "race_faults_injected", "race_heartbeat_flushes", "scale_worlds", "one_field_requests", "server_restarts", "reloads", "placements_on_unregistered_store_id", "transition_Up->Offline", "transition_Offline->Tombstone", "transition_Offline->Up", "tombstone_grpc_requests", "record_deleted"} {
		if r.Counter(c) == 0 {
			r.Inconclusive("nothing observed for %s", c)
		}
	}
	m.Close()
	r.Finish()
}

// history runs one generated history.
func (e *env) history(h int, hseed int64, md *model) {
	r := e.r
	rng := rand.New(rand.NewSource(hseed))
	nsteps := 40
	hs := &historyState{H: h, Seed: hseed, Backend: e.backend}
	var shape []string
	for i := 0; i < nsteps && e.lost == ""; i++ {
		prev := e.served()
		st := e.gen(rng, prev, md)
		if !r.Thorough() {
			var f *faultPlan
			if rng.Intn(3) == 0 {
				f = &faultPlan{Mode: 1 + rng.Intn(2), N: 1, AnyKey: rng.Intn(10) < 3}
				if f.AnyKey {
					f.N = 1 + rng.Intn(4)
				} else if rng.Intn(4) == 0 {
					f.N = 2 + rng.Intn(2)
				}
			}
			shape = append(shape, e.runStep(hs, st, f, md))
			continue
		}
		anyKey := rng.Intn(8) == 0
		for k := 1; ; k++ {
			c := *st
			f := &faultPlan{Mode: 1 + rng.Intn(2), N: k, AnyKey: anyKey}
			if k > 12 {
				f = nil
			}
			shape = append(shape, e.runStep(hs, &c, f, md))
			if f == nil || c.Injected == nil || e.lost != "" {
				break
			}
		}
	}
	if e.lost != "" {
		return
	}
	r.Eval(1)
	r.Count("histories", 1)
	r.Distinct("h|" + strings.Join(shape, ","))
	if h == 1 || h == 2 {
		r.Sample(map[string]interface{}{"history": h, "history_seed": hseed, "steps": hs.Steps})
	}
}

// scripted runs a few fixed short histories through the same monitor before the random ones: the
// plain lifecycle, and the minimal witnesses of the defects this check found on the pinned tree
// (so that they are reported - or, once repaired, shown to be gone - independently of the seed).
func (e *env) scripted(md *model) {
	type sc struct {
		st *step
		f  *faultPlan
	}
	zone := func(v string) []*metapb.StoreLabel { return []*metapb.StoreLabel{{Key: "zone", Value: v}} }
	moveAll := func(to uint64) []sc {
		var l []sc
		for _, rid := range regionIDs {
			l = append(l, sc{st: &step{Cmd: "region", Region: rid, Peers: []uint64{to}}})
		}
		return l
	}
	scripts := map[string][]sc{
		"lifecycle": append(append([]sc{
			{st: &step{Cmd: "put", Via: "grpc", ID: 2, Addr: "tikv-a:20160", Version: "5.0.0"}},
			{st: &step{Cmd: "remove", ID: 1}},
			{st: &step{Cmd: "up", ID: 1}},
			{st: &step{Cmd: "remove", ID: 1, Destroyed: true}},
			{st: &step{Cmd: "up", ID: 1}},   // refused: physically destroyed
			{st: &step{Cmd: "checkstores"}}, // must not bury: 3 regions
		}, moveAll(2)...), []sc{
			{st: &step{Cmd: "checkstores"}}, // buries store 1
			{st: &step{Cmd: "up", ID: 1}},   // refused: tombstone
			{st: &step{Cmd: "put", Via: "grpc", ID: 1, Addr: "mock://tikv-1", Version: "5.0.0"}}, // STORE_TOMBSTONE
			{st: &step{Cmd: "storehb", ID: 1}},                                                   // STORE_TOMBSTONE
			{st: &step{Cmd: "put", Via: "grpc", ID: 3, Addr: "mock://tikv-1", Version: "5.0.0"}}, // address of a tombstone is free
			{st: &step{Cmd: "rmtomb"}},
			{st: &step{Cmd: "put", Via: "cluster", ID: 1, Addr: "tikv-b:20160", Version: "5.0.0"}},
		}...),
		// witness 1: PutStore merges the request's labels into the label objects of the served
		// store (core.(*StoreInfo).MergeLabels) before the record is saved
		"witness-merge-labels": {
			{st: &step{Cmd: "labels", ID: 1, Labels: zone("z1"), Force: true}},
			{st: &step{Cmd: "put", Via: "cluster", ID: 1, Addr: "mock://tikv-1", Version: "5.0.0", Labels: zone("z2")}, f: &faultPlan{Mode: 1, N: 1}},
			{st: &step{Cmd: "labels", ID: 1, Labels: zone("z3")}, f: &faultPlan{Mode: 2, N: 1}},
		},
		// witness 2: a command on a tombstone store re-creates its rolling statistics; after the
		// record is cleaned up the next heartbeat of any store dereferences the missing store
		"witness-heartbeat-after-cleanup": append(append([]sc{
			{st: &step{Cmd: "put", Via: "grpc", ID: 2, Addr: "tikv-a:20160", Version: "5.0.0"}}},
			moveAll(2)...), []sc{
			{st: &step{Cmd: "remove", ID: 1}},
			{st: &step{Cmd: "checkstores"}},
			{st: &step{Cmd: "weight", ID: 1, LW: 1, RW: 1}},
			{st: &step{Cmd: "rmtomb"}},
			{st: &step{Cmd: "storehb", ID: 2}},
		}...),
	}
	// an offline store that still holds peers must survive the background check after a reload
	scripts["reload-keeps-peers"] = []sc{
		{st: &step{Cmd: "put", Via: "grpc", ID: 2, Addr: "tikv-a:20160", Version: "5.0.0"}},
		{st: &step{Cmd: "weight", ID: 1, LW: 2, RW: 0.5}},
		{st: &step{Cmd: "remove", ID: 1}},
		{st: &step{Cmd: "reload"}},
		{st: &step{Cmd: "checkstores"}},
		{st: &step{Cmd: "up", ID: 1}},
		{st: &step{Cmd: "remove", ID: 1, Destroyed: true}},
		{st: &step{Cmd: "reload"}},
		{st: &step{Cmd: "up", ID: 1}},
		{st: &step{Cmd: "checkstores"}},
	}
	// ... and so must a store whose peers were reported before it was registered
	scripts["peer-before-registration"] = []sc{
		{st: &step{Cmd: "region", Region: 20, Peers: []uint64{1, 3}}},
		{st: &step{Cmd: "put", Via: "grpc", ID: 3, Addr: "tikv-c:20160", Version: "5.0.0"}},
		{st: &step{Cmd: "remove", ID: 3}},
		{st: &step{Cmd: "checkstores"}},
		{st: &step{Cmd: "region", Region: 20, Peers: []uint64{1}}},
		{st: &step{Cmd: "checkstores"}},
	}
	for i, name := range []string{"lifecycle", "witness-merge-labels", "witness-heartbeat-after-cleanup", "reload-keeps-peers", "peer-before-registration"} {
		if err := e.resetWorld(md); err != nil {
			e.r.Inconclusive("scripted %s: %v", name, err)
			return
		}
		hs := &historyState{H: -1 - i, Backend: e.backend, Script: name}
		var shape []string
		for _, x := range scripts[name] {
			if x.st.Cmd == "region" {
				md.conf[x.st.Region]++
				x.st.ConfVer = md.conf[x.st.Region]
			}
			shape = append(shape, e.runStep(hs, x.st, x.f, md))
			if e.lost != "" {
				return
			}
		}
		e.r.Eval(1)
		e.r.Count("scripted_histories", 1)
		e.r.Distinct("s|" + strings.Join(shape, ","))
	}
}
