package main

import (
	"fmt"
	"path"
	"sync/atomic"
	"time"

	"github.com/pingcap/kvproto/pkg/metapb"
	"github.com/tikv/pd/server/core"
	"github.com/tikv/pd/server/kv"
	"verif/harness/lib/kvx"
	"verif/harness/lib/srv"
)

// Restart of the server process: the cluster is switched to an instrumented kv.Base on the
// server's own etcd root, a judged history leaves stores in every state (weights, labels, all
// fields), the server is stopped the way pd-server does it (context cancelled first, then Close),
// a new server is started on the same data directory; what it serves must equal, record by
// record, what was served and stored before; the history then continues on the new server (first
// heartbeats after the restart, tombstone still refused, destroyed store still not Up, addresses).
func (e *env) restartPhase(md *model) {
	r := e.r
	if err := e.resetWorld(md); err != nil {
		r.Inconclusive("restart: %v", err)
		return
	}
	root := path.Dir(e.s.GetClusterRootPath())
	rejected := atomic.LoadInt64(&e.guard.rejected)
	if err := e.setupStorage(kv.NewEtcdKVBase(e.s.GetClient(), root)); err != nil {
		r.Inconclusive("restart: storage setup: %v", err)
		return
	}
	atomic.AddInt64(&e.guard.rejected, rejected)
	e.backend = "etcd-own-root"
	hs := &historyState{H: -9000, Backend: e.backend, Script: "server-restart"}
	do := func(st *step) bool {
		e.runStep(hs, st, nil, md)
		return e.lost == ""
	}
	zl := []*metapb.StoreLabel{{Key: "zone", Value: "z1"}, {Key: "Rack", Value: "r1"}}
	for _, st := range []*step{
		{Cmd: "put", Via: "grpc", ID: 2, Addr: "tikv-a:20160", StatusAddr: "tikv-a:20180", PeerAddr: "tikv-a:20161", Version: "5.0.0",
			GitHash: "0a1b2c", StartTS: 1000, DeployPath: "/deploy/a", Labels: zl},
		{Cmd: "put", Via: "grpc", ID: 3, Addr: "tikv-b:20160", Version: "5.0.1"},
		{Cmd: "put", Via: "grpc", ID: 4, Addr: "tikv-c:20160", Version: "5.0.0"},
		{Cmd: "put", Via: "grpc", ID: 5, Addr: "tikv-d:20160", Version: "5.0.0"},
		{Cmd: "weight", ID: 2, LW: 0.5, RW: 2},
		{Cmd: "labels", ID: 3, Labels: []*metapb.StoreLabel{{Key: "host", Value: "h1"}}},
		{Cmd: "remove", ID: 3, Destroyed: true},
		{Cmd: "remove", ID: 4},
		{Cmd: "checkstores"},                                                     // 3 and 4 hold nothing: tombstone
		{Cmd: "put", Via: "grpc", ID: 6, Addr: "tikv-b:20160", Version: "5.0.0"}, // address of a tombstone
		{Cmd: "remove", ID: 5, Destroyed: true},
		{Cmd: "region", Region: 20, Peers: []uint64{1, 5}, ConfVer: 100}, // 5 stays offline + destroyed
		{Cmd: "storehb", ID: 2},
	} {
		if !do(st) {
			return
		}
	}
	before := e.served()
	// ---- stop (cancel, then Close) and start again on the same data directory
	cfg := e.m.Cfg
	if e.origStorage != nil {
		e.s.SetStorage(e.origStorage) // so that Close closes the region storage it opened
		e.origStorage = nil
	}
	e.m.Stop()
	m2, err := srv.Start(cfg)
	if err != nil {
		e.lost = "restart: " + err.Error()
		r.Inconclusive("restart: server start: %v", err)
		return
	}
	e.m, e.s = m2, m2.Srv
	deadline := time.Now().Add(90 * time.Second)
	for e.s.GetRaftCluster() == nil && time.Now().Before(deadline) {
		time.Sleep(20 * time.Millisecond)
	}
	if srv.WaitLeader([]*srv.Member{m2}, 5*time.Second) == nil || e.s.GetRaftCluster() == nil {
		e.lost = "restart: the restarted server did not become a leader with a running cluster"
		r.Inconclusive("%s (no verdict)", e.lost)
		return
	}
	e.rc = e.s.GetRaftCluster()
	r.Count("server_restarts", 1)
	// what the new server serves was loaded by pd itself from its own storage; from here on the
	// harness intercepts again
	cur := e.served()
	e.kv = kvx.New(kv.NewEtcdKVBase(e.s.GetClient(), root))
	e.guard = &guardKV{KV: e.kv, allowed: map[int64]bool{e.owner: true}}
	st := core.NewStorage(e.guard)
	e.origStorage = e.s.GetStorage()
	e.rc.SetStorage(st)
	e.s.SetStorage(st)
	stored, orphanW, serr := e.stored()
	if serr != nil {
		r.Violation("stored-record-unreadable", serr.Error(), e.witness(hs, before, cur, nil))
		return
	}
	ps := &step{Cmd: "restart", N: len(hs.Steps), Before: "absent", pdRegionCount: map[uint64]int{}}
	hs.Steps = append(hs.Steps, ps)
	preRegions := map[uint64]int{}
	for id := range before {
		preRegions[id] = md.regionCount(id)
	}
	e.judge(hs, ps, nil, md, before, cur, stored, orphanW, preRegions, nil)
	if len(cur) != len(before) {
		r.Count("restart_store_count_differs", 1)
	}
	// regions live in the server's own region storage, not in the harness' records: place them again
	for _, rid := range regionIDs {
		md.conf[rid] += 1000
		peers := []uint64{1}
		if rid == 20 {
			peers = []uint64{1, 5}
		}
		if !do(&step{Cmd: "region", Region: rid, Peers: peers, ConfVer: md.conf[rid]}) {
			return
		}
	}
	for _, st := range []*step{
		{Cmd: "storehb", ID: 2}, // first heartbeat after the restart
		{Cmd: "storehb", ID: 3}, // tombstone: refused
		{Cmd: "put", Via: "grpc", ID: 4, Addr: "tikv-c:20160", Version: "5.0.0"}, // tombstone: refused
		{Cmd: "up", ID: 3},   // tombstone
		{Cmd: "up", ID: 5},   // physically destroyed
		{Cmd: "checkstores"}, // 5 holds a peer
		{Cmd: "put", Via: "grpc", ID: 7, Addr: "tikv-d:20160", Version: "5.0.0"}, // address of a destroyed store
		{Cmd: "put", Via: "grpc", ID: 8, Addr: "tikv-a:20160", Version: "5.0.0"}, // address of a live store: refused
		{Cmd: "weight", ID: 2, LW: 1, RW: 1},
		{Cmd: "region", Region: 20, Peers: []uint64{1}, ConfVer: md.conf[20] + 1},
		{Cmd: "checkstores"}, // 5 is empty now
		{Cmd: "rmtomb"},
		{Cmd: "reload"},
		{Cmd: "put", Via: "grpc", ID: 3, Addr: "tikv-e:20160", Version: "5.0.0"}, // a cleaned-up id may register again
	} {
		if !do(st) {
			return
		}
	}
	r.Eval(1)
	r.Distinct(fmt.Sprintf("server-restart|%d", len(hs.Steps)))
}
