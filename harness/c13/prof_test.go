package main

import (
	"math/rand"
	"testing"
)

func BenchmarkObserve(b *testing.B) {
	initProbes(false)
	x, _ := newRunner(nil, nil)
	g := &gen{rng: rand.New(rand.NewSource(1))}
	for i := 0; i < 15; i++ {
		x.step(g.op(x.md), false)
	}
	b.Run("observe", func(b *testing.B) {
		for i := 0; i < b.N; i++ {
			observe(x.w.m)
		}
	})
	s := observe(x.w.m)
	b.Run("diffModel", func(b *testing.B) {
		for i := 0; i < b.N; i++ {
			diffModel(x.md, s)
		}
	})
	b.Run("diffSnaps", func(b *testing.B) {
		for i := 0; i < b.N; i++ {
			diffSnaps(s, s)
		}
	})
	b.Run("clone", func(b *testing.B) {
		for i := 0; i < b.N; i++ {
			x.clone(0)
		}
	})
	b.Run("reload", func(b *testing.B) {
		for i := 0; i < b.N; i++ {
			x.w.reload()
		}
	})
}
