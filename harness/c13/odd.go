package main

// Equivalent spellings / separators inside ids, and lifecycle of the manager object.
//   * ids: group ids and rule ids that are path-like ("a/", "a/b", "a//b", ".."), contain the
//     separator of the rule storage key ("a-b"/"c" vs "a"/"b-c"), differ only in letter case, or
//     contain blanks; every pair of such group ids gets rules and a non-default group
//     configuration, one configuration is removed again; judged by the usual clauses after every
//     update (served = model with ids as opaque distinct strings; restart = served).
//   * keys: with the key type "table" only memcomparable-encoded keys are accepted; raw spellings
//     are refused and change nothing; encoded ones are served exactly.
//   * lifecycle: a second Initialize on an initialised manager is a no-op (no storage write, nothing
//     changes); an Initialize whose first storage write fails can be repeated on the same object;
//     histories continue on a manager that was re-created from the storage in the middle.

import (
	"encoding/hex"
	"fmt"
	"path"

	"github.com/tikv/pd/pkg/codec"
	"github.com/tikv/pd/server/core"
	"github.com/tikv/pd/server/kv"
	"github.com/tikv/pd/server/schedule/placement"
	"verif/harness/lib/ev"
	"verif/harness/lib/kvx"
)

var oddGroups = []string{"a", "A", "a/", "a/b", "a//b", "..", "a-b", " a", "a.b"}

func withIDs(groups, rules []string) (restore func()) {
	og, or := groupIDs, ruleIDs
	groupIDs, ruleIDs = groups, rules
	return func() { groupIDs, ruleIDs = og, or }
}

func runOddIDs(r *ev.Run, rp *reporter) {
	defer withIDs(append([]string{"pd"}, oddGroups...), []string{"default", "r", "R", "c", "b-c", "r/1", ".."})()
	run := func(name string, h []opSpec) {
		// ids that path.Join (used for the group storage key) does not preserve get their own class
		cls := "odd-ids"
		for _, op := range h {
			ids := []string{op.GroupID}
			if op.Group != nil {
				ids = append(ids, op.Group.ID)
			}
			if op.Bundle != nil {
				ids = append(ids, op.Bundle.ID)
			}
			for _, b := range op.Bundles {
				ids = append(ids, b.ID)
			}
			for _, id := range ids {
				if id != "" && path.Join("x", id) != "x/"+id {
					cls = "group-id-changed-by-path-join"
				}
			}
		}
		x, err := newRunner(r, nil)
		if err != nil {
			r.Inconclusive("Initialize on empty storage failed: %v", err)
			return
		}
		for i, op := range h {
			fs := x.step(op, i == len(h)-1)
			for j := range fs {
				fs[j].What = "[ids " + name + "] " + fs[j].What
				fs[j].Key = cls + ":" + fs[j].Key
				r.Count("odd_id_finding:"+name, 1)
			}
			rp.report("odd-ids", 0, x, fs)
			if len(fs) > 0 || x.dead {
				break
			}
		}
		r.Count("odd_id_histories", 1)
		r.Distinct("odd|" + name)
	}
	rule := func(g, id string) *ruleSpec {
		return &ruleSpec{Group: g, ID: id, StartHex: "20", EndHex: "80", Role: "learner", Count: 1}
	}
	for i, g1 := range oddGroups {
		for j, g2 := range oddGroups {
			if i >= j {
				continue
			}
			run(fmt.Sprintf("groups %q %q", g1, g2), []opSpec{
				{Kind: kSetRule, Rule: rule(g1, "r")}, {Kind: kSetRule, Rule: rule(g2, "r")},
				{Kind: kSetRuleGroup, Group: &groupSpec{ID: g1, Index: 1}}, {Kind: kSetRuleGroup, Group: &groupSpec{ID: g2, Index: 2}},
				{Kind: kDeleteRuleGroup, GroupID: g1},
				{Kind: kDeleteGroupBundle, GroupID: g2},
			})
		}
	}
	// ids that the group storage key does not preserve, through the other entry points that carry a
	// group configuration, and the removal of such a group's configuration next to its neighbour
	for _, bad := range []string{"a/", "a//b", ".."} {
		good := map[string]string{"a/": "a", "a//b": "a/b", "..": "a"}[bad]
		br := []ruleSpec{*rule(bad, "r")}
		run(fmt.Sprintf("DeleteRuleGroup %q next to %q", bad, good), []opSpec{
			{Kind: kSetRule, Rule: rule(good, "r")}, {Kind: kSetRuleGroup, Group: &groupSpec{ID: good, Index: 1}},
			{Kind: kSetRule, Rule: rule(bad, "r")}, {Kind: kDeleteRuleGroup, GroupID: bad}, {Kind: kDeleteGroupBundle, GroupID: bad},
		})
		run(fmt.Sprintf("SetGroupBundle %q next to %q", bad, good), []opSpec{
			{Kind: kSetRule, Rule: rule(good, "r")}, {Kind: kSetRuleGroup, Group: &groupSpec{ID: good, Index: 1}},
			{Kind: kSetGroupBundle, Bundle: &bundleSpec{ID: bad, Index: 2, Rules: br}},
		})
		run(fmt.Sprintf("SetAllGroupBundles %q next to %q", bad, good), []opSpec{
			{Kind: kSetRule, Rule: rule(good, "r")}, {Kind: kSetRuleGroup, Group: &groupSpec{ID: good, Index: 1}},
			{Kind: kSetAllGroupBundles, Bundles: []bundleSpec{{ID: bad, Index: 2, Rules: br}}},
		})
		run(fmt.Sprintf("SetAllGroupBundles(override) %q", bad), []opSpec{
			{Kind: kSetRule, Rule: rule(good, "r")}, {Kind: kSetRuleGroup, Group: &groupSpec{ID: good, Index: 1}},
			{Kind: kSetAllGroupBundles, OverrideAll: true, Bundles: []bundleSpec{{ID: "pd", Rules: []ruleSpec{{Group: "pd", ID: "default", Role: "voter", Count: 3}}}, {ID: bad, Override: true, Rules: []ruleSpec{{Group: bad, ID: "v", Role: "voter", Count: 1}}}}},
		})
		run(fmt.Sprintf("Batch with rules of %q", bad), []opSpec{
			{Kind: kSetRule, Rule: rule(good, "r")}, {Kind: kSetRuleGroup, Group: &groupSpec{ID: good, Index: 1}},
			{Kind: kBatch, Batch: []batchSpec{{Action: "add", Rule: *rule(bad, "r")}, {Action: "add", Rule: *rule(bad, "c")}}},
			{Kind: kBatch, Batch: []batchSpec{{Action: "del", Rule: ruleSpec{Group: bad, ID: "r"}, Prefix: true}}},
		})
	}
	for _, p := range [][4]string{{"a-b", "c", "a", "b-c"}, {"a", "r", "a", "R"}, {"a", "r", "A", "r"}, {"a", "r/1", "a", "r"}, {"a", "..", "a", "r"}, {"a/b", "r", "a", "b-c"}} {
		run(fmt.Sprintf("rules %q/%q %q/%q", p[0], p[1], p[2], p[3]), []opSpec{
			{Kind: kSetRule, Rule: rule(p[0], p[1])}, {Kind: kSetRule, Rule: rule(p[2], p[3])},
			{Kind: kDeleteRule, GroupID: p[0], RuleID: p[1]},
			{Kind: kBatch, Batch: []batchSpec{{Action: "del", Rule: ruleSpec{Group: p[2], ID: p[3][:1]}, Prefix: true}}},
		})
	}
}

func encHex(raw string) string {
	b, _ := hex.DecodeString(raw)
	return hex.EncodeToString(codec.EncodeBytes(b))
}

func runKeyType(r *ev.Run, rp *reporter) {
	x, err := newRunner(r, nil)
	if err != nil {
		r.Inconclusive("Initialize on empty storage failed: %v", err)
		return
	}
	x.w.m.SetKeyType("table")
	steps := []opSpec{
		{Kind: kSetRule, Rule: &ruleSpec{Group: "a", ID: "r1", StartHex: "10", EndHex: "30", Role: "learner", Count: 1}},                                        // raw spelling: refused
		{Kind: kSetRule, Rule: &ruleSpec{Group: "a", ID: "r1", StartHex: encHex("10"), EndHex: encHex("30"), Role: "learner", Count: 1}},                        // encoded
		{Kind: kSetRules, Rules: []ruleSpec{{Group: "a", ID: "r2", StartHex: encHex("30"), EndHex: "40", Role: "learner", Count: 1}}},                           // mixed: refused
		{Kind: kBatch, Batch: []batchSpec{{Action: "add", Rule: ruleSpec{Group: "b", ID: "x", StartHex: encHex("2000"), EndHex: "", Role: "voter", Count: 1}}}}, // encoded, unbounded
		{Kind: kSetGroupBundle, Bundle: &bundleSpec{ID: "ab", Index: 1, Rules: []ruleSpec{{Group: "ab", ID: "l", StartHex: "", EndHex: encHex("ff"), Role: "learner", Count: 2}}}},
		{Kind: kGetModifySet, Mod: &modSpec{Group: "a", ID: "r1", Field: "end", Str: encHex("40")}},
		{Kind: kGetModifySet, Mod: &modSpec{Group: "a", ID: "r1", Field: "end", Str: "80"}},                                      // raw: refused, nothing changes
		{Kind: kSetRule, Rule: &ruleSpec{Group: "a", ID: "r2", StartHex: "10", EndHex: "", Role: "learner", Count: 1}},           // raw start, unbounded
		{Kind: kSetRule, Rule: &ruleSpec{Group: "a", ID: "r2", StartHex: "10", EndHex: encHex("30"), Role: "learner", Count: 1}}, // raw start, encoded end
		{Kind: kSetRule, Rule: &ruleSpec{Group: "a", ID: "r2", StartHex: "", EndHex: "30", Role: "learner", Count: 1}},           // raw end only
		{Kind: kSetRule, Rule: &ruleSpec{Group: "a", ID: "r2", StartHex: encHex("10"), EndHex: "30", Role: "learner", Count: 1}}, // encoded start, raw end
		{Kind: kSetRule, Rule: &ruleSpec{Group: "a", ID: "r2", StartHex: encHex("10"), EndHex: encHex("30"), Role: "learner", Count: 1}},
	}
	refused := 0
	for i, op := range steps {
		fs := x.step(op, false)
		rp.report("key-type", i, x, fs)
		if len(fs) > 0 || x.dead {
			break
		}
		if x.recs[len(x.recs)-1].Outcome != "accepted" {
			refused++
		}
	}
	r.Count("key_type_steps", int64(len(x.recs)))
	r.Count("key_type_refused_spellings", int64(refused))
	r.Distinct("keytype|table")
}

func runLifecycle(r *ev.Run, rp *reporter) {
	// (1) second Initialize on a populated, initialised manager
	x, err := newRunner(r, nil)
	if err != nil {
		r.Inconclusive("Initialize on empty storage failed: %v", err)
		return
	}
	for _, op := range []opSpec{
		{Kind: kSetRule, Rule: &ruleSpec{Group: "a", ID: "r1", StartHex: "20", EndHex: "80", Role: "learner", Count: 1}},
		{Kind: kSetRuleGroup, Group: &groupSpec{ID: "a", Index: 2}},
	} {
		rp.report("lifecycle", 0, x, x.step(op, false))
	}
	if !x.dead {
		before := observe(x.w.m)
		x.w.kv.ResetFaults()
		ierr := x.w.m.Initialize(5, []string{"other"})
		after := observe(x.w.m)
		wit := map[string]interface{}{"phase": "lifecycle", "history": x.recs, "then": "Initialize(5, [other]) again on the same object"}
		if ierr != nil {
			r.Violation("second-initialize:fails", fmt.Sprintf("Initialize on an initialised manager failed: %v", ierr), wit)
		} else if d := diffSnaps(before, after); d != nil {
			r.Violation("second-initialize:changed:"+d.Observable, fmt.Sprintf("Initialize on an initialised manager changed %s(%s) from %s to %s", d.Observable, d.Item, d.A, d.B), wit)
		} else if w := x.w.kv.Writes(); w > 0 {
			r.Violation("second-initialize:wrote-to-storage", fmt.Sprintf("Initialize on an initialised manager wrote %d times to the storage", w), wit)
		} else {
			r.Count("second_initialize_noop", 1)
		}
		r.Eval(1)
	}
	// (2) the very first Initialize (empty storage) with its storage write failing, repeated on the
	// same object: it must end up serving the default rule, stored as served
	for _, mode := range []kvx.FaultMode{kvx.FailBefore, kvx.LostAck} {
		k := kvx.New(kv.NewMemoryKV())
		k.SetLogging(false)
		m := placement.NewRuleManager(core.NewStorage(k), nil)
		k.FailWrite(1, mode)
		err1 := m.Initialize(3, initLabels)
		k.ResetFaults()
		wit := map[string]interface{}{"phase": "lifecycle", "case": "first Initialize on empty storage, write 1 fails (" + modeName(mode) + "), Initialize again on the same object"}
		if err1 == nil {
			r.Violation("storage-failure-not-reported:Initialize", "Initialize returned success although its storage write failed", wit)
			continue
		}
		if m.IsInitialized() {
			r.Violation("initialize:failed-but-initialised", "Initialize failed but the manager says it is initialised", wit)
			continue
		}
		if err2 := m.Initialize(3, initLabels); err2 != nil {
			r.Violation("initialize:retry-does-not-converge:refused", fmt.Sprintf("Initialize failed by a storage fault; repeated on the same object it fails: %v", err2), wit)
			continue
		}
		served := observe(m)
		if d, _ := diffModel(initialModel(), served); d != nil {
			r.Violation("initialize:retry-does-not-converge:served:"+d.Observable, fmt.Sprintf("after the repeated Initialize %s(%s) serves %s, expected %s", d.Observable, d.Item, d.A, d.B), wit)
			continue
		}
		w := &world{kv: k, m: m}
		if rm, _, _, rerr := w.reload(); rerr != nil {
			r.Violation("initialize:retry-does-not-converge:reload-fails", fmt.Sprintf("after the repeated Initialize a fresh manager cannot initialise: %v", rerr), wit)
		} else if d := diffSnaps(served, observe(rm)); d != nil {
			r.Violation("initialize:retry-does-not-converge:reloaded:"+d.Observable, fmt.Sprintf("after the repeated Initialize %s(%s) served %s, reloaded %s", d.Observable, d.Item, d.A, d.B), wit)
		} else {
			r.Count("initialize_retry_converged", 1)
		}
		r.Eval(1)
	}
	r.Distinct("lifecycle")
}

// restart replaces the manager of a running history by a new one initialised from the SAME storage
// (a restarted PD continues the history).
func (x *runner) restart() bool {
	m := placement.NewRuleManager(core.NewStorage(x.w.kv), nil)
	if err := m.Initialize(3, initLabels); err != nil {
		return false
	}
	x.w.m = m
	return true
}
