package main

// Server-level family: the one caller inside pd that edits a rule it got from the rule manager and
// sets it again is Server.SetReplicationConfig (max-replicas / location-labels are mirrored into
// the default rule; when persisting the configuration fails the rule is rolled back). A real
// bootstrapped single-member server whose storage is the server's own etcd root behind the kvx
// wrapper (installed before the bootstrap, so the rule manager writes through it too); histories
// of SetReplicationConfig with a storage failure (not applied / applied with the acknowledgement
// lost) on the configuration write or on the rule write, judged by the statement's clauses: a
// refused update leaves what is served unchanged; after accepted rule updates a fresh RuleManager
// on the storage content loads exactly the served rules; a retry converges.

import (
	"fmt"
	"math/rand"
	"path"
	"strconv"
	"strings"
	"sync/atomic"
	"time"

	"github.com/tikv/pd/pkg/typeutil"
	"github.com/tikv/pd/server/config"
	"github.com/tikv/pd/server/core"
	"github.com/tikv/pd/server/kv"
	"github.com/tikv/pd/server/schedule/placement"
	"verif/harness/lib/ev"
	"verif/harness/lib/kvx"
	"verif/harness/lib/srv"
)

// storedRules: what a restarted PD's rule manager serves for the storage content.
func storedRules(k *kvx.KV) ([]string, error) {
	mem := kv.NewMemoryKV()
	for key, v := range k.Dump() {
		mem.Save(key, v)
	}
	m := placement.NewRuleManager(core.NewStorage(mem), nil)
	if err := m.Initialize(3, nil); err != nil {
		return nil, err
	}
	return canonReals(m.GetAllRules()), nil
}

func canonReals(rs []*placement.Rule) []string { return canonCache{}.many(rs) }

func runServer(r *ev.Run, rng *rand.Rand) {
	srv.Quiet()
	cfgs := srv.NewConfigs(1, nil)
	m, err := srv.Start(cfgs[0])
	if err != nil {
		r.Inconclusive("server start: %v", err)
		return
	}
	defer m.Close()
	if srv.WaitLeader([]*srv.Member{m}, 60*time.Second) == nil {
		r.Inconclusive("server: no leader")
		return
	}
	s := m.Srv
	orig := s.GetStorage()
	k := kvx.New(kv.NewEtcdKVBase(s.GetClient(), path.Join("/pd", strconv.FormatUint(s.ClusterID(), 10))))
	k.SetLogging(false)
	s.SetStorage(core.NewStorage(k, core.WithRegionStorage(orig.GetRegionStorage())))
	if err := m.Bootstrap(); err != nil {
		r.Inconclusive("server bootstrap: %v", err)
		return
	}
	if s.GetRaftCluster() == nil || s.GetRaftCluster().GetRuleManager() == nil || !s.GetRaftCluster().GetRuleManager().IsInitialized() {
		r.Inconclusive("server: placement rules are not initialised after the bootstrap")
		return
	}
	rm := s.GetRaftCluster().GetRuleManager()
	labelSets := [][]string{{"zone"}, {"zone", "host"}, {"zone", "rack", "host"}, {"dc", "zone"}}
	type step struct {
		MaxReplicas uint64   `json:"max_replicas"`
		Labels      []string `json:"location_labels"`
		Fault       string   `json:"fault"`
		Outcome     string   `json:"outcome"`
		Served      []string `json:"served_rules_after"`
		Stored      []string `json:"stored_rules_after"`
	}
	var hist []step
	faults := []string{"none", "config-write:fail-before", "config-write:lost-ack", "rule-write:fail-before", "rule-write:lost-ack", "none"}
	arm := func(f string) {
		k.ResetFaults()
		if f == "none" {
			return
		}
		mode := kvx.FailBefore
		if strings.HasSuffix(f, "lost-ack") {
			mode = kvx.LostAck
		}
		onConfig := strings.HasPrefix(f, "config-write")
		var used int32
		k.FailAllWrites(mode, func(kind, key string) bool {
			hit := (onConfig && key == "config") || (!onConfig && strings.HasPrefix(key, "rules/"))
			return hit && atomic.CompareAndSwapInt32(&used, 0, 1)
		})
	}
	servedRules := func() []string { return canonReals(rm.GetAllRules()) }
	n := r.Pick(14, 60)
	for i := 0; i < n; i++ {
		old := s.GetReplicationConfig()
		var cfg config.ReplicationConfig = *old.Clone()
		for cfg.MaxReplicas == old.MaxReplicas && list(cfg.LocationLabels) == list(old.LocationLabels) {
			if rng.Intn(3) != 0 {
				cfg.MaxReplicas = uint64(1 + rng.Intn(5))
			}
			if rng.Intn(2) == 0 {
				cfg.LocationLabels = typeutil.StringSlice(append([]string(nil), labelSets[rng.Intn(len(labelSets))]...))
			}
		}
		f := faults[i%len(faults)]
		if i >= len(faults) {
			f = faults[rng.Intn(len(faults))]
		}
		st := step{MaxReplicas: cfg.MaxReplicas, Labels: cfg.LocationLabels, Fault: f}
		before := servedRules()
		w0 := k.Writes()
		arm(f)
		err := s.SetReplicationConfig(cfg)
		injected := k.Injected()
		writes := k.Writes()
		k.ResetFaults()
		_ = w0
		st.Outcome = errText(err)
		st.Served = servedRules()
		stored, serr := storedRules(k)
		st.Stored = stored
		hist = append(hist, st)
		r.Eval(1)
		r.Count("server_set_replication_config", 1)
		r.Count("server_storage_writes", writes)
		r.Distinct(fmt.Sprintf("srv|%d|%v|%d|%v|%s", old.MaxReplicas, old.LocationLabels, cfg.MaxReplicas, cfg.LocationLabels, f))
		wit := map[string]interface{}{"phase": "server", "history": hist, "note": "each step is one Server.SetReplicationConfig on a bootstrapped single-member server; fault = which storage write of that call failed and how"}
		fam := map[string]string{"none": "server:replication-config", "config-write": "server:replication-config-rollback", "rule-write": "server:replication-config-rule-write-failed"}[strings.SplitN(f, ":", 2)[0]]
		if serr != nil {
			r.Violation(fam+":restart-cannot-load-rules", fmt.Sprintf("after SetReplicationConfig (%s) a fresh RuleManager cannot initialise from the storage: %v", f, serr), wit)
			return
		}
		cur := s.GetReplicationConfig()
		if f != "none" && injected == 0 {
			// the call did not reach the write that was to fail (e.g. refused earlier)
			r.Count("server_fault_not_reached", 1)
		}
		if injected > 0 {
			r.Count("server_faults_injected:"+f, 1)
			if err == nil {
				r.Violation("storage-failure-not-reported:server", fmt.Sprintf("SetReplicationConfig returned success although its %s", f), wit)
				return
			}
		}
		if err != nil {
			// refused: nothing that is served may have changed
			if cur.MaxReplicas != old.MaxReplicas || list(cur.LocationLabels) != list(old.LocationLabels) {
				r.Violation(fam+":refused-update-changed-served-config", fmt.Sprintf("SetReplicationConfig failed (%v) but the served replication config went from %d %v to %d %v", err, old.MaxReplicas, old.LocationLabels, cur.MaxReplicas, cur.LocationLabels), wit)
				return
			}
			if list(before) != list(st.Served) {
				r.Violation(fam+":refused-update-changed-served-rule", fmt.Sprintf("SetReplicationConfig failed (%v) but the served rules went from %s to %s", err, list(before), list(st.Served)), wit)
				return
			}
			if injected == 0 {
				r.Count("server_refused_without_fault", 1) // not judged
			}
			// rule updates were accepted on the way (update + roll-back) unless the rule write itself
			// failed: a restart must load what is served
			if !strings.HasPrefix(f, "rule-write") || injected == 0 {
				if list(stored) != list(st.Served) {
					r.Violation(fam+":rule-stored-differs-from-served", fmt.Sprintf("SetReplicationConfig failed (%s) and rolled back: served rules %s, a fresh RuleManager on the storage loads %s", f, list(st.Served), list(stored)), wit)
					return
				}
				r.Count("server_rollback_stored_equals_served", 1)
			}
			// retry without fault
			err2 := s.SetReplicationConfig(cfg)
			st2 := step{MaxReplicas: cfg.MaxReplicas, Labels: cfg.LocationLabels, Fault: "none (retry)", Outcome: errText(err2), Served: servedRules()}
			st2.Stored, serr = storedRules(k)
			hist = append(hist, st2)
			wit["history"] = hist
			if err2 != nil {
				if injected > 0 {
					r.Violation(fam+":retry-does-not-converge:refused", fmt.Sprintf("SetReplicationConfig failed by a storage fault (%s); the same call retried without fault is refused: %v", f, err2), wit)
					return
				}
				continue
			}
			if serr != nil || list(st2.Stored) != list(st2.Served) {
				r.Violation(fam+":retry-does-not-converge:rule-stored-differs-from-served", fmt.Sprintf("after the retry served rules %s, stored %s (%v)", list(st2.Served), list(st2.Stored), serr), wit)
				return
			}
			r.Count("server_retry_converged", 1)
		} else if list(stored) != list(st.Served) {
			r.Violation(fam+":rule-stored-differs-from-served", fmt.Sprintf("after accepted SetReplicationConfig served rules %s, a fresh RuleManager on the storage loads %s", list(st.Served), list(stored)), wit)
			return
		}
		// accepted (directly or by the retry): the default rule mirrors the configuration
		cur = s.GetReplicationConfig()
		if d := rm.GetRule("pd", "default"); d == nil || d.Count != int(cur.MaxReplicas) || list(d.LocationLabels) != list(cur.LocationLabels) {
			r.Violation("server:replication-config:default-rule-differs-from-config", fmt.Sprintf("served replication config %d %v, served default rule %s", cur.MaxReplicas, cur.LocationLabels, canonReal(d)), wit)
			return
		}
		r.Count("server_accepted_consistent", 1)
	}
}
