package main

// Two-writer phase: two updates run concurrently on one RuleManager under the gate scheduler. Every
// storage write of an update parks at the kvx gate; release orders are enumerated depth-first, for
// both start orders. On a manager that holds its lock across validate -> save -> commit the second
// writer simply blocks on the lock (the scheduler's settle rule sees it as blocked) and everything
// is serial. After quiescence only the existing oracles are used: the served observables must
// equal the reference model after applying the accepted updates in SOME serial order (A;B or B;A;
// an update that is accepted must be valid at its place in that order), and a fresh RuleManager on
// the storage content must serve the same.

import (
	"encoding/json"
	"fmt"
	"math/rand"
	"strings"
	"time"

	"verif/harness/lib/ev"
	"verif/harness/lib/kvx"
	"verif/harness/lib/sched"
)

// accepts tells whether op is well-formed, documented unambiguously and leaves a valid state.
func accepts(md *model, op opSpec) (*model, bool) {
	n, wf, amb := md.apply(op)
	if amb || !wf {
		return md, false
	}
	if p, _, va := n.validity(); p != "" || va {
		return md, false
	}
	return n, true
}

// twBase generates a base history (accepted, valid updates only) with some redundancy in the
// covering rules, so that pairs "each valid alone, invalid together" exist.
func twBase(g *gen) ([]opSpec, *model) {
	md := initialModel()
	var h []opSpec
	add := func(op opSpec) {
		if n, ok := accepts(md, op); ok {
			md, h = n, append(h, op)
		}
	}
	for i, n := 0, 1+g.rng.Intn(3); i < n; i++ {
		r := g.rule("", "")
		r.Role, r.Count, r.Override, r.Index = "voter", 1+g.rng.Intn(3), false, []int{0, 1, 2}[g.rng.Intn(3)]
		if g.rng.Intn(2) == 0 {
			r.StartHex, r.EndHex = "", ""
		}
		add(opSpec{Kind: kSetRule, Rule: &r})
	}
	for i, n := 0, g.rng.Intn(4); i < n; i++ {
		op := g.op(md)
		if !isGetEditSet(op) {
			add(op)
		}
	}
	return h, md
}

// twPair picks two updates. kind: conflicting (each valid alone, invalid together), independent
// (different rules / keys, valid in every combination), random.
func twPair(g *gen, md *model) (a, b opSpec, kind string, ok bool) {
	want := g.rng.Intn(20)
	if want < 11 {
		var cands []opSpec
		for _, r := range md.allRules() {
			cands = append(cands, opSpec{Kind: kDeleteRule, GroupID: r.Group, RuleID: r.ID})
			if r.Role == "voter" || r.Role == "leader" {
				c := *r
				c.cs, c.Role = "", "learner"
				cands = append(cands, opSpec{Kind: kSetRule, Rule: &c})
			}
			if len(r.end) == 0 && g.rng.Intn(2) == 0 {
				c := *r
				c.cs, c.EndHex = "", alphabet[1+g.rng.Intn(len(alphabet)-1)]
				cands = append(cands, opSpec{Kind: kSetRule, Rule: &c})
			}
		}
		for _, id := range md.groupUniverse() {
			cands = append(cands, opSpec{Kind: kDeleteGroupBundle, GroupID: id})
			gs := md.group(id)
			gs.Override = !gs.Override
			cands = append(cands, opSpec{Kind: kSetRuleGroup, Group: &gs})
		}
		for i := 0; i < 6; i++ {
			if op := g.op(md); !isGetEditSet(op) {
				cands = append(cands, op)
			}
		}
		g.rng.Shuffle(len(cands), func(i, j int) { cands[i], cands[j] = cands[j], cands[i] })
		alone := make([]*model, len(cands))
		for i := range cands {
			if n, ok := accepts(md, cands[i]); ok {
				alone[i] = n
			}
		}
		for i := range cands {
			for j := i + 1; j < len(cands) && alone[i] != nil; j++ {
				if alone[j] == nil {
					continue
				}
				_, ij := accepts(alone[i], cands[j])
				_, ji := accepts(alone[j], cands[i])
				if !ij && !ji {
					return cands[i], cands[j], "conflicting", true
				}
			}
		}
	}
	if want < 16 {
		for try := 0; try < 30; try++ {
			ra, rb := g.rule("", ""), g.rule("", "")
			if ra.Group == rb.Group && ra.ID == rb.ID {
				continue
			}
			if g.rng.Intn(2) == 0 { // new keys inside the key space: both change the set of segments
				i := 1 + g.rng.Intn(len(alphabet)-2)
				j := 1 + g.rng.Intn(len(alphabet)-2)
				ra.StartHex, ra.EndHex = alphabet[i], alphabet[i+1]
				rb.StartHex, rb.EndHex = alphabet[j], alphabet[j+1]
			}
			a, b = opSpec{Kind: kSetRule, Rule: &ra}, opSpec{Kind: kSetRule, Rule: &rb}
			na, oka := accepts(md, a)
			nb, okb := accepts(md, b)
			if !oka || !okb {
				continue
			}
			_, okab := accepts(na, b)
			_, okba := accepts(nb, a)
			if okab && okba {
				return a, b, "independent", true
			}
		}
	}
	for try := 0; try < 30; try++ {
		a, b = g.op(md), g.op(md)
		if isGetEditSet(a) || isGetEditSet(b) {
			continue
		}
		_, wfa, amba := md.apply(a)
		_, wfb, ambb := md.apply(b)
		if wfa && wfb && !amba && !ambb {
			return a, b, "random", true
		}
	}
	return a, b, "", false
}

// twJudge looks for a serial order that explains the outcome. acc[i]: update i was accepted.
// Returns "" when explained (or not judged: skipped=true).
func twJudge(md0 *model, ops [2]opSpec, acc [2]bool, served *snap) (key, what string, skipped bool, final *model) {
	problem, anyChain := "", false
	var firstDiff *diff
	for _, ord := range [][2]int{{0, 1}, {1, 0}} {
		s, chain := md0, true
		for _, i := range ord {
			if !acc[i] {
				continue // rejected: changes nothing (whether the rejection was necessary is not judged)
			}
			n, wf, amb := s.apply(ops[i])
			if amb {
				return "", "", true, nil
			}
			if !wf {
				chain, problem = false, "malformed"
				break
			}
			p, at, va := n.validity()
			if va {
				return "", "", true, nil
			}
			if p != "" {
				if problem == "" {
					problem = fmt.Sprintf("%s (segment starting at 0x%x, order %s)", p, at, map[int]string{0: "A;B", 1: "B;A"}[ord[0]])
				}
				chain = false
				break
			}
			s = n
		}
		if !chain {
			continue
		}
		anyChain = true
		d, _ := diffModel(s, served)
		if d == nil {
			return "", "", false, s
		}
		if firstDiff == nil {
			firstDiff = d
		}
	}
	if !anyChain {
		cls := problem
		for i := range cls {
			if cls[i] == ' ' {
				cls = cls[:i]
				break
			}
		}
		return "concurrent-updates-not-serializable:accepted-invalid:" + cls,
			"two concurrent updates were both accepted although in neither serial order both are valid: " + problem, false, nil
	}
	return "concurrent-updates-not-serializable:served:" + firstDiff.Observable,
		fmt.Sprintf("after two concurrent updates no serial order of the accepted ones explains what is served: %s(%s) serves %s, the model (order A;B or B;A) gives %s", firstDiff.Observable, firstDiff.Item, firstDiff.A, firstDiff.B), false, nil
}

// twAbort: the phase cannot go on (reported as inconclusive).
var twAbort bool

// twCase is one pair of updates on one base state.
type twCase struct {
	base []opSpec
	md0  *model
	ops  [2]opSpec
	kind string
}

// twExec runs the two updates of c concurrently (start order start, release order by ch) on a fresh
// world in the base state and judges the outcome. failK > 0: the failK-th storage write of the
// execution (in release order, whichever update issues it) fails with mode. Returns the scheduler
// (nil when the execution could not be run) and the number of gated writes.
func twExec(r *ev.Run, c *twCase, start [2]int, ch func(int, []sched.Info) int, failK int64, mode kvx.FaultMode, sample bool) *sched.Sched {
	w, err := newWorld()
	if err != nil {
		r.Inconclusive("Initialize on empty storage failed: %v", err)
		twAbort = true
		return nil
	}
	for _, op := range c.base {
		safeApply(w.m, op)
	}
	if d, _ := diffModel(c.md0, observe(w.m)); d != nil {
		r.Count("two_writer_base_mismatch", 1) // judged by the sequential phases
		return nil
	}
	sc := sched.New()
	sc.Settle = 12 * time.Millisecond
	sc.Stagger = true
	overlapped := false
	sc.OnQuiescent = func(step int, parked []sched.Info) {
		if len(parked) > 1 {
			overlapped = true
		}
	}
	w.kv.Gate, w.kv.Done = sc.Gate, sc.Done
	if failK > 0 {
		w.kv.FailWrite(failK, mode)
	}
	var errs [2]error
	var pns [2]string
	var ws []func()
	for _, i := range start {
		i := i
		ws = append(ws, func() { errs[i], _, pns[i] = safeApply(w.m, c.ops[i]) })
	}
	sc.Run(ws, ch)
	w.kv.Gate, w.kv.Done = nil, nil
	injected := w.kv.Injected()
	w.kv.ResetFaults()
	if sc.Err != nil {
		r.Inconclusive("two-writer scheduler: %v", sc.Err)
		twAbort = true
		return nil
	}
	r.Eval(1)
	r.Count("two_writer_executions", 1)
	r.Count("two_writer_gated_writes", int64(len(sc.Trace)))
	if overlapped {
		r.Count("two_writer_executions_with_both_updates_inside_their_writes", 1)
	}
	pj, _ := json.Marshal(c.ops)
	r.Distinct(fmt.Sprintf("2w|%s|%s|%v|%s|%d|%d", c.md0.stateKey(), pj, start, sc.TraceKey(), failK, mode))
	wit := func(extra map[string]interface{}) map[string]interface{} {
		m := map[string]interface{}{"phase": "two-writers", "pair_kind": c.kind, "base_history": c.base,
			"update_A": c.ops[0], "update_B": c.ops[1], "start_order": start, "released_writes": sc.Trace,
			"outcome_A": errText(errs[0]), "outcome_B": errText(errs[1]),
			"note": "worker numbers in released_writes are positions in start_order; empty outcome = accepted"}
		if failK > 0 {
			m["failed_write"], m["fault_mode"] = failK, modeName(mode)
		}
		for k, v := range extra {
			m[k] = v
		}
		return m
	}
	if sample {
		defer func() { r.Sample(wit(nil)) }()
	}
	if pns[0] != "" || pns[1] != "" {
		r.Violation("panic:two-writers", "panic inside one of two concurrent updates: "+pns[0]+pns[1], wit(nil))
		return sc
	}
	acc := [2]bool{errs[0] == nil, errs[1] == nil}
	failed := -1
	if injected > 0 {
		r.Count("two_writer_faults_injected_"+modeName(mode), 1)
		for i := range errs {
			if errs[i] != nil && strings.Contains(errs[i].Error(), "injected storage failure") {
				failed = i
			}
		}
		if failed < 0 {
			r.Violation("storage-failure-not-reported:two-writers", fmt.Sprintf("storage write %d of two concurrent updates failed (%s) but neither update reported it", failK, modeName(mode)), wit(nil))
			return sc
		}
	}
	served, pn := safeObserve(w.m)
	if pn != "" {
		r.Violation("panic:observe:two-writers", "panic in a read API after two concurrent updates: "+pn, wit(nil))
		return sc
	}
	key, what, skipped, final := twJudge(c.md0, c.ops, acc, served)
	if skipped {
		r.Count("two_writer_skipped_ambiguous", 1)
		return sc
	}
	if key != "" {
		if failed >= 0 {
			what = fmt.Sprintf("(write %d failed, %s, inside update %s) ", failK, modeName(mode), []string{"A", "B"}[failed]) + what
		}
		r.Count("finding[two-writers]:"+key, 1)
		r.Violation(key, what, wit(map[string]interface{}{"served_rules": served.all, "storage": w.kv.Dump()}))
		return sc
	}
	r.Count("two_writer_serializable", 1)
	if acc[0] && acc[1] {
		r.Count("two_writer_both_accepted", 1)
	} else if acc[0] != acc[1] {
		r.Count("two_writer_one_rejected", 1)
	}
	if failed >= 0 {
		// the failed update is retried (alone, no fault): it is the last update of the serial order
		rerr, _, pn := safeApply(w.m, c.ops[failed])
		if pn != "" {
			r.Violation("panic:two-writers:retry", "panic inside the retried update: "+pn, wit(nil))
			return sc
		}
		served, _ = safeObserve(w.m)
		if rerr != nil {
			if d, _ := diffModel(final, served); d != nil {
				r.Violation("concurrent-updates:retry-rejected-but-changed:"+d.Observable, fmt.Sprintf("the update whose write failed inside a race was retried and rejected (%v), yet %s(%s) serves %s, model %s", rerr, d.Observable, d.Item, d.A, d.B), wit(nil))
			}
			r.Count("two_writer_retry_rejected", 1)
			return sc // storage may hold a part of the failed attempt: reload is not judged (only retry to success is promised)
		}
		n, wf, amb := final.apply(c.ops[failed])
		if amb || !wf {
			r.Count("two_writer_skipped_ambiguous", 1)
			return sc
		}
		if p, at, va := n.validity(); va {
			r.Count("two_writer_skipped_ambiguous", 1)
			return sc
		} else if p != "" {
			r.Violation("concurrent-updates:retry-accepted-invalid:"+p, fmt.Sprintf("the update whose write failed inside a race was retried and accepted although the segment starting at 0x%x then has %s", at, p), wit(nil))
			return sc
		}
		if d, _ := diffModel(n, served); d != nil {
			r.Violation("concurrent-updates:retry-does-not-converge:served:"+d.Observable, fmt.Sprintf("write %d (%s) failed inside a race; after the retry %s(%s) serves %s, model %s", failK, modeName(mode), d.Observable, d.Item, d.A, d.B), wit(nil))
			return sc
		}
		r.Count("two_writer_retry_converged", 1)
		acc[failed] = true
	}
	if acc[0] || acc[1] {
		rm, _, _, rerr := w.reload()
		if rerr != nil {
			r.Violation("concurrent-updates:reload-fails", fmt.Sprintf("after two concurrent updates a fresh RuleManager cannot initialise from the storage: %v", rerr), wit(map[string]interface{}{"storage": w.kv.Dump()}))
		} else if d := diffSnaps(served, observe(rm)); d != nil {
			r.Violation("concurrent-updates:reload-differs-from-served", fmt.Sprintf("after two concurrent updates %s(%s) is served as %s but a fresh RuleManager on the same storage gives %s", d.Observable, d.Item, d.A, d.B), wit(map[string]interface{}{"diff": d, "storage": w.kv.Dump()}))
		} else {
			r.Count("two_writer_reload_equal", 1)
		}
	}
	return sc
}

// twExplore enumerates release orders for both start orders.
func twExplore(r *ev.Run, c *twCase, maxRuns int, sampleFirst bool) bool {
	for _, start := range [][2]int{{0, 1}, {1, 0}} {
		ex := &sched.Explorer{}
		for ex.Runs < maxRuns {
			ch := ex.Next()
			if ch == nil {
				break
			}
			sc := twExec(r, c, start, ch, 0, kvx.NoFault, sampleFirst && start[0] == 0 && ex.Runs == 0)
			if sc == nil {
				return !twAbort
			}
			ex.Advance(sc)
		}
		if ex.Diverged > 0 {
			r.Count("two_writer_dfs_diverged_prefixes", int64(ex.Diverged))
		}
	}
	return true
}

// twFaults: every single storage write of the execution (first release order, start order A then
// B) fails once; modes alternate with the write number unless both is set.
func twFaults(r *ev.Run, c *twCase, maxK int, both bool) {
	first := func(int, []sched.Info) int { return 0 }
	sc := twExec(r, c, [2]int{0, 1}, first, 0, kvx.NoFault, false)
	if sc == nil {
		return
	}
	n := len(sc.Trace)
	if n > maxK {
		n = maxK
	}
	for k := 1; k <= n; k++ {
		modes := []kvx.FaultMode{[]kvx.FaultMode{kvx.FailBefore, kvx.LostAck}[k%2]}
		if both {
			modes = []kvx.FaultMode{kvx.FailBefore, kvx.LostAck}
		}
		for _, m := range modes {
			start := [2]int{0, 1}
			if k%2 == 0 {
				start = [2]int{1, 0}
			}
			if twExec(r, c, start, first, int64(k), m, false) == nil {
				return
			}
		}
	}
}

func runTwoWriters(r *ev.Run, rng *rand.Rand) {
	g := &gen{rng: rng}
	maxRuns := r.Pick(6, 40) // schedules per pair and start order
	// 1. biased random pairs
	for c, pairs := 0, r.Pick(36, 200); c < pairs; c++ {
		base, md0 := twBase(g)
		a, b, kind, ok := twPair(g, md0)
		if !ok {
			r.Count("two_writer_no_pair", 1)
			continue
		}
		r.Count("two_writer_pairs_"+kind, 1)
		tc := &twCase{base, md0, [2]opSpec{a, b}, kind}
		if !twExplore(r, tc, maxRuns, c < 1) {
			return
		}
		if r.Thorough() && c%4 == 0 {
			twFaults(r, tc, 6, true)
		}
	}
	// 2. the complete matrix of update entry points: every unordered pair of kinds (incl. twice the
	// same kind) at least once per run, both start orders; storage faults at each write of the
	// pair inside the race for the pairs that have several writes
	kinds := []string{kSetRule, kDeleteRule, kSetRules, kBatch, kSetRuleGroup, kDeleteRuleGroup, kSetGroupBundle, kSetAllGroupBundles, kDeleteGroupBundle}
	reps := r.Pick(1, 4)
	for rep := 0; rep < reps; rep++ {
		for i := range kinds {
			for j := i; j < len(kinds); j++ {
				var tc *twCase
				for try := 0; try < 40 && tc == nil; try++ {
					base, md0 := twBase(g)
					a, b := g.opOfKind(md0, kinds[i]), g.opOfKind(md0, kinds[j])
					_, oka := accepts(md0, a)
					_, okb := accepts(md0, b)
					// at least one of the two must be acceptable alone, preferably both
					if (oka && okb) || (try > 25 && (oka || okb)) {
						tc = &twCase{base, md0, [2]opSpec{a, b}, "matrix"}
					}
				}
				if tc == nil {
					r.Count("two_writer_matrix_no_pair", 1)
					continue
				}
				r.Count("two_writer_matrix_pairs", 1)
				r.Distinct("2w-matrix|" + kinds[i] + "|" + kinds[j])
				if !twExplore(r, tc, r.Pick(2, 12), false) {
					return
				}
				if (i+j+rep)%r.Pick(3, 1) == 0 {
					twFaults(r, tc, r.Pick(4, 10), r.Thorough())
				}
			}
		}
	}
	r.Set("two_writer_kind_matrix", fmt.Sprintf("%d kinds, all %d unordered pairs x both start orders", len(kinds), len(kinds)*(len(kinds)+1)/2))
}
