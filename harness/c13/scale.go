package main

// Populated world: more rules than any page / batch size of the storage layer (range loads are
// paged by 100; 1000 / 1024 are the other sizes around), group ids and rule ids that are prefixes
// of each other (g, g1, g10, g100 / r1, r10, r100), more than a thousand split keys, and unrelated
// keys around the "rules/" and "rule_group/" prefixes in the storage. Same monitor as everywhere
// (runner.step: model comparison on probes, validity, restart comparison), plus write failures at
// writes before / at / after the 100-entry page boundary of a delete-by-prefix that issues more than
// 100 writes.

import (
	"encoding/hex"
	"fmt"
	"math/rand"
	"sort"

	"github.com/pingcap/kvproto/pkg/metapb"
	"github.com/tikv/pd/server/core"
	"github.com/tikv/pd/server/kv"
	"github.com/tikv/pd/server/schedule/placement"
	"verif/harness/lib/ev"
	"verif/harness/lib/kvx"
)

var scaleGroups = []string{"g", "g1", "g10", "g100", "g2"}

func scaleKey(i int) string { return fmt.Sprintf("%04x", 16+i*40) }

func scaleRule(i int) ruleSpec {
	r := ruleSpec{Group: scaleGroups[i%len(scaleGroups)], ID: fmt.Sprintf("r%d", i/len(scaleGroups)), Index: i % 3, Override: i%11 == 0,
		Role: []string{"learner", "follower", "voter", "learner"}[i%4], Count: 1 + i%2, StartHex: scaleKey(i)}
	switch {
	case i%50 == 7:
		r.EndHex = "" // unbounded
	case i%7 == 0:
		r.EndHex = scaleKey(i + 4) // overlaps its successors
	default:
		r.EndHex = scaleKey(i + 1)
	}
	if i%97 == 0 {
		r.StartHex = r.StartHex[:2] // a one-byte key that is a prefix of two-byte keys
		if r.EndHex != "" && r.EndHex <= r.StartHex {
			r.EndHex = ""
		}
	}
	return r
}

// unrelated keys that sort directly before / inside the gaps of / after the prefixes that the rule
// manager scans ("rules/" .. "rules0", "rule_group/" .. "rule_group0").
var unrelatedKeys = map[string]string{
	"rule": "x", "rule_group": "x", "rule_group.": "x", "rule_group0": "{not json", "rule_group0/g": `{"id":"g","index":9}`,
	"rule_groupx/g1": "x", "rules": "x", "rules.": "x", "rules0": "{not json", "rules0/67-7a7a": `{"group_id":"g","id":"zz","start_key":"","end_key":"","role":"voter","count":1}`,
	"rulesx": "x", "raft/s/00000000000000000001": "x", "config": "{}", "gc/safe_point": "0",
}

func regionMeta(s, e []byte) *metapb.Region { return &metapb.Region{Id: 1, StartKey: s, EndKey: e} }

func setScaleProbes(n int, rng *rand.Rand) (restore func()) {
	og, or, ok, orr := groupIDs, ruleIDs, probeKeys, probeRanges
	groupIDs = []string{"pd", "g", "g1", "g10", "g100", "g2"}
	ruleIDs = []string{"default", "r", "r0", "r1", "r10", "r100", "r11", "r2", "new"}
	set := map[string]bool{"": true, "00": true, "10": true, "1000": true, "ffff": true}
	for len(set) < 90 {
		i := rng.Intn(n + 6)
		b, _ := hex.DecodeString(scaleKey(i))
		set[string(b)] = true
		switch rng.Intn(3) {
		case 0:
			set[string(append(append([]byte(nil), b...), 0))] = true // immediate successor
		case 1:
			b[1] += 7 // strictly inside a segment
			set[string(b)] = true
		}
	}
	probeKeys = nil
	for k := range set {
		probeKeys = append(probeKeys, []byte(k))
	}
	sort.Slice(probeKeys, func(i, j int) bool { return string(probeKeys[i]) < string(probeKeys[j]) })
	probeRanges = nil
	add := func(s, e []byte) {
		probeRanges = append(probeRanges, probeRange{s: s, e: e, region: core.NewRegionInfo(regionMeta(s, e), nil), name: fmt.Sprintf("%x,%x", s, e)})
	}
	for i := range probeKeys {
		if i%6 == 0 {
			add(probeKeys[i], nil)
		}
		for _, d := range []int{1, 2, 9} {
			if i+d < len(probeKeys) {
				add(probeKeys[i], probeKeys[i+d])
			}
		}
	}
	// ranges that end exactly at / one byte after a rule boundary, and lie inside one rule
	for t := 0; t < 40; t++ {
		i := rng.Intn(n)
		s, _ := hex.DecodeString(scaleKey(i))
		e, _ := hex.DecodeString(scaleKey(i + 1))
		add(s, e)
		add(s, append(append([]byte(nil), e...), 0))
		add(append(append([]byte(nil), s...), 1), e)
	}
	return func() { groupIDs, ruleIDs, probeKeys, probeRanges = og, or, ok, orr }
}

func runScale(r *ev.Run, rp *reporter, rng *rand.Rand) {
	n := r.Pick(1150, 4300)
	defer setScaleProbes(n, rng)()
	// world with unrelated keys in the storage before the manager starts
	k := kvx.New(kv.NewMemoryKV())
	k.SetLogging(false)
	for key, v := range unrelatedKeys {
		k.Inner.Save(key, v)
	}
	m := placement.NewRuleManager(core.NewStorage(k), nil)
	if err := m.Initialize(3, initLabels); err != nil {
		r.Inconclusive("Initialize with unrelated keys in the storage failed: %v", err)
		return
	}
	x := &runner{r: r, w: &world{kv: k, m: m}, md: initialModel(), modes: []kvx.FaultMode{kvx.FailBefore, kvx.LostAck}}
	bundles := map[string]*bundleSpec{}
	var order []string
	for i := 0; i < n; i++ {
		rs := scaleRule(i)
		b := bundles[rs.Group]
		if b == nil {
			b = &bundleSpec{ID: rs.Group, Index: len(order) % 3}
			bundles[rs.Group] = b
			order = append(order, rs.Group)
		}
		b.Rules = append(b.Rules, rs)
	}
	big := opSpec{Kind: kSetAllGroupBundles}
	for _, g := range order {
		big.Bundles = append(big.Bundles, *bundles[g])
	}
	g2 := bundleSpec{ID: "g2", Index: 1}
	for i := 0; i < n/5; i++ {
		rs := scaleRule(i*5 + 4)
		rs.ID, rs.Count = fmt.Sprintf("n%d", i), 2
		g2.Rules = append(g2.Rules, rs)
	}
	prefixDel := opSpec{Kind: kBatch, Batch: []batchSpec{{Action: "del", Rule: ruleSpec{Group: "g1", ID: "r1"}, Prefix: true}}}
	ops := []opSpec{
		big, // overrideAll=false: pd/default stays and keeps every key valid
		{Kind: kDeleteRule, GroupID: "g1", RuleID: "r10"},
		{Kind: kSetRule, Rule: &ruleSpec{Group: "g10", ID: "new", Role: "voter", Count: 2, StartHex: "1001", EndHex: "9c41", Index: 1}},
		prefixDel, // r1, r11.., r100.. of group g1 only (not g10/g100): more than 100 writes in the thorough tier
		{Kind: kDeleteGroupBundle, GroupID: "^g10*$", Regex: true},
		{Kind: kSetGroupBundle, Bundle: &g2},
		{Kind: kSetRuleGroup, Group: &groupSpec{ID: "g", Index: 7}},
		{Kind: kDeleteGroupBundle, GroupID: "g"},
	}
	for i, op := range ops {
		before, _ := safeObserve(x.w.m)
		fs := x.step(op, false)
		rp.report("scale", i, x, fs)
		r.Count("scale_steps", 1)
		if x.dead || len(fs) > 0 {
			break
		}
		w := x.recs[len(x.recs)-1].Writes
		r.Count("scale_storage_writes", w)
		if op.Kind == kBatch || i == 0 || op.Kind == kSetGroupBundle {
			// write failures around the page size inside a large update, then retry
			for _, kk := range []int64{1, 57, 100, 101, w} {
				if kk >= 1 && kk <= w && before != nil {
					mode := []kvx.FaultMode{kvx.FailBefore, kvx.LostAck}[kk%2]
					fs := x.faultRun(op, kk, mode, before)
					rp.report("scale", i, x, fs)
					r.Count("scale_fault_runs", 1)
				}
			}
		}
	}
	r.Set("scale_rules", fmt.Sprint(n))
	r.Count("scale_rules_served_at_the_end", int64(len(x.w.m.GetAllRules())))
	// the unrelated keys must have survived every restart-load and update
	cur := k.Dump()
	for key, v := range unrelatedKeys {
		if cur[key] != v {
			r.Count("evidence_only_unrelated_storage_keys_changed", 1) // not in the statement; a scan that reaches them shows as a reload difference (they hold a valid rule / group)
		}
	}
}
