package main

// Reference model for C13, written from the property statement and the documented semantics of
// placement rules (docs of Rule / RuleGroup fields and of the RuleManager API). It does not sweep
// over sorted split points: every question is answered by a linear scan over all configured rules
// for one key ("which rules contain this key"), and segments are represented by one key each.

import (
	"bytes"
	"encoding/hex"
	"fmt"
	"regexp"
	"sort"
	"strings"
)

// consSpec is one label constraint of a rule.
type consSpec struct {
	Key    string   `json:"key"`
	Op     string   `json:"op"`
	Values []string `json:"values,omitempty"`
}

// ruleSpec is a rule as a client writes it (and as the model stores it).
type ruleSpec struct {
	Group    string     `json:"group"`
	ID       string     `json:"id"`
	Index    int        `json:"index,omitempty"`
	Override bool       `json:"override,omitempty"`
	StartHex string     `json:"start"`
	EndHex   string     `json:"end"`
	Role     string     `json:"role"`
	Count    int        `json:"count"`
	Cons     []consSpec `json:"cons,omitempty"`
	Labels   []string   `json:"labels,omitempty"`
	Iso      string     `json:"iso,omitempty"`

	start, end []byte // decoded by wellFormed
	cs         string // cached canonical text (set when the rule is stored in the model)
}

type groupSpec struct {
	ID       string `json:"id"`
	Index    int    `json:"index,omitempty"`
	Override bool   `json:"override,omitempty"`
}

type bundleSpec struct {
	ID       string     `json:"id"`
	Index    int        `json:"index,omitempty"`
	Override bool       `json:"override,omitempty"`
	Rules    []ruleSpec `json:"rules"`
}

type batchSpec struct {
	Action string   `json:"action"` // add | del
	Rule   ruleSpec `json:"rule"`   // for del only Group and ID are used
	Prefix bool     `json:"prefix,omitempty"`
}

// modSpec describes the in-place modification of a get-modify-set.
type modSpec struct {
	Group string     `json:"group"`
	ID    string     `json:"id"`
	Via   string     `json:"via,omitempty"` // getter the edited object was obtained from ("" = GetRule)
	Field string     `json:"field"`         // count labels index override role start end
	Int   int        `json:"int,omitempty"`
	Bool  bool       `json:"bool,omitempty"`
	Str   string     `json:"str,omitempty"`
	Strs  []string   `json:"strs,omitempty"`
	Cons  []consSpec `json:"cons,omitempty"`
	// Again: after the SetRule succeeded the caller edits the same object once more (count = Int2)
	// and sets it again (server.SetReplicationConfig rolling back after a failed Persist).
	// Then: what follows an in-place edit ("in:..." fields): "" = SetRule, "reject" = the count is
	// also set to 0 so that SetRule refuses, "none" = no SetRule at all.
	Then  string `json:"then,omitempty"`
	Again bool   `json:"again,omitempty"`
	Int2  int    `json:"int2,omitempty"`
}

// opSpec is one update of a history.
type opSpec struct {
	Kind        string       `json:"kind"`
	Rule        *ruleSpec    `json:"rule,omitempty"`
	Rules       []ruleSpec   `json:"rules,omitempty"`
	Batch       []batchSpec  `json:"batch,omitempty"`
	Group       *groupSpec   `json:"group_cfg,omitempty"`
	Bundle      *bundleSpec  `json:"bundle,omitempty"`
	Bundles     []bundleSpec `json:"bundles,omitempty"`
	OverrideAll bool         `json:"override_all,omitempty"`
	GroupID     string       `json:"group_id,omitempty"`
	RuleID      string       `json:"rule_id,omitempty"`
	Regex       bool         `json:"regex,omitempty"`
	Mod         *modSpec     `json:"mod,omitempty"`
}

const (
	kSetRule            = "SetRule"
	kDeleteRule         = "DeleteRule"
	kSetRules           = "SetRules"
	kBatch              = "Batch"
	kSetRuleGroup       = "SetRuleGroup"
	kDeleteRuleGroup    = "DeleteRuleGroup"
	kSetGroupBundle     = "SetGroupBundle"
	kSetAllGroupBundles = "SetAllGroupBundles"
	kDeleteGroupBundle  = "DeleteGroupBundle"
	kGetModifySet       = "GetModifySet"
	kGetEditSetGroup    = "GetEditSetGroup"  // GetRuleGroup(s) -> edit index/override -> SetRuleGroup
	kGetEditSetBundle   = "GetEditSetBundle" // GetGroupBundle -> edit -> SetGroupBundle, or GetAllGroupBundles -> edit -> SetAllGroupBundles(override)
)

// model is the configured state: rules by (group,id) and explicit group configurations.
type model struct {
	rules  map[[2]string]ruleSpec
	groups map[string]groupSpec // only non-default configurations are kept

	sa []*ruleSpec // all rules in the documented order; computed once the state is final (lazily)
}

func newModel() *model {
	return &model{rules: map[[2]string]ruleSpec{}, groups: map[string]groupSpec{}}
}

func (md *model) clone() *model {
	c := newModel()
	for k, v := range md.rules {
		c.rules[k] = v
	}
	for k, v := range md.groups {
		c.groups[k] = v
	}
	return c
}

// group returns the effective configuration of a group (default: index 0, no override).
func (md *model) group(id string) groupSpec {
	if g, ok := md.groups[id]; ok {
		return g
	}
	return groupSpec{ID: id}
}

func (md *model) setGroup(g groupSpec) {
	if g.Index == 0 && !g.Override {
		delete(md.groups, g.ID)
		return
	}
	md.groups[g.ID] = g
}

var validRoles = map[string]bool{"voter": true, "leader": true, "follower": true, "learner": true}
var validOps = map[string]bool{"in": true, "notIn": true, "exists": true, "notExists": true}

// wellFormed decodes the keys and checks the per-rule format constraints that the API documents
// (hex keys, end after start, non-empty ids, known role, positive count, a single leader, known
// constraint ops). bundleGroup is the id of the enclosing bundle ("" = none).
func wellFormed(r *ruleSpec, bundleGroup string) bool {
	var err error
	if r.start, err = hex.DecodeString(r.StartHex); err != nil {
		return false
	}
	if r.end, err = hex.DecodeString(r.EndHex); err != nil {
		return false
	}
	if len(r.end) > 0 && bytes.Compare(r.end, r.start) <= 0 {
		return false
	}
	if bundleGroup != "" {
		if r.Group == "" {
			r.Group = bundleGroup
		} else if r.Group != bundleGroup {
			return false
		}
	}
	if r.Group == "" || r.ID == "" || !validRoles[r.Role] || r.Count <= 0 {
		return false
	}
	if r.Role == "leader" && r.Count > 1 {
		return false
	}
	for _, c := range r.Cons {
		if !validOps[c.Op] {
			return false
		}
	}
	return true
}

func canonRule(group, id string, index int, override bool, start, end []byte, startHex, endHex, role string, count int, cons []string, labels []string, iso string) string {
	// every client-supplied string is quoted and lists are printed element-wise, so that two
	// different values never look alike (a label "zone,host" vs the labels "zone","host"); the hex
	// spelling of the keys is compared case-insensitively (pd decodes both spellings to the same key)
	return fmt.Sprintf("%q/%q#%d ov=%v [%x,%x) hex[%s,%s) %q*%d lc=[%s] ll=%q iso=%q",
		group, id, index, override, start, end, strings.ToLower(startHex), strings.ToLower(endHex), role, count, strings.Join(cons, " "), labels, iso)
}

func (r *ruleSpec) canon() string {
	if r.cs != "" {
		return r.cs
	}
	var cons []string
	for _, c := range r.Cons {
		cons = append(cons, fmt.Sprintf("{%q %q %q}", c.Key, c.Op, c.Values))
	}
	return canonRule(r.Group, r.ID, r.Index, r.Override, r.start, r.end, r.StartHex, r.EndHex, r.Role, r.Count, cons, r.Labels, r.Iso)
}

func (r *ruleSpec) contains(k []byte) bool {
	return bytes.Compare(r.start, k) <= 0 && (len(r.end) == 0 || bytes.Compare(k, r.end) < 0)
}

// less is the documented order: group index, group id, rule index, rule id.
func (md *model) less(a, b *ruleSpec) bool {
	ga, gb := md.group(a.Group), md.group(b.Group)
	if ga.Index != gb.Index {
		return ga.Index < gb.Index
	}
	if a.Group != b.Group {
		return a.Group < b.Group
	}
	if a.Index != b.Index {
		return a.Index < b.Index
	}
	return a.ID < b.ID
}

func (md *model) sorted(rs []*ruleSpec) []*ruleSpec {
	sort.Slice(rs, func(i, j int) bool { return md.less(rs[i], rs[j]) })
	return rs
}

func (md *model) allRules() []*ruleSpec {
	if md.sa == nil || len(md.sa) != len(md.rules) {
		out := make([]*ruleSpec, 0, len(md.rules))
		for _, r := range md.rules {
			r := r
			out = append(out, &r)
		}
		md.sa = md.sorted(out)
	}
	return md.sa
}

func (md *model) rulesOfGroup(g string) []*ruleSpec {
	var out []*ruleSpec
	for _, r := range md.allRules() {
		if r.Group == g {
			out = append(out, r)
		}
	}
	return out
}

// containing = the configured rules whose range contains k, in the documented order.
func (md *model) containing(k []byte) []*ruleSpec {
	var out []*ruleSpec
	for _, r := range md.allRules() { // linear scan over all rules, order preserved
		if r.contains(k) {
			out = append(out, r)
		}
	}
	return out
}

// boundaries = every rule start key and every (finite) rule end key, plus the start of the key
// space; sorted, distinct. Each is the first key of one segment.
func (md *model) boundaries() [][]byte {
	set := map[string]bool{"": true}
	for _, r := range md.rules {
		set[string(r.start)] = true
		if len(r.end) > 0 {
			set[string(r.end)] = true
		}
	}
	var out [][]byte
	for k := range set {
		out = append(out, []byte(k))
	}
	sort.Slice(out, func(i, j int) bool { return bytes.Compare(out[i], out[j]) < 0 })
	return out
}

// strictlyInside returns the boundaries b with s < b < e (empty e = +inf).
func (md *model) strictlyInside(s, e []byte) [][]byte {
	return inside(md.boundaries(), s, e)
}

func inside(bs [][]byte, s, e []byte) [][]byte {
	var out [][]byte
	for _, b := range bs {
		if bytes.Compare(s, b) < 0 && (len(e) == 0 || bytes.Compare(b, e) < 0) {
			out = append(out, b)
		}
	}
	return out
}

// applySet applies rule override and group override to the rules of one segment (already in the
// documented order). The documentation says a rule with override disables "all rules with less
// indexes" of its group and a group with override disables groups with smaller index; for equal
// indexes the text is silent. tiesToo=false is the literal reading, tiesToo=true also disables
// what merely comes earlier in the documented order (equal index, smaller id).
func (md *model) applySet(rs []*ruleSpec, tiesToo bool) []*ruleSpec {
	present := map[string]bool{}
	for _, r := range rs {
		present[r.Group] = true
	}
	var out []*ruleSpec
	for _, r := range rs {
		disabled := false
		for _, o := range rs {
			if o.Group == r.Group && o.Override && (o.Index > r.Index || (tiesToo && o.Index == r.Index && o.ID > r.ID)) {
				disabled = true
			}
		}
		g := md.group(r.Group)
		for og := range present {
			if og == r.Group {
				continue
			}
			o := md.group(og)
			if o.Override && (o.Index > g.Index || (tiesToo && o.Index == g.Index && og > r.Group)) {
				disabled = true
			}
		}
		if !disabled {
			out = append(out, r)
		}
	}
	return out
}

func sameRules(a, b []*ruleSpec) bool {
	if len(a) != len(b) {
		return false
	}
	for i := range a {
		if a[i].canon() != b[i].canon() {
			return false
		}
	}
	return true
}

// applyFor returns the rules to apply at key k after overrides; ambiguous when the two readings
// of override ties disagree.
func (md *model) applyFor(k []byte) (rules []*ruleSpec, ambiguous bool) {
	c := md.containing(k)
	a, b := md.applySet(c, false), md.applySet(c, true)
	return a, !sameRules(a, b)
}

func ruleSetProblem(rs []*ruleSpec) string {
	if len(rs) == 0 {
		return "no-rule"
	}
	leaders, voters := 0, 0 // saturating: counts can be as large as the int range
	add := func(a *int, n int) {
		if *a += n; *a < 0 || *a > 1<<40 {
			*a = 1 << 40
		}
	}
	for _, r := range rs {
		switch r.Role {
		case "leader":
			add(&leaders, r.Count)
		case "voter":
			add(&voters, r.Count)
		}
	}
	if leaders > 1 {
		return "several-leaders"
	}
	if leaders+voters < 1 {
		return "no-voter-or-leader"
	}
	return ""
}

// validity scans the segments from -inf to +inf: every key must have a non-empty rule set with a
// voter or leader and at most one leader after override. Returns the first problem from the left.
func (md *model) validity() (problem string, at []byte, ambiguous bool) {
	if len(md.rules) == 0 {
		return "no-rule:empty-config", nil, false
	}
	for i, b := range md.boundaries() {
		c := md.containing(b)
		if len(c) == 0 {
			if i == 0 {
				return "no-rule:before-first-start-key", b, false
			}
			return "no-rule:gap", b, false
		}
		p1, p2 := ruleSetProblem(md.applySet(c, false)), ruleSetProblem(md.applySet(c, true))
		if p1 != p2 {
			if p1 == "" || p2 == "" {
				return "", b, true
			}
			return "invalid-after-override", b, false
		}
		if p1 != "" {
			return p1, b, false
		}
	}
	return "", nil, false
}

// groupUniverse = groups that have rules or an explicit configuration.
func (md *model) groupUniverse() []string {
	set := map[string]bool{}
	for k := range md.rules {
		set[k[0]] = true
	}
	for id := range md.groups {
		set[id] = true
	}
	var out []string
	for id := range set {
		out = append(out, id)
	}
	sort.Strings(out)
	return out
}

// apply returns the state after op according to the documented meaning of the call.
// wf=false: the request is malformed (a documented per-rule format rule is broken, the regexp
// does not compile, the rule to modify does not exist). ambiguous=true: the documentation does not
// decide the result (such operations are not executed at all).
func (md *model) apply(op opSpec) (next *model, wf bool, ambiguous bool) {
	n := md.clone()
	set := func(r ruleSpec, bundle string) bool {
		if !wellFormed(&r, bundle) {
			return false
		}
		r.cs = ""
		r.cs = r.canon()
		n.rules[[2]string{r.Group, r.ID}] = r
		n.sa = nil // drop the sorted cache (validity() may have filled it in the middle of a composite update)
		return true
	}
	switch op.Kind {
	case kSetRule:
		if !set(*op.Rule, "") {
			return md, false, false
		}
	case kDeleteRule:
		delete(n.rules, [2]string{op.GroupID, op.RuleID})
	case kSetRules:
		for _, r := range op.Rules {
			if !set(r, "") {
				return md, false, false
			}
		}
	case kBatch:
		// a series of actions executed in order, at once
		for _, b := range op.Batch {
			if b.Action == "add" {
				r := b.Rule
				if !wellFormed(&r, "") {
					return md, false, false
				}
			}
		}
		added := map[[2]string]bool{}
		for _, b := range op.Batch {
			switch {
			case b.Action == "add":
				r := b.Rule
				set(r, "")
				added[[2]string{r.Group, r.ID}] = true
			case !b.Prefix:
				delete(n.rules, [2]string{b.Rule.Group, b.Rule.ID})
			default:
				for k := range n.rules {
					if k[0] == b.Rule.Group && strings.HasPrefix(k[1], b.Rule.ID) {
						if _, existed := md.rules[k]; added[k] && !existed {
							// "delete by prefix" after an add of a new matching rule in the same
							// batch: whether the prefix is matched against the rules before the
							// batch or against the batch so far is not documented
							return md, true, true
						}
						delete(n.rules, k)
					}
				}
			}
		}
	case kSetRuleGroup:
		n.setGroup(*op.Group)
	case kDeleteRuleGroup:
		delete(n.groups, op.GroupID)
	case kSetGroupBundle:
		for k := range n.rules {
			if k[0] == op.Bundle.ID {
				delete(n.rules, k)
			}
		}
		n.setGroup(groupSpec{ID: op.Bundle.ID, Index: op.Bundle.Index, Override: op.Bundle.Override})
		for _, r := range op.Bundle.Rules {
			if !set(r, op.Bundle.ID) {
				return md, false, false
			}
		}
	case kSetAllGroupBundles:
		ids := map[string]bool{}
		for _, b := range op.Bundles {
			if ids[b.ID] {
				return md, true, true // the same group twice in one request: not documented
			}
			ids[b.ID] = true
		}
		for k := range n.rules {
			if op.OverrideAll || ids[k[0]] {
				delete(n.rules, k)
			}
		}
		for id := range n.groups {
			if op.OverrideAll || ids[id] {
				delete(n.groups, id)
			}
		}
		for _, b := range op.Bundles {
			n.setGroup(groupSpec{ID: b.ID, Index: b.Index, Override: b.Override})
			for _, r := range b.Rules {
				if !set(r, b.ID) {
					return md, false, false
				}
			}
		}
	case kDeleteGroupBundle:
		match := func(a string) bool { return a == op.GroupID }
		if op.Regex {
			re, err := regexp.Compile(op.GroupID)
			if err != nil {
				return md, false, false
			}
			anch, err := regexp.Compile("^(?:" + op.GroupID + ")$")
			if err != nil {
				return md, false, false
			}
			for _, g := range md.groupUniverse() {
				if re.MatchString(g) != anch.MatchString(g) {
					return md, true, true // whole-id match or substring match: not documented
				}
			}
			match = anch.MatchString
		}
		for k := range n.rules {
			if match(k[0]) {
				delete(n.rules, k)
			}
		}
		for id := range n.groups {
			if match(id) {
				delete(n.groups, id)
			}
		}
	case kGetModifySet:
		r, ok := n.rules[[2]string{op.Mod.Group, op.Mod.ID}]
		if !ok {
			return md, false, false
		}
		nv := 0
		if len(r.Cons) > 0 {
			nv = len(r.Cons[0].Values)
		}
		if !inPlaceApplicable(op.Mod.Field, len(r.Cons), nv, len(r.Labels), len(r.start), len(r.end)) {
			return md, false, false
		}
		if op.Mod.Then == "none" {
			break // a returned object was edited, nothing was set: the configuration is the old one
		}
		if op.Mod.Then == "reject" {
			return md, false, false
		}
		modifySpec(&r, op.Mod)
		if !set(r, "") {
			return md, false, false
		}
		if op.Mod.Again {
			if p, _, va := n.validity(); p != "" || va {
				return md, true, true // the first of the two updates is not clearly acceptable: not used
			}
			r.Count = op.Mod.Int2
			if !set(r, "") {
				return md, true, true
			}
		}
	case kGetEditSetGroup, kGetEditSetBundle:
		// the object a getter returned, with one field changed, is set again: the configuration
		// afterwards is the old one with that change
		known := false
		for _, id := range md.groupUniverse() {
			known = known || id == op.Mod.Group
		}
		if !known {
			return md, false, false
		}
		gs := n.group(op.Mod.Group)
		switch op.Mod.Field {
		case "index":
			gs.Index = op.Mod.Int
			n.setGroup(gs)
		case "override":
			gs.Override = op.Mod.Bool
			n.setGroup(gs)
		case "count": // first rule of the bundle
			rs := md.rulesOfGroup(op.Mod.Group)
			if op.Kind != kGetEditSetBundle || len(rs) == 0 {
				return md, false, false
			}
			r := *rs[0]
			r.Count = op.Mod.Int
			if !set(r, "") {
				return md, false, false
			}
		default:
			return md, false, false
		}
	default:
		panic("unknown op kind " + op.Kind)
	}
	return n, true, false
}

func modifySpec(r *ruleSpec, m *modSpec) {
	switch m.Field {
	case "count":
		r.Count = m.Int
	case "labels":
		r.Labels = append([]string(nil), m.Strs...)
	case "index":
		r.Index = m.Int
	case "override":
		r.Override = m.Bool
	case "role":
		r.Role = m.Str
	case "start":
		r.StartHex = m.Str
	case "end":
		r.EndHex = m.Str
	case "iso":
		r.Iso = m.Str
	case "cons":
		r.Cons = append([]consSpec(nil), m.Cons...)
	default:
		modifyInPlaceSpec(r, m)
	}
}

// modifyInPlaceSpec: the meaning of the in-place edits of a returned rule followed by SetRule. The
// decoded key bytes are not part of what a client sets (SetRule derives them from the hex text),
// so writing into them changes nothing.
func modifyInPlaceSpec(r *ruleSpec, m *modSpec) {
	cons := make([]consSpec, len(r.Cons))
	for i, c := range r.Cons {
		cons[i] = consSpec{Key: c.Key, Op: c.Op, Values: append([]string(nil), c.Values...)}
	}
	labels := append([]string(nil), r.Labels...)
	switch m.Field {
	case "in:values[0]":
		cons[0].Values[0] = m.Str
	case "in:cons[0].key":
		cons[0].Key = m.Str
	case "in:cons[0].op":
		cons[0].Op = m.Str
	case "in:append-values":
		cons[0].Values = append(cons[0].Values, m.Str)
	case "in:reslice-values":
		cons[0].Values = cons[0].Values[:len(cons[0].Values)-1]
	case "in:labels[0]":
		labels[0] = m.Str
	case "in:append-labels":
		labels = append(labels, m.Str)
	case "in:reslice-labels":
		labels = labels[:len(labels)-1]
	}
	r.Cons, r.Labels = cons, labels
}

// inPlaceApplicable: the rule has the element that the in-place edit writes to.
func inPlaceApplicable(field string, nCons, nValues, nLabels, nStart, nEnd int) bool {
	switch field {
	case "in:values[0]", "in:reslice-values":
		return nCons > 0 && nValues > 0
	case "in:cons[0].key", "in:cons[0].op", "in:append-values":
		return nCons > 0
	case "in:labels[0]", "in:reslice-labels":
		return nLabels > 0
	case "in:start[0]":
		return nStart > 0
	case "in:end[0]":
		return nEnd > 0
	}
	return true
}

// stateKey is a canonical text of the configured state (used for distinct-case counting).
func (md *model) stateKey() string {
	var sb strings.Builder
	for _, r := range md.allRules() {
		sb.WriteString(r.canon())
		sb.WriteByte('\n')
	}
	for _, g := range md.groupUniverse() {
		c := md.group(g)
		fmt.Fprintf(&sb, "G %s %d %v\n", g, c.Index, c.Override)
	}
	return sb.String()
}
