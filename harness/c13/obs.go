package main

// Observables: everything a client can read from a RuleManager, taken on a fixed probe set.

import (
	"bytes"
	"encoding/hex"
	"fmt"
	"sort"
	"strings"

	"github.com/pingcap/kvproto/pkg/metapb"
	"github.com/tikv/pd/server/core"
	"github.com/tikv/pd/server/schedule/placement"
)

// key alphabet of the generators: 10 points including "" (0x20 < 0x2000 < 0x30 byte-wise).
var alphabet = []string{"", "10", "20", "2000", "30", "40", "80", "a0", "c0", "ff"}

// universe of ids used by the generators (GetRule / GetRuleGroup / GetRulesByGroup / GetGroupBundle
// are asked for every member, existing or not).
var groupIDs = []string{"pd", "a", "ab", "b"}
var ruleIDs = []string{"default", "r1", "r10", "r2", "l", "x"}

type probeRange struct {
	s, e   []byte
	region *core.RegionInfo
	name   string
}

var probeKeys [][]byte
var probeRanges []probeRange

func initProbes(all bool) {
	hexes := []string{"", "00", "0f", "10", "1000", "18", "20", "2000", "200000", "2001", "28", "30", "38",
		"40", "60", "80", "90", "a0", "b0", "c0", "e0", "ff", "ff00", "ffff"}
	for _, h := range hexes {
		b, _ := hex.DecodeString(h)
		probeKeys = append(probeKeys, b)
	}
	sort.Slice(probeKeys, func(i, j int) bool { return bytes.Compare(probeKeys[i], probeKeys[j]) < 0 })
	add := func(s, e []byte) {
		probeRanges = append(probeRanges, probeRange{s: s, e: e,
			region: core.NewRegionInfo(&metapb.Region{Id: 1, StartKey: s, EndKey: e}, nil),
			name:   fmt.Sprintf("%x,%x", s, e)})
	}
	for i := range probeKeys {
		add(probeKeys[i], nil) // [s, +inf)
		for j := i + 1; j < len(probeKeys); j++ {
			// all short ranges, and long ranges on a fixed sparse grid (all of them when all=true)
			if all || j-i <= 4 || (i%3 == 0 && j%4 == 1) {
				add(probeKeys[i], probeKeys[j])
			}
		}
	}
}

// fitEvery: FitRegion is asked for every fitEvery-th probe range.
const fitEvery = 6

// noStores is an empty store set: FitRegion then only reports which rules it fits against.
type noStores struct{}

func (noStores) GetStores() []*core.StoreInfo    { return nil }
func (noStores) GetStore(uint64) *core.StoreInfo { return nil }

type bundleSnap struct {
	ID       string
	Index    int
	Override bool
	Rules    []string
}

func (b bundleSnap) String() string {
	return fmt.Sprintf("%q idx=%d ov=%v rules=%s", b.ID, b.Index, b.Override, list(b.Rules))
}

type groupSnap struct {
	ID       string
	Index    int
	Override bool
}

func (g groupSnap) String() string { return fmt.Sprintf("{%q %d %v}", g.ID, g.Index, g.Override) }

// snap is one observation of all observables.
type snap struct {
	rule    map[string]string // "g/id" -> canon or "<nil>"
	all     []string
	groups  []groupSnap
	group   map[string]string
	byGroup map[string][]string
	bundles []bundleSnap
	bundle  map[string]bundleSnap
	byKey   [][]string
	apply   [][]string
	fit     [][]string // FitRegion (empty region, empty store set): the rules it fits against, every fitEvery-th probe range
	split   [][]string
}

func canonReal(r *placement.Rule) string {
	if r == nil {
		return "<nil>"
	}
	var cons []string
	for _, c := range r.LabelConstraints {
		cons = append(cons, fmt.Sprintf("{%q %q %q}", c.Key, string(c.Op), c.Values))
	}
	return canonRule(r.GroupID, r.ID, r.Index, r.Override, r.StartKey, r.EndKey, r.StartKeyHex, r.EndKeyHex,
		string(r.Role), r.Count, cons, r.LocationLabels, r.IsolationLevel)
}

// canonCache memoises canonReal per rule object for the duration of one observation (the harness
// is the only writer then).
type canonCache map[*placement.Rule]string

func (c canonCache) one(r *placement.Rule) string {
	if r == nil {
		return "<nil>"
	}
	if s, ok := c[r]; ok {
		return s
	}
	s := canonReal(r)
	c[r] = s
	return s
}

func (c canonCache) many(rs []*placement.Rule) []string {
	out := make([]string, 0, len(rs))
	for _, r := range rs {
		out = append(out, c.one(r))
	}
	return out
}

func list(l []string) string { return "[" + strings.Join(l, " | ") + "]" }

// observe reads every observable of m.
func observe(m *placement.RuleManager) *snap {
	s := &snap{rule: map[string]string{}, group: map[string]string{}, byGroup: map[string][]string{}, bundle: map[string]bundleSnap{}}
	cc := canonCache{}
	canonReals := cc.many
	for _, g := range groupIDs {
		for _, id := range ruleIDs {
			s.rule[g+"/"+id] = cc.one(m.GetRule(g, id))
		}
		if rg := m.GetRuleGroup(g); rg != nil {
			s.group[g] = fmt.Sprintf("%q idx=%d ov=%v", rg.ID, rg.Index, rg.Override)
		} else {
			s.group[g] = "<nil>"
		}
		s.byGroup[g] = canonReals(m.GetRulesByGroup(g))
		b := m.GetGroupBundle(g)
		s.bundle[g] = bundleSnap{b.ID, b.Index, b.Override, canonReals(b.Rules)}
	}
	s.all = canonReals(m.GetAllRules())
	for _, g := range m.GetRuleGroups() {
		s.groups = append(s.groups, groupSnap{g.ID, g.Index, g.Override})
	}
	for _, b := range m.GetAllGroupBundles() {
		s.bundles = append(s.bundles, bundleSnap{b.ID, b.Index, b.Override, canonReals(b.Rules)})
	}
	for _, k := range probeKeys {
		s.byKey = append(s.byKey, canonReals(m.GetRulesByKey(k)))
	}
	for i, p := range probeRanges {
		s.apply = append(s.apply, canonReals(m.GetRulesForApplyRegion(p.region)))
		if i%fitEvery == 0 {
			var fr []string
			for _, rf := range m.FitRegion(noStores{}, p.region).RuleFits {
				if rf == nil {
					fr = append(fr, "<nil>")
				} else {
					fr = append(fr, cc.one(rf.Rule))
				}
			}
			s.fit = append(s.fit, fr)
		}
		var ks []string
		for _, k := range m.GetSplitKeys(p.s, p.e) {
			ks = append(ks, hex.EncodeToString(k))
		}
		s.split = append(s.split, ks)
	}
	return s
}

// diff is one differing observable.
type diff struct {
	Observable string `json:"observable"` // class, used in violation keys
	Item       string `json:"item"`       // which probe
	A          string `json:"a"`
	B          string `json:"b"`
}

func sameMultiset(a, b []string) bool {
	if len(a) != len(b) {
		return false
	}
	x, y := append([]string(nil), a...), append([]string(nil), b...)
	sort.Strings(x)
	sort.Strings(y)
	return list(x) == list(y)
}

func eqList(a, b []string) bool {
	if len(a) != len(b) {
		return false
	}
	for i := range a {
		if a[i] != b[i] {
			return false
		}
	}
	return true
}

func listDiff(class, item string, a, b []string) *diff {
	if eqList(a, b) {
		return nil
	}
	if len(a) > 1 && sameMultiset(a, b) {
		class += ".order"
	}
	return &diff{class, item, list(a), list(b)}
}

// diffSnaps compares two observations item by item (exact); returns the first difference in a
// fixed priority order, so that the class of a given fault is stable.
func diffSnaps(a, b *snap) *diff {
	for _, g := range groupIDs {
		for _, id := range ruleIDs {
			k := g + "/" + id
			if a.rule[k] != b.rule[k] {
				return &diff{"GetRule", k, a.rule[k], b.rule[k]}
			}
		}
	}
	if d := listDiff("GetAllRules", "", a.all, b.all); d != nil {
		return d
	}
	if fmt.Sprint(a.groups) != fmt.Sprint(b.groups) {
		return &diff{"GetRuleGroups", "", fmt.Sprint(a.groups), fmt.Sprint(b.groups)}
	}
	for _, g := range groupIDs {
		if a.group[g] != b.group[g] {
			return &diff{"GetRuleGroup", g, a.group[g], b.group[g]}
		}
	}
	for _, g := range groupIDs {
		if d := listDiff("GetRulesByGroup", g, a.byGroup[g], b.byGroup[g]); d != nil {
			return d
		}
	}
	if fmt.Sprint(a.bundles) != fmt.Sprint(b.bundles) {
		return &diff{"GetAllGroupBundles", "", fmt.Sprint(a.bundles), fmt.Sprint(b.bundles)}
	}
	for _, g := range groupIDs {
		if a.bundle[g].String() != b.bundle[g].String() {
			return &diff{"GetGroupBundle", g, a.bundle[g].String(), b.bundle[g].String()}
		}
	}
	for i := range probeKeys {
		if d := listDiff("GetRulesByKey", hex.EncodeToString(probeKeys[i]), a.byKey[i], b.byKey[i]); d != nil {
			return d
		}
	}
	for i, p := range probeRanges {
		if d := listDiff("GetRulesForApplyRegion", p.name, a.apply[i], b.apply[i]); d != nil {
			return d
		}
	}
	for i := range a.fit {
		if d := listDiff("FitRegion", probeRanges[i*fitEvery].name, a.fit[i], b.fit[i]); d != nil {
			return d
		}
	}
	for i, p := range probeRanges {
		if d := listDiff("GetSplitKeys", p.name, a.split[i], b.split[i]); d != nil {
			return d
		}
	}
	return nil
}

func canonSpecs(rs []*ruleSpec) []string {
	out := make([]string, 0, len(rs))
	for _, r := range rs {
		out = append(out, r.canon())
	}
	return out
}

// diffModel compares what is served with what the model says. Returns the first difference in the
// same priority order as diffSnaps; skipped counts the probes that were not judged because the
// documentation leaves the expected answer open (override ties).
func diffModel(md *model, s *snap) (d *diff, skipped int) {
	for _, g := range groupIDs {
		for _, id := range ruleIDs {
			k := g + "/" + id
			exp := "<nil>"
			if r, ok := md.rules[[2]string{g, id}]; ok {
				exp = r.canon()
			}
			if s.rule[k] != exp {
				return &diff{"GetRule", k, s.rule[k], exp}, skipped
			}
		}
	}
	if d := listDiff("GetAllRules", "", s.all, canonSpecs(md.allRules())); d != nil {
		return d, skipped
	}
	// groups: every reported group must carry the configured (or default) index/override, and every
	// explicitly configured group must be reported; whether a default group is listed is not judged,
	// neither is the order of the listing.
	seen := map[string]bool{}
	for _, g := range s.groups {
		e := md.group(g.ID)
		if seen[g.ID] || g.Index != e.Index || g.Override != e.Override {
			return &diff{"GetRuleGroups", g.ID, fmt.Sprint(g), fmt.Sprint(e)}, skipped
		}
		seen[g.ID] = true
	}
	for id, e := range md.groups {
		if !seen[id] {
			return &diff{"GetRuleGroups", id, "<missing>", fmt.Sprint(e)}, skipped
		}
	}
	for _, g := range groupIDs {
		e := md.group(g)
		exp := fmt.Sprintf("%q idx=%d ov=%v", e.ID, e.Index, e.Override)
		if _, explicit := md.groups[g]; s.group[g] != exp && (explicit || s.group[g] != "<nil>") {
			return &diff{"GetRuleGroup", g, s.group[g], exp}, skipped
		}
	}
	for _, g := range groupIDs {
		if d := listDiff("GetRulesByGroup", g, s.byGroup[g], canonSpecs(md.rulesOfGroup(g))); d != nil {
			return d, skipped
		}
	}
	expBundle := func(g string) bundleSnap {
		e := md.group(g)
		return bundleSnap{g, e.Index, e.Override, canonSpecs(md.rulesOfGroup(g))}
	}
	seen = map[string]bool{}
	for _, b := range s.bundles {
		if seen[b.ID] || b.String() != expBundle(b.ID).String() {
			return &diff{"GetAllGroupBundles", b.ID, b.String(), expBundle(b.ID).String()}, skipped
		}
		seen[b.ID] = true
	}
	for _, g := range md.groupUniverse() {
		if !seen[g] {
			return &diff{"GetAllGroupBundles", g, "<missing>", expBundle(g).String()}, skipped
		}
	}
	for _, g := range groupIDs {
		if s.bundle[g].String() != expBundle(g).String() {
			return &diff{"GetGroupBundle", g, s.bundle[g].String(), expBundle(g).String()}, skipped
		}
	}
	for i, k := range probeKeys {
		if d := listDiff("GetRulesByKey", hex.EncodeToString(k), s.byKey[i], canonSpecs(md.containing(k))); d != nil {
			return d, skipped
		}
	}
	bs := md.boundaries()
	for i, p := range probeRanges {
		var exp []string
		if len(inside(bs, p.s, p.e)) == 0 {
			rs, amb := md.applyFor(p.s)
			if amb {
				skipped++
				continue
			}
			exp = canonSpecs(rs)
		}
		if d := listDiff("GetRulesForApplyRegion", p.name, s.apply[i], exp); d != nil {
			return d, skipped
		}
		if i%fitEvery == 0 && i/fitEvery < len(s.fit) {
			// FitRegion is a consumer of the same answer: it must fit against exactly these rules
			if d := listDiff("FitRegion", p.name, s.fit[i/fitEvery], exp); d != nil {
				return d, skipped
			}
		}
	}
	for i, p := range probeRanges {
		var exp []string
		for _, b := range inside(bs, p.s, p.e) {
			exp = append(exp, hex.EncodeToString(b))
		}
		if d := listDiff("GetSplitKeys", p.name, s.split[i], exp); d != nil {
			return d, skipped
		}
	}
	return nil, skipped
}

// flat lists every observed item as (class, item, value) in the priority order of diffSnaps.
func (s *snap) flat() [][3]string {
	var out [][3]string
	add := func(class, item, v string) { out = append(out, [3]string{class, item, v}) }
	for _, g := range groupIDs {
		for _, id := range ruleIDs {
			add("GetRule", g+"/"+id, s.rule[g+"/"+id])
		}
	}
	add("GetAllRules", "", list(s.all))
	add("GetRuleGroups", "", fmt.Sprint(s.groups))
	for _, g := range groupIDs {
		add("GetRuleGroup", g, s.group[g])
	}
	for _, g := range groupIDs {
		add("GetRulesByGroup", g, list(s.byGroup[g]))
	}
	add("GetAllGroupBundles", "", fmt.Sprint(s.bundles))
	for _, g := range groupIDs {
		add("GetGroupBundle", g, s.bundle[g].String())
	}
	for i := range probeKeys {
		add("GetRulesByKey", hex.EncodeToString(probeKeys[i]), list(s.byKey[i]))
	}
	for i, p := range probeRanges {
		add("GetRulesForApplyRegion", p.name, list(s.apply[i]))
	}
	for i := range s.fit {
		add("FitRegion", probeRanges[i*fitEvery].name, list(s.fit[i]))
	}
	for i, p := range probeRanges {
		add("GetSplitKeys", p.name, list(s.split[i]))
	}
	return out
}

// neitherPreNorPost returns the first item of obs whose value is neither the value before nor the
// value after an update (every single answer must show the update entirely or not at all).
func neitherPreNorPost(pre, post, obs *snap) *diff {
	a, b, o := pre.flat(), post.flat(), obs.flat()
	for i := range o {
		if o[i][2] != a[i][2] && o[i][2] != b[i][2] {
			return &diff{o[i][0], o[i][1], o[i][2], "before: " + a[i][2] + " / after: " + b[i][2]}
		}
	}
	return nil
}

// selfModel rebuilds the configured state from what the manager itself reports as configuration
// (GetAllRules, GetRuleGroups). Comparing the key-range observables with it is the "index is
// exact" clause without knowing the history (used where several writers commit in an unknown order).
func selfModel(m *placement.RuleManager) *model {
	md := newModel()
	for _, r := range m.GetAllRules() {
		rs := ruleSpec{Group: r.GroupID, ID: r.ID, Index: r.Index, Override: r.Override, StartHex: r.StartKeyHex, EndHex: r.EndKeyHex,
			Role: string(r.Role), Count: r.Count, Labels: append([]string(nil), r.LocationLabels...), Iso: r.IsolationLevel}
		for _, c := range r.LabelConstraints {
			rs.Cons = append(rs.Cons, consSpec{Key: c.Key, Op: string(c.Op), Values: append([]string(nil), c.Values...)})
		}
		wellFormed(&rs, "")
		rs.cs = rs.canon()
		md.rules[[2]string{rs.Group, rs.ID}] = rs
	}
	for _, g := range m.GetRuleGroups() {
		md.setGroup(groupSpec{ID: g.ID, Index: g.Index, Override: g.Override})
	}
	return md
}
