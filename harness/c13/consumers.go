package main

// Update ‖ consumer families:
//   * gated writer ‖ reader: the writer parks at each storage write; a reader takes a complete
//     observation (all read entry points incl. GetRulesForApplyRegion, GetSplitKeys, FitRegion).
//     Every single answer must show the update entirely or not at all; an observation taken while
//     the writer did not move (parked the whole time) must be one consistent configuration: exactly
//     the one before or the one after the update.
//   * gated writer ‖ Initialize of a second manager on the SAME storage (a PD that starts while
//     another one is inside an update): storage reads and writes of both are interleaved in every
//     order; the second manager's key-range index must be exact for what it loaded, and — when the
//     second manager wrote nothing — a later restart must load what the first one serves.
//   * free-running writers as the HTTP handlers call them (SetKeyType(..).Update(..)) with readers:
//     afterwards the index must be exact for the served configuration (self model), every key must
//     have a valid rule set, and a restart must load the same.

import (
	"encoding/json"
	"fmt"
	"math/rand"
	"sync"
	"sync/atomic"
	"time"

	"github.com/tikv/pd/server/core"
	"github.com/tikv/pd/server/schedule/placement"
	"verif/harness/lib/ev"
	"verif/harness/lib/hist"
	"verif/harness/lib/sched"
)

// multiWriteOp prefers updates with several storage writes.
func multiWriteOp(g *gen, md *model) (opSpec, *model, bool) {
	kinds := []string{kSetRules, kBatch, kSetGroupBundle, kSetAllGroupBundles, kDeleteGroupBundle, kSetRule, kSetRuleGroup, kDeleteRule}
	for try := 0; try < 60; try++ {
		op := g.opOfKind(md, kinds[g.rng.Intn(len(kinds))])
		if try < 40 && g.rng.Intn(4) == 0 {
			// sometimes an update that must be rejected: nothing may show
			if n, wf, amb := md.apply(op); wf && !amb {
				if p, _, va := n.validity(); p != "" && !va {
					return op, md, true
				}
			}
			continue
		}
		if n, ok := accepts(md, op); ok && n.stateKey() != md.stateKey() {
			return op, n, true
		}
	}
	return opSpec{}, nil, false
}

// replaceCover: a base state with learner rules and ONE covering voter rule, and an update that
// replaces the covering rule by another one (two or more storage writes: in between, the stored
// rules have no voter at all).
func replaceCover(g *gen) ([]opSpec, *model, opSpec, *model, bool) {
	md := initialModel()
	var base []opSpec
	for i, n := 0, 1+g.rng.Intn(2); i < n; i++ {
		r := g.rule("", "")
		r.Role, r.Override = "learner", false
		op := opSpec{Kind: kSetRule, Rule: &r}
		if nm, ok := accepts(md, op); ok {
			md, base = nm, append(base, op)
		}
	}
	nr := ruleSpec{Group: g.pick([]string{"a", "ab", "b"}), ID: g.pick(ruleIDs), Role: "voter", Count: 1 + g.rng.Intn(3)}
	var op opSpec
	if g.rng.Intn(2) == 0 {
		op = opSpec{Kind: kBatch, Batch: []batchSpec{{Action: "del", Rule: ruleSpec{Group: "pd", ID: "default"}}, {Action: "add", Rule: nr}}}
	} else {
		op = opSpec{Kind: kSetAllGroupBundles, OverrideAll: false, Bundles: []bundleSpec{{ID: "pd"}, {ID: nr.Group, Rules: append([]ruleSpec{nr}, specsOfGroup(md, nr.Group, nr.ID)...)}}}
	}
	n, ok := accepts(md, op)
	return base, md, op, n, ok
}

func specsOfGroup(md *model, group, except string) []ruleSpec {
	var out []ruleSpec
	for _, r := range md.rulesOfGroup(group) {
		if r.ID != except {
			c := *r
			c.cs = ""
			out = append(out, c)
		}
	}
	return out
}

func runWriterVsReader(r *ev.Run, rng *rand.Rand) {
	g := &gen{rng: rng}
	for c, cases := 0, r.Pick(16, 120); c < cases; c++ {
		base, md0 := twBase(g)
		op, md1, ok := multiWriteOp(g, md0)
		if c%4 == 3 {
			base, md0, op, md1, ok = replaceCover(g)
		}
		if !ok {
			continue
		}
		for _, readerFirst := range []bool{false, true} {
			w, err := newWorld()
			if err != nil {
				r.Inconclusive("Initialize on empty storage failed: %v", err)
				return
			}
			for _, b := range base {
				safeApply(w.m, b)
			}
			pre := observe(w.m)
			if d, _ := diffModel(md0, pre); d != nil {
				r.Count("consumer_base_mismatch", 1)
				break
			}
			sc := sched.New()
			sc.Settle = 12 * time.Millisecond
			sc.Stagger = true
			var progress, parked, done int64
			w.kv.Gate = func(kind, key string) {
				atomic.StoreInt64(&parked, 1)
				sc.Gate(kind, key)
				atomic.StoreInt64(&parked, 0)
				atomic.AddInt64(&progress, 1)
			}
			w.kv.Done = sc.Done
			var werr error
			var wpn, rpn string
			type obsRec struct {
				s      *snap
				frozen bool
			}
			var seen []obsRec
			writer := func() {
				werr, _, wpn = safeApply(w.m, op)
				atomic.AddInt64(&progress, 1)
				atomic.StoreInt64(&done, 1)
			}
			reader := func() {
				for i := 0; i < 2; i++ { // a long-lived consumer: asks again after the first answer
					p0, k0 := atomic.LoadInt64(&progress), atomic.LoadInt64(&parked)
					s, pn := safeObserve(w.m)
					if pn != "" {
						rpn = pn
						return
					}
					frozen := k0 == 1 && atomic.LoadInt64(&parked) == 1 && atomic.LoadInt64(&progress) == p0 && atomic.LoadInt64(&done) == 0
					seen = append(seen, obsRec{s, frozen})
				}
			}
			ws := []func(){writer, reader}
			if readerFirst {
				ws = []func(){reader, writer}
			}
			sc.Run(ws, func(int, []sched.Info) int { return 0 })
			w.kv.Gate, w.kv.Done = nil, nil
			if sc.Err != nil {
				r.Inconclusive("writer/reader scheduler: %v", sc.Err)
				return
			}
			r.Eval(1)
			r.Count("writer_vs_reader_executions", 1)
			pj, _ := json.Marshal(op)
			r.Distinct(fmt.Sprintf("wr|%s|%s|%v", md0.stateKey(), pj, readerFirst))
			wit := map[string]interface{}{"phase": "writer-vs-reader", "base_history": base, "update": op, "outcome": errText(werr), "reader_started_first": readerFirst, "released_writes": sc.Trace}
			if wpn != "" || rpn != "" {
				r.Violation("panic:writer-vs-reader", "panic while an update and a reader overlap: "+wpn+rpn, wit)
				continue
			}
			post := observe(w.m)
			// existing sequential clauses on the final state
			if werr == nil {
				if d, _ := diffModel(md1, post); d != nil || md1 == md0 {
					what := "an update that leaves some key without a valid rule set was accepted while a reader was active"
					key := "accepted-invalid:with-reader"
					if d != nil {
						key, what = "served-differs-from-model:"+d.Observable+":with-reader", fmt.Sprintf("after accepted %s with an overlapping reader %s(%s) serves %s, model %s", op.Kind, d.Observable, d.Item, d.A, d.B)
					}
					r.Violation(key, what, wit)
					continue
				}
			} else if d := diffSnaps(pre, post); d != nil {
				r.Violation("unsuccessful-update-changed:"+d.Observable+":with-reader", fmt.Sprintf("%s was rejected (%v) with an overlapping reader but %s(%s) changed from %s to %s", op.Kind, werr, d.Observable, d.Item, d.A, d.B), wit)
				continue
			}
			for _, o := range seen {
				if o.frozen {
					r.Count("reader_observations_while_writer_parked", 1)
					if diffSnaps(pre, o.s) != nil && diffSnaps(post, o.s) != nil {
						d := diffSnaps(pre, o.s)
						d2 := diffSnaps(post, o.s)
						r.Violation("reader-sees-partial-update:"+d2.Observable, fmt.Sprintf("while %s was parked at a storage write a reader saw neither the configuration before nor the one after it: differs from before in %s(%s), from after in %s(%s): saw %s, after is %s", op.Kind, d.Observable, d.Item, d2.Observable, d2.Item, d2.B, d2.A), wit)
						break
					}
				} else if d := neitherPreNorPost(pre, post, o.s); d != nil {
					r.Violation("reader-sees-partial-update:"+d.Observable+":single-answer", fmt.Sprintf("during %s one answer of %s(%s) was %s, which is neither %s", op.Kind, d.Observable, d.Item, d.A, d.B), wit)
					break
				}
				r.Count("reader_observations_judged", 1)
			}
		}
	}
}

func runWriterVsInitialize(r *ev.Run, rng *rand.Rand) {
	g := &gen{rng: rng}
	maxRuns := r.Pick(5, 30)
	for c, cases := 0, r.Pick(10, 80); c < cases; c++ {
		base, md0 := twBase(g)
		op, md1, ok := multiWriteOp(g, md0)
		if c%2 == 1 {
			base, md0, op, md1, ok = replaceCover(g)
		}
		if !ok || md1 == md0 {
			continue
		}
		for _, initFirst := range []bool{false, true} {
			ex := &sched.Explorer{}
			for ex.Runs < maxRuns {
				ch := ex.Next()
				if ch == nil {
					break
				}
				w, err := newWorld()
				if err != nil {
					r.Inconclusive("Initialize on empty storage failed: %v", err)
					return
				}
				for _, b := range base {
					safeApply(w.m, b)
				}
				sc := sched.New()
				sc.Settle = 12 * time.Millisecond
				sc.Stagger = true
				var initGoid, initWrites int64
				w.kv.Gate = func(kind, key string) {
					if (kind == "Save" || kind == "Remove") && hist.Goid() == atomic.LoadInt64(&initGoid) {
						atomic.AddInt64(&initWrites, 1)
					}
					sc.Gate(kind, key)
				}
				w.kv.Done = sc.Done
				var werr, ierr error
				var wpn, ipn string
				m2 := placement.NewRuleManager(core.NewStorage(w.kv), nil)
				writer := func() { werr, _, wpn = safeApply(w.m, op) }
				initer := func() {
					atomic.StoreInt64(&initGoid, hist.Goid())
					defer func() {
						if p := recover(); p != nil {
							ipn = fmt.Sprint(p)
						}
					}()
					ierr = m2.Initialize(3, initLabels)
				}
				ws := []func(){writer, initer}
				if initFirst {
					ws = []func(){initer, writer}
				}
				sc.Run(ws, ch)
				w.kv.Gate, w.kv.Done = nil, nil
				ex.Advance(sc)
				if sc.Err != nil {
					r.Inconclusive("writer/initialize scheduler: %v", sc.Err)
					return
				}
				r.Eval(1)
				r.Count("writer_vs_initialize_executions", 1)
				pj, _ := json.Marshal(op)
				r.Distinct(fmt.Sprintf("wi|%s|%s|%v|%s", md0.stateKey(), pj, initFirst, sc.TraceKey()))
				wit := map[string]interface{}{"phase": "writer-vs-initialize", "base_history": base, "update": op, "outcome": errText(werr), "initialize_outcome": errText(ierr),
					"initialize_started_first": initFirst, "released_storage_ops": sc.Trace}
				if wpn != "" || ipn != "" {
					r.Violation("panic:writer-vs-initialize", "panic while an update and the Initialize of a second manager on the same storage overlap: "+wpn+ipn, wit)
					continue
				}
				served := observe(w.m)
				if werr != nil {
					r.Count("writer_vs_initialize_update_rejected", 1)
				} else if d, _ := diffModel(md1, served); d != nil {
					r.Violation("served-differs-from-model:"+d.Observable+":with-initialize", fmt.Sprintf("after accepted %s overlapping a second manager's Initialize %s(%s) serves %s, model %s", op.Kind, d.Observable, d.Item, d.A, d.B), wit)
					continue
				}
				if ierr != nil {
					r.Count("evidence_only_initialize_during_update_failed", 1)
				} else {
					// what the second manager serves must be exact for what it says it loaded
					sm := selfModel(m2)
					if d, _ := diffModel(sm, observe(m2)); d != nil {
						r.Violation("loaded-during-update:index-differs-from-loaded-config:"+d.Observable, fmt.Sprintf("a manager initialised while %s was being saved serves %s(%s) = %s, its own configured rules give %s", op.Kind, d.Observable, d.Item, d.A, d.B), wit)
						continue
					}
					if p, _, va := sm.validity(); p != "" && !va {
						r.Count("evidence_only_initialize_during_update_loaded_invalid_config", 1)
					}
					if sm.stateKey() != md0.stateKey() && sm.stateKey() != md1.stateKey() {
						r.Count("evidence_only_initialize_during_update_loaded_partial_update", 1)
					}
				}
				if n := atomic.LoadInt64(&initWrites); n > 0 {
					r.Count("evidence_only_initialize_during_update_wrote_to_storage", 1)
					continue // the second manager changed the storage: what a restart loads is not judged
				}
				if werr == nil {
					rm, _, _, rerr := w.reload()
					if rerr != nil {
						r.Violation("reload-fails:with-initialize", fmt.Sprintf("after accepted %s (a second manager only read the storage meanwhile) a fresh RuleManager cannot initialise: %v", op.Kind, rerr), wit)
					} else if d := diffSnaps(served, observe(rm)); d != nil {
						r.Violation("reload-differs-from-served:with-initialize", fmt.Sprintf("after accepted %s (a second manager only read the storage meanwhile) %s(%s) is served as %s, reloaded as %s", op.Kind, d.Observable, d.Item, d.A, d.B), wit)
					} else {
						r.Count("writer_vs_initialize_reload_equal", 1)
					}
				}
			}
		}
	}
}

// runFreeWriters: several writers and readers free-running on one long-lived manager, the writers
// calling the manager the way the HTTP handlers do (SetKeyType(cfg).Update(...)).
func runFreeWriters(r *ev.Run, rng *rand.Rand) {
	g := &gen{rng: rng}
	for h, hists := 0, r.Pick(8, 40); h < hists; h++ {
		w, err := newWorld()
		if err != nil {
			r.Inconclusive("Initialize on empty storage failed: %v", err)
			return
		}
		// every writer gets its own list of updates, generated against the initial state
		md := initialModel()
		nw := 2 + g.rng.Intn(3)
		lists := make([][]opSpec, nw)
		for i := range lists {
			for k := 0; k < 12; k++ {
				op := g.op(md)
				if _, wf, amb := md.apply(op); isGetEditSet(op) || !wf || amb {
					continue
				}
				lists[i] = append(lists[i], op)
			}
		}
		var wg sync.WaitGroup
		var mu sync.Mutex
		panics := ""
		var accepted, rejected, reads int64
		stop := make(chan struct{})
		guard := func() {
			if p := recover(); p != nil {
				mu.Lock()
				panics += fmt.Sprint(p) + "; "
				mu.Unlock()
			}
		}
		for i := range lists {
			wg.Add(1)
			go func(ops []opSpec) {
				defer wg.Done()
				defer guard()
				for _, op := range ops {
					w.m.SetKeyType("raw")
					if err, _ := applyReal(w.m, op); err == nil {
						atomic.AddInt64(&accepted, 1)
					} else {
						atomic.AddInt64(&rejected, 1)
					}
				}
			}(lists[i])
		}
		var rg sync.WaitGroup
		for i := 0; i < 2; i++ {
			rg.Add(1)
			go func() {
				defer rg.Done()
				defer guard()
				for {
					select {
					case <-stop:
						return
					default:
					}
					observe(w.m)
					atomic.AddInt64(&reads, 1)
				}
			}()
		}
		wg.Wait()
		close(stop)
		rg.Wait()
		r.Eval(1)
		r.Count("free_writers_histories", 1)
		r.Count("free_writers_accepted", accepted)
		r.Count("free_writers_rejected", rejected)
		r.Count("free_writers_reads", reads)
		r.Distinct(fmt.Sprintf("fw|%d|%d|%d|%d", h, nw, accepted, rejected))
		wit := map[string]interface{}{"phase": "free-running-writers", "writers": lists}
		if panics != "" {
			r.Violation("panic:free-running-writers", "panic with several free-running writers and readers: "+panics, wit)
			continue
		}
		served := observe(w.m)
		sm := selfModel(w.m)
		if d, _ := diffModel(sm, served); d != nil {
			r.Violation("index-differs-from-served-config:"+d.Observable+":free-running-writers", fmt.Sprintf("after %d accepted updates by %d concurrent writers %s(%s) serves %s, the served configuration (GetAllRules/GetRuleGroups) gives %s", accepted, nw, d.Observable, d.Item, d.A, d.B), wit)
			continue
		}
		if p, at, va := sm.validity(); p != "" && !va {
			r.Violation("accepted-invalid:"+p+":free-running-writers", fmt.Sprintf("after concurrent accepted updates the segment starting at 0x%x has %s", at, p), wit)
			continue
		}
		rm, _, _, rerr := w.reload()
		if rerr != nil {
			r.Violation("reload-fails:free-running-writers", fmt.Sprintf("after concurrent accepted updates a fresh RuleManager cannot initialise: %v", rerr), wit)
		} else if d := diffSnaps(served, observe(rm)); d != nil {
			r.Violation("reload-differs-from-served:free-running-writers", fmt.Sprintf("after concurrent accepted updates %s(%s) is served as %s, reloaded as %s", d.Observable, d.Item, d.A, d.B), wit)
		} else {
			r.Count("free_writers_reload_equal", 1)
		}
	}
}
