package main

// Seeded generators of rules / groups / updates, and the translation of an update into calls on a
// real RuleManager.

import (
	"fmt"
	"math"
	"math/rand"
	"sort"
	"strings"

	"github.com/pingcap/kvproto/pkg/metapb"
	"github.com/tikv/pd/server/core"
	"github.com/tikv/pd/server/schedule/placement"
)

type gen struct {
	rng *rand.Rand
}

func (g *gen) pick(l []string) string { return l[g.rng.Intn(len(l))] }

func (g *gen) hexKey(i int) string {
	h := alphabet[i]
	if g.rng.Intn(12) == 0 {
		h = strings.ToUpper(h) // hex is case-insensitive
	}
	return h
}

// keyRange returns nested / adjacent / unbounded ranges over the alphabet.
func (g *gen) keyRange() (string, string) {
	n := len(alphabet)
	switch x := g.rng.Intn(20); {
	case x < 5:
		return "", ""
	case x < 9:
		return "", g.hexKey(1 + g.rng.Intn(n-1))
	case x < 13:
		return g.hexKey(1 + g.rng.Intn(n-1)), ""
	default:
		i := g.rng.Intn(n - 1)
		j := i + 1 + g.rng.Intn(n-1-i)
		if g.rng.Intn(3) == 0 {
			j = i + 1 // adjacent alphabet points
		}
		return g.hexKey(i), g.hexKey(j)
	}
}

func (g *gen) role() string {
	switch x := g.rng.Intn(20); {
	case x < 9:
		return "voter"
	case x < 11:
		return "leader"
	case x < 14:
		return "follower"
	default:
		return "learner"
	}
}

// index: mostly small values; sometimes values at the ends of the int range (the statement says
// "arbitrary indexes"; comparisons must not depend on the distance between two indexes).
func (g *gen) index() int {
	if g.rng.Intn(8) == 0 {
		return []int{-1, -3, math.MaxInt64, math.MinInt64, math.MaxInt64 - 1, math.MinInt64 + 1}[g.rng.Intn(6)]
	}
	return []int{0, 0, 1, 2, 5}[g.rng.Intn(5)]
}

// rule generates a rule of the given group ("" = random) ; malformed with small probability.
func (g *gen) rule(group, id string) ruleSpec {
	if group == "" {
		group = g.pick(groupIDs)
	}
	if id == "" {
		id = g.pick(ruleIDs)
	}
	r := ruleSpec{Group: group, ID: id, Index: g.index(), Override: g.rng.Intn(5) == 0, Role: g.role(), Count: 1 + g.rng.Intn(3)}
	r.StartHex, r.EndHex = g.keyRange()
	if r.Role == "leader" {
		r.Count = 1
	}
	if g.rng.Intn(4) == 0 {
		r.Labels = []string{"zone", "host"}[:1+g.rng.Intn(2)]
	}
	if g.rng.Intn(6) == 0 {
		r.Cons = []consSpec{{Key: "engine", Op: g.pick([]string{"in", "notIn"}), Values: []string{"tiflash"}}}
	}
	if g.rng.Intn(10) == 0 {
		r.Iso = "zone"
		r.Labels = []string{"zone", "host"}
	}
	if g.rng.Intn(14) == 0 {
		// items that contain the separators of common serialised forms
		r.Labels = [][]string{{"zone,host"}, {"zone", "host,rack"}, {"a|b", "c;d"}}[g.rng.Intn(3)]
		r.Cons = []consSpec{{Key: "k;1", Op: "in", Values: []string{"a|b", "c,d"}}}
		r.Iso = ""
	}
	if g.rng.Intn(40) == 0 && r.Role != "leader" {
		r.Count = 1<<40 - g.rng.Intn(2) // huge but summable: pd adds counts without an overflow guard, sums beyond int64 are outside any real configuration
	}
	if g.rng.Intn(25) == 0 {
		switch g.rng.Intn(7) {
		case 0:
			r.StartHex = "zz"
		case 1:
			r.EndHex = "1"
		case 2:
			r.StartHex, r.EndHex = "30", g.pick([]string{"30", "20", "10"})
		case 3:
			r.Role = "witness"
		case 4:
			r.Count = -g.rng.Intn(2)
		case 5:
			r.Role, r.Count = "leader", 2
		case 6:
			r.Cons = []consSpec{{Key: "zone", Op: "like", Values: []string{"z"}}}
		}
	}
	return r
}

func (g *gen) group(id string) groupSpec {
	if id == "" {
		id = g.pick(groupIDs)
	}
	gi := []int{0, 0, 1, 2, 3}[g.rng.Intn(5)]
	if g.rng.Intn(8) == 0 {
		gi = []int{-1, math.MaxInt64, math.MinInt64, -2}[g.rng.Intn(4)]
	}
	return groupSpec{ID: id, Index: gi, Override: g.rng.Intn(4) == 0}
}

func (g *gen) bundle(id string) bundleSpec {
	gs := g.group(id)
	b := bundleSpec{ID: gs.ID, Index: gs.Index, Override: gs.Override}
	n := g.rng.Intn(4)
	used := map[string]bool{}
	for i := 0; i < n; i++ {
		r := g.rule(gs.ID, "")
		if used[r.ID] {
			continue
		}
		used[r.ID] = true
		switch g.rng.Intn(12) {
		case 0:
			r.Group = "" // filled in from the bundle
		case 1:
			if g.rng.Intn(3) == 0 {
				r.Group = g.pick(groupIDs) // possibly a mismatch
			}
		}
		b.Rules = append(b.Rules, r)
	}
	return b
}

// existing returns the key of a random configured rule (or a random key when there is none / with
// small probability).
func (g *gen) existing(md *model) (string, string) {
	if len(md.rules) == 0 || g.rng.Intn(6) == 0 {
		return g.pick(groupIDs), g.pick(ruleIDs)
	}
	keys := make([]string, 0, len(md.rules))
	for k := range md.rules {
		keys = append(keys, k[0]+"\x00"+k[1])
	}
	sort.Strings(keys)
	p := strings.SplitN(keys[g.rng.Intn(len(keys))], "\x00", 2)
	return p[0], p[1]
}

var inPlaceFields = []string{"in:values[0]", "in:cons[0].key", "in:cons[0].op", "in:append-values", "in:reslice-values",
	"in:labels[0]", "in:append-labels", "in:reslice-labels", "in:start[0]", "in:end[0]"}

var allKinds = []string{kSetRule, kDeleteRule, kSetRules, kBatch, kSetRuleGroup, kDeleteRuleGroup, kSetGroupBundle,
	kSetAllGroupBundles, kDeleteGroupBundle, kGetModifySet, kGetEditSetGroup, kGetEditSetBundle}

// opOfKind generates an update of the given kind.
func (g *gen) opOfKind(md *model, kind string) opSpec {
	for {
		if op := g.op(md); op.Kind == kind {
			return op
		}
	}
}

func isGetEditSet(op opSpec) bool {
	return op.Kind == kGetModifySet || op.Kind == kGetEditSetGroup || op.Kind == kGetEditSetBundle
}

// opName is the operation kind, with the getter for get-edit-set patterns that do not go through GetRule.
func opName(op opSpec) string {
	if op.Mod != nil && op.Mod.Again {
		return op.Kind + "+edit+SetRule"
	}
	if op.Mod != nil && op.Mod.Via != "" {
		return op.Kind + "[" + op.Mod.Via + "]"
	}
	return op.Kind
}

// getEditSet: an object obtained from some other getter than GetRule is edited and set again.
func (g *gen) getEditSet(md *model) opSpec {
	switch g.rng.Intn(3) {
	case 0:
		gr, id := g.existing(md)
		m := &modSpec{Group: gr, ID: id, Via: g.pick([]string{"GetAllRules", "GetRulesByGroup", "GetRulesByKey", "GetRulesForApplyRegion", "GetGroupBundle", "GetAllGroupBundles"})}
		switch g.rng.Intn(4) {
		case 0, 1:
			m.Field, m.Int = "count", 1+g.rng.Intn(5)
		case 2:
			m.Field, m.Int = "index", g.index()
		default:
			m.Field, m.Strs = "labels", [][]string{nil, {"zone"}, {"zone", "rack", "host"}}[g.rng.Intn(3)]
		}
		return opSpec{Kind: kGetModifySet, Mod: m}
	case 1:
		gr, _ := g.existing(md)
		m := &modSpec{Group: gr, Via: g.pick([]string{"GetRuleGroup", "GetRuleGroups"})}
		if g.rng.Intn(3) == 0 {
			m.Field, m.Bool = "override", g.rng.Intn(2) == 0
		} else {
			m.Field, m.Int = "index", g.group("").Index
		}
		return opSpec{Kind: kGetEditSetGroup, Mod: m}
	default:
		gr, _ := g.existing(md)
		m := &modSpec{Group: gr, Via: g.pick([]string{"GetGroupBundle", "GetAllGroupBundles"})}
		switch g.rng.Intn(3) {
		case 0:
			m.Field, m.Int = "index", g.group("").Index
		case 1:
			m.Field, m.Bool = "override", g.rng.Intn(2) == 0
		default:
			m.Field, m.Int = "count", 1+g.rng.Intn(4)
		}
		return opSpec{Kind: kGetEditSetBundle, Mod: m}
	}
}

// tweak: an update that differs from a served rule in exactly one field (another valid value).
func (g *gen) tweak(md *model) (opSpec, bool) {
	rs := md.allRules()
	if len(rs) == 0 {
		return opSpec{}, false
	}
	r := *rs[g.rng.Intn(len(rs))]
	r.cs = ""
	vs := ruleFieldVariants(&r)
	v := vs[g.rng.Intn(len(vs))]
	v.apply(&r)
	switch g.rng.Intn(4) {
	case 0:
		return opSpec{Kind: kSetRules, Rules: []ruleSpec{r}}, true
	case 1:
		return opSpec{Kind: kBatch, Batch: []batchSpec{{Action: "add", Rule: r}}}, true
	case 2:
		if m := v.mod(&r); m != nil {
			return opSpec{Kind: kGetModifySet, Mod: m}, true
		}
	}
	return opSpec{Kind: kSetRule, Rule: &r}, true
}

// op generates the next update given the configured state.
func (g *gen) op(md *model) opSpec {
	if g.rng.Intn(100) < 9 {
		return g.getEditSet(md)
	}
	if g.rng.Intn(100) < 8 {
		if op, ok := g.tweak(md); ok {
			return op
		}
	}
	switch x := g.rng.Intn(100); {
	case x < 22:
		r := g.rule("", "")
		return opSpec{Kind: kSetRule, Rule: &r}
	case x < 34:
		gr, id := g.existing(md)
		return opSpec{Kind: kDeleteRule, GroupID: gr, RuleID: id}
	case x < 42:
		op := opSpec{Kind: kSetRules}
		for i, n := 0, 1+g.rng.Intn(3); i < n; i++ {
			op.Rules = append(op.Rules, g.rule("", ""))
		}
		return op
	case x < 52:
		op := opSpec{Kind: kBatch}
		for i, n := 0, 1+g.rng.Intn(4); i < n; i++ {
			switch g.rng.Intn(5) {
			case 0, 1:
				op.Batch = append(op.Batch, batchSpec{Action: "add", Rule: g.rule("", "")})
			case 2, 3:
				gr, id := g.existing(md)
				op.Batch = append(op.Batch, batchSpec{Action: "del", Rule: ruleSpec{Group: gr, ID: id}})
			default:
				gr, id := g.existing(md)
				if len(id) > 1 && g.rng.Intn(2) == 0 {
					id = id[:1+g.rng.Intn(len(id)-1)]
				}
				op.Batch = append(op.Batch, batchSpec{Action: "del", Rule: ruleSpec{Group: gr, ID: id}, Prefix: true})
			}
		}
		return op
	case x < 64:
		gs := g.group("")
		return opSpec{Kind: kSetRuleGroup, Group: &gs}
	case x < 69:
		return opSpec{Kind: kDeleteRuleGroup, GroupID: g.pick(groupIDs)}
	case x < 77:
		b := g.bundle("")
		return opSpec{Kind: kSetGroupBundle, Bundle: &b}
	case x < 82:
		op := opSpec{Kind: kSetAllGroupBundles, OverrideAll: g.rng.Intn(2) == 0}
		ids := append([]string(nil), groupIDs...)
		g.rng.Shuffle(len(ids), func(i, j int) { ids[i], ids[j] = ids[j], ids[i] })
		for _, id := range ids[:1+g.rng.Intn(3)] {
			op.Bundles = append(op.Bundles, g.bundle(id))
		}
		return op
	case x < 88:
		if g.rng.Intn(2) == 0 {
			return opSpec{Kind: kDeleteGroupBundle, GroupID: g.pick(groupIDs)}
		}
		return opSpec{Kind: kDeleteGroupBundle, Regex: true,
			GroupID: g.pick([]string{"a", "^a$", "a.*", "^a", "^(a|b)$", "b|pd", ".*", "^ab?$", "(", "x"})}
	default:
		gr, id := g.existing(md)
		m := &modSpec{Group: gr, ID: id}
		if g.rng.Intn(4) == 0 {
			m.Field = g.pick(inPlaceFields)
			m.Str = g.pick([]string{"x", "ssd", "zone", "in", "notIn"})
			if m.Field == "in:cons[0].op" {
				m.Str = g.pick([]string{"in", "notIn", "exists"})
			}
			m.Then = g.pick([]string{"", "", "reject", "none"})
			return opSpec{Kind: kGetModifySet, Mod: m}
		}
		switch y := g.rng.Intn(20); {
		case y < 8: // what server.SetReplicationConfig does
			m.Field, m.Int = "count", 1+g.rng.Intn(5)
			if g.rng.Intn(3) == 0 { // ... and its roll-back after a failed Persist
				m.Again, m.Int2 = true, 1+g.rng.Intn(5)
			}
		case y < 11:
			m.Field, m.Strs = "labels", [][]string{nil, {"zone"}, {"zone", "rack", "host"}}[g.rng.Intn(3)]
		case y < 13:
			m.Field, m.Int = "index", g.index()
		case y < 15:
			m.Field, m.Bool = "override", g.rng.Intn(2) == 0
		case y < 17:
			m.Field, m.Str = "role", g.role()
		case y < 19:
			m.Field = "start"
			m.Str, _ = g.keyRange()
		default:
			m.Field = "end"
			_, m.Str = g.keyRange()
		}
		return opSpec{Kind: kGetModifySet, Mod: m}
	}
}

// ---- translation to the real API (fresh objects on every call: the manager keeps the pointers) ----

func toReal(r ruleSpec) *placement.Rule {
	out := &placement.Rule{GroupID: r.Group, ID: r.ID, Index: r.Index, Override: r.Override,
		StartKeyHex: r.StartHex, EndKeyHex: r.EndHex, Role: placement.PeerRoleType(r.Role), Count: r.Count,
		IsolationLevel: r.Iso}
	if r.Labels != nil {
		out.LocationLabels = append([]string(nil), r.Labels...)
	}
	for _, c := range r.Cons {
		out.LabelConstraints = append(out.LabelConstraints, placement.LabelConstraint{Key: c.Key, Op: placement.LabelConstraintOp(c.Op), Values: append([]string(nil), c.Values...)})
	}
	return out
}

func toRealBundle(b bundleSpec) placement.GroupBundle {
	out := placement.GroupBundle{ID: b.ID, Index: b.Index, Override: b.Override}
	for _, r := range b.Rules {
		out.Rules = append(out.Rules, toReal(r))
	}
	return out
}

// applyReal performs op on m. notFound: get-modify-set on a rule that does not exist (nothing called).
func applyReal(m *placement.RuleManager, op opSpec) (err error, notFound bool) {
	switch op.Kind {
	case kSetRule:
		return m.SetRule(toReal(*op.Rule)), false
	case kDeleteRule:
		return m.DeleteRule(op.GroupID, op.RuleID), false
	case kSetRules:
		var rs []*placement.Rule
		for _, r := range op.Rules {
			rs = append(rs, toReal(r))
		}
		return m.SetRules(rs), false
	case kBatch:
		var todo []placement.RuleOp
		for _, b := range op.Batch {
			if b.Action == "add" {
				todo = append(todo, placement.RuleOp{Rule: toReal(b.Rule), Action: placement.RuleOpAdd})
			} else {
				todo = append(todo, placement.RuleOp{Rule: &placement.Rule{GroupID: b.Rule.Group, ID: b.Rule.ID}, Action: placement.RuleOpDel, DeleteByIDPrefix: b.Prefix})
			}
		}
		return m.Batch(todo), false
	case kSetRuleGroup:
		return m.SetRuleGroup(&placement.RuleGroup{ID: op.Group.ID, Index: op.Group.Index, Override: op.Group.Override}), false
	case kDeleteRuleGroup:
		return m.DeleteRuleGroup(op.GroupID), false
	case kSetGroupBundle:
		return m.SetGroupBundle(toRealBundle(*op.Bundle)), false
	case kSetAllGroupBundles:
		var bs []placement.GroupBundle
		for _, b := range op.Bundles {
			bs = append(bs, toRealBundle(b))
		}
		return m.SetAllGroupBundles(bs, op.OverrideAll), false
	case kDeleteGroupBundle:
		return m.DeleteGroupBundle(op.GroupID, op.Regex), false
	case kGetEditSetGroup:
		var rg *placement.RuleGroup
		if op.Mod.Via == "GetRuleGroups" {
			for _, x := range m.GetRuleGroups() {
				if x.ID == op.Mod.Group {
					rg = x
				}
			}
		} else {
			rg = m.GetRuleGroup(op.Mod.Group)
		}
		if rg == nil {
			return nil, true
		}
		if op.Mod.Field == "index" {
			rg.Index = op.Mod.Int
		} else {
			rg.Override = op.Mod.Bool
		}
		return m.SetRuleGroup(rg), false
	case kGetEditSetBundle:
		edit := func(b *placement.GroupBundle) bool {
			switch op.Mod.Field {
			case "index":
				b.Index = op.Mod.Int
			case "override":
				b.Override = op.Mod.Bool
			default:
				if len(b.Rules) == 0 {
					return false
				}
				b.Rules[0].Count = op.Mod.Int
			}
			return true
		}
		if op.Mod.Via == "GetAllGroupBundles" {
			bs := m.GetAllGroupBundles()
			for i := range bs {
				if bs[i].ID == op.Mod.Group {
					if !edit(&bs[i]) {
						return nil, true
					}
					return m.SetAllGroupBundles(bs, true), false
				}
			}
			return nil, true
		}
		if m.GetRuleGroup(op.Mod.Group) == nil {
			return nil, true
		}
		b := m.GetGroupBundle(op.Mod.Group)
		if !edit(&b) {
			return nil, true
		}
		return m.SetGroupBundle(b), false
	case kGetModifySet:
		// the pattern of server.SetReplicationConfig: GetRule, change a field, SetRule; with Via the
		// rule object comes from another getter
		r := getRuleVia(m, op.Mod)
		if r == nil {
			return nil, true
		}
		nv := 0
		if len(r.LabelConstraints) > 0 {
			nv = len(r.LabelConstraints[0].Values)
		}
		if !inPlaceApplicable(op.Mod.Field, len(r.LabelConstraints), nv, len(r.LocationLabels), len(r.StartKey), len(r.EndKey)) {
			return nil, true
		}
		switch op.Mod.Field {
		// edits INSIDE what the returned rule refers to (no field of the rule itself is replaced)
		case "in:values[0]":
			r.LabelConstraints[0].Values[0] = op.Mod.Str
		case "in:cons[0].key":
			r.LabelConstraints[0].Key = op.Mod.Str
		case "in:cons[0].op":
			r.LabelConstraints[0].Op = placement.LabelConstraintOp(op.Mod.Str)
		case "in:append-values":
			r.LabelConstraints[0].Values = append(r.LabelConstraints[0].Values, op.Mod.Str)
		case "in:reslice-values":
			r.LabelConstraints[0].Values = r.LabelConstraints[0].Values[:nv-1]
		case "in:labels[0]":
			r.LocationLabels[0] = op.Mod.Str
		case "in:append-labels":
			r.LocationLabels = append(r.LocationLabels, op.Mod.Str)
		case "in:reslice-labels":
			r.LocationLabels = r.LocationLabels[:len(r.LocationLabels)-1]
		case "in:start[0]":
			r.StartKey[0] ^= 0xff
		case "in:end[0]":
			r.EndKey[0] ^= 0xff
		case "count":
			r.Count = op.Mod.Int
		case "labels":
			r.LocationLabels = append([]string(nil), op.Mod.Strs...)
		case "index":
			r.Index = op.Mod.Int
		case "override":
			r.Override = op.Mod.Bool
		case "role":
			r.Role = placement.PeerRoleType(op.Mod.Str)
		case "start":
			r.StartKeyHex = op.Mod.Str
		case "end":
			r.EndKeyHex = op.Mod.Str
		case "iso":
			r.IsolationLevel = op.Mod.Str
		case "cons":
			r.LabelConstraints = nil
			for _, c := range op.Mod.Cons {
				r.LabelConstraints = append(r.LabelConstraints, placement.LabelConstraint{Key: c.Key, Op: placement.LabelConstraintOp(c.Op), Values: append([]string(nil), c.Values...)})
			}
		}
		switch op.Mod.Then {
		case "none":
			return nil, false
		case "reject":
			r.Count = 0
		}
		if err := m.SetRule(r); err != nil || !op.Mod.Again {
			return err, false
		}
		r.Count = op.Mod.Int2
		return m.SetRule(r), false
	}
	panic(fmt.Sprintf("unknown op %s", op.Kind))
}

func getRuleVia(m *placement.RuleManager, mod *modSpec) *placement.Rule {
	find := func(rs []*placement.Rule) *placement.Rule {
		for _, r := range rs {
			if r.GroupID == mod.Group && r.ID == mod.ID {
				return r
			}
		}
		return nil
	}
	switch mod.Via {
	case "", "GetRule":
		return m.GetRule(mod.Group, mod.ID)
	case "GetAllRules":
		return find(m.GetAllRules())
	case "GetRulesByGroup":
		return find(m.GetRulesByGroup(mod.Group))
	case "GetGroupBundle":
		return find(m.GetGroupBundle(mod.Group).Rules)
	case "GetAllGroupBundles":
		for _, b := range m.GetAllGroupBundles() {
			if r := find(b.Rules); r != nil {
				return r
			}
		}
		return nil
	}
	// by key / by region: ask at the rule's own start key
	cur := m.GetRule(mod.Group, mod.ID)
	if cur == nil {
		return nil
	}
	if mod.Via == "GetRulesByKey" {
		return find(m.GetRulesByKey(cur.StartKey))
	}
	end := append(append([]byte(nil), cur.StartKey...), 0)
	return find(m.GetRulesForApplyRegion(core.NewRegionInfo(&metapb.Region{Id: 1, StartKey: cur.StartKey, EndKey: end}, nil)))
}
